------------------------------ MODULE PoolObs ------------------------------
(***************************************************************************)
(* Property monitor for the connection-pool properties C02 C03 C04 C05 C06 *)
(* C14 C15, evaluated by TLC over a trace RECORDED FROM THE REAL POOL       *)
(* (harness/src/bin/pool.rs; one ndjson record per action with the          *)
(* observable state after it).  The monitor constrains nothing but the      *)
(* properties: its next-state relation is "take the next record"; the       *)
(* clauses below are evaluated on (history, state before, event, state      *)
(* after) and every falsified clause is collected in `viol`.  A refactoring *)
(* of the pool that keeps the properties cannot trip it.                    *)
(*                                                                          *)
(* It is also run over behaviours generated from Pool.tla itself (the model *)
(* emits the same record schema): the intended model must produce no        *)
(* violation and each as-built switch must produce its own.                 *)
(***************************************************************************)
EXTENDS Naturals, Sequences, FiniteSets, TLC, Json, IOUtils

Rec == ndJsonDeserialize(IOEnv.TRACE)
N == Len(Rec)

VARIABLES l,     \* number of records consumed
          h      \* history since the last Reset
vars == <<l, h>>

NoReq == 0
H0 == [cfg |-> [cap |-> FALSE, maxIdle |-> 0, idleTimeout |-> 0], uris |-> <<>>, run |-> 0, base |-> 0,
       alive |-> TRUE,       \* the pool has not been dropped (DropPool)
       issueAt |-> <<>>,     \* [request -> index of its Issue record]
       tickAtIssue |-> <<>>, \* [request -> clock at Issue]
       hadIdle |-> <<>>,     \* [request -> a usable idle connection for its origin was pooled when it was issued]
       inflight |-> <<>>,    \* [request -> an HTTP/2 attempt for its origin was in flight when it was issued]
       openH2 |-> <<>>,      \* [request -> an open HTTP/2 connection for its origin was pooled (or reserved) when it was issued]
       reserved |-> <<>>,    \* [request -> connection taken from the idle list at Issue, 0 if none]
       expAt |-> <<>>,       \* [request -> idle connections that had provably expired when it was issued]
       dialed |-> <<>>,      \* [request -> it has started its own dial]
       att |-> {},           \* requests whose own HTTP/2 attempt is in flight (the "owners")
       closedAt |-> <<>>,    \* [connection -> index of its PeerClose record, 0 if open]
       backAt |-> <<>>,      \* [connection -> index of its last hand-back (WhenReady) record, 0 if none]
       tickAtBack |-> <<>>,  \* [connection -> clock at its last hand-back]
       aband |-> {},         \* dials abandoned (pre-empted or cancelled) before they completed
       own |-> {},           \* requests that certainly got a connector of their own at Issue (no usable idle, no attempt in flight)
       unstarted |-> {},     \* ... and were pre-empted or cancelled before they ever started their dial
       viol |-> <<>>]        \* falsified clauses: sequence of [l, tag, r, c]

Init == l = 0 /\ h = H0

-----------------------------------------------------------------------------
Get(s, i, dflt) == IF i \in DOMAIN s THEN s[i] ELSE dflt
Put(s, i, v, dflt) == [j \in 1..(IF i > Len(s) THEN i ELSE Len(s)) |-> IF j = i THEN v ELSE Get(s, j, dflt)]

NReqO(o) == Len(o.req)
NConnO(o) == Len(o.conn)
ConnO(o, c) == o.conn[c]
HasConn(o, c) == c \in 1..NConnO(o) /\ o.conn[c].st # "none"

\* origins: same scheme and authority (host compared case-insensitively: the harness records the lower-cased host)
SameOrigin(hh, a, b) == /\ a \in 1..Len(hh.uris) /\ b \in 1..Len(hh.uris)
                        /\ hh.uris[a].scheme = hh.uris[b].scheme
                        /\ hh.uris[a].host = hh.uris[b].host
                        /\ hh.uris[a].port = hh.uris[b].port

\* a connection of the idle list of origin a that a checkout would accept: open, ready, not upgraded
IsUsable(o, c) == HasConn(o, c) /\ o.conn[c].st = "open" /\ ~o.conn[c].busy /\ ~o.conn[c].up
IdleSet(hh, o, a) == UNION {{o.idle[b][i] : i \in 1..Len(o.idle[b])} : b \in {b \in 1..Len(o.idle) : SameOrigin(hh, a, b)}}
UsableIdle(hh, o, a) == \E c \in IdleSet(hh, o, a) : IsUsable(o, c)
\* reuse is only asserted when expiry cannot interfere (no timeout, zero = disabled, or a large timeout)
ReuseAsserted(hh) == hh.cfg.idleTimeout # 2
\* Under the small timeout (40 ms of std::time::Instant) freshness and expiry are judged at Issue events from
\* the measured real age bracket [min, max] ms of the connection's last hand-back (one-sided on both sides);
\* traces without measured ages (the model's own behaviours) use the tick counter instead.
SmallMs == 40
FreshAt(hh, pre, e, c) ==
  IF hh.cfg.idleTimeout # 2 THEN TRUE
  ELSE IF c \in 1..Len(e.ages) THEN e.ages[c][2] < SmallMs
  ELSE Get(hh.backAt, c, 0) # 0 /\ pre.ticks < Get(hh.tickAtBack, c, 0) + 3      \* (model clock: 3 units = the small timeout)
\* (ages are measured for hand-backs of non-shared connections and for the registration / last checkout of shared ones)
ExpiredAt(hh, pre, e, c) ==
  /\ hh.cfg.idleTimeout = 2
  /\ IF c \in 1..Len(e.ages) THEN e.ages[c][1] > SmallMs /\ e.ages[c][2] < 1000000
     ELSE Get(hh.backAt, c, 0) # 0 /\ pre.ticks >= Get(hh.tickAtBack, c, 0) + 3

Holders(o, c) == {r \in 1..NReqO(o) : o.req[r].held = c}
InCheckout(o, r) == r \in 1..NReqO(o) /\ o.req[r].st = "checkout"

LiveWaiter(hh, o, a) == \E b \in 1..Len(o.wq) : SameOrigin(hh, a, b) /\ \E i \in 1..Len(o.wq[b]) : ~o.wq[b][i]
IdleLen(hh, o, a) == Cardinality(IdleSet(hh, o, a))

V(tag, r, c) == [l |-> l + 1, tag |-> tag, r |-> r, c |-> c]

-----------------------------------------------------------------------------
(* The clauses.  hh = history before the event, pre/post = observable state  *)
(* before/after it, e = the event record.                                     *)

\* ---- C02: a non-multiplexed connection serves one request at a time
C02(hh, pre, e, post) ==
  (IF e.e = "Poll" /\ e.res = "Handoff" /\ HasConn(post, e.c) /\ ~post.conn[e.c].h2
   THEN (IF Holders(pre, e.c) # {} THEN <<V("C02:handoff-while-held", e.r, e.c)>> ELSE <<>>)
        \o (IF HasConn(pre, e.c) /\ pre.conn[e.c].busy THEN <<V("C02:handoff-while-busy", e.r, e.c)>> ELSE <<>>)
        \o (IF HasConn(pre, e.c) /\ pre.conn[e.c].up THEN <<V("C02:handoff-after-upgrade", e.r, e.c)>> ELSE <<>>)
   ELSE <<>>)
  \o (IF \E c \in 1..NConnO(post) : HasConn(post, c) /\ ~post.conn[c].h2 /\ Cardinality(Holders(post, c)) > 1
      THEN <<V("C02:two-holders", 0, 0)>> ELSE <<>>)
  \o (IF \E c \in 1..NConnO(post) : HasConn(post, c) /\ ~post.conn[c].h2 /\ post.conn[c].live > 1
      THEN <<V("C02:two-handles", 0, 0)>> ELSE <<>>)

\* ---- C03: every acquisition terminates; nobody is stranded; no lost wake-up
C03(hh, pre, e, post) ==
  (IF e.e = "Drain" /\ \E r \in 1..NReqO(post) : post.req[r].st = "checkout"
   THEN <<V("C03:stranded", CHOOSE r \in 1..NReqO(post) : post.req[r].st = "checkout", 0)>> ELSE <<>>)
  \o (IF e.e = "Poll" /\ ~e.first /\ ~e.woken /\ e.res # "PollPending"
      THEN <<V("C03:lost-wakeup", e.r, 0)>> ELSE <<>>)
  \o (IF e.e = "ProbeDone" /\ e.res \in {"Pending", "PollPending", "DialStart"}
      THEN <<V("C03:probe-stuck", e.r, 0)>> ELSE <<>>)
  \o (IF e.res = "Panicked" THEN <<V("C03:panic", e.r, 0)>> ELSE <<>>)

\* ---- C04: reuse, HTTP/2 sharing, cancellation is harmless
StartsDial(e) == (e.e = "Poll" /\ e.res = "DialStart") \/ (e.e = "Bg" /\ e.d # 0)
C04(hh, pre, e, post) ==
  (IF StartsDial(e) /\ Get(hh.hadIdle, e.r, FALSE) THEN <<V("C04:dial-despite-idle", e.r, e.d)>> ELSE <<>>)
  \o (IF /\ hh.alive /\ e.e = "Poll" /\ e.res = "DialStart" /\ ReuseAsserted(hh) /\ e.r \in 1..NReqO(post)
         /\ UsableIdle(hh, pre, post.req[e.r].o)
      THEN <<V("C04:dial-while-usable-idle", e.r, e.d)>> ELSE <<>>)
  \o (IF /\ hh.alive /\ StartsDial(e) /\ e.r \in 1..NReqO(post) /\ post.req[e.r].h2
         /\ \E q \in hh.att \ {e.r} : q \in 1..NReqO(post) /\ SameOrigin(hh, post.req[q].o, post.req[e.r].o)
      THEN <<V("C04:h2-dial-while-attempt-in-flight", e.r, e.d)>> ELSE <<>>)
  \o (IF StartsDial(e) /\ e.r \in 1..NReqO(post) /\ post.req[e.r].h2 /\ Get(hh.openH2, e.r, FALSE)
      THEN <<V("C04:h2-dial-while-open-h2-pooled", e.r, e.d)>> ELSE <<>>)
  \o (IF /\ hh.alive /\ e.e = "WhenReady" /\ IsUsable(pre, e.c) /\ ~pre.conn[e.c].h2 /\ pre.conn[e.c].live > 0
         /\ (IdleLen(hh, pre, pre.conn[e.c].o) < hh.cfg.maxIdle \/ LiveWaiter(hh, pre, pre.conn[e.c].o))
         /\ post.conn[e.c].live = 0
      THEN <<V("C04:released-connection-not-kept", 0, e.c)>> ELSE <<>>)
  \* "an open connection released by a finished request is kept": the release itself (Pooled dropped by the inner service or
  \* with a cancelled request that was sending) must leave the connection alive - parked until it is ready again
  \o (IF /\ hh.alive /\ (e.e = "Release" \/ (e.e = "Cancel" /\ e.stage = "sending")) /\ e.r \in 1..NReqO(pre)
         /\ HasConn(pre, pre.req[e.r].held) /\ pre.conn[pre.req[e.r].held].st = "open" /\ ~pre.conn[pre.req[e.r].held].up
         /\ ~pre.conn[pre.req[e.r].held].h2 /\ post.conn[pre.req[e.r].held].live = 0
      THEN <<V("C04:released-open-connection-dropped", e.r, pre.req[e.r].held)>> ELSE <<>>)
  \* ... and the passage of time alone does not make the pool give up a connection that is waiting to become ready again
  \o (IF /\ hh.alive /\ e.e = "Tick"
         /\ \E c \in 1..NConnO(pre) : /\ HasConn(pre, c) /\ pre.conn[c].st = "open" /\ ~pre.conn[c].up /\ ~pre.conn[c].h2
                                        /\ pre.conn[c].parked /\ pre.conn[c].live > 0 /\ post.conn[c].live = 0
      THEN <<V("C04:parked-connection-given-up", 0, CHOOSE c \in 1..NConnO(pre) : /\ HasConn(pre, c) /\ pre.conn[c].st = "open" /\ ~pre.conn[c].up
                                        /\ ~pre.conn[c].h2 /\ pre.conn[c].parked /\ pre.conn[c].live > 0 /\ post.conn[c].live = 0)>> ELSE <<>>)
  \o (IF /\ hh.alive /\ e.e = "Cancel" /\ e.stage = "checkout"
         /\ Get(hh.reserved, e.r, 0) # 0
         /\ IsUsable(pre, Get(hh.reserved, e.r, 0))
         /\ post.conn[Get(hh.reserved, e.r, 0)].live = 0
      THEN <<V("C04:cancel-destroyed-pooled-connection", e.r, Get(hh.reserved, e.r, 0))>> ELSE <<>>)

\* ---- C05: never hand out a closed or expired connection
C05(hh, pre, e, post) ==
  IF e.e = "Poll" /\ e.res = "Handoff" /\ HasConn(post, e.c) /\ post.conn[e.c].by # e.r
  THEN LET ca == Get(hh.closedAt, e.c, 0)
           ba == Get(hh.backAt, e.c, 0)
           ia == Get(hh.issueAt, e.r, 0)
       IN (IF ca # 0 /\ ca < ia THEN <<V("C05:closed-before-issue", e.r, e.c)>> ELSE <<>>)
          \o (IF ca # 0 /\ ba # 0 /\ ca < ba THEN <<V("C05:closed-before-hand-back", e.r, e.c)>> ELSE <<>>)
          \o (IF hh.cfg.idleTimeout = 2 /\ e.c \in Get(hh.expAt, e.r, {})
              THEN <<V("C05:expired", e.r, e.c)>> ELSE <<>>)
  ELSE <<>>

\* ---- C06: a connection is only used for the origin it was dialled for
C06(hh, pre, e, post) ==
  IF e.e = "Poll" /\ e.res = "Handoff" /\ e.c \in 1..NConnO(post) /\ ~SameOrigin(hh, post.conn[e.c].o, post.req[e.r].o)
  THEN <<V("C06:cross-origin", e.r, e.c)>> ELSE <<>>

\* ---- C14: a waiting request takes a freed connection; the abandoned attempt is not wasted / leaves nothing
Abandoned(hh, post, d) == d \in hh.aband
C14(hh, pre, e, post) ==
  (IF /\ e.e = "Poll" /\ (e.res = "DialStart" \/ (e.res = "PollPending" /\ Get(hh.dialed, e.r, FALSE)))
      /\ ReuseAsserted(hh) /\ e.r \in 1..NReqO(post) /\ UsableIdle(hh, pre, post.req[e.r].o)
   THEN <<V("C14:pending-while-usable-idle", e.r, 0)>> ELSE <<>>)
  \o (IF /\ hh.alive /\ e.e = "WhenReady" /\ IsUsable(pre, e.c) /\ ~pre.conn[e.c].h2 /\ pre.conn[e.c].live > 0
         /\ LiveWaiter(hh, pre, pre.conn[e.c].o) /\ post.conn[e.c].live = 0
      THEN <<V("C14:released-connection-not-delivered-to-waiter", 0, e.c)>> ELSE <<>>)
  \o (IF /\ e.e = "Poll" /\ ~e.first /\ ~e.woken /\ e.res = "Handoff" /\ HasConn(post, e.c) /\ post.conn[e.c].by # e.r
      THEN <<V("C14:freed-connection-delivered-without-wake-up", e.r, e.c)>> ELSE <<>>)
  \o (IF /\ e.e = "Drain" /\ hh.cfg.cap /\ hh.alive
         /\ \E r \in hh.unstarted : ~\E d \in 1..NConnO(post) : post.conn[d].by = r
      THEN <<V("C14:abandoned-unstarted-attempt-not-continued-with-cap", CHOOSE r \in hh.unstarted : ~\E d \in 1..NConnO(post) : post.conn[d].by = r, 0)>> ELSE <<>>)
  \o (IF e.e = "Drain" /\ hh.cfg.cap /\ \E d \in hh.aband : post.conn[d].dial = "dropped"
      THEN <<V("C14:abandoned-attempt-dropped-with-cap", 0, CHOOSE d \in hh.aband : post.conn[d].dial = "dropped")>> ELSE <<>>)
  \o (IF /\ hh.alive /\ e.e = "Bg" /\ e.d = 0 /\ hh.cfg.cap
         \* the background continuation of an abandoned attempt finished in this step: its connection must now be
         \* held by somebody (the pool, a waiter, or a WhenReady task on its way to the pool) unless there was
         \* neither room in the idle list nor a live waiter at that moment
         /\ \E d \in 1..NConnO(pre) : /\ pre.conn[d].by = e.r /\ pre.conn[d].dial \in {"connecting", "handshaking"}
                                       /\ post.conn[d].dial = "ok" /\ IsUsable(post, d) /\ post.conn[d].live = 0
                                       /\ (IdleLen(hh, pre, pre.conn[d].o) < hh.cfg.maxIdle \/ LiveWaiter(hh, pre, pre.conn[d].o))
      THEN <<V("C14:abandoned-attempt-connection-lost", e.r, 0)>> ELSE <<>>)
  \o (IF e.e = "Drain" /\ ~hh.cfg.cap /\ \E d \in hh.aband : post.conn[d].dial # "dropped" \/ post.conn[d].live # 0
      THEN <<V("C14:abandoned-attempt-left-behind-without-cap", 0, 0)>> ELSE <<>>)

\* ---- C15: never more idle connections per origin than configured
C15(hh, pre, e, post) ==
  IF \E b \in 1..Len(post.idle) : Len(post.idle[b]) > hh.cfg.maxIdle
  THEN <<V("C15:too-many-idle", 0, 0)>> ELSE <<>>

Clauses(hh, pre, e, post) ==
  C02(hh, pre, e, post) \o C03(hh, pre, e, post) \o C04(hh, pre, e, post) \o C05(hh, pre, e, post)
  \o C06(hh, pre, e, post) \o C14(hh, pre, e, post) \o C15(hh, pre, e, post)

-----------------------------------------------------------------------------
(* History update *)
AttSameOrigin(hh, post, a) == \E q \in hh.att : q \in 1..NReqO(post) /\ SameOrigin(hh, post.req[q].o, a)

Upd(hh, pre, e, post) ==
  CASE e.e = "Issue" ->
         LET usable == \E c \in IdleSet(hh, pre, e.o) : IsUsable(pre, c) /\ FreshAt(hh, pre, e, c)
             usableAny == UsableIdle(hh, pre, e.o)     \* ignoring expiry: the request may have been given one of these
             infl == AttSameOrigin(hh, post, e.o)
             \* left the idle list and is still alive: reserved by this request (entries discarded as closed or
             \* expired also leave the list, but their last handle is gone)
             taken == {c \in IdleSet(hh, pre, e.o) : /\ c \notin IdleSet(hh, post, e.o) /\ HasConn(post, c) /\ post.conn[c].live > 0
                                                    /\ post.conn[c].live = pre.conn[c].live}     \* moved, not dropped
             res == IF taken = {} THEN 0 ELSE CHOOSE c \in taken : TRUE
             resvd == {Get(hh.reserved, q, 0) : q \in {q \in 1..NReqO(pre) : InCheckout(pre, q)}}
             oh2 == \E c \in 1..NConnO(pre) : /\ HasConn(pre, c) /\ pre.conn[c].h2 /\ pre.conn[c].st = "open"
                                              /\ SameOrigin(hh, pre.conn[c].o, e.o)
                                              /\ (c \in IdleSet(hh, pre, e.o) \/ c \in resvd)
         IN [hh EXCEPT !.issueAt = Put(@, e.r, l + 1, 0),
                       !.tickAtIssue = Put(@, e.r, pre.ticks, 0),
                       !.hadIdle = Put(@, e.r, usable, FALSE),
                       !.expAt = Put(@, e.r, {c \in IdleSet(hh, pre, e.o) : ExpiredAt(hh, pre, e, c)}, {}),
                       !.inflight = Put(@, e.r, infl /\ ~usableAny, FALSE),
                       !.openH2 = Put(@, e.r, oh2 /\ ReuseAsserted(hh), FALSE),
                       !.reserved = Put(@, e.r, res, 0),
                       \* (the pool's own marker is consulted too: the monitor does not always know an owner - a request whose
                       \*  idle candidates had all expired is one, but expiry is only known within a real-time bracket)
                       !.own = IF ~usableAny /\ ~infl /\ ~(e.o \in 1..Len(pre.cing) /\ pre.cing[e.o]) /\ e.res # "Panicked" THEN @ \cup {e.r} ELSE @,
                       \* owners: no usable idle connection and no attempt known to be in flight - or, when expiry leaves that open,
                       \* the pool's marker newly set by this very Issue; never a request that found the marker already set (a standby)
                       !.att = IF /\ e.h2 /\ e.res # "Panicked"
                                  /\ ~(e.o \in 1..Len(pre.cing) /\ pre.cing[e.o])
                                  /\ ((~usableAny /\ ~infl) \/ (e.o \in 1..Len(post.cing) /\ post.cing[e.o]))
                               THEN @ \cup {e.r} ELSE @]
    [] e.e = "Poll" ->
         LET ownDial == {d \in 1..NConnO(pre) : pre.conn[d].by = e.r /\ d # e.c /\ pre.conn[d].dial \in {"connecting", "handshaking"}}
             \* pre-empted: served by a connection that is not its own dial while its own attempt is unfinished
             preempted == e.res = "Handoff" /\ ownDial # {}
             unstarted == e.res = "Handoff" /\ e.r \in hh.att /\ ~Get(hh.dialed, e.r, FALSE)
         IN [hh EXCEPT !.dialed = IF e.res = "DialStart" THEN Put(@, e.r, TRUE, FALSE) ELSE @,
                       !.reserved = IF e.res \in {"Handoff", "PollErr", "Panicked"} THEN Put(@, e.r, 0, 0) ELSE @,
                       !.aband = IF preempted THEN @ \cup ownDial ELSE @,
                       !.unstarted = IF e.res = "Handoff" /\ e.r \in hh.own /\ ~Get(hh.dialed, e.r, FALSE) THEN @ \cup {e.r} ELSE @,
                       !.att = IF e.res = "DialStart" /\ post.req[e.r].h2 THEN @ \cup {e.r}   \* (a released waiter took the attempt over)
                               ELSE IF e.res \in {"PollErr", "Panicked"} THEN @ \ {e.r}
                               ELSE IF e.res = "Handoff" THEN (IF hh.cfg.cap /\ (preempted \/ unstarted) THEN @ ELSE @ \ {e.r})
                               ELSE @]
    [] e.e = "Cancel" ->
         LET ownDial == {d \in 1..NConnO(post) : post.conn[d].by = e.r /\ pre.conn[d].dial \in {"connecting", "handshaking"}}
             back == Get(hh.reserved, e.r, 0)      \* a connection taken from the pool and never used goes back to it
         IN [hh EXCEPT !.reserved = Put(@, e.r, 0, 0),
                       !.backAt = IF e.stage = "checkout" /\ back # 0 THEN Put(@, back, l + 1, 0) ELSE @,
                       !.unstarted = IF e.stage = "checkout" /\ e.r \in hh.own /\ ~Get(hh.dialed, e.r, FALSE) THEN @ \cup {e.r} ELSE @,
                       !.aband = IF e.stage = "checkout" THEN @ \cup ownDial ELSE @,
                       !.att = IF e.stage = "checkout" /\ ~hh.cfg.cap THEN @ \ {e.r} ELSE @]
    [] e.e = "Bg" ->
         \* the background continuation of request e.r made a step: it started its dial (d # 0) or finished
         [hh EXCEPT !.dialed = IF e.d # 0 THEN Put(@, e.r, TRUE, FALSE) ELSE @,
                    !.aband = IF e.d # 0 THEN @ \cup {e.d} ELSE @,
                    !.att = IF e.d = 0 THEN @ \ {e.r} ELSE @]
    [] e.e = "PeerClose" -> [hh EXCEPT !.closedAt = Put(@, e.c, l + 1, 0)]
    [] e.e = "DropPool" -> [hh EXCEPT !.alive = FALSE, !.att = {}]
    [] e.e = "WhenReady" -> [hh EXCEPT !.backAt = Put(@, e.c, l + 1, 0), !.tickAtBack = Put(@, e.c, pre.ticks, 0)]
    [] OTHER -> hh

Step ==
  /\ l < N
  /\ l' = l + 1
  /\ LET e == Rec[l + 1] IN
     IF e.e = "Reset"
     THEN \* without a pool (`without_pool`) every checkout is detached: nothing is reused, nothing continues in the
          \* background; the pool-dependent clauses are off exactly as after DropPool
          LET np == "noPool" \in DOMAIN e.cfg /\ e.cfg.noPool IN
          h' = [H0 EXCEPT !.cfg = [cap |-> e.cfg.cap /\ ~np, maxIdle |-> e.cfg.maxIdle, idleTimeout |-> e.cfg.idleTimeout],
                          !.alive = ~np, !.uris = e.uris, !.run = e.run, !.base = l + 1, !.viol = h.viol]
     ELSE LET pre == Rec[l].obs
              post == e.obs
              new == Clauses(h, pre, e, post)
          IN h' = [Upd(h, pre, e, post) EXCEPT !.viol = h.viol \o [i \in 1..Len(new) |-> new[i] @@ [run |-> h.run, base |-> h.base]]]

Spec == Init /\ [][Step]_vars

\* the whole trace was read
Consumed == TLCGet("stats").diameter - 1 = N
\* printed once, at the end of the trace: every falsified clause
Report == l = N => PrintT(<<"VIOL", ToJson(h.viol)>>)
=============================================================================
