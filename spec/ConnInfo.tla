------------------------------ MODULE ConnInfo ------------------------------
(***************************************************************************)
(* How per-connection information reaches each request on the server, and  *)
(* the make-service step.  Structured like the code:                       *)
(*                                                                         *)
(*  src/server/mod.rs  Serving::poll_once / GracefulShutdown::poll         *)
(*      loop { signal? ; Preparing: make_service.poll_ready_ref            *)
(*                     ; Accepting: acceptor.poll_accept -> stream,        *)
(*                                  make_service.make_service_ref(&stream) *)
(*                     ; Making:    future.poll -> service,                *)
(*                                  protocol.serve_connection_with_upgrades*)
(*                                  (stream, service), executor.execute }  *)
(*      One State, one Making slot: while the make future is Pending the   *)
(*      loop does NOT accept (action Accept needs lp = "accepting").  A    *)
(*      poll_ready error or a make error ends the serving future           *)
(*      (ServerError::MakeService); the signal ends it with Ok.            *)
(*  src/server/conn/info.rs  MakeServiceConnectionInfoService::call takes  *)
(*      `stream.info()` of THE stream it is called with and the future     *)
(*      wraps the made service into ConnectionWithInfo{inner, info};       *)
(*      ConnectionWithInfo::call inserts ConnectionInfo<A> into the        *)
(*      request's extensions.  (The per-request clone made by              *)
(*      bridge/service.rs TowerHyperService -- service.clone().oneshot()   *)
(*      -- is what `info.take()` empties: the connection's own copy keeps  *)
(*      it, so every request of the connection gets it.)                   *)
(*  src/server/conn/tls/info.rs  TlsConnectionInfoService::call takes the  *)
(*      receiver `stream.recv()` of THE stream; TlsConnection::call awaits *)
(*      rx.recv() (the lazy handshake publishes the info once, src/server/ *)
(*      conn/tls/mod.rs TlsStream::handshake; the channel itself is        *)
(*      specified in Sni.tla ConnSpec) and inserts TlsConnectionInfo; a    *)
(*      connection without TLS has the Empty receiver: nothing inserted.   *)
(*  src/server/builder.rs  with_connection_info / with_tls_connection_info *)
(*      wrap the make-service (either order), with_shared_service wraps a  *)
(*      Clone service into tower::make::Shared (always ready, never fails, *)
(*      every connection gets a clone of the ONE service value).           *)
(*                                                                         *)
(* Environment (the harness): clients (Connect with a kind, TLS handshake  *)
(* or a failed one, requests, close), the poll_ready gate and the make     *)
(* gate of the make-service double, the application gate, the signal.      *)
(* Server-internal actions are separate steps (every interleaving of       *)
(* accepts, handshakes and requests of different connections).             *)
(*                                                                         *)
(* Every value a request carries is recorded WITH ITS PROVENANCE (`of`:    *)
(* the connection whose stream it was taken from), so NoCrossInfo is not   *)
(* blind when two connections happen to have equal values.                 *)
(***************************************************************************)
EXTENDS Naturals, Sequences, FiniteSets, TLC

CONSTANTS
  NConn,       \* connections / clients 1..NConn
  NReq,        \* requests per connection 1..NReq
  KindAssign,  \* set of functions Conns -> kinds [tr, tls, sni, alpn, proto]: who connects how (fixed in Init)
  Stacks,      \* make-service stacks: [ci, ti, shared, sni]   (fixed in Init)
  HostAssign,  \* set of functions Conns -> Reqs -> {"own", "other"}: the host a request names (the
               \* connection's own SNI / another name)
  GateReady,   \* BOOLEAN: poll_ready of the make-service double is decided by the environment
  GateMake,    \* BOOLEAN: the make future is decided by the environment (else Ok at once)
  GateApp,     \* BOOLEAN: the application's answer is released by the environment (else at once)
  AllowErr,    \* BOOLEAN: the gates may be decided Err
  AllowSignal, \* BOOLEAN
  AllowFault,  \* BOOLEAN: failed handshakes, client closes
  AnonDuplex,  \* BOOLEAN: duplex connections all report the same address (BraidAddr::Duplex)
  Variant      \* "ok" or the name of a seeded defect

Conns == 1..NConn
Reqs  == 1..NReq
None  == [of |-> 0]

VARIABLES
  cfg,      \* the stack
  kind,     \* [Conns -> kinds]
  srv,      \* "running" | "ok" | "errmake"                      the serving future
  lp,       \* "preparing" | "accepting" | "making"              State in src/server/mod.rs
  mk,       \* the connection in State::Making (0 = none)
  rdy,      \* decision of the poll_ready gate for this round: "none" | "ok" | "err"
  sig,      \* the shutdown signal is ready
  queue,    \* listener backlog
  cst,      \* [Conns -> "idle"|"queued"|"making"|"serving"|"closed"|"unserved"]
  mg,       \* [Conns -> "none"|"ok"|"err"]                      decision of the make future
  svc,      \* [Conns -> service made for the connection]: [made, ci, rx, state]
  hs,       \* [Conns -> "na"|"pending"|"done"|"failed"]
  chan,     \* [Conns -> None or the TLS info published by the handshake]
  rq,       \* [Conns -> [Reqs -> "none"|"sent"|"tlswait"|"app"|"done"|"rejected"]]
  host,     \* [Conns -> [Reqs -> {"own","other"}]]
  ext,      \* [Conns -> [Reqs -> [ci: Seq, tls: Seq, svc]]]    what the layers inserted / who handled it
  slot,     \* (variants) the most recently accepted connection
  first,    \* (variants) the first accepted connection
  \* history
  nmk,      \* [Conns -> number of make_service_ref calls with this connection's stream]
  mkarg,    \* [Conns -> the stream the call for this connection was given]
  accd,     \* connections the acceptor has handed out
  mkAfterSig, \* a make-service call happened although the signal was ready
  cause,    \* set of reasons that allow the serving future to end: subset of {"signal","ready-err","make-err"}
  ev        \* the last event (generation; hidden by VIEW)

vars == <<cfg, kind, srv, lp, mk, rdy, sig, queue, cst, mg, svc, hs, chan, rq, host, ext, slot, first,
          nmk, mkarg, accd, mkAfterSig, cause, ev>>
srvvars  == <<srv, lp, mk, rdy, sig, queue, mg, slot, first, nmk, mkarg, accd, mkAfterSig, cause>>

---------------------------------------------------------------------------
\* values
AddrOf(c) == IF kind[c].tr = "duplex" /\ AnonDuplex THEN [of |-> c, tr |-> "duplex", id |-> 0]
             ELSE [of |-> c, tr |-> kind[c].tr, id |-> c]
TlsOf(c)  == [of |-> c, sni |-> kind[c].sni, alpn |-> kind[c].alpn]
\* what TlsConnectionInfo::server reads from a session that has not seen the ClientHello
TlsBlank(c) == [of |-> c, sni |-> "none", alpn |-> "none"]
NoSvc == [made |-> FALSE, ci |-> None, rx |-> 0, state |-> 0]
NoExt == [ci |-> <<>>, tls |-> <<>>, svc |-> 0]

Ev(a, c, k, x) == [a |-> a, c |-> c, k |-> k, x |-> x]

Init ==
  /\ cfg \in Stacks
  /\ kind \in KindAssign
  /\ srv = "running" /\ lp = "preparing" /\ mk = 0 /\ rdy = "none" /\ sig = FALSE /\ queue = <<>>
  /\ cst = [c \in Conns |-> "idle"]
  /\ mg = [c \in Conns |-> "none"]
  /\ svc = [c \in Conns |-> NoSvc]
  /\ hs = [c \in Conns |-> "na"]
  /\ chan = [c \in Conns |-> None]
  /\ rq = [c \in Conns |-> [k \in Reqs |-> "none"]]
  /\ host \in HostAssign
  /\ ext = [c \in Conns |-> [k \in Reqs |-> NoExt]]
  /\ slot = 0 /\ first = 0
  /\ nmk = [c \in Conns |-> 0] /\ mkarg = [c \in Conns |-> 0] /\ accd = {} /\ mkAfterSig = FALSE /\ cause = {}
  /\ ev = Ev("Init", 0, 0, "")

\* the gates exist only for a hand-written make-service; tower::make::Shared is always ready and immediate
RGated == GateReady /\ ~cfg.shared
MGated == GateMake /\ ~cfg.shared

---------------------------------------------------------------------------
\* environment: clients
Connect(c) ==
  /\ srv = "running" /\ cst[c] = "idle"
  /\ \A d \in Conns : d < c => cst[d] # "idle"           \* symmetry: clients connect in index order
  /\ cst' = [cst EXCEPT ![c] = "queued"]
  /\ queue' = Append(queue, c)
  /\ hs' = [hs EXCEPT ![c] = IF kind[c].tls THEN "pending" ELSE "na"]
  /\ ev' = Ev("Connect", c, 0, "")
  /\ UNCHANGED <<cfg, kind, srv, lp, mk, rdy, sig, mg, svc, chan, rq, host, ext, slot, first, nmk, mkarg, accd, mkAfterSig, cause>>

\* The client performs its side of the TLS handshake.  The server side runs lazily INSIDE the connection task
\* (first read), so it completes only once the connection has a driver; the bytes wait in the pipe until then.
\* hs = "offered": the client has sent its flight, the server has not processed it yet.
Hs(c) ==
  /\ hs[c] = "pending" /\ cst[c] \in {"queued", "making", "serving"}
  /\ hs' = [hs EXCEPT ![c] = "offered"]
  /\ ev' = Ev("Hs", c, 0, "")
  /\ UNCHANGED <<cfg, kind, chan, cst, rq, host, ext, svc>> /\ UNCHANGED srvvars

HsFail(c) ==
  /\ AllowFault /\ hs[c] = "pending" /\ cst[c] \in {"queued", "making", "serving"}
  /\ hs' = [hs EXCEPT ![c] = "garbage"]
  /\ ev' = Ev("HsFail", c, 0, "")
  /\ UNCHANGED <<cfg, kind, chan, cst, rq, host, ext, svc>> /\ UNCHANGED srvvars

Send(c, k) ==
  /\ cst[c] \in {"queued", "making", "serving"} /\ rq[c][k] = "none"
  /\ hs[c] \in {"na", "offered", "done"}
  /\ \A j \in Reqs : j < k => rq[c][j] # "none"                  \* in order; HTTP/1 requests may be pipelined
  /\ rq' = [rq EXCEPT ![c][k] = "sent"]
  /\ ev' = Ev("Send", c, k, host[c][k])
  /\ UNCHANGED <<cfg, kind, hs, chan, cst, host, ext, svc>> /\ UNCHANGED srvvars

Gate(c, k) ==
  /\ GateApp /\ rq[c][k] = "app" /\ cst[c] = "serving"        \* (the future of a closed connection is dropped)
  /\ rq' = [rq EXCEPT ![c][k] = "done"]
  /\ ev' = Ev("Gate", c, k, "")
  /\ UNCHANGED <<cfg, kind, hs, chan, cst, host, ext, svc>> /\ UNCHANGED srvvars

Close(c) ==
  /\ AllowFault /\ cst[c] = "serving"
  /\ cst' = [cst EXCEPT ![c] = "closed"]
  /\ ev' = Ev("Close", c, 0, "")
  /\ UNCHANGED <<cfg, kind, hs, chan, rq, host, ext, svc>> /\ UNCHANGED srvvars

\* environment: the gates of the make-service double and the signal
EnvReady(ok) ==
  /\ RGated /\ srv = "running" /\ lp = "preparing" /\ rdy = "none"
  /\ (~ok) => AllowErr
  /\ rdy' = IF ok THEN "ok" ELSE "err"
  /\ ev' = Ev("Ready", 0, 0, IF ok THEN "ok" ELSE "err")
  /\ UNCHANGED <<cfg, kind, srv, lp, mk, sig, queue, cst, mg, svc, hs, chan, rq, host, ext, slot, first, nmk, mkarg, accd, mkAfterSig, cause>>

EnvMake(c, ok) ==
  /\ MGated /\ srv = "running" /\ cst[c] = "making" /\ mg[c] = "none"
  /\ (~ok) => AllowErr
  /\ mg' = [mg EXCEPT ![c] = IF ok THEN "ok" ELSE "err"]
  /\ ev' = Ev("Make", c, 0, IF ok THEN "ok" ELSE "err")
  /\ UNCHANGED <<cfg, kind, srv, lp, mk, rdy, sig, queue, cst, svc, hs, chan, rq, host, ext, slot, first, nmk, mkarg, accd, mkAfterSig, cause>>

Signal ==
  /\ AllowSignal /\ ~sig
  /\ sig' = TRUE
  /\ ev' = Ev("Signal", 0, 0, "")
  /\ UNCHANGED <<cfg, kind, srv, lp, mk, rdy, queue, cst, mg, svc, hs, chan, rq, host, ext, slot, first, nmk, mkarg, accd, mkAfterSig, cause>>

---------------------------------------------------------------------------
\* the serving future.  GracefulShutdown::poll polls the signal before every poll_once: none of the loop
\* actions is taken once the signal is ready.
SigSeen == IF Variant = "sigblind" THEN FALSE ELSE sig     \* (variant: the signal is not looked at before every step)
LoopSignal ==
  /\ srv = "running" /\ sig
  /\ srv' = "ok"
  /\ cause' = cause \cup {"signal"}
  /\ cst' = IF mk # 0 THEN [cst EXCEPT ![mk] = "unserved"] ELSE cst       \* State::Making is dropped with the future
  /\ mk' = 0
  /\ ev' = Ev("LoopSignal", 0, 0, "")
  /\ UNCHANGED <<cfg, kind, lp, rdy, sig, queue, mg, svc, hs, chan, rq, host, ext, slot, first, nmk, mkarg, accd, mkAfterSig>>

Prepare ==
  /\ srv = "running" /\ ~SigSeen /\ lp = "preparing"
  /\ IF RGated THEN rdy # "none" ELSE TRUE
  /\ IF RGated /\ rdy = "err"
       THEN /\ srv' = "errmake" /\ cause' = cause \cup {"ready-err"} /\ UNCHANGED lp
       ELSE /\ lp' = "accepting" /\ UNCHANGED <<srv, cause>>
  /\ rdy' = "none"
  /\ ev' = Ev("Prepare", 0, 0, "")
  /\ UNCHANGED <<cfg, kind, mk, sig, queue, cst, mg, svc, hs, chan, rq, host, ext, slot, first, nmk, mkarg, accd, mkAfterSig>>

\* poll_accept hands out the oldest queued stream and, IN THE SAME STEP, make_service_ref(&stream) is called:
\* the layers take what they need from that stream.
MadeFor(c) ==
  [made  |-> TRUE,
   ci    |-> IF ~cfg.ci THEN None
             ELSE IF Variant = "start" /\ first # 0 THEN AddrOf(first)     \* info captured once and reused
             ELSE AddrOf(c),
   rx    |-> IF cfg.ti THEN c ELSE 0,
   state |-> IF cfg.shared THEN 0 ELSE c]                                   \* whose application state the service uses
Accept ==
  /\ srv = "running" /\ ~SigSeen /\ lp = "accepting" /\ queue # <<>>
  /\ LET c == Head(queue) IN
       /\ queue' = Tail(queue)
       /\ cst' = [cst EXCEPT ![c] = "making"]
       /\ accd' = accd \cup {c}
       /\ mk' = c /\ lp' = "making"
       /\ nmk' = [nmk EXCEPT ![c] = @ + 1]
       /\ mkarg' = [mkarg EXCEPT ![c] = c]
       /\ mkAfterSig' = (mkAfterSig \/ sig)
       /\ svc' = [svc EXCEPT ![c] = MadeFor(c)]
       /\ mg' = [mg EXCEPT ![c] = IF MGated THEN "none" ELSE "ok"]
       /\ slot' = c /\ first' = IF first = 0 THEN c ELSE first
       /\ chan' = IF Variant = "tlsearly" /\ kind[c].tls THEN [chan EXCEPT ![c] = TlsBlank(c)] ELSE chan
       /\ ev' = Ev("Accept", c, 0, "")
  /\ UNCHANGED <<cfg, kind, srv, rdy, sig, hs, rq, host, ext, cause>>

MakeDone ==
  /\ srv = "running" /\ ~SigSeen /\ lp = "making" /\ mg[mk] = "ok"
  /\ cst' = [cst EXCEPT ![mk] = "serving"]                                  \* serve_connection_with_upgrades + execute
  /\ lp' = "preparing" /\ mk' = 0
  /\ ev' = Ev("MakeDone", mk, 0, "")
  /\ UNCHANGED <<cfg, kind, srv, rdy, sig, queue, mg, svc, hs, chan, rq, host, ext, slot, first, nmk, mkarg, accd, mkAfterSig, cause>>

MakeFail ==
  /\ srv = "running" /\ ~SigSeen /\ lp = "making" /\ mg[mk] = "err"
  /\ srv' = "errmake" /\ cause' = cause \cup {"make-err"}
  /\ cst' = [cst EXCEPT ![mk] = "unserved"]
  /\ mk' = 0
  /\ ev' = Ev("MakeFail", mk, 0, "")
  /\ UNCHANGED <<cfg, kind, lp, rdy, sig, queue, mg, svc, hs, chan, rq, host, ext, slot, first, nmk, mkarg, accd, mkAfterSig>>

---------------------------------------------------------------------------
\* the connection task (spawned on the executor: it runs whatever the serving future does afterwards)
HsDone(c) ==
  /\ cst[c] = "serving" /\ hs[c] = "offered"
  /\ srv = "running"                     \* (same assumption: an idle connection is closed once the drivers are told)
  /\ hs' = [hs EXCEPT ![c] = "done"]
  /\ chan' = IF chan[c] = None THEN [chan EXCEPT ![c] = TlsOf(c)] ELSE chan  \* oneshot: the first send wins
  /\ ev' = Ev("HsDone", c, 0, "")
  /\ UNCHANGED <<cfg, kind, cst, rq, host, ext, svc>> /\ UNCHANGED srvvars

HsBroken(c) ==
  /\ cst[c] = "serving" /\ hs[c] = "garbage"
  /\ hs' = [hs EXCEPT ![c] = "failed"]
  /\ cst' = [cst EXCEPT ![c] = "closed"]
  /\ ev' = Ev("HsBroken", c, 0, "")
  /\ IF Variant = "hsfatal"
       THEN /\ srv' = IF srv = "running" THEN "errmake" ELSE srv              \* a failed handshake takes the server down
            /\ UNCHANGED <<lp, mk, rdy, sig, queue, mg, slot, first, nmk, mkarg, accd, mkAfterSig, cause>>
       ELSE UNCHANGED srvvars
  /\ UNCHANGED <<cfg, kind, chan, rq, host, ext, svc>>

\* a request reaches the connection's service: TowerHyperService clones it, ConnectionWithInfo::call inserts the
\* ConnectionInfo (synchronously), TlsConnection::call starts waiting for the TLS info
CiInserted(c) ==
  IF ~cfg.ci THEN <<>>
  ELSE IF Variant = "slot" THEN <<AddrOf(slot)>>                           \* a slot shared by all connections
  ELSE <<svc[c].ci>>
Arrive(c, k) ==
  /\ cst[c] = "serving" /\ rq[c][k] = "sent"
  \* ENVIRONMENT ASSUMPTION (hyper, observed by the harness): once the graceful serving future has ended, every driver
  \* is told to shut down: exchanges in flight finish, requests that have not reached the service are not started
  /\ srv = "running"
  /\ hs[c] \in {"na", "done"}                                               \* the bytes are readable only after the handshake
  /\ \A j \in Reqs : j < k => rq[c][j] \notin {"none", "sent"}
  /\ kind[c].proto = "h1" => \A j \in Reqs : j < k => rq[c][j] \in {"done", "rejected"}   \* HTTP/1: one at a time
  /\ ext' = [ext EXCEPT ![c][k] = [ci |-> CiInserted(c), tls |-> <<>>, svc |-> svc[c].state]]
  /\ rq' = [rq EXCEPT ![c][k] = "tlswait"]
  /\ nmk' = IF Variant = "perreq" THEN [nmk EXCEPT ![c] = @ + 1] ELSE nmk  \* make-service called again per request
  /\ ev' = Ev("Arrive", c, k, "")
  /\ UNCHANGED <<cfg, kind, srv, lp, mk, rdy, sig, queue, cst, mg, svc, hs, chan, host, slot, first, mkarg, accd, mkAfterSig, cause>>

\* rx.recv() resolves (or the stack has no TLS layer / the connection no TLS): the request reaches ValidateSNI and
\* the application
RxOf(c) == IF Variant = "tlsslot" THEN slot ELSE svc[c].rx
TlsInserted(c) ==
  IF ~cfg.ti \/ RxOf(c) = 0 THEN <<>>
  ELSE IF ~kind[RxOf(c)].tls THEN <<>>                                     \* the Empty receiver: recv() = None
  ELSE <<chan[RxOf(c)]>>
SniVerdict(c, k, tls) ==                                                    \* ValidateSNI (Sni.tla has the full function)
  IF ~cfg.sni \/ tls = <<>> THEN "app"
  ELSE LET named == IF host[c][k] = "own" THEN kind[c].sni ELSE "zz" IN     \* "zz": a name nobody uses as SNI
       IF named # "none" /\ tls[1].sni = named THEN "app" ELSE "rejected"
TlsGot(c, k) ==
  /\ rq[c][k] = "tlswait" /\ cst[c] = "serving"
  /\ (cfg.ti /\ RxOf(c) # 0 /\ kind[RxOf(c)].tls) => chan[RxOf(c)] # None   \* the wait for the lazy handshake
  /\ LET tls == TlsInserted(c)
         v == SniVerdict(c, k, tls) IN
       /\ ext' = [ext EXCEPT ![c][k].tls = tls]
       /\ rq' = [rq EXCEPT ![c][k] = IF v = "app" /\ ~GateApp THEN "done" ELSE v]
       \* an error returned by the service ends an HTTP/1 connection (hyper); HTTP/2 resets only the stream
       /\ cst' = IF v = "rejected" /\ kind[c].proto = "h1" THEN [cst EXCEPT ![c] = "closed"] ELSE cst
  /\ ev' = Ev("TlsGot", c, k, "")
  /\ UNCHANGED <<cfg, kind, hs, chan, host, svc>> /\ UNCHANGED srvvars

Env  == \/ \E c \in Conns : Connect(c) \/ Hs(c) \/ HsFail(c) \/ Close(c)
        \/ \E c \in Conns, k \in Reqs : Send(c, k) \/ Gate(c, k)
        \/ \E ok \in BOOLEAN : EnvReady(ok)
        \/ \E c \in Conns, ok \in BOOLEAN : EnvMake(c, ok)
        \/ Signal
Loop == LoopSignal \/ Prepare \/ Accept \/ MakeDone \/ MakeFail
Task == \/ \E c \in Conns : HsDone(c) \/ HsBroken(c)
        \/ \E c \in Conns, k \in Reqs : Arrive(c, k) \/ TlsGot(c, k)
Internal == Loop \/ Task
Next == Env \/ Internal
Spec == Init /\ [][Next]_vars

---------------------------------------------------------------------------
\* properties
TypeOK ==
  /\ cfg \in Stacks /\ kind \in KindAssign /\ host \in HostAssign
  /\ srv \in {"running", "ok", "errmake"} /\ lp \in {"preparing", "accepting", "making"}
  /\ mk \in 0..NConn /\ rdy \in {"none", "ok", "err"} /\ sig \in BOOLEAN
  /\ cst \in [Conns -> {"idle", "queued", "making", "serving", "closed", "unserved"}]
  /\ mg \in [Conns -> {"none", "ok", "err"}]
  /\ hs \in [Conns -> {"na", "pending", "offered", "garbage", "done", "failed"}]
  /\ rq \in [Conns -> [Reqs -> {"none", "sent", "tlswait", "app", "done", "rejected"}]]
  /\ (lp = "making" /\ srv = "running") => (mk # 0 /\ cst[mk] = "making")
  /\ Cardinality({c \in Conns : cst[c] = "making"}) <= 1

Reached(c, k) == rq[c][k] \in {"app", "done", "rejected"}      \* the request got through the layers

\* I1 (C01 / C20): what a request carries is exactly what belongs to the connection it arrived on
I1_NoCrossInfo ==
  \A c \in Conns, k \in Reqs :
     /\ \A i \in 1..Len(ext[c][k].ci)  : ext[c][k].ci[i]  = AddrOf(c)
     /\ \A i \in 1..Len(ext[c][k].tls) : ext[c][k].tls[i] = TlsOf(c)
I1_Stable ==
  \A c \in Conns, k1, k2 \in Reqs : Reached(c, k1) /\ Reached(c, k2) =>
     ext[c][k1].ci = ext[c][k2].ci /\ ext[c][k1].tls = ext[c][k2].tls
\* C20 through the layers: a host equal to THIS connection's server name is forwarded, another name is rejected
I1_SniOfThisConn ==
  \A c \in Conns, k \in Reqs : (Reached(c, k) /\ cfg.sni /\ cfg.ti /\ kind[c].tls) =>
     (rq[c][k] # "rejected") = (host[c][k] = "own" /\ kind[c].sni # "none")

\* I2: present iff configured, exactly once per request
I2_Presence ==
  \A c \in Conns, k \in Reqs : Reached(c, k) =>
     /\ Len(ext[c][k].ci)  = IF cfg.ci THEN 1 ELSE 0
     /\ Len(ext[c][k].tls) = IF cfg.ti /\ kind[c].tls THEN 1 ELSE 0

\* I3: make-service called exactly once per accepted connection, with that connection's stream, never for a
\*     connection that was not accepted, never after the signal; services shared only through the shared API
I3_MakeOnce     == \A c \in Conns : nmk[c] = IF c \in accd THEN 1 ELSE 0
I3_MakeArg      == \A c \in accd : mkarg[c] = c
I3_NoMakeAfterSignal == ~mkAfterSig
I3_NotShared    == \A c, d \in Conns : (c # d /\ svc[c].made /\ svc[d].made /\ svc[c].state = svc[d].state) => cfg.shared
I3_HandledByOwn == \A c \in Conns, k \in Reqs : Reached(c, k) => ext[c][k].svc = svc[c].state

\* I4 (C09): the serving future ends only for an allowed reason ...
I4_EndsOnlyOnAllowed ==
  /\ srv = "ok" => "signal" \in cause
  /\ srv = "errmake" => cause \cap {"ready-err", "make-err"} # {}
  /\ srv = "running" => cause = {}
\* ... nothing a client does changes the serving future or another connection ...
ClientStep(c) == ev'.c = c /\ ev'.a \in {"Hs", "HsFail", "HsDone", "HsBroken", "Send", "Arrive", "TlsGot", "Gate", "Close"}
I4_Confined ==
  [][\A c \in Conns : ClientStep(c) =>
        /\ UNCHANGED <<srv, lp, mk, rdy, queue, mg>>
        /\ \A d \in Conns \ {c} : cst'[d] = cst[d] /\ rq'[d] = rq[d] /\ ext'[d] = ext[d] /\ hs'[d] = hs[d] /\ chan'[d] = chan[d]]_vars
\* ... and the end of the serving future changes nothing for the connections that already have a driver
I4_ServedOn ==
  [][\A c \in Conns : (cst[c] = "serving" /\ ev'.a \in {"LoopSignal", "MakeFail", "Prepare"}) =>
        cst'[c] = "serving" /\ rq'[c] = rq[c]]_vars

\* the stall: a make future that stays Pending keeps the loop in State::Making; queued connections wait
Stalled == srv = "running" /\ lp = "making" /\ mk # 0 /\ mg[mk] = "none" /\ queue # <<>>
NeverStalled == ~Stalled                      \* expected to FAIL (ConnInfo_stall.cfg): the stall is real

\* liveness (ConnInfo_live.cfg): if the make-service always answers, a queued connection is accepted
Fair == /\ WF_vars(Loop)
        /\ \A c \in Conns : WF_vars(EnvMake(c, TRUE)) /\ WF_vars(EnvMake(c, FALSE))
        /\ WF_vars(EnvReady(TRUE)) /\ WF_vars(EnvReady(FALSE))
LiveSpec == Spec /\ Fair
I4_AcceptLive == \A c \in Conns : (cst[c] = "queued") ~> (cst[c] # "queued" \/ srv # "running")
\* without the premise (no fairness for the gates) the same formula fails: the stall
StallSpec == Spec /\ WF_vars(Loop)

\* what the harness can observe after a step (generation)
Obs == [srv |-> srv, lp |-> IF srv = "running" THEN lp ELSE "-", nmk |-> nmk, cst |-> cst, hs |-> hs, rq |-> rq,
        ext |-> [c \in Conns |-> [k \in Reqs |->
                   [ci  |-> IF ext[c][k].ci = <<>> THEN 0 ELSE ext[c][k].ci[1].of,
                    tls |-> IF ext[c][k].tls = <<>> THEN [of |-> 0, sni |-> "", alpn |-> ""] ELSE ext[c][k].tls[1],
                    svc |-> ext[c][k].svc]]]]
=============================================================================
