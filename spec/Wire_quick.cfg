SPECIFICATION Spec
CONSTANT HdrSets <- QuickHdrSets
CONSTANT Methods <- AllMethods
CONSTANT SeqDom <- QuickSeqDom
CONSTANT Schemes <- AllSchemes
INVARIANT TypeOK
INVARIANT InvC13
INVARIANT InvExpected
INVARIANT InvSeqConn
