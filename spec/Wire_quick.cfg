SPECIFICATION Spec
CONSTANT HdrSets <- QuickHdrSets
CONSTANT Methods <- AllMethods
CONSTANT Schemes <- AllSchemes
INVARIANT TypeOK
INVARIANT InvC13
INVARIANT InvExpected
