\* Upgrade generation (simulation): HTTP/1 kinds only (with_http1 server or http1 client)
SPECIFICATION SpecGen
CONSTANTS
  KindVecs <- VecsGenH1
  MaxConn = 4
  Server = "h1"
  Client = "pool"
  HL = 1
  SniffMax = 3
  MaxW = 6
  WSizes <- W13
  MaxEnv = 6
  HoldSets <- HoldAll
  DHoldSets <- DHold12
  AllowShutdown = TRUE
  AllowDrop = TRUE
  Quiescent = TRUE
  Bug = "none"
INVARIANTS
  Emit
