------------------------------ MODULE ServerObs ------------------------------
(***************************************************************************)
(* Property monitor for C07 / C09 over traces recorded from the REAL        *)
(* hyperdriver::Server by harness/src/bin/server.rs (IOEnv.TRACE, ndjson).  *)
(* It constrains nothing but the properties: the next-state relation is     *)
(* "look at the next recorded observation of the same schedule"; the        *)
(* formulas below are the INVARIANTs.  A `Reset` record starts a schedule;  *)
(* every schedule is its own initial state, so a counterexample is the      *)
(* prefix of one schedule.                                                  *)
(*                                                                          *)
(* Fields of an observation (all recorded at a quiescent point):            *)
(*   acts/bconns  actions of the batch since the previous observation       *)
(*   srv          "running" | "ok" | "erraccept" | "errmake" | "err" | "panic"*)
(*   sigFired, sigSeq (event number at which the signal future returned     *)
(*   Ready to the server), acceptSeqs (event numbers of accept results Ok), *)
(*   conns[i]: client, coop (client well-behaved so far), faulted (a handler*)
(*   of it was made to fail), eof (client saw the server close), spawnSeq   *)
(*   (driver handed to the executor), told (graceful_shutdown calls), fin / *)
(*   finSeq (connection future ended), reqs[k]: sent (parts 0..4), hstart   *)
(*   (event number of the handler call), complete (client has the whole     *)
(*   response), ...                                                         *)
(* kind = "quiesce": every well-behaved client has sent what it had begun,  *)
(*   every gate is open, every chunk released, everybody kept reading, run  *)
(*   to quiescence.  kind = "final": all clients dropped afterwards.        *)
(***************************************************************************)
EXTENDS Naturals, Sequences, FiniteSets, TLC, Json, IOUtils

Rec == ndJsonDeserialize(IOEnv.TRACE)
N   == Len(Rec)

CONSTANT Which   \* "C07" | "C09": which family of formulas this run decides (set in the .cfg)

VARIABLE l

IsReset(n) == Rec[n].e = "Reset"

Cur     == Rec[l]
IsObs   == ~IsReset(l)
HasPrev == l > 1 /\ ~IsReset(l) /\ ~IsReset(l - 1)
Prev    == Rec[l - 1]
PSrv    == IF HasPrev THEN Prev.srv ELSE "running"
Acts    == {Cur.acts[j] : j \in 1..Len(Cur.acts)}
BConns  == {Cur.bconns[j] : j \in 1..Len(Cur.bconns)}
Conns   == {Cur.conns[j] : j \in 1..Len(Cur.conns)}
Reqs(cn) == {cn.reqs[j] : j \in 1..Len(cn.reqs)}
Good(cn) == cn.coop /\ ~cn.faulted
AtQuiesce == IsObs /\ Cur.kind = "quiesce"
\* the signal fired while the serving future was still pending, and the server has seen it
SigCase == Cur.sigFired /\ Cur.srvAtSignal = "running"

-----------------------------------------------------------------------------
(* C07: graceful shutdown finishes in-flight requests and stops accepting *)

\* no accept result after the instant the signal became ready (event order, not wall time).  The signal
\* becomes ready either between two polls of the serving future (the schedule fires it) or INSIDE a poll,
\* between two accepts of a burst (the make-service fires it on its k-th call: "serve k connections, then
\* stop"): the connection whose make-service call fired it was accepted before that instant and may be
\* served or not; nothing may be accepted after it.
C07_NoAcceptAfterSignal ==
  IsObs /\ Cur.sigFireSeq # 0 => \A j \in 1..Len(Cur.acceptSeqs) : Cur.acceptSeqs[j] < Cur.sigFireSeq
\* ... and nothing new is served: a fresh client after the signal gets no response, no handler runs for
\* it, and no handler starts on a connection that had no driver when the signal was seen
C07_NoServiceAfterSignal ==
  /\ (IsObs /\ Cur.kind = "probe" /\ HasPrev /\ Prev.sigSeq # 0) => (~Cur.probe.served /\ ~Cur.probe.hstarted)
  /\ (IsObs /\ Cur.sigSeq # 0) =>
        \A cn \in Conns : \A q \in Reqs(cn) : q.hstart > Cur.sigSeq => (cn.spawnSeq # 0 /\ cn.spawnSeq < Cur.sigSeq)
\* the serving future completes successfully
C07_ReturnsOk == (AtQuiesce /\ SigCase) => Cur.srv = "ok"
\* every request whose handler had started when the signal was seen gets its complete response
C07_InflightCompletes ==
  (AtQuiesce /\ SigCase /\ Cur.sigSeq # 0) =>
     \A cn \in Conns : \A q \in Reqs(cn) : (q.hstart # 0 /\ q.hstart < Cur.sigSeq /\ Good(cn)) => q.complete
\* every connection open at that point is told to shut down exactly once, finishes and closes
\* (idle keep-alive connections included: they are connections with a driver and nothing in flight)
C07_ToldAtMostOnce == IsObs => \A cn \in Conns : cn.told <= 1
C07_OpenToldAndClosed ==
  (AtQuiesce /\ SigCase /\ Cur.sigSeq # 0) =>
     \A cn \in Conns : (cn.spawnSeq # 0 /\ cn.spawnSeq < Cur.sigSeq /\ Good(cn)) =>
        /\ cn.eof /\ cn.fin # ""
        /\ ((cn.finSeq = 0 \/ cn.finSeq > Cur.sigSeq) => cn.told = 1)
\* once every client is gone every driver task has ended
C07_DriversEnd == (IsObs /\ Cur.kind = "final") => Cur.spawned = Cur.finished

-----------------------------------------------------------------------------
(* C09: one misbehaving connection never takes the server down *)
Global  == {"Signal", "ListenerLost", "MakeFail", "MakeOpen", "Probe"}

\* the serving future leaves "running" only for an allowed cause that exists by then, with the matching
\* result: Ok for the signal, an accept error for the loss of the listener itself, a make-service error
\* for a make-service failure.  (The cause may be older than the step: a lost listener is only noticed
\* at the next accept, which a pending make-service future delays.)
AllowedEnd(o) == \/ (o.srv = "ok" /\ o.sigFired)
                 \/ (o.srv = "erraccept" /\ o.listenerLost)
                 \/ (o.srv = "errmake" /\ o.makeFailed)
C09_SrvStable == (IsObs /\ Cur.srv # PSrv) => AllowedEnd(Cur)
\* ... and stays explained in every later observation
C09_EndsOnlyOnAllowed == (IsObs /\ Cur.srv # "running") => AllowedEnd(Cur)
\* after every step, a fresh well-behaved client is accepted and fully served while the serving future
\* is still pending (not asked for once the signal, listener loss or a make failure happened, nor while
\* the harness's own make-service gate holds the accept loop)
C09_ProbeServed ==
  (IsObs /\ Cur.kind = "probe" /\ HasPrev /\ Prev.srv = "running" /\ ~Prev.sigFired
     /\ ~Prev.listenerLost /\ ~Prev.makeFailed /\ ~Prev.makePending
     /\ ~Cur.sigFired) =>      \* (the probe's own make-service call may be the k-th one, which fires the signal)
       (Cur.probe.served /\ Cur.srv = "running")
\* a step that touches one connection only changes nothing that any other connection observes
\* (deterministic runtime only: with real sockets quiescence is a heuristic)
C09_Isolation ==
  (IsObs /\ HasPrev /\ Cur.kind = "step" /\ Cur.det /\ Acts \cap Global = {} /\ Cardinality(BConns) = 1
     /\ Cur.sigFired = Prev.sigFired) =>     \* (not a step in which the make-service fired the signal)
     \A j \in 1..Len(Cur.conns) : Cur.conns[j].c \notin BConns => Cur.conns[j] = Prev.conns[j]
\* a failure confined to one connection does not keep the runtime from going idle (a connection task
\* that spins starves or slows everybody on the same executor; recorded by the harness's real-time
\* watchdog around its paused-clock settle), and once every client is gone every driver task has ended
C09_Quiescent  == IsObs => ~Cur.stalled
C09_DriversEnd == (IsObs /\ Cur.kind = "final") => Cur.spawned = Cur.finished
\* requests of well-behaved connections: whatever was handed to a handler completes, and while the
\* server is up everything a well-behaved client sent completely is served
C09_OthersServed ==
  AtQuiesce => \A cn \in Conns : Good(cn) => \A q \in Reqs(cn) :
     /\ (q.hstart # 0 => q.complete)
     /\ ((~Cur.sigFired /\ Cur.srv = "running" /\ cn.client = "open" /\ q.sent = 4) => q.complete)

-----------------------------------------------------------------------------
AllC07 == /\ C07_NoAcceptAfterSignal /\ C07_NoServiceAfterSignal /\ C07_ReturnsOk /\ C07_InflightCompletes
          /\ C07_ToldAtMostOnce /\ C07_OpenToldAndClosed /\ C07_DriversEnd
AllC09 == /\ C09_SrvStable /\ C09_EndsOnlyOnAllowed /\ C09_ProbeServed /\ C09_Isolation /\ C09_OthersServed
          /\ C09_Quiescent /\ C09_DriversEnd
Holds  == IF Which = "C07" THEN AllC07 ELSE AllC09

\* every schedule is its own initial state; a schedule is followed up to and including its first observation
\* that falsifies a formula (what comes after is a consequence of it, reported once)
Init == l \in {n \in 1..N : IsReset(n)}
Next == l < N /\ ~IsReset(l + 1) /\ Holds /\ l' = l + 1
Spec == Init /\ [][Next]_l

\* the whole trace was looked at (when nothing was falsified)
Consumed == TLCGet("distinct") = N
=============================================================================
