\* intended behaviour, every m, len, eof, every chunking with <= 4 cuts + all-ones, Pending anywhere
CONSTANTS
    AsBuiltCompare = FALSE
    MaxCuts = 4
    Caps <- MCCaps
    Window <- MCWindow
    GenK = 0
    Tier = "quick"
SPECIFICATION Spec
VIEW viewVars
INVARIANTS TypeOK C08Decision C08Bytes C08Answer C08BytesPrefix SniffBuffer NoStuck FnAgrees
