--------------------------- MODULE EyeballsProps ---------------------------
(* Property formulas of C10 and C11 as constant-level operators over a pair                     *)
(*    v : a scenario     (what the environment does and how the set is configured)              *)
(*    o : an observation (what the happy-eyeballs procedure did)                                *)
(* The SAME operators are                                                                        *)
(*   (a) invariants of the model Eyeballs.tla at terminal states (o built from the model state), *)
(*   (b) evaluated by TLC in EyeballsObs.tla over observations recorded from the REAL            *)
(*       hyperdriver::happy_eyeballs::EyeballSet by harness/src/bin/eyeballs.rs.                 *)
(* Nothing in here refers to how EyeballSet is built (no queue, no FuturesUnordered, no phases). *)
(*                                                                                               *)
(*   v = [ n     : number of candidate attempts (attempt i is the i-th pushed),                  *)
(*         oc    : <<..>> outcome of attempt i once attempted: "ok" | "err" | "never",           *)
(*         lat   : <<..>> latency of attempt i: it accepts/fails lat[i] after it was started,    *)
(*         delay : stagger delay or NONE,  tmo : overall timeout or NONE,                        *)
(*         conc  : initial concurrency or NONE ]                                                 *)
(*   o = [ kind  : "ok" | "err" | "timeout" | "noprogress" | "hang" (never completes) | "panic", *)
(*         id    : the attempt whose connection / error was returned (0 if none),                *)
(*         at    : instant at which the operation completed (the operation starts at 0),         *)
(*         start : <<..>> instant attempt i was started (= first polled), NONE if never,         *)
(*         ord   : <<..>> global rank of that first poll (1,2,..), 0 if never,                   *)
(*         drop  : <<..>> instant attempt i was dropped (conformance only, no property) ]        *)
EXTENDS Integers, Sequences, FiniteSets

NONE == -1

EMin(a, b) == IF a <= b THEN a ELSE b
EMax(a, b) == IF a >= b THEN a ELSE b

Idx(v)        == 1..v.n
Started(v, o) == {i \in Idx(v) : o.start[i] # NONE}
Fin(v, o, i)  == o.start[i] + v.lat[i]          \* instant a started attempt with oc # "never" accepts / fails
Succ(v, o)    == {i \in Started(v, o) : v.oc[i] = "ok"}
Fail(v, o)    == {i \in Started(v, o) : v.oc[i] = "err"}
Running(o, t) == o.kind = "hang" \/ o.at > t     \* the operation is still in progress after instant t

-----------------------------------------------------------------------------
(* C10  "Connecting to a set of candidate addresses yields the connection of the attempt that     *)
(*       succeeds first,                                                                          *)
C10_FirstSuccessWins(v, o) ==
  o.kind = "ok" =>
     /\ o.id \in Succ(v, o)                                   \* a candidate that was attempted and accepts
     /\ Fin(v, o, o.id) <= o.at                               \* ... and had accepted when it was returned
     /\ \A j \in Succ(v, o) : Fin(v, o, j) >= Fin(v, o, o.id)   \* no attempted candidate accepted earlier

(*       and it succeeds whenever some candidate, once attempted, accepts before the configured   *)
(*       overall deadline.                                                                        *)
C10_SucceedsWhenever(v, o) ==
  (\E i \in Succ(v, o) : v.tmo = NONE \/ Fin(v, o, i) < v.tmo) => o.kind = "ok"

(*       It reports failure only after every candidate has been tried and has failed - returning  *)
(*       the first failure observed - or after the overall deadline has expired;                  *)
C10_FailureOnlyAfter(v, o) ==
  /\ o.kind = "err" =>
        /\ v.n > 0 /\ Started(v, o) = Idx(v)                                  \* every candidate tried
        /\ \A i \in Idx(v) : v.oc[i] = "err" /\ Fin(v, o, i) <= o.at          \* ... and has failed
        /\ o.id \in Idx(v)
        /\ \A j \in Idx(v) : Fin(v, o, j) >= Fin(v, o, o.id)                  \* the first failure
  /\ o.kind = "timeout" => v.tmo # NONE /\ o.at >= v.tmo                      \* the deadline has expired
  /\ o.kind = "noprogress" => v.n = 0

(*       with no candidates it fails immediately with a no-progress error."                       *)
C10_NoCandidates(v, o) == v.n = 0 => o.kind = "noprogress" /\ o.at = 0

(* every operation ends in one of the outcomes the statement talks about, or does not end *)
C10_Outcome(v, o) == o.kind \in {"ok", "err", "timeout", "noprogress", "hang"}

C10(v, o) == /\ C10_Outcome(v, o) /\ C10_FirstSuccessWins(v, o) /\ C10_SucceedsWhenever(v, o)
             /\ C10_FailureOnlyAfter(v, o) /\ C10_NoCandidates(v, o)

C10_Clauses(v, o) ==       \* names of the falsified clauses (for the report)
  (IF C10_Outcome(v, o) THEN {} ELSE {"C10_Outcome"}) \cup
  (IF C10_FirstSuccessWins(v, o) THEN {} ELSE {"C10_FirstSuccessWins"}) \cup
  (IF C10_SucceedsWhenever(v, o) THEN {} ELSE {"C10_SucceedsWhenever"}) \cup
  (IF C10_FailureOnlyAfter(v, o) THEN {} ELSE {"C10_FailureOnlyAfter"}) \cup
  (IF C10_NoCandidates(v, o) THEN {} ELSE {"C10_NoCandidates"})

-----------------------------------------------------------------------------
(* C11  "Connection attempts are started in the given order, each candidate at most once,         *)
(*  (at most once: an attempt has ONE start instant in o; the driver's scripted attempt is a      *)
(*   single future value, it cannot be started twice)                                             *)
C11_Order(v, o) ==
  /\ \A i \in Idx(v) : (o.start[i] # NONE) <=> (o.ord[i] > 0)
  /\ \A i, j \in Started(v, o) : i < j => o.ord[i] < o.ord[j] /\ o.start[i] <= o.start[j]
  /\ \A j \in Started(v, o) : \A i \in Idx(v) : i < j => i \in Started(v, o)     \* nobody is skipped

(*       with no more than the configured number started at once initially.                       *)
(*  The first InitialAllowed(v) candidates form the initial batch; every later candidate is a     *)
(*  "further attempt" and needs its own trigger (below).  With concurrency 0 configured nothing   *)
(*  would ever run, so one attempt is allowed initially (reading: max(configured, 1)).            *)
InitialAllowed(v) == IF v.conc = NONE THEN v.n ELSE EMin(v.n, EMax(v.conc, 1))
Further(v)        == {k \in Idx(v) : k > InitialAllowed(v)}

(*       A further attempt is started as soon as the stagger delay has elapsed or a running       *)
(*       attempt has failed, and never earlier;                                                   *)
(*  never earlier: each further start has its own trigger: the stagger delay has elapsed since the *)
(*  previous start, or a failure of an earlier attempt not already used by another further start.  *)
StaggerElapsed(v, o, k) == /\ v.delay # NONE /\ k > 1 /\ o.start[k-1] # NONE
                           /\ o.start[k] >= o.start[k-1] + v.delay
NeedsFailure(v, o, k)   == ~StaggerElapsed(v, o, k)
FailedBy(v, o, k)       == {i \in Fail(v, o) : i < k /\ Fin(v, o, i) <= o.start[k]}
C11_NeverEarlier(v, o) ==
  \A k \in Further(v) \cap Started(v, o) :
     NeedsFailure(v, o, k) =>
        Cardinality({j \in Further(v) \cap Started(v, o) : j <= k /\ NeedsFailure(v, o, j)})
           <= Cardinality(FailedBy(v, o, k))

(*  as soon as (stagger): if the operation is still running after previous-start + delay, the next *)
(*  candidate has been started by then.                                                           *)
C11_AsSoonAsDelay(v, o) ==
  v.delay # NONE =>
    \A k \in Further(v) :
       (k > 1 /\ o.start[k-1] # NONE /\ Running(o, o.start[k-1] + v.delay))
          => (o.start[k] # NONE /\ o.start[k] <= o.start[k-1] + v.delay)

(*  as soon as (failure): at every failure instant T after which the operation is still running,  *)
(*  every failure so far has been answered by one further start (as long as candidates remain).    *)
C11_AsSoonAsFailure(v, o) ==
  \A i \in Fail(v, o) :
     LET T == Fin(v, o, i) IN
     Running(o, T) =>
        Cardinality({k \in Further(v) \cap Started(v, o) : o.start[k] <= T})
           >= EMin(Cardinality({j \in Fail(v, o) : Fin(v, o, j) <= T}), Cardinality(Further(v)))

(*       the whole operation completes no later than the configured overall deadline."            *)
C11_Deadline(v, o) == v.tmo # NONE => o.kind # "hang" /\ o.at <= v.tmo

C11(v, o) == /\ C11_Order(v, o) /\ C11_NeverEarlier(v, o) /\ C11_AsSoonAsDelay(v, o)
             /\ C11_AsSoonAsFailure(v, o) /\ C11_Deadline(v, o)

C11_Clauses(v, o) ==
  (IF C11_Order(v, o) THEN {} ELSE {"C11_Order"}) \cup
  (IF C11_NeverEarlier(v, o) THEN {} ELSE {"C11_NeverEarlier"}) \cup
  (IF C11_AsSoonAsDelay(v, o) THEN {} ELSE {"C11_AsSoonAsDelay"}) \cup
  (IF C11_AsSoonAsFailure(v, o) THEN {} ELSE {"C11_AsSoonAsFailure"}) \cup
  (IF C11_Deadline(v, o) THEN {} ELSE {"C11_Deadline"})

-----------------------------------------------------------------------------
(* The TCP layer (TcpConnecting::connect): OUTCOME-level readings of C10 / C11 for observations       *)
(* taken through the public TcpTransport::connect_to_addrs / Service::call on loopback, and for the   *)
(* terminal states of the model TcpEyeballs.tla.                                                      *)
(*   v = [n, oc : <<..>> per candidate IN THE ORDER THE ATTEMPTS ARE HANDED OVER:                      *)
(*          "ok" (listening), "err" (port refuses), "never" (does not answer),                         *)
(*          "setuperr" (the candidate's local socket set-up - socket(), bind to the configured local   *)
(*                      address - fails; that is this candidate's failure, nobody else's),             *)
(*        tmoMs : happy_eyeballs_timeout or NONE, conc : happy_eyeballs_concurrency or NONE]           *)
(*   o = [kind : "ok" | "err" | "timeout" | "noprogress" | ("hang": model only), id : connected        *)
(*        candidate, errclass : "setup" | "connect" | "" (class of the reported error), elapsedMs]     *)
(* Assumption behind the "must succeed" clauses: loopback answers (accept / refuse / set-up error)     *)
(* take far less than one stagger interval tmoMs / n (>= 1 s in the driver's slow runs).               *)
TcpIdx(v)        == 1..v.n
TcpFailing(v, i) == v.oc[i] \in {"err", "setuperr"}
TcpClass(v, i)   == IF v.oc[i] = "setuperr" THEN "setup" ELSE "connect"
TcpBatch(v)      == IF v.conc = NONE THEN v.n ELSE EMin(v.n, EMax(v.conc, 1))
\* TcpConnecting::connect derives the stagger from the ORIGINAL number of addresses
TcpDelay(v)      == IF v.tmoMs = NONE THEN NONE ELSE IF v.n = 0 THEN v.tmoMs ELSE v.tmoMs \div v.n

Tcp_C10_Outcome(v, o) == \/ o.kind \in {"ok", "err", "timeout", "noprogress"}
                         \/ o.kind = "hang" /\ v.tmoMs = NONE
\* "yields the connection of the attempt that succeeds"
Tcp_C10_FirstSuccessWins(v, o) == o.kind = "ok" => o.id \in TcpIdx(v) /\ v.oc[o.id] = "ok"
\* "succeeds whenever some candidate, once attempted, accepts before the deadline": a listening candidate that
\* has only immediately answering candidates before it is attempted at once (initial batch or failure triggers)
Tcp_C10_SucceedsIfSomeAccepts(v, o) ==
  (\E k \in TcpIdx(v) : v.oc[k] = "ok" /\ \A i \in 1..(k-1) : v.oc[i] # "never") => o.kind = "ok"
\* "reports failure only after every candidate has been tried and has failed - returning the first failure -
\*  or after the overall deadline has expired; with no candidates ... no-progress"
Tcp_C10_FailureOnlyAfterAll(v, o) ==
  /\ o.kind = "err" => /\ v.n > 0 /\ \A i \in TcpIdx(v) : TcpFailing(v, i)
                       /\ o.errclass \in {TcpClass(v, i) : i \in TcpIdx(v)}           \* error mapping: a candidate's own error
  /\ o.kind = "timeout" => v.tmoMs # NONE /\ o.elapsedMs >= v.tmoMs
  /\ (o.kind = "noprogress") <=> (v.n = 0)
  /\ (v.n > 0 /\ \A i \in TcpIdx(v) : TcpFailing(v, i)) => o.kind = "err"            \* refusals are immediate
Tcp_C10(v, o) == /\ Tcp_C10_Outcome(v, o) /\ Tcp_C10_FirstSuccessWins(v, o)
                 /\ Tcp_C10_SucceedsIfSomeAccepts(v, o) /\ Tcp_C10_FailureOnlyAfterAll(v, o)

\* never earlier, one-sided: when the connection came from a candidate beyond the initial batch and all earlier
\* candidates never answer, it cannot have been started before (id - batch) stagger delays of tmoMs / n
Tcp_C11_NeverEarlier(v, o) ==
  (/\ o.kind = "ok" /\ v.tmoMs # NONE /\ o.id > TcpBatch(v)
   /\ \A i \in 1..(o.id - 1) : v.oc[i] = "never")
     => o.elapsedMs >= (o.id - TcpBatch(v)) * TcpDelay(v)
\* as soon as the stagger delay (tmoMs / n) has elapsed: silent candidates in front are bridged by the stagger, so
\* every listening candidate behind silent ones is started at the latest (n - 1) * tmoMs / n after the start,
\* before the deadline (a listening candidate with only answering candidates in front is C10's clause above)
Tcp_C11_AsSoonAsDelay(v, o) ==
  (v.tmoMs # NONE /\ \E k \in TcpIdx(v) : v.oc[k] = "ok" /\ \E i \in 1..(k-1) : v.oc[i] = "never") => o.kind = "ok"
Tcp_C11_Deadline(v, o) == o.kind = "timeout" => v.tmoMs # NONE /\ o.elapsedMs >= v.tmoMs
Tcp_C11(v, o) == Tcp_C11_NeverEarlier(v, o) /\ Tcp_C11_AsSoonAsDelay(v, o) /\ Tcp_C11_Deadline(v, o)

Tcp_Clauses(v, o) ==
  (IF Tcp_C10_Outcome(v, o) THEN {} ELSE {"C10_Outcome"}) \cup
  (IF Tcp_C10_FirstSuccessWins(v, o) THEN {} ELSE {"C10_FirstSuccessWins"}) \cup
  (IF Tcp_C10_SucceedsIfSomeAccepts(v, o) THEN {} ELSE {"C10_SucceedsIfSomeAccepts"}) \cup
  (IF Tcp_C10_FailureOnlyAfterAll(v, o) THEN {} ELSE {"C10_FailureOnlyAfterAll"}) \cup
  (IF Tcp_C11_NeverEarlier(v, o) THEN {} ELSE {"C11_NeverEarlier"}) \cup
  (IF Tcp_C11_AsSoonAsDelay(v, o) THEN {} ELSE {"C11_AsSoonAsDelay"}) \cup
  (IF Tcp_C11_Deadline(v, o) THEN {} ELSE {"C11_Deadline"})
=============================================================================
