INIT ObsInit
NEXT ObsNext
INVARIANT WellFormed
INVARIANT R_NoClear
INVARIANT R_Established
INVARIANT R_Name
INVARIANT R_FailIsError
INVARIANT R_OtherNotWrapped
INVARIANT R_Outcome
INVARIANT R_PoolClass
INVARIANT ObsDrift
POSTCONDITION Consumed
CHECK_DEADLOCK FALSE
CONSTANT KeyMergesWsIntoHttp = FALSE
CONSTANT SetterDropsTls = FALSE
