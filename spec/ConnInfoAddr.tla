---------------------------- MODULE ConnInfoAddr ----------------------------
(***************************************************************************)
(* I5, the small vector part of ConnInfo: what the address and protocol     *)
(* conversions of src/info/mod.rs produce (BraidAddr From / canonical /     *)
(* Display / accessors, ConnectionInfo::map, Protocol parse / Display), as  *)
(* a function of the input.  Init chooses the whole vector, the invariant   *)
(* prints vector and expected outcome; harness bin `conninfo vectors`       *)
(* executes the vectors on the real conversions and ConnInfoObs.tla         *)
(* compares (keys conninfo/I5-vector/<op>).                                 *)
(*                                                                          *)
(* Socket addresses: family v4 | v6 | mapped (an IPv4 address in its        *)
(* IPv4-mapped IPv6 form ::ffff:a.b.c.d, as a dual-stack listener reports   *)
(* it).  Canon maps `mapped` to v4 and leaves the rest alone                *)
(* (stream/tcp.rs make_canonical).                                          *)
(*  From<SocketAddr>            canonicalises                               *)
(*  From<(IpAddr|Ipv4Addr|Ipv6Addr, u16)>  does NOT (as built; noted)       *)
(*  canonical()                 canonicalises a Tcp address, identity else  *)
(*  Display                     Tcp: the socket address; Duplex: <duplex>;  *)
(*                              Unix: unix://<path>, unnamed: unix://       *)
(*  Protocol: parse of the ALPN identifiers; Display prints HTTP/x.y for    *)
(*  the HTTP versions, so Display is not the inverse of parse there.        *)
(***************************************************************************)
EXTENDS Naturals, Sequences, TLC, Json

VARIABLE vec

Fams  == {"v4", "v6", "mapped"}
Ports == {80, 65535}
HostIds == {1, 7}
SockAddrs == [fam : Fams, h : HostIds, port : Ports]
V4(h) == "192.0.2." \o ToString(h)
Str(a) == CASE a.fam = "v4"     -> V4(a.h) \o ":" \o ToString(a.port)
            [] a.fam = "v6"     -> "[2001:db8::" \o ToString(a.h) \o "]:" \o ToString(a.port)
            [] a.fam = "mapped" -> "[::ffff:" \o V4(a.h) \o "]:" \o ToString(a.port)
Canon(a) == IF a.fam = "mapped" THEN [a EXCEPT !.fam = "v4"] ELSE a

Paths == {"/run/app.sock", "relative.sock", "/tmp/with space/s"}
AlpnIds == {"http/0.9", "http/1.0", "http/1.1", "h2", "h3", "gRPC", "WebSocket", "foo", ""}

Blank == [op |-> "", addr |-> "", local |-> "", remote |-> "", path |-> "", s |-> "", clone_per_call |-> FALSE]
Tcp(s)  == [kind |-> "tcp", display |-> s, tcp |-> s, path |-> "", hasPath |-> FALSE]
Unix(p) == [kind |-> "unix", display |-> "unix://" \o p, tcp |-> "", path |-> p, hasPath |-> TRUE]
Unnamed == [kind |-> "unix", display |-> "unix://", tcp |-> "", path |-> "", hasPath |-> FALSE]
Duplex  == [kind |-> "duplex", display |-> "<duplex>", tcp |-> "", path |-> "", hasPath |-> FALSE]

ProtoDisplay(s) == CASE s = "http/0.9" -> "HTTP/0.9" [] s = "http/1.0" -> "HTTP/1.0" [] s = "http/1.1" -> "HTTP/1.1"
                     [] s = "h2" -> "HTTP/2.0" [] s = "h3" -> "HTTP/3.0" [] OTHER -> s
IsHttp(s) == s \in {"http/0.9", "http/1.0", "http/1.1", "h2", "h3"}
ProtoLabel(s) == CASE s = "http/1.1" -> "h1" [] s = "h2" -> "h2" [] OTHER -> "other:" \o ProtoDisplay(s)

\* vector and expected outcome
Case(op, a)   == [v |-> [Blank EXCEPT !.op = op, !.addr = Str(a)],
                  exp |-> Tcp(Str(IF op \in {"from_sockaddr", "canonical"} THEN Canon(a) ELSE a))]
Vectors ==
       {Case(op, a) : op \in {"from_sockaddr", "from_ip_port", "canonical"}, a \in SockAddrs}
  \cup {Case("from_v4_port", a) : a \in {x \in SockAddrs : x.fam = "v4"}}
  \cup {Case("from_v6_port", a) : a \in {x \in SockAddrs : x.fam # "v4"}}
  \cup {[v |-> [Blank EXCEPT !.op = "from_pathbuf", !.path = p], exp |-> Unix(p)] : p \in Paths}
  \cup {[v |-> [Blank EXCEPT !.op = "from_unixaddr", !.path = p], exp |-> Unix(p)] : p \in Paths}
  \cup {[v |-> [Blank EXCEPT !.op = "unnamed"], exp |-> Unnamed], [v |-> [Blank EXCEPT !.op = "from_duplex"], exp |-> Duplex]}
  \cup {[v |-> [Blank EXCEPT !.op = "info_map", !.local = Str(a), !.remote = Str(b)],
         exp |-> [local |-> Str(Canon(a)), remote |-> Str(Canon(b))]] : a, b \in {x \in SockAddrs : x.port = 80}}
  \cup {[v |-> [Blank EXCEPT !.op = "protocol_parse", !.s = s],
         exp |-> [display |-> ProtoDisplay(s), label |-> ProtoLabel(s), roundtrip |-> ~IsHttp(s)]] : s \in AlpnIds}

\* I2 on the layer used directly: every request handled by the per-connection service finds the info, whether the caller
\* clones the service per request (as bridge/service.rs does) or not
DirectVectors == {[v |-> [Blank EXCEPT !.op = "direct_calls", !.clone_per_call = b], exp |-> [first |-> TRUE, second |-> TRUE]] : b \in BOOLEAN}

Init == vec \in Vectors \cup DirectVectors
Next == UNCHANGED vec
Spec == Init /\ [][Next]_vec

\* properties of the function itself
Idempotent == \A a \in SockAddrs : Canon(Canon(a)) = Canon(a)
NoMappedLeft == \A a \in SockAddrs : Canon(a).fam # "mapped"
\* From<SocketAddr> followed by tcp() returns the canonical address; Display of a canonical address parses back to it
RoundTrip == vec.v.op = "from_sockaddr" => vec.exp.tcp = vec.exp.display
Props == Idempotent /\ NoMappedLeft /\ RoundTrip
Emit == PrintT(<<"ADDRVEC", ToJson([op |-> vec.v.op, addr |-> vec.v.addr, local |-> vec.v.local, remote |-> vec.v.remote,
                                    path |-> vec.v.path, s |-> vec.v.s, clone_per_call |-> vec.v.clone_per_call, exp |-> vec.exp])>>)
=============================================================================
