---------------------------- MODULE TcpCallObs ----------------------------
(* Property monitor for C10 / C11 / C17 at the level of one whole transport call.  Reads the ndjson file named by   *)
(* the environment variable TRACE: one record per row executed on the REAL TcpTransport / SimpleTcpTransport on     *)
(* loopback (harness/src/bin/tcpcall.rs),                                                                            *)
(*     {"sid": k, "name": <row name>, "v": <scenario>, "o": <real observation>, ...},                                *)
(* steps through it (Chunk records per step) and evaluates the clause operators of TcpCallProps.tla - the SAME       *)
(* operators that are invariants of the model TcpCall.tla - on every record.  Every falsified record is printed       *)
(* (`VIOL`, with the falsified clause names); at the end of the file C10Holds / C11Holds / C17Holds fail if a record  *)
(* falsified a clause of that property.  This - and only this - decides a VIOLATION.  The cancellation clause is      *)
(* reported separately (CancelHolds): it is not part of a fixed property text.                                       *)
EXTENDS TcpCallProps, TLC, Json, IOUtils

Rec == ndJsonDeserialize(IOEnv.TRACE)
Chunk == 250

VARIABLES l, bad10, bad11, bad17, badCancel

Holds10(r) == KC10_Call(r.v, r.o)
Holds11(r) == KC11_Call(r.v, r.o)
Holds17(r) == KC17_NoPanic(r.v, r.o)
HoldsCn(r) == Cancel(r.v, r.o)

ReportViol(k) == LET r == Rec[k] IN
  PrintT(<<"VIOL", ToJson([k |-> k, sid |-> r.sid, name |-> r.name, c10 |-> Holds10(r), c11 |-> Holds11(r), c17 |-> Holds17(r),
                           cancel |-> HoldsCn(r), clauses |-> Call_Clauses(r.v, r.o)])>>)

Init == l = 0 /\ bad10 = 0 /\ bad11 = 0 /\ bad17 = 0 /\ badCancel = 0
Next == /\ l < Len(Rec)
        /\ LET hi  == IF l + Chunk < Len(Rec) THEN l + Chunk ELSE Len(Rec)
               F10 == {k \in (l + 1)..hi : ~Holds10(Rec[k])}
               F11 == {k \in (l + 1)..hi : ~Holds11(Rec[k])}
               F17 == {k \in (l + 1)..hi : ~Holds17(Rec[k])}
               FCn == {k \in (l + 1)..hi : ~HoldsCn(Rec[k])}
           IN /\ l' = hi
              /\ bad10' = bad10 + Cardinality(F10)
              /\ bad11' = bad11 + Cardinality(F11)
              /\ bad17' = bad17 + Cardinality(F17)
              /\ badCancel' = badCancel + Cardinality(FCn)
              /\ \A k \in F10 \cup F11 \cup F17 \cup FCn : ReportViol(k)

AtEnd       == l = Len(Rec)
Consumed    == AtEnd => PrintT(<<"CONSUMED", l>>)
C10Holds    == AtEnd => bad10 = 0
C11Holds    == AtEnd => bad11 = 0
C17Holds    == AtEnd => bad17 = 0
CancelHolds == AtEnd => badCancel = 0
=============================================================================
