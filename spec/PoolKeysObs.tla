---------------------------- MODULE PoolKeysObs ----------------------------
(* Property monitor for C06 at the key level: every hand-off recorded from the real pool in the        *)
(* many-origins scenario (harness/src/bin/pool.rs manyorigins; model: PoolKeys.tla) delivers a          *)
(* connection that was dialled for the request's own origin (same scheme, host ignoring case, port).    *)
EXTENDS Naturals, Sequences, TLC, Json, IOUtils

Rec == ndJsonDeserialize(IOEnv.TRACE)
N == Len(Rec)
VARIABLES l, viol
Init == l = 0 /\ viol = <<>>
SameOrigin(a, b) == a.scheme = b.scheme /\ a.host = b.host /\ a.port = b.port
Secure(sch) == sch \in {"https", "wss"}
Step == /\ l < N /\ l' = l + 1
        /\ LET e == Rec[l + 1]
               cross == e.e = "Handoff" /\ ~SameOrigin(e.ro, e.co)
               V(tag) == [l |-> l + 1, tag |-> tag, r |-> e.r, c |-> e.c, run |-> 1, base |-> 1, ro |-> e.ro.uri, co |-> e.co.uri]
           IN viol' = viol \o (IF cross THEN <<V("C06:cross-origin-many-keys")>> ELSE <<>>)
                          \* C12 at the same level (TlsRoute.tla P_PoolClass): a request of the secure scheme class is never
                          \* served by a connection that was dialled for an insecure origin
                          \o (IF cross /\ Secure(e.ro.scheme) /\ ~Secure(e.co.scheme)
                              THEN <<V("C12:secure-request-on-plaintext-connection-many-keys")>> ELSE <<>>)
Spec == Init /\ [][Step]_<<l, viol>>
Consumed == TLCGet("stats").diameter - 1 = N
Report == l = N => PrintT(<<"VIOL", ToJson(viol)>>)
=============================================================================
