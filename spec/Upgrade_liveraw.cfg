\* Upgrade liveness, raw client
SPECIFICATION FairSpec
CONSTANTS
  KindVecs <- VecsBugRaw
  MaxConn = 3
  Server = "auto"
  Client = "raw"
  HL = 2
  SniffMax = 3
  MaxW = 4
  WSizes <- W1
  MaxEnv = 1
  HoldSets <- Hold01
  DHoldSets <- DHold0
  AllowShutdown = TRUE
  AllowDrop = FALSE
  Quiescent = FALSE
  Bug = "none"
PROPERTIES
  U5_OnResolves U5_Completes U5_TunnelDrains
