CONSTANTS
  Req <- MCReq3
  Conn <- MCConn2
  Origin <- MCOrigin1
  Versions <- MCH1
  Buggy <- MCBugNoPoison
  AllowBreak = FALSE
  AllowUpgrade = FALSE
INIT Init
NEXT Next
INVARIANTS TypeOK
PROPERTIES Matched
CHECK_DEADLOCK FALSE
