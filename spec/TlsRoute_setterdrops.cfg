SPECIFICATION Spec
INVARIANT SetterDropsHolds
CHECK_DEADLOCK FALSE
CONSTANT KeyMergesWsIntoHttp = FALSE
CONSTANT SetterDropsTls = TRUE
