SPECIFICATION Spec
CONSTANTS
  NConn = 3
  MaxReq = 1
  MaxReq2 = 1
  Protos <- AllProtos
  TlsModes <- OnlyFalse
  MakeModes <- OnlyFalse
  MaxFaults = 0
  AsBuiltD8 = FALSE
  SigOnMake <- SigSome
  Hoisted = FALSE
  GenMode = FALSE
  GenLen = 0
INVARIANTS TypeOK C07_OkIffSignal C07_InflightCompletes C07_ToldAtMostOnce C07_OpenToldAndClosed C07_IdleCloses C07_NoNewService C09_EndsOnlyOnAllowed C09_EndCauseConsistent C09_OthersServed
PROPERTIES C07_NoAcceptAfterSignal C09_FaultLocal
