---------------------------- MODULE PoolKeysInd ----------------------------
(***************************************************************************)
(* Unbounded safety of the key -> token map (PoolKeys.tla, as-built        *)
(* variant) by an inductive invariant, discharged with Apalache:            *)
(*   apalache-mc check --init=Init   --inv=IndInv --length=0  PoolKeysInd.tla   (Init => IndInv)        *)
(*   apalache-mc check --init=IndInit --inv=IndInv --length=1 PoolKeysInd.tla   (IndInv /\ Next => IndInv') *)
(*   IndInv => NoSharedToken /\ Injective is immediate (conjuncts).          *)
(* Keys is an arbitrary finite set of strings (CInit fixes six; the         *)
(* argument does not depend on the number), the counter is unbounded.       *)
(***************************************************************************)
EXTENDS Integers, FiniteSets, Apalache

CONSTANT
  \* @type: Set(Str);
  Keys

VARIABLES
  \* @type: Str -> Int;
  map,
  \* @type: Int;
  counter,
  \* @type: Int -> Str;
  filed

CInit == Keys = {"k1", "k2", "k3", "k4", "k5", "k6"}

Init == map = [k \in {} |-> 0] /\ counter = 1 /\ filed = [t \in {} |-> ""]

Checkout(k) ==
  LET t == IF k \in DOMAIN map THEN map[k] ELSE counter IN
  /\ map' = IF k \in DOMAIN map THEN map ELSE [x \in DOMAIN map \cup {k} |-> IF x = k THEN counter ELSE map[x]]
  /\ counter' = IF k \in DOMAIN map THEN counter ELSE counter + 1
  /\ filed' = IF t \in DOMAIN filed THEN filed ELSE [x \in DOMAIN filed \cup {t} |-> IF x = t THEN k ELSE filed[x]]

Next == \E k \in Keys : Checkout(k)

NoSharedToken == \A k \in DOMAIN map : map[k] \in DOMAIN filed => filed[map[k]] = k
Injective == \A a, b \in DOMAIN map : map[a] = map[b] => a = b

IndInv ==
  /\ DOMAIN map \subseteq Keys
  /\ counter >= 1
  /\ \A k \in DOMAIN map : map[k] >= 1 /\ map[k] < counter
  /\ \A t \in DOMAIN filed : t >= 1 /\ t < counter
  /\ \A t \in DOMAIN filed : filed[t] \in DOMAIN map /\ map[filed[t]] = t
  /\ Injective
  /\ NoSharedToken

\* an arbitrary state satisfying the invariant (Gen: any value of the type, functions with up to 7 pairs)
IndInit == /\ map = Gen(7) /\ counter = Gen(1) /\ filed = Gen(7)
           /\ IndInv
=============================================================================
