INIT Init
NEXT Next
INVARIANTS Consumed
CHECK_DEADLOCK FALSE
