------------------------------- MODULE Duplex -------------------------------
(***************************************************************************)
(* The in-process duplex transport of hyperdriver                          *)
(*   src/stream/duplex.rs   DuplexClient::connect, DuplexConnectionRequest::ack, DuplexIncoming              *)
(*                          (as `Accept` and as `Stream`), pair(), DuplexStream, with_max_buf_size           *)
(*   src/client/conn/transport/duplex.rs   DuplexTransport (tower Service<Parts>: clone the client, connect) *)
(* structured like the code:                                               *)
(*                                                                         *)
(*   pair()      one bounded mpsc channel of connection requests (capacity Cap = 32 in the code) shared by   *)
(*               every clone of the DuplexClient (`handles` user-held clones; every connect future in flight *)
(*               owns one more clone: DuplexTransport::call clones, `connect(&self)` borrows)                *)
(*   connect     (1) send the request {oneshot ack sender, max_buf_size}: take a permit of the channel's     *)
(*               FIFO semaphore or park in its wait queue (`sem`); a parked sender is GRANTED the permit the *)
(*               receiver releases and pushes its request when it is polled next; (2) await the oneshot:     *)
(*               Ok(client half) | ConnectionReset when the request was dropped unanswered                   *)
(*   poll_accept loop { recv: Some(request) -> ack: create the pipe pair with                                *)
(*               min(listener's max_buf_size, request's max_buf_size), send the client half through the      *)
(*               request's oneshot; Ok -> return the server half; the client went away -> skip, next;        *)
(*               None (every sender gone, queue empty) -> Err(ConnectionReset) / end of the Stream }         *)
(*   drop of the DuplexIncoming: the channel closes, parked and later senders fail, queued requests are      *)
(*               dropped (their clients get ConnectionReset)                                                 *)
(*   DuplexStream = one end of a pair of bounded byte pipes (tokio::io::duplex): a write takes               *)
(*               min(n, room), parks when there is no room, fails with BrokenPipe once the direction is      *)
(*               closed (own shutdown, or the peer end dropped); a read takes min(cap, buffered), reports    *)
(*               EOF when the buffer is empty and the direction closed, parks otherwise.                     *)
(*                                                                         *)
(* Every client makes ONE connect (more connects = more clients).  Bytes are numbered per direction: the    *)
(* i-th byte written into a direction IS the number i, so a direction is two counters (W written, R read)   *)
(* and the buffered bytes are R+1..W.  Wake-ups are explicit: a parked party registers, the event that lets *)
(* it proceed fires the registration and sets the party's `woken` flag (what a counting waker sees).        *)
(*                                                                         *)
(* `Variant` selects seeded defects of the design (vacuity guard; "ok" is the design as built):             *)
(*   "ackerr"    a request whose client went away is returned as an accept error (the old D8 behaviour)      *)
(*   "srvbuf"    the pipe is sized by the listener's max_buf_size alone when it is set                       *)
(*   "crosshalf" the client half made for a cancelled request is kept and handed to the next client          *)
(*   "lifo"      the listener serves the newest live request first                                          *)
(*   "dropnext"  skipping a cancelled request also discards the request behind it                            *)
(***************************************************************************)
EXTENDS Naturals, Sequences, FiniteSets, TLC

CONSTANTS NCli,        \* clients 1..NCli
          Cap,         \* capacity of the request channel (32 in the code)
          MaxHandles,  \* bound on simultaneously live user-held DuplexClient handles
          BufSizes,    \* max_buf_size values passed to connect (>= 1)
          LBufs,       \* the listener's with_max_buf_size; 0 = not set
          MaxBytes,    \* bound on the bytes written per direction
          WriteLens,   \* lengths offered to poll_write
          ReadCaps,    \* capacities offered to poll_read
          DataClients, \* requests whose pipe may carry data operations (state-space control)
          Spurious,    \* polls without a preceding wake-up are allowed
          Variant

Clients == 1..NCli
Live == {"new", "parked", "granted", "queued"}     \* the connect future exists and is unresolved
Sides == {"cli", "srv"}

VARIABLES
  handles,   \* number of user-held DuplexClient handles (clones of the sender)
  lst,       \* "open" | "dropped": the DuplexIncoming
  lbuf,      \* its max_buf_size (0 = None)
  lneed,     \* the accept loop should poll: never polled yet / last poll returned a connection / its waker fired
  lw,        \* the receiver has a registered waker (last poll_recv returned Pending and nothing fired it yet)
  cst,       \* client -> "idle" | "new" (future created, never polled) | "parked" | "granted" | "queued" | "ok" | "err" | "cancelled"
  cB,        \* client -> max_buf_size it asked for
  cw,        \* client -> its task should be polled (just created / waker fired since the last poll)
  ack,       \* client -> "none" | "sent" (client half sent through the oneshot) | "lost" (request dropped unanswered)
  cend,      \* client -> pipe whose client half was sent to it (0 = none)
  sem,       \* FIFO wait queue of the channel's semaphore (clients parked in send)
  permits,   \* free permits of the channel = Cap - queued requests - granted-but-unpushed
  q,         \* the request channel: clients whose request is queued (a cancelled client's request stays)
  acc,       \* results returned by poll_accept so far: [ok, p (pipe whose server half was returned), req]
  pipe,      \* pipe id (= id of the request that created it) -> the pair of byte pipes and its two ends
  spare,     \* Variant "crosshalf" only: pipe whose client half the listener kept
  ev         \* the event of the last step (for trace validation and generation)

vars == <<handles, lst, lbuf, lneed, lw, cst, cB, cw, ack, cend, sem, permits, q, acc, pipe, spare, ev>>
cvars == <<cst, cB, cw, ack, cend, sem, permits, q>>

Min2(a, b) == IF a <= b THEN a ELSE b
SetMin(S) == CHOOSE x \in S : \A y \in S : x <= y
SetMax(S) == CHOOSE x \in S : \A y \in S : x >= y

NoDir == [W |-> 0, R |-> 0, closed |-> FALSE, rwk |-> FALSE, wwk |-> FALSE]
NoWk == [r |-> FALSE, w |-> FALSE]
NoPipe == [made |-> FALSE, B |-> 0, c2s |-> NoDir, s2c |-> NoDir, cli |-> "none", srv |-> "none",
           wk |-> [cli |-> NoWk, srv |-> NoWk]]
NoEv == [e |-> "Init", c |-> 0, k |-> 0, s |-> "", a |-> 0, res |-> "", m |-> 0, lo |-> 0]
Ev(e, c, k, s, a, res, m, lo) == [e |-> e, c |-> c, k |-> k, s |-> s, a |-> a, res |-> res, m |-> m, lo |-> lo]

Out(s) == IF s = "cli" THEN "c2s" ELSE "s2c"     \* the direction side s writes into
In(s) == IF s = "cli" THEN "s2c" ELSE "c2s"      \* the direction side s reads from
Other(s) == IF s = "cli" THEN "srv" ELSE "cli"

LiveSet(st) == {c \in Clients : st[c] \in Live}
SendersOf(h, st) == h + Cardinality(LiveSet(st))
Senders == SendersOf(handles, cst)               \* clones of the mpsc sender in existence

Init ==
  /\ handles = 1 /\ lst = "open" /\ lbuf \in LBufs /\ lneed = TRUE /\ lw = FALSE
  /\ cst = [c \in Clients |-> "idle"] /\ cB = [c \in Clients |-> 0] /\ cw = [c \in Clients |-> FALSE]
  /\ ack = [c \in Clients |-> "none"] /\ cend = [c \in Clients |-> 0]
  /\ sem = <<>> /\ permits = Cap /\ q = <<>> /\ acc = <<>>
  /\ pipe = [c \in Clients |-> NoPipe] /\ spare = 0 /\ ev = NoEv

-----------------------------------------------------------------------------
(* Byte pipes (tokio::io::duplex): pure functions on one pipe record         *)

Room(P, o) == P.B - (P[o].W - P[o].R)

\* poll_write of n bytes by side s
WRes(P, s, n) == IF P[Out(s)].closed THEN "err" ELSE IF Room(P, Out(s)) = 0 THEN "pending" ELSE "ok"
WTaken(P, s, n) == IF WRes(P, s, n) = "ok" THEN Min2(n, Room(P, Out(s))) ELSE 0
WNew(P, s, n) ==
  LET o == Out(s) IN
  CASE WRes(P, s, n) = "err" -> [P EXCEPT !.wk[s].w = FALSE]
    [] WRes(P, s, n) = "pending" -> [P EXCEPT ![o].wwk = TRUE, !.wk[s].w = FALSE]
    [] OTHER -> \* the reader's registration fires whenever the write goes through (also for 0 bytes)
                [P EXCEPT ![o].W = @ + WTaken(P, s, n), ![o].rwk = FALSE,
                          !.wk[Other(s)].r = @ \/ P[o].rwk, !.wk[s].w = FALSE]

\* poll_read with capacity cap by side s
RRes(P, s, cap) == IF P[In(s)].W > P[In(s)].R THEN "ok" ELSE IF P[In(s)].closed THEN "eof" ELSE "pending"
RTaken(P, s, cap) == IF RRes(P, s, cap) = "ok" THEN Min2(cap, P[In(s)].W - P[In(s)].R) ELSE 0
RNew(P, s, cap) ==
  LET i == In(s) m == RTaken(P, s, cap) IN
  CASE RRes(P, s, cap) = "pending" -> [P EXCEPT ![i].rwk = TRUE, !.wk[s].r = FALSE]
    [] RRes(P, s, cap) = "eof" -> [P EXCEPT !.wk[s].r = FALSE]
    [] OTHER -> \* the parked writer is woken only when bytes were really moved
                [P EXCEPT ![i].R = @ + m, ![i].wwk = IF m > 0 THEN FALSE ELSE @,
                          !.wk[Other(s)].w = @ \/ (m > 0 /\ P[i].wwk), !.wk[s].r = FALSE]

\* poll_shutdown by side s: close_write on its outgoing direction
SNew(P, s) == [P EXCEPT ![Out(s)].closed = TRUE, ![Out(s)].rwk = FALSE, !.wk[Other(s)].r = @ \/ P[Out(s)].rwk]

\* drop of the end held by side s: close_write on its outgoing, close_read on its incoming direction
\* (its own registrations and flags are forgotten: nobody can observe them any more)
DNew(P, s) ==
  [P EXCEPT ![s] = "dropped",
            ![Out(s)] = [@ EXCEPT !.closed = TRUE, !.rwk = FALSE, !.wwk = FALSE],
            ![In(s)] = [@ EXCEPT !.closed = TRUE, !.wwk = FALSE, !.rwk = FALSE],
            !.wk = [@ EXCEPT ![s] = NoWk,
                             ![Other(s)] = [r |-> @.r \/ P[Out(s)].rwk, w |-> @.w \/ P[In(s)].wwk]]]

FreshPipe(B) == [NoPipe EXCEPT !.made = TRUE, !.B = B, !.cli = "flight", !.srv = "held"]

-----------------------------------------------------------------------------
(* The listener's waker: fired by a push, and by the drop of the last sender  *)
ListenerAfter(push, h2, st2) ==
  LET fire == lw /\ lst = "open" /\ (push \/ SendersOf(h2, st2) = 0) IN
  /\ lneed' = (lneed \/ fire)
  /\ lw' = (lw /\ ~fire)

\* n permits are released: the first waiters of the semaphore are granted one each, the rest goes back
GrantSet(n) == {sem[i] : i \in 1..Min2(n, Len(sem))}
SemAfter(n) == SubSeq(sem, Min2(n, Len(sem)) + 1, Len(sem))
PermitsAfter(n) == permits + (n - Min2(n, Len(sem)))

-----------------------------------------------------------------------------
(* DuplexClient handles                                                      *)
CloneHandle ==
  /\ handles > 0 /\ handles < MaxHandles
  /\ handles' = handles + 1
  /\ ev' = Ev("Clone", 0, 0, "", 0, "", 0, 0)
  /\ UNCHANGED <<lst, lbuf, lneed, lw, cvars, acc, pipe, spare>>

DropHandle ==
  /\ handles > 0
  /\ handles' = handles - 1
  /\ ListenerAfter(FALSE, handles - 1, cst)
  /\ ev' = Ev("DropHandle", 0, 0, "", 0, "", 0, 0)
  /\ UNCHANGED <<lst, lbuf, cvars, acc, pipe, spare>>

-----------------------------------------------------------------------------
(* connect                                                                   *)

\* DuplexTransport::call / an owned `client.connect(B)`: the future is created (with its own clone), not polled
Start(c, B) ==
  /\ cst[c] = "idle" /\ handles > 0
  /\ (c \notin DataClients => B = SetMin(BufSizes))     \* (the size matters only where data flows: state-space control)
  /\ cst' = [cst EXCEPT ![c] = "new"] /\ cB' = [cB EXCEPT ![c] = B] /\ cw' = [cw EXCEPT ![c] = TRUE]
  /\ ev' = Ev("Start", c, 0, "", B, "", 0, 0)
  /\ UNCHANGED <<handles, lst, lbuf, lneed, lw, ack, cend, sem, permits, q, acc, pipe, spare>>

\* one poll of the connect future
Poll(c) ==
  /\ cst[c] \in Live
  /\ (Spurious \/ cw[c])
  /\ LET st == cst[c] IN
     CASE st \in {"new", "parked", "granted"} /\ lst = "dropped" ->
            \* the channel is closed: send fails, ConnectionReset
            /\ cst' = [cst EXCEPT ![c] = "err"] /\ cw' = [cw EXCEPT ![c] = FALSE]
            /\ ev' = Ev("Poll", c, 0, "", 0, "err", 0, 0)
            /\ UNCHANGED <<handles, lst, lbuf, lneed, lw, cB, ack, cend, sem, permits, q, acc, pipe, spare>>
       [] st = "new" /\ lst = "open" /\ permits = 0 ->
            \* no room in the channel: park in the semaphore's wait queue
            /\ cst' = [cst EXCEPT ![c] = "parked"] /\ cw' = [cw EXCEPT ![c] = FALSE]
            /\ sem' = Append(sem, c)
            /\ ev' = Ev("Poll", c, 0, "", 0, "pending", 0, 0)
            /\ UNCHANGED <<handles, lst, lbuf, lneed, lw, cB, ack, cend, permits, q, acc, pipe, spare>>
       [] st \in {"new", "granted"} /\ lst = "open" /\ (st = "granted" \/ permits > 0) ->
            \* the request enters the channel (the receiver's waker fires), then the oneshot is awaited
            /\ cst' = [cst EXCEPT ![c] = "queued"] /\ cw' = [cw EXCEPT ![c] = FALSE]
            /\ permits' = IF st = "new" THEN permits - 1 ELSE permits
            /\ q' = Append(q, c)
            /\ ListenerAfter(TRUE, handles, cst')
            /\ ev' = Ev("Poll", c, 0, "", 0, "pending", 0, 0)
            /\ UNCHANGED <<handles, lst, lbuf, cB, ack, cend, sem, acc, pipe, spare>>
       [] st = "parked" /\ lst = "open" ->
            /\ cw' = [cw EXCEPT ![c] = FALSE]
            /\ ev' = Ev("Poll", c, 0, "", 0, "pending", 0, 0)
            /\ UNCHANGED <<handles, lst, lbuf, lneed, lw, cst, cB, ack, cend, sem, permits, q, acc, pipe, spare>>
       [] st = "queued" /\ ack[c] = "none" ->
            /\ cw' = [cw EXCEPT ![c] = FALSE]
            /\ ev' = Ev("Poll", c, 0, "", 0, "pending", 0, 0)
            /\ UNCHANGED <<handles, lst, lbuf, lneed, lw, cst, cB, ack, cend, sem, permits, q, acc, pipe, spare>>
       [] st = "queued" /\ ack[c] = "sent" ->
            \* Ok(stream): the client half leaves the oneshot; the future (and its sender clone) is gone
            /\ cst' = [cst EXCEPT ![c] = "ok"] /\ cw' = [cw EXCEPT ![c] = FALSE]
            /\ pipe' = [pipe EXCEPT ![cend[c]].cli = IF @ = "flight" THEN "held" ELSE @]
            /\ ListenerAfter(FALSE, handles, cst')
            /\ ev' = Ev("Poll", c, 0, "", 0, "ok", 0, 0)
            /\ UNCHANGED <<handles, lst, lbuf, cB, ack, cend, sem, permits, q, acc, spare>>
       [] st = "queued" /\ ack[c] = "lost" ->
            /\ cst' = [cst EXCEPT ![c] = "err"] /\ cw' = [cw EXCEPT ![c] = FALSE]
            /\ ListenerAfter(FALSE, handles, cst')
            /\ ev' = Ev("Poll", c, 0, "", 0, "err", 0, 0)
            /\ UNCHANGED <<handles, lst, lbuf, cB, ack, cend, sem, permits, q, acc, pipe, spare>>

\* the connect future is dropped before it resolved
Cancel(c) ==
  /\ cst[c] \in Live
  /\ cst' = [c2 \in Clients |-> IF c2 = c THEN "cancelled"
                                 ELSE IF cst[c] = "granted" /\ lst = "open" /\ sem # <<>> /\ c2 = Head(sem) THEN "granted"
                                 ELSE cst[c2]]
  /\ cw' = [c2 \in Clients |-> IF c2 = c THEN FALSE
                                ELSE IF cst[c] = "granted" /\ lst = "open" /\ sem # <<>> /\ c2 = Head(sem) THEN TRUE
                                ELSE cw[c2]]
  /\ sem' = IF cst[c] = "parked" THEN SelectSeq(sem, LAMBDA x : x # c)
            ELSE IF cst[c] = "granted" /\ lst = "open" /\ sem # <<>> THEN Tail(sem)
            ELSE sem
  /\ permits' = IF cst[c] = "granted" /\ lst = "open" /\ sem = <<>> THEN permits + 1 ELSE permits
  \* a client half already sitting in the oneshot is dropped with it
  /\ pipe' = IF cst[c] = "queued" /\ ack[c] = "sent" /\ pipe[cend[c]].cli = "flight"
             THEN [pipe EXCEPT ![cend[c]] = DNew(@, "cli")] ELSE pipe
  /\ ListenerAfter(FALSE, handles, cst')
  /\ ev' = Ev("Cancel", c, 0, "", 0, cst[c], 0, 0)
  /\ UNCHANGED <<handles, lst, lbuf, cB, ack, cend, q, acc, spare>>

-----------------------------------------------------------------------------
(* the listener                                                              *)

AliveReq(c) == cst[c] = "queued" /\ ack[c] = "none"      \* queued and its oneshot receiver still exists
AliveIdx == {i \in 1..Len(q) : AliveReq(q[i])}
PipeSize(c) == IF lbuf = 0 THEN cB[c]
               ELSE IF Variant = "srvbuf" THEN lbuf
               ELSE Min2(lbuf, cB[c])

\* one call of poll_accept (or poll_next): the whole recv/ack loop
Ended == acc # <<>> /\ ~acc[Len(acc)].ok      \* the accept loop got an error: it does not poll again
Accept ==
  /\ lst = "open" /\ ~Ended
  /\ (Spurious \/ lneed)
  /\ IF Variant = "ackerr" /\ q # <<>> /\ ~AliveReq(q[1])
     THEN \* as built before the D8 repair: the failed ack is returned as the accept error
          /\ q' = Tail(q)
          /\ cst' = [c \in Clients |-> IF c \in GrantSet(1) THEN "granted" ELSE cst[c]]
          /\ cw' = [c \in Clients |-> IF c \in GrantSet(1) THEN TRUE ELSE cw[c]]
          /\ sem' = SemAfter(1) /\ permits' = PermitsAfter(1)
          /\ acc' = Append(acc, [ok |-> FALSE, p |-> 0, req |-> 0])
          /\ lneed' = FALSE /\ lw' = lw
          /\ ev' = Ev("Accept", 0, Len(acc) + 1, "", 0, "err", 0, 0)
          /\ UNCHANGED <<handles, lst, lbuf, cB, ack, cend, pipe, spare>>
     ELSE
     LET k0 == IF AliveIdx = {} THEN 0 ELSE IF Variant = "lifo" THEN SetMax(AliveIdx) ELSE SetMin(AliveIdx)
         \* "dropnext": a cancelled request in front makes the listener discard the live one behind it as well
         dn == Variant = "dropnext" /\ k0 > 1
         k == IF ~dn THEN k0 ELSE IF \E j \in AliveIdx : j > k0 THEN SetMin({j \in AliveIdx : j > k0}) ELSE 0
         lifo == Variant = "lifo" /\ k # 0
         npop == IF lifo THEN 1 ELSE IF k = 0 THEN Len(q) ELSE k
         gone == IF lifo THEN {} ELSE {q[i] : i \in (1..npop) \ {k}}
         c == IF k = 0 THEN 0 ELSE q[k]
         cross == Variant = "crosshalf" /\ k > 1
         d == IF cross THEN q[k - 1] ELSE 0
     IN
     /\ q' = IF lifo THEN SubSeq(q, 1, k - 1) \o SubSeq(q, k + 1, Len(q)) ELSE SubSeq(q, npop + 1, Len(q))
     /\ sem' = SemAfter(npop) /\ permits' = PermitsAfter(npop)
     /\ cst' = [x \in Clients |-> IF x \in GrantSet(npop) THEN "granted" ELSE cst[x]]
     /\ ack' = [x \in Clients |-> IF x = c THEN "sent" ELSE IF x \in gone /\ AliveReq(x) THEN "lost" ELSE ack[x]]
     /\ cw' = [x \in Clients |-> IF x \in GrantSet(npop) \/ x = c \/ (x \in gone /\ AliveReq(x)) THEN TRUE ELSE cw[x]]
     /\ IF k # 0
        THEN /\ acc' = Append(acc, [ok |-> TRUE, p |-> c, req |-> c])
             /\ IF cross
                THEN /\ cend' = [cend EXCEPT ![c] = d]
                     /\ pipe' = [pipe EXCEPT ![d] = DNew(FreshPipe(cB[d]), "srv"),
                                             ![c] = DNew(FreshPipe(PipeSize(c)), "cli")]
                ELSE /\ cend' = [cend EXCEPT ![c] = c]
                     /\ pipe' = [pipe EXCEPT ![c] = FreshPipe(PipeSize(c))]
             /\ lneed' = TRUE /\ lw' = lw
             /\ ev' = Ev("Accept", c, Len(acc) + 1, "", 0, "ok", 0, 0)
        ELSE /\ cend' = cend /\ pipe' = pipe
             /\ IF Senders = 0
                THEN /\ acc' = Append(acc, [ok |-> FALSE, p |-> 0, req |-> 0])
                     /\ lneed' = FALSE /\ lw' = lw
                     /\ ev' = Ev("Accept", 0, Len(acc) + 1, "", 0, "err", 0, 0)
                ELSE /\ acc' = acc
                     /\ lneed' = FALSE /\ lw' = TRUE
                     /\ ev' = Ev("Accept", 0, 0, "", 0, "pending", 0, 0)
     /\ UNCHANGED <<handles, lst, lbuf, cB, spare>>

\* the DuplexIncoming is dropped: the channel closes and is drained
DropListener ==
  /\ lst = "open"
  /\ lst' = "dropped" /\ lneed' = FALSE /\ lw' = FALSE
  /\ ack' = [c \in Clients |-> IF \E i \in 1..Len(q) : q[i] = c /\ AliveReq(c) THEN "lost" ELSE ack[c]]
  /\ cw' = [c \in Clients |-> IF (\E i \in 1..Len(q) : q[i] = c /\ AliveReq(c)) \/ cst[c] = "parked" THEN TRUE ELSE cw[c]]
  /\ q' = <<>> /\ sem' = <<>> /\ permits' = 0
  /\ ev' = Ev("DropListener", 0, 0, "", 0, "", 0, 0)
  /\ UNCHANGED <<handles, lbuf, cst, cB, cend, acc, pipe, spare>>

-----------------------------------------------------------------------------
(* data on an established stream.  An end is named by its holder: ("cli", c) is the stream connect returned *)
(* to client c, ("srv", k) the stream the k-th result of poll_accept carried.                               *)

HasEnd(s, i) == IF s = "cli" THEN i \in Clients /\ cst[i] = "ok" /\ cend[i] # 0 /\ pipe[cend[i]].cli = "held"
                ELSE i \in 1..Len(acc) /\ acc[i].ok /\ pipe[acc[i].p].srv = "held"
PipeOf(s, i) == IF s = "cli" THEN cend[i] ELSE acc[i].p
EndIds(s) == IF s = "cli" THEN Clients ELSE 1..Len(acc)
DataOK(s, i) == HasEnd(s, i) /\ PipeOf(s, i) \in DataClients
EvEnd(e, s, i, a, res, m, lo) == Ev(e, IF s = "cli" THEN i ELSE 0, IF s = "srv" THEN i ELSE 0, s, a, res, m, lo)

Write(s, i, n) ==
  /\ DataOK(s, i)
  /\ LET p == PipeOf(s, i) P == pipe[p] IN
     /\ P[Out(s)].W + n <= MaxBytes
     /\ pipe' = [pipe EXCEPT ![p] = WNew(P, s, n)]
     /\ ev' = EvEnd("Write", s, i, n, WRes(P, s, n), WTaken(P, s, n), P[Out(s)].W)
  /\ UNCHANGED <<handles, lst, lbuf, lneed, lw, cvars, acc, spare>>

Read(s, i, cap) ==
  /\ DataOK(s, i)
  /\ LET p == PipeOf(s, i) P == pipe[p] IN
     /\ pipe' = [pipe EXCEPT ![p] = RNew(P, s, cap)]
     /\ ev' = EvEnd("Read", s, i, cap, RRes(P, s, cap), RTaken(P, s, cap), P[In(s)].R)
  /\ UNCHANGED <<handles, lst, lbuf, lneed, lw, cvars, acc, spare>>

Shutdown(s, i) ==
  /\ DataOK(s, i)
  /\ LET p == PipeOf(s, i) IN
     /\ ~pipe[p][Out(s)].closed         \* (a second shutdown changes nothing)
     /\ pipe' = [pipe EXCEPT ![p] = SNew(@, s)]
     /\ ev' = EvEnd("Shutdown", s, i, 0, "ok", 0, 0)
  /\ UNCHANGED <<handles, lst, lbuf, lneed, lw, cvars, acc, spare>>

DropEnd(s, i) ==
  /\ HasEnd(s, i)
  /\ LET p == PipeOf(s, i) IN
     /\ pipe' = [pipe EXCEPT ![p] = DNew(@, s)]
     /\ ev' = EvEnd("DropEnd", s, i, 0, "", 0, 0)
  /\ UNCHANGED <<handles, lst, lbuf, lneed, lw, cvars, acc, spare>>

-----------------------------------------------------------------------------
\* S = the clients that may take client actions (generation restricts it; model checking uses all)
NextC(S) == \/ CloneHandle
            \/ DropHandle
            \/ \E c \in S : \E B \in BufSizes : Start(c, B)
            \/ \E c \in S : Poll(c)
            \/ \E c \in S : Cancel(c)
            \/ Accept
            \/ DropListener
            \/ \E s \in Sides : \E i \in EndIds(s) : \E n \in WriteLens : Write(s, i, n)
            \/ \E s \in Sides : \E i \in EndIds(s) : \E cap \in ReadCaps : Read(s, i, cap)
            \/ \E s \in Sides : \E i \in EndIds(s) : Shutdown(s, i)
            \/ \E s \in Sides : \E i \in EndIds(s) : DropEnd(s, i)
Next == NextC(Clients)

\* fairness of an executor: a task whose waker fired (or that was just spawned) is polled; the accept loop
\* polls again after every connection and when it was woken; a reader that has data or EOF waiting reads.
Fair == /\ WF_vars(lneed /\ Accept)
        /\ \A c \in Clients : WF_vars(cw[c] /\ Poll(c))
Spec == Init /\ [][Next]_vars /\ Fair

-----------------------------------------------------------------------------
(* The observable state (what the harness sees of the real objects)           *)
OSt(st) == IF st \in {"parked", "granted", "queued"} THEN "pending" ELSE st
EndObs(P, s) == IF P[s] = "held" THEN [st |-> "held", r |-> P.wk[s].r, w |-> P.wk[s].w]
                ELSE [st |-> IF P[s] = "dropped" THEN "dropped" ELSE "none", r |-> FALSE, w |-> FALSE]
Obs == [handles |-> handles, lst |-> lst, lneed |-> lneed /\ lst = "open",
        cl |-> [c \in Clients |-> [st |-> OSt(cst[c]), w |-> cw[c] /\ cst[c] \in Live,
                                   e |-> IF cst[c] = "ok" /\ cend[c] # 0 THEN EndObs(pipe[cend[c]], "cli")
                                         ELSE [st |-> "none", r |-> FALSE, w |-> FALSE]]],
        srv |-> [k \in 1..Len(acc) |-> IF acc[k].ok THEN EndObs(pipe[acc[k].p], "srv")
                                        ELSE [st |-> "err", r |-> FALSE, w |-> FALSE]]]

-----------------------------------------------------------------------------
(* Properties                                                                *)

Dirs == {"c2s", "s2c"}
DirOK(d) == /\ d.W \in 0..MaxBytes /\ d.R \in 0..d.W
            /\ d.closed \in BOOLEAN /\ d.rwk \in BOOLEAN /\ d.wwk \in BOOLEAN
TypeOK ==
  /\ handles \in 0..MaxHandles /\ lst \in {"open", "dropped"} /\ lbuf \in LBufs
  /\ lneed \in BOOLEAN /\ lw \in BOOLEAN
  /\ \A c \in Clients : /\ cst[c] \in {"idle", "new", "parked", "granted", "queued", "ok", "err", "cancelled"}
                        /\ ack[c] \in {"none", "sent", "lost"} /\ cend[c] \in 0..NCli /\ cw[c] \in BOOLEAN
                        /\ DirOK(pipe[c].c2s) /\ DirOK(pipe[c].s2c)
  /\ permits \in 0..Cap
  /\ Len(q) <= Cap

\* the channel's accounting (tokio's mpsc): capacity is never exceeded, free permits only without waiters
ChanOK ==
  lst = "open" =>
    /\ permits + Len(q) + Cardinality({c \in Clients : cst[c] = "granted"}) = Cap
    /\ (permits > 0 => sem = <<>>)
    /\ \A i \in 1..Len(sem) : cst[sem[i]] = "parked"
    /\ \A c \in Clients : cst[c] = "parked" => \E i \in 1..Len(sem) : sem[i] = c

(* P1 (C18) pairing: the stream connect returns and the stream accept returns for the same request are  *)
(* the two ends of one pipe; no end is wired to two peers.                                              *)
AccOK == {k \in 1..Len(acc) : acc[k].ok}
P1_SameRequest == \A k \in AccOK : cend[acc[k].req] = acc[k].p
P1_OnePeer ==
  /\ \A c1, c2 \in Clients : (c1 # c2 /\ cend[c1] # 0) => cend[c1] # cend[c2]
  /\ \A k1, k2 \in AccOK : k1 # k2 => acc[k1].p # acc[k2].p
  \* a client holds a stream only if a server half of the same pipe was returned by accept
  /\ \A c \in Clients : cend[c] # 0 => \E k \in AccOK : acc[k].p = cend[c]
P1 == P1_SameRequest /\ P1_OnePeer

(* P2 (C18) bytes: per pipe and direction read <= written (the numbering makes "prefix, in order, no     *)
(* duplication, no invention" this inequality); the bytes in flight never exceed the agreed buffer size,  *)
(* which is min(client's max_buf_size, listener's max_buf_size); EOF only after everything buffered and   *)
(* only after the writer closed; a write fails only after its own shutdown or the peer's drop.            *)
P2_Prefix == \A p \in Clients : \A o \in Dirs : pipe[p][o].R <= pipe[p][o].W
P2_BufRule == \A k \in AccOK : LET P == pipe[acc[k].p] c == acc[k].req IN
                /\ P.B = IF lbuf = 0 THEN cB[c] ELSE Min2(lbuf, cB[c])
                /\ \A o \in Dirs : P[o].W - P[o].R <= P.B
P2_Step == [][ /\ (ev'.e = "Read" /\ ev'.res = "eof") =>
                    LET p == PipeOf(ev'.s, IF ev'.s = "cli" THEN ev'.c ELSE ev'.k) IN
                    /\ pipe[p][In(ev'.s)].R = pipe[p][In(ev'.s)].W       \* nothing buffered is lost
                    /\ pipe[p][In(ev'.s)].closed                          \* and the writer (or its end) is gone
               /\ (ev'.e = "Read" /\ ev'.res = "ok") => ev'.m = Min2(ev'.a, ev'.m) /\ (ev'.a > 0 => ev'.m > 0)
               /\ (ev'.e = "Write" /\ ev'.res = "err") =>
                    LET p == PipeOf(ev'.s, IF ev'.s = "cli" THEN ev'.c ELSE ev'.k) IN pipe[p][Out(ev'.s)].closed
             ]_vars
\* data reaches the reader: whatever was written and acknowledged is read, then EOF, if the reader keeps reading
\* (no lost wake-up: a parked party is registered exactly while what it waits for has not happened)
ReaderOf(o) == IF o = "c2s" THEN "srv" ELSE "cli"
P2_NoLostWake == \A p \in Clients : \A o \in Dirs :
                   /\ pipe[p][o].rwk => (pipe[p][o].W = pipe[p][o].R /\ ~pipe[p][o].closed)
                   \* (a writer that parked and then shut down its own side stays registered: harmless)
                   /\ pipe[p][o].wwk => (pipe[p].B - (pipe[p][o].W - pipe[p][o].R) = 0 /\ pipe[p][ReaderOf(o)] # "dropped")

(* P3 (C09): accept never fails because of what one client did; it fails only when every sender is gone;   *)
(* a connect fails only when the listener is gone.                                                         *)
P3_AcceptErr == [][ (ev'.e = "Accept" /\ ev'.res = "err") => (Senders = 0 /\ \A i \in 1..Len(q) : ~AliveReq(q[i])) ]_vars
P3_ConnectErr == \A c \in Clients : cst[c] = "err" => lst = "dropped"
\* (that a fresh connect is still accepted after any fault is P5: no fault disables Accept or the ack)

(* P4: FIFO among the requests that are not cancelled (q is the order in which the requests entered the   *)
(* channel): accept serves the oldest request whose client still waits, and discards only requests whose  *)
(* client has gone away.                                                                                  *)
InQ(c) == \E i \in 1..Len(q) : q[i] = c
P4_Fifo == [][ (ev'.e = "Accept" /\ ev'.res = "ok") =>
                 \A i \in 1..Len(q) : (q[i] # ev'.c /\ AliveReq(q[i])) => \E j \in 1..Len(q) : j < i /\ q[j] = ev'.c ]_vars
P4_SkipOnlyCancelled == [][ ev'.e = "Accept" =>
                              \A c \in Clients : (InQ(c) /\ ~(\E i \in 1..Len(q') : q'[i] = c) /\ ~(ev'.res = "ok" /\ ev'.c = c))
                                                    => ~AliveReq(c) ]_vars

(* P5: every connect that is not cancelled resolves (listener fair, clients polled when woken)            *)
P5 == \A c \in Clients : (cst[c] \in Live) ~> (cst[c] \notin Live)
\* the same as a state invariant: whoever can make progress has been woken
P5_NoLostWake ==
  /\ \A c \in Clients : (cst[c] = "granted" \/ (cst[c] = "queued" /\ ack[c] # "none")
                         \/ (cst[c] \in {"new", "parked"} /\ lst = "dropped") \/ cst[c] = "new") => cw[c]
  /\ (lst = "open" /\ ~lneed /\ (acc = <<>> \/ acc[Len(acc)].ok)) => (q = <<>> /\ Senders > 0 /\ lw)
  /\ (lst = "open" /\ lw) => q = <<>>
=============================================================================
