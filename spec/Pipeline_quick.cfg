SPECIFICATION Spec
CONSTANT NbK = 2
CONSTANT SampleN = 3000
CONSTANT InitVectors <- MCInitVectors
INVARIANT TypeOK
INVARIANT Progress
INVARIANT M_NoPanic
INVARIANT M_Returns
INVARIANT M_NoStall
CHECK_DEADLOCK FALSE
