SPECIFICATION Spec
INVARIANT TypeOK
INVARIANT Progress
INVARIANT M_NoPanic
INVARIANT M_Returns
CHECK_DEADLOCK FALSE
