------------------------------- MODULE Server -------------------------------
(***************************************************************************)
(* The serving future of hyperdriver (src/server/mod.rs), its connection   *)
(* drivers (src/server/conn/drivers.rs), protocol detection                *)
(* (src/server/conn/auto.rs), the duplex listener (src/stream/duplex.rs)   *)
(* and the lazily handshaking TLS stream (src/server/conn/tls/mod.rs), as  *)
(* the code has them, for properties C07 (graceful shutdown) and C09       *)
(* (fault confinement).                                                    *)
(*                                                                         *)
(* What is hyperdriver's and what is the environment:                      *)
(*  - hyperdriver: GracefulShutdown::poll (signal polled before every      *)
(*    poll_once; Preparing -> Accepting -> Making -> spawn; any accept or  *)
(*    make error ends the future; on the signal the shutdown receiver is   *)
(*    dropped and Ok(()) returned at once, drivers keep running on the     *)
(*    executor), GracefulConnectionDriver::poll (connection polled first,  *)
(*    then the fused close future; graceful_shutdown() called once),       *)
(*    UpgradableConnection::graceful_shutdown (ReadVersion::cancel while   *)
(*    sniffing), DuplexIncoming::poll_accept, TlsAcceptor (handshake is    *)
(*    not run in the accept loop).                                         *)
(*  - ENVIRONMENT ASSUMPTION (hyper 1.6, observed by the harness, never    *)
(*    proved): after graceful_shutdown an HTTP/1 connection finishes the   *)
(*    exchange in flight (also one whose FIRST request head is partially   *)
(*    read) and then closes; an idle one (nothing read yet, or between     *)
(*    requests) closes at once; an HTTP/2 connection sends GOAWAY, lets    *)
(*    streams in progress finish, may or may not admit streams that race   *)
(*    with the GOAWAY, then closes; a handler error closes an HTTP/1       *)
(*    connection and resets only the stream on HTTP/2; garbage / EOF close *)
(*    the connection.  These are the actions tagged "hyper".               *)
(*  - clients, the handler gate and the response-body gate are the test    *)
(*    environment (the harness): Connect, CancelConnect, Send, Disconnect, *)
(*    Trunc, Garbage, Gate, Chunk, Signal, ListenerLost, MakeOpen.         *)
(*                                                                         *)
(* The signal is an action enabled in EVERY state until it has fired:      *)
(* that is the quantifier "every position of the shutdown signal".         *)
(***************************************************************************)
EXTENDS Naturals, Sequences, FiniteSets, TLC

CONSTANTS
  NConn,      \* connections are 1..NConn
  MaxReq,     \* requests on connection 1
  MaxReq2,    \* requests on every other connection (<= MaxReq)
  Protos,     \* subset of {"h1","h2","auto"}: configurations explored (fixed in Init)
  TlsModes,   \* subset of BOOLEAN
  MakeModes,  \* subset of BOOLEAN: make-service future gated by the environment
  MaxFaults,  \* bound on fault actions per behaviour
  AsBuiltD8,  \* TRUE: DuplexIncoming::poll_accept returns Err for a cancelled connect (pinned tree)
  SigOnMake,  \* subset of 0..NConn: the make-service fires the signal on its k-th call (0 = never)
  Hoisted,    \* TRUE: variant in which the signal is polled once per poll of the serving future instead of
              \* before every poll_once (demonstration: TLC finds the accept after the signal)
  GenMode,    \* TRUE only in the generation configs (settle discipline + history)
  GenLen      \* environment steps per generated behaviour

Conn == 1..NConn
Req  == 1..MaxReq
NReq(i) == IF i = 1 THEN MaxReq ELSE MaxReq2

VARIABLES
  cfg,         \* [proto, tls, makeGated]
  srv,         \* "running" | "ok" | "errAccept" | "errMake"
  cause,       \* why the serving future ended: "none"|"signal"|"listener"|"make"|"cancelledConnect"
  acc,         \* "Preparing" | "Accepting" | "Making"          (State in src/server/mod.rs)
  making,      \* connection held by State::Making (0 = none)
  mk,          \* decision for the pending make-service future: "none" | "ok" | "fail"
  burst,       \* (Hoisted only) the signal became ready inside the current poll, which has not returned yet
  sigFired,    \* the signal future is ready
  watchClosed, \* the shutdown watch receiver was dropped (send(), or the future was dropped)
  listener,    \* "up" | "lost"
  backlog,     \* connect requests queued in the listener, oldest first
  c,           \* per connection record, see InitConn
  nfaults,
  srvAtSig,    \* history: srv when the signal fired
  oas,         \* history: connections with a live driver when the signal was processed
  mode, hist, nenv, plan  \* generation discipline (constant when ~GenMode)

gvars == <<cfg, burst, srv, cause, acc, making, mk, sigFired, watchClosed, listener, backlog, nfaults, srvAtSig, oas>>
vars  == <<cfg, burst, srv, cause, acc, making, mk, sigFired, watchClosed, listener, backlog, c, nfaults, srvAtSig, oas, mode, hist, nenv, plan>>

Live      == {"tls", "sniff", "h1", "h2"}
InFlight  == {"started", "handler", "respHead", "respBody"}

InitReq  == [sent |-> 0, st |-> "none", gate |-> "shut", sas |-> FALSE]
InitConn == [cl     |-> "new",    \* "new"|"queued"|"cancelled"|"open"|"gone"|"refused"
             kind   |-> "h1",     \* what the client speaks: "h1" (raw scripted) | "h2" (hyper's client)
             plain  |-> FALSE,    \* client sends plain bytes to a TLS listener (stalled / failed handshake)
             behave |-> TRUE,     \* well-behaved so far
             half   |-> FALSE,    \* client closed its write side (truncation)
             junk   |-> FALSE,    \* client sent garbage
             pre    |-> FALSE,    \* client sent a strict prefix of the HTTP/2 preface and nothing else (so far)
             herr   |-> FALSE,    \* a handler of this connection returned an error
             sc     |-> "none",   \* server side: "none"|"making"|"tls"|"sniff"|"h1"|"h2"|"closed"|"dropped"
             told   |-> 0,        \* graceful_shutdown() calls on this connection
             fused  |-> FALSE,    \* the driver's Fuse<CloseFuture> has completed
             rq     |-> [k \in Req |-> InitReq]]

Init ==
  /\ cfg \in [proto : Protos, tls : TlsModes, makeGated : MakeModes, sigOnMake : SigOnMake]
  /\ burst = FALSE
  /\ srv = "running" /\ cause = "none" /\ acc = "Preparing" /\ making = 0 /\ mk = "none"
  /\ sigFired = FALSE /\ watchClosed = FALSE /\ listener = "up" /\ backlog = <<>>
  /\ c = [i \in Conn |-> InitConn]
  /\ nfaults = 0 /\ srvAtSig = "none" /\ oas = {}
  /\ mode = (IF GenMode THEN "env" ELSE "free") /\ hist = <<>> /\ nenv = 0
  \* generation only: the position of the signal is drawn uniformly (a random simulation would otherwise
  \* fire it early most of the time); the loss of the listener is rare and late
  /\ plan \in (IF GenMode THEN [sigAt : 0..GenLen, lostAt : {GenLen \div 2, GenLen + 1, GenLen + 2, GenLen + 3, GenLen + 4, GenLen + 5}]
                         ELSE {[sigAt |-> 0, lostAt |-> 0]})

-----------------------------------------------------------------------------
(* helpers *)
Set(i, f, v)      == c' = [c EXCEPT ![i][f] = v]
RqSet(i, k, f, v) == c' = [c EXCEPT ![i].rq[k][f] = v]
ClientKinds == IF cfg.proto = "h1" THEN {"h1"} ELSE IF cfg.proto = "h2" THEN {"h2"} ELSE {"h1", "h2"}
FirstStage  == IF cfg.tls THEN "tls" ELSE IF cfg.proto = "auto" THEN "sniff" ELSE cfg.proto
AfterTls    == IF cfg.proto = "auto" THEN "sniff" ELSE cfg.proto
\* the request an HTTP/1 connection is working on: the first one not finished
Cur(i) == IF \E k \in Req : c[i].rq[k].st # "done" THEN CHOOSE k \in Req : c[i].rq[k].st # "done" /\ \A j \in Req : j < k => c[i].rq[j].st = "done"
          ELSE 0
ClientSeesOpen(i) == c[i].cl = "open" /\ c[i].sc \notin {"closed", "dropped"}
\* what the generation configs print as the expected observation after a settled step
Abstract == [srv |-> srv,
             conns |-> [i \in Conn |-> [closed |-> c[i].sc \in {"closed", "dropped"}, told |-> c[i].told,
                                        reqs |-> [k \in Req |-> c[i].rq[k].st]]]]

(* generation discipline: environment steps only at "env", internal steps only while settling *)
Env(rec) == IF GenMode
            THEN /\ mode = "env" /\ nenv < GenLen
                 /\ IF rec.a = "Signal" THEN nenv >= plan.sigAt ELSE (sigFired \/ nenv < plan.sigAt)
                 /\ (rec.a = "ListenerLost" => nenv >= plan.lostAt)
                 /\ \E ns \in BOOLEAN : /\ mode' = IF ns THEN "env" ELSE "settle"
                                        /\ hist' = Append(hist, [rec EXCEPT !.ns = ns])
                 /\ nenv' = nenv + 1
                 /\ UNCHANGED plan
            ELSE UNCHANGED <<mode, hist, nenv, plan>>
Int == /\ (GenMode => mode = "settle") /\ UNCHANGED <<mode, hist, nenv, plan>>
Rec(a, i, k, p, ok) == [a |-> a, c |-> i, k |-> k, p |-> p, ok |-> ok, ns |-> FALSE]

-----------------------------------------------------------------------------
(* ENVIRONMENT: clients, gates, signal *)

\* A peer of a TLS listener that has not started its handshake (silent) is an idle open connection: at the
\* signal it must be told and close.  It misbehaves only once it sends garbage (Garbage sets behave FALSE).
\* ENVIRONMENT: hyper's HTTP/2 server keeps a connection whose handshake has not completed when it is told
\* (close_pending), so under the h2-only protocol nothing is demanded of it.
PlainBehaves(plain) == ~plain \/ cfg.proto # "h2"

Connect(i, kind, plain) ==
  /\ c[i].cl = "new" /\ listener = "up"
  /\ \A j \in Conn : j < i => c[j].cl # "new"            \* connections are used in order (symmetry breaking)
  /\ (plain => cfg.tls)
  /\ IF srv = "running"
     THEN /\ c' = [c EXCEPT ![i].cl = "queued", ![i].kind = kind, ![i].plain = plain, ![i].behave = PlainBehaves(plain)]
          /\ backlog' = Append(backlog, i)
     ELSE /\ c' = [c EXCEPT ![i].cl = "refused", ![i].kind = kind, ![i].plain = plain, ![i].behave = PlainBehaves(plain)]
          /\ UNCHANGED backlog
  /\ UNCHANGED <<cfg, burst, srv, cause, acc, making, mk, sigFired, watchClosed, listener, nfaults, srvAtSig, oas>>
  /\ Env(Rec("Connect", i, 0, IF plain THEN "raw" ELSE kind, TRUE))

\* FAULT: the connect future is dropped after the request was queued and before it is accepted
CancelConnect(i) ==
  /\ c[i].cl = "queued" /\ nfaults < MaxFaults
  /\ c' = [c EXCEPT ![i].cl = "cancelled", ![i].behave = FALSE]
  /\ nfaults' = nfaults + 1
  /\ UNCHANGED <<cfg, burst, srv, cause, acc, making, mk, sigFired, watchClosed, listener, backlog, srvAtSig, oas>>
  /\ Env(Rec("CancelConnect", i, 0, "", TRUE))

\* FAULT (socket listeners): the client completes the connection and resets it while it still sits in the
\* listen backlog; the kernel hands the dead connection to accept() all the same (tcp-reset-in-backlog)
AbortQueued(i) ==
  /\ ~GenMode /\ c[i].cl = "queued" /\ nfaults < MaxFaults
  /\ c' = [c EXCEPT ![i].cl = "gone", ![i].behave = FALSE]
  /\ nfaults' = nfaults + 1
  /\ UNCHANGED <<cfg, burst, srv, cause, acc, making, mk, sigFired, watchClosed, listener, backlog, srvAtSig, oas>>
  /\ Env(Rec("AbortQueued", i, 0, "", TRUE))

\* (auto protocol) the client sends a strict non-empty prefix of the HTTP/2 preface and nothing else, like a
\* slow or stalled HTTP/2 client: ReadVersion keeps waiting for the rest, the connection stays in "sniff".  By
\* itself this is not a fault: such a connection is open and idle, at the signal it must be told and close
\* (ReadVersion::cancel).  The fault class of C09 is this followed by Disconnect / Trunc.
Prefix(i) ==
  /\ ClientSeesOpen(i) /\ c[i].behave /\ ~c[i].plain /\ c[i].kind = "h1" /\ cfg.proto = "auto" /\ ~c[i].pre
  /\ c[i].rq[1].sent = 0
  /\ c' = [c EXCEPT ![i].pre = TRUE]
  /\ UNCHANGED gvars
  /\ Env(Rec("Prefix", i, 14, "", TRUE))

\* a well-behaved client sends the next part of request k: head in two parts (H1, H2), then the body (B;
\* the harness splits it again into B1 B2, which the server side cannot tell apart from B: the handler
\* is already running and waits for the end of the body).  hyper's HTTP/2 client sends the head in one
\* piece.  Request k+1 only after response k.
Send(i, k) ==
  /\ ClientSeesOpen(i) /\ c[i].behave /\ ~c[i].plain /\ ~c[i].pre
  /\ k <= NReq(i)
  /\ c[i].rq[k].sent < 3
  /\ \A j \in Req : j < k => c[i].rq[j].st = "done"
  /\ RqSet(i, k, "sent", IF c[i].kind = "h2" /\ c[i].rq[k].sent = 0 THEN 2 ELSE c[i].rq[k].sent + 1)
  /\ UNCHANGED gvars
  /\ Env(Rec("Send", i, k, <<"H1", "H2", "B">>[c[i].rq[k].sent + 1], TRUE))

\* FAULTS of an established connection
Disconnect(i) ==
  /\ c[i].cl = "open" /\ nfaults < MaxFaults
  /\ c' = [c EXCEPT ![i].cl = "gone", ![i].behave = FALSE]
  /\ nfaults' = nfaults + 1
  /\ UNCHANGED <<cfg, burst, srv, cause, acc, making, mk, sigFired, watchClosed, listener, backlog, srvAtSig, oas>>
  /\ Env(Rec("Disconnect", i, 0, "", TRUE))
Trunc(i) ==
  /\ ClientSeesOpen(i) /\ c[i].kind = "h1" /\ ~c[i].half /\ nfaults < MaxFaults
  /\ c' = [c EXCEPT ![i].half = TRUE, ![i].behave = FALSE]
  /\ nfaults' = nfaults + 1
  /\ UNCHANGED <<cfg, burst, srv, cause, acc, making, mk, sigFired, watchClosed, listener, backlog, srvAtSig, oas>>
  /\ Env(Rec("Trunc", i, 0, "", TRUE))
Garbage(i) ==
  /\ ClientSeesOpen(i) /\ c[i].kind = "h1" /\ ~c[i].junk /\ ~c[i].half /\ nfaults < MaxFaults
  /\ c' = [c EXCEPT ![i].junk = TRUE, ![i].behave = FALSE]
  /\ nfaults' = nfaults + 1
  /\ UNCHANGED <<cfg, burst, srv, cause, acc, making, mk, sigFired, watchClosed, listener, backlog, srvAtSig, oas>>
  /\ Env(Rec("Garbage", i, 0, "", TRUE))

\* the schedule lets the handler of request k return (ok), or makes it fail (FAULT).  The handler of the
\* harness first reads the whole request body, then waits for its gate; hyper's reaction to the returned
\* response / error is deterministic and local to the connection, so it is part of the same step:
\* response head written; on an error HTTP/1 closes the connection, HTTP/2 resets the stream only.
Gate(i, k, ok) ==
  /\ c[i].sc \in {"h1", "h2"}
  /\ c[i].rq[k].st \in {"started", "handler"} /\ c[i].rq[k].gate = "shut"
  /\ (~ok => nfaults < MaxFaults)
  /\ IF c[i].rq[k].st = "started" THEN RqSet(i, k, "gate", IF ok THEN "ok" ELSE "err")
     ELSE IF ok THEN c' = [c EXCEPT ![i].rq[k].gate = "ok", ![i].rq[k].st = "respHead"]
     ELSE c' = [c EXCEPT ![i].rq[k].gate = "err", ![i].rq[k].st = "failed", ![i].herr = TRUE,
                         ![i].sc = IF c[i].sc = "h1" THEN "closed" ELSE @]
  /\ nfaults' = IF ok THEN nfaults ELSE nfaults + 1
  /\ UNCHANGED <<cfg, burst, srv, cause, acc, making, mk, sigFired, watchClosed, listener, backlog, srvAtSig, oas>>
  /\ Env(Rec("Gate", i, k, "", ok))
\* the schedule releases the next chunk of the response body (two chunks); hyper writes it at once; after
\* the last one an HTTP/1 connection whose keep-alive was disabled by graceful_shutdown closes
Chunk(i, k) ==
  /\ c[i].sc \in {"h1", "h2"}
  /\ c[i].rq[k].st \in {"respHead", "respBody"}
  /\ IF c[i].rq[k].st = "respHead" THEN RqSet(i, k, "st", "respBody")
     ELSE c' = [c EXCEPT ![i].rq[k].st = "done", ![i].sc = IF c[i].sc = "h1" /\ c[i].told > 0 THEN "closed" ELSE @]
  /\ UNCHANGED gvars
  /\ Env(Rec("Chunk", i, k, "", TRUE))

Signal ==
  /\ ~sigFired
  /\ sigFired' = TRUE /\ srvAtSig' = srv
  /\ UNCHANGED <<cfg, burst, srv, cause, acc, making, mk, watchClosed, listener, backlog, c, nfaults, oas>>
  /\ Env(Rec("Signal", 0, 0, "", TRUE))

\* the listener itself is lost (every handle of the duplex pair dropped): a legitimate end
ListenerLost ==
  /\ listener = "up" /\ \A i \in Conn : c[i].cl # "queued"
  /\ listener' = "lost"
  /\ UNCHANGED <<cfg, burst, srv, cause, acc, making, mk, sigFired, watchClosed, backlog, c, nfaults, srvAtSig, oas>>
  /\ Env(Rec("ListenerLost", 0, 0, "", TRUE))

MakeOpen(ok) ==
  /\ cfg.makeGated /\ acc = "Making" /\ mk = "none" /\ srv = "running"
  /\ mk' = IF ok THEN "ok" ELSE "fail"
  /\ UNCHANGED <<cfg, burst, srv, cause, acc, making, sigFired, watchClosed, listener, backlog, c, nfaults, srvAtSig, oas>>
  /\ Env(Rec("MakeOpen", 0, 0, "", ok))

-----------------------------------------------------------------------------
(* hyperdriver: the serving future.  GracefulShutdown::poll polls the signal at the top of every
   loop iteration, and the signal can only fire between two polls, so once it has fired the next
   thing the future does is return: Prepare / Accept / Make are not enabled any more. *)

\* the future ends (Ok or Err) and is dropped: the acceptor goes away (queued connects are refused),
\* a stream held by State::Making is dropped, the shutdown receiver is dropped (drivers are notified)
ServerEnds(res, why) ==
  /\ srv' = res /\ cause' = why /\ watchClosed' = TRUE
  /\ backlog' = <<>> /\ making' = 0 /\ mk' = "none"
  /\ oas' = IF why = "signal" THEN {i \in Conn : c[i].sc \in Live} ELSE oas
  /\ c' = [i \in Conn |->
             LET r0 == c[i]
                 r1 == IF r0.cl = "queued" THEN [r0 EXCEPT !.cl = "refused"] ELSE r0
                 r2 == IF r1.sc = "making" THEN [r1 EXCEPT !.sc = "dropped"] ELSE r1
             IN IF why = "signal" THEN [r2 EXCEPT !.rq = [k \in Req |-> [r2.rq[k] EXCEPT !.sas = (r2.sc \in Live /\ r2.rq[k].st \in InFlight)]]] ELSE r2]

\* In the Hoisted variant the signal is only looked at when a poll of the future starts: a poll in which
\* the signal became ready (burst) runs on until the acceptor or the make-service returns Pending.
MayGoOn == ~sigFired \/ (Hoisted /\ burst)

PollSignal ==
  /\ srv = "running" /\ sigFired /\ ~burst
  /\ ServerEnds("ok", "signal")
  /\ UNCHANGED <<cfg, burst, acc, sigFired, listener, nfaults, srvAtSig>>
  /\ Int

\* (Hoisted only) the poll in which the signal became ready returns Pending: nothing left to accept, or
\* the make-service future is pending
BurstEnds ==
  /\ Hoisted /\ burst /\ srv = "running"
  /\ \/ (acc \in {"Preparing", "Accepting"} /\ backlog = <<>> /\ listener = "up")
     \/ (acc = "Making" /\ mk = "none")
  /\ burst' = FALSE
  /\ UNCHANGED <<cfg, srv, cause, acc, making, mk, sigFired, watchClosed, listener, backlog, c, nfaults, srvAtSig, oas>>
  /\ Int

\* number of streams the acceptor has handed out so far = number of make-service calls
NAccepted == Cardinality({j \in Conn : c[j].sc # "none"})
\* "serve k connections, then stop": the make-service call for the k-th accepted stream makes the signal
\* ready, INSIDE the poll of the serving future, between two accepts of a burst (SignalFromMake)
FiresOnThisMake == cfg.sigOnMake # 0 /\ ~sigFired /\ NAccepted + 1 = cfg.sigOnMake

\* Accept: `Accept => ~sigFired` is the first clause of C07
Accept ==
  /\ srv = "running" /\ MayGoOn /\ acc \in {"Preparing", "Accepting"}   \* Preparing: poll_ready_ref is ready at once
  /\ IF backlog # <<>>
     THEN LET i == Head(backlog) IN
          IF c[i].cl = "cancelled"
          THEN IF AsBuiltD8
               THEN \* request.ack() fails, `?` turns it into an accept error: the server ends (defect D8)
                    /\ ServerEnds("errAccept", "cancelledConnect") /\ UNCHANGED <<cfg, burst, acc, sigFired, listener, nfaults, srvAtSig>>
               ELSE \* dead request skipped
                    /\ backlog' = Tail(backlog)
                    /\ UNCHANGED <<cfg, burst, srv, cause, acc, making, mk, sigFired, watchClosed, listener, c, nfaults, srvAtSig, oas>>
          ELSE \* a stream is handed out (also for a client that reset while queued at a socket listener: the
               \* kernel hands it out all the same) and the make-service is called, which may fire the signal
               /\ backlog' = Tail(backlog)
               /\ sigFired' = (sigFired \/ FiresOnThisMake)
               /\ srvAtSig' = IF FiresOnThisMake THEN "running" ELSE srvAtSig
               /\ burst' = (burst \/ (Hoisted /\ FiresOnThisMake))
               /\ IF cfg.makeGated
                  THEN \* State::Making: the make-service future is pending, nothing else is accepted meanwhile
                       /\ making' = i /\ acc' = "Making" /\ mk' = "none"
                       /\ c' = [c EXCEPT ![i].cl = IF @ = "gone" THEN "gone" ELSE "open", ![i].sc = "making"]
                  ELSE \* make future ready in the same poll: driver spawned, back to Preparing
                       /\ acc' = "Preparing" /\ UNCHANGED <<making, mk>>
                       /\ c' = [c EXCEPT ![i].cl = IF @ = "gone" THEN "gone" ELSE "open", ![i].sc = FirstStage]
               /\ UNCHANGED <<cfg, srv, cause, watchClosed, listener, nfaults, oas>>
     ELSE /\ listener = "lost"
          /\ ServerEnds("errAccept", "listener") /\ UNCHANGED <<cfg, burst, acc, sigFired, listener, nfaults, srvAtSig>>
  /\ Int

\* the make-service future resolves: Ok => the connection is handed to the executor (one driver task
\* per connection), state back to Preparing; Err => the serving future ends
Make ==
  /\ srv = "running" /\ MayGoOn /\ acc = "Making" /\ mk # "none"
  /\ IF mk = "ok"
     THEN /\ c' = [c EXCEPT ![making].sc = FirstStage]
          /\ acc' = "Preparing" /\ making' = 0 /\ mk' = "none"
          /\ UNCHANGED <<cfg, burst, srv, cause, sigFired, watchClosed, listener, backlog, nfaults, srvAtSig, oas>>
     ELSE /\ ServerEnds("errMake", "make") /\ UNCHANGED <<cfg, burst, acc, sigFired, listener, nfaults, srvAtSig>>
  /\ Int

-----------------------------------------------------------------------------
(* hyperdriver: one GracefulConnectionDriver per connection *)

H1Idle(i) == \* nothing of a request in progress: hyper closes such a connection at once when told
  LET k == Cur(i) IN
    \/ k = 0
    \/ /\ c[i].rq[k].st = "none" /\ (c[i].rq[k].sent = 0 \/ k > 1)

\* the close future fires (once: it is fused) and graceful_shutdown() is called on the connection;
\* the driver then polls the connection again in the same loop
\* (GracefulConnectionDriver::poll polls the connection BEFORE the close future: a connection that ends in
\* this very poll - its client is gone or sent rubbish - ends without being told)
Dead(i) == c[i].cl = "gone" \/ c[i].half \/ c[i].junk
DriverTold(i) ==
  /\ watchClosed /\ ~c[i].fused /\ c[i].sc \in Live /\ ~Dead(i)
  /\ LET closesNow == \/ c[i].sc = "sniff"                                  \* ReadVersion::cancel => Err(Interrupted)
                      \/ c[i].sc = "tls" /\ cfg.proto \in {"h1", "auto"}      \* nothing read yet / still sniffing
                      \/ c[i].sc = "h1" /\ H1Idle(i)                         \* hyper: idle connection closes
     IN c' = [c EXCEPT ![i].told = @ + 1, ![i].fused = TRUE, ![i].sc = IF closesNow THEN "closed" ELSE @]
  /\ UNCHANGED gvars
  /\ Int

\* TLS handshake inside the connection task (TlsStream::handshake is driven by the first read/write)
TlsStep(i) ==
  /\ c[i].sc = "tls"
  /\ IF c[i].cl = "gone" \/ c[i].half THEN Set(i, "sc", "closed")
     ELSE IF c[i].plain THEN c[i].junk /\ Set(i, "sc", "closed")            \* garbage fails it; silence stalls it
     ELSE Set(i, "sc", AfterTls)
  /\ UNCHANGED gvars
  /\ Int

\* ReadVersion: decides on the first bytes
Sniff(i) ==
  /\ c[i].sc = "sniff"
  /\ IF c[i].cl = "gone" \/ c[i].half \/ c[i].junk THEN Set(i, "sc", "h1")  \* EOF / anything else: HTTP/1, which then fails
     ELSE IF c[i].kind = "h2" THEN Set(i, "sc", "h2")
     ELSE c[i].rq[1].sent >= 1 /\ Set(i, "sc", "h1")
  /\ UNCHANGED gvars
  /\ Int

\* hyper: the client went away / sent rubbish: the connection ends, handlers in flight are dropped
ConnFails(i) ==
  /\ c[i].sc \in {"h1", "h2"}
  /\ c[i].cl = "gone" \/ c[i].half \/ c[i].junk
  /\ Set(i, "sc", "closed")
  /\ UNCHANGED gvars
  /\ Int

\* hyper, per request: head parsed => handler called; body complete => the handler waits for / has its gate
ReqStep(i, k) ==
  /\ c[i].sc \in {"h1", "h2"} /\ ~(c[i].cl = "gone" \/ c[i].half \/ c[i].junk)
  /\ (c[i].sc = "h1" => k = Cur(i))
  /\ LET r == c[i].rq[k]
     IN \/ /\ r.st = "none" /\ r.sent >= 2
           /\ \/ /\ RqSet(i, k, "st", "started")
              \/ /\ c[i].sc = "h2" /\ c[i].told > 0           \* stream racing with GOAWAY may be refused
                 /\ RqSet(i, k, "st", "refused")
        \/ /\ r.st = "started" /\ r.sent = 3
           /\ IF r.gate = "shut" THEN RqSet(i, k, "st", "handler")
              ELSE IF r.gate = "ok" THEN RqSet(i, k, "st", "respHead")
              ELSE c' = [c EXCEPT ![i].rq[k].st = "failed", ![i].herr = TRUE,
                                  ![i].sc = IF c[i].sc = "h1" THEN "closed" ELSE @]
  /\ UNCHANGED gvars
  /\ Int

\* hyper HTTP/2 after GOAWAY: closes when no stream is in progress
H2Close(i) ==
  /\ c[i].sc = "h2" /\ c[i].told > 0
  /\ \A k \in Req : c[i].rq[k].st \notin InFlight
  /\ \A k \in Req : ~(c[i].rq[k].st = "none" /\ c[i].rq[k].sent >= 2)
  /\ Set(i, "sc", "closed")
  /\ UNCHANGED gvars
  /\ Int

Internal ==
  \/ PollSignal \/ BurstEnds \/ Accept \/ Make
  \/ \E i \in Conn : DriverTold(i) \/ TlsStep(i) \/ Sniff(i) \/ ConnFails(i) \/ H2Close(i)
  \/ \E i \in Conn, k \in Req : ReqStep(i, k)

Fault(i) == CancelConnect(i) \/ Disconnect(i) \/ Trunc(i) \/ Garbage(i) \/ AbortQueued(i)
            \/ (\E k \in Req : Gate(i, k, FALSE))

Environment ==
  \/ Signal \/ ListenerLost \/ (\E ok \in BOOLEAN : MakeOpen(ok))
  \/ \E i \in Conn : \/ \E kind \in ClientKinds, plain \in BOOLEAN : Connect(i, kind, plain)
                     \/ CancelConnect(i) \/ Disconnect(i) \/ Trunc(i) \/ Garbage(i) \/ AbortQueued(i) \/ Prefix(i)
                     \/ \E k \in Req : Send(i, k) \/ Chunk(i, k) \/ (\E ok \in BOOLEAN : Gate(i, k, ok))

\* generation only: the system has run to quiescence, the expected observation is recorded
Settled ==
  /\ GenMode /\ mode = "settle" /\ ~ENABLED Internal
  /\ mode' = "env" /\ hist' = Append(hist, [a |-> "Obs", exp |-> Abstract])
  /\ UNCHANGED <<cfg, burst, srv, cause, acc, making, mk, sigFired, watchClosed, listener, backlog, c, nfaults, srvAtSig, oas, nenv, plan>>

Next == Environment \/ Internal \/ Settled

\* every action makes progress and none undoes any (the state graph is acyclic), so under weak
\* fairness of every action "eventually" is "in every terminal state"
Spec == Init /\ [][Next]_vars /\ WF_vars(Internal) /\ WF_vars(Environment)

-----------------------------------------------------------------------------
(* PROPERTIES *)
Terminal == ~ENABLED Next

Good(i) == c[i].behave /\ ~c[i].herr /\ \A k \in Req : c[i].rq[k].gate # "err"

\* ---- C07
\* (1) no Accept after the signal: as an action property
C07_NoAcceptAfterSignal == [][Accept => ~sigFired]_vars     \* also when the signal became ready inside a burst
\* (2) the serving future returns Ok on the signal (and only then)
C07_OkIffSignal   == (srv = "ok") => (sigFired /\ cause = "signal")
C07_SignalReturns == sigFired ~> (srv # "running")
\* (3) every request whose handler had started when the signal was processed completes (client cooperating)
C07_InflightCompletes == Terminal => \A i \in Conn, k \in Req : (c[i].rq[k].sas /\ Good(i)) => c[i].rq[k].st = "done"
\* (4) every connection open at that point is told exactly once and closes; nobody is told twice
C07_ToldAtMostOnce == \A i \in Conn : c[i].told <= 1
C07_OpenToldAndClosed == Terminal => \A i \in oas : Good(i) => (c[i].told = 1 /\ c[i].sc = "closed")
\* (5) idle keep-alive connections close (instance of (4), stated separately)
C07_IdleCloses == Terminal => \A i \in oas : (Good(i) /\ c[i].sc = "h1" => ~H1Idle(i))
\* nothing is served on a connection that had no driver when the signal was processed
C07_NoNewService == \A i \in Conn : (cause = "signal" /\ i \notin oas) => \A k \in Req : ~c[i].rq[k].sas /\ (c[i].sc \notin Live)

\* ---- C09
\* a per-connection fault never changes the serving future nor any other connection
ConnView(j) == c[j]
C09_FaultLocal == [][\A i \in Conn : Fault(i) => (srv' = srv /\ acc' = acc /\ \A j \in Conn \ {i} : ConnView(j)' = ConnView(j))]_vars
\* the serving future ends only on the signal, on loss of the listener, or on a make-service failure
C09_EndsOnlyOnAllowed == cause \in {"none", "signal", "listener", "make"}
C09_EndCauseConsistent == /\ (srv = "running") = (cause = "none")
                          /\ (cause = "listener" => listener = "lost")
\* requests of well-behaved connections are never left unfinished, whatever the other connections did
C09_OthersServed == Terminal => \A i \in Conn, k \in Req : Good(i) => c[i].rq[k].st \notin InFlight
\* a queued connect is always eventually accepted or refused: no connection's stage blocks the accept loop
\* (a stalled TLS handshake sits in its own task)
C09_AcceptNeverBlocked == \A i \in Conn : (c[i].cl = "queued") ~> (c[i].cl # "queued")

TypeOK ==
  /\ srv \in {"running", "ok", "errAccept", "errMake"}
  /\ acc \in {"Preparing", "Accepting", "Making"}
  /\ (acc = "Making") = (making # 0) \/ srv # "running"
  /\ \A i \in Conn : c[i].sc \in {"none", "making", "tls", "sniff", "h1", "h2", "closed", "dropped"}
=============================================================================
