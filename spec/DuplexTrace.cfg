CONSTANTS
  NCli = 44
  Cap = 32
  MaxHandles = 8
  BufSizes <- Nat1_64
  LBufs <- Nat64
  MaxBytes = 100000
  WriteLens <- Nat64
  ReadCaps <- Nat64
  DataClients <- Clients
  Spurious = TRUE
  Variant = "ok"
SPECIFICATION TraceSpec
POSTCONDITION Accepted
CHECK_DEADLOCK FALSE
