------------------------------ MODULE PoolKeys ------------------------------
(***************************************************************************)
(* The key -> token map of the pool (src/client/pool/key.rs TokenMap).     *)
(* PoolInner indexes waiters, idle connections and the connecting mark by  *)
(* Token, so C06 rests on: distinct keys never share a token while state   *)
(* filed under the token is alive.  insert(key) returns the key's token or *)
(* assigns the next counter value.  Variant "reset-on-full" models a       *)
(* capped map that is cleared together with its counter (a seeded change   *)
(* TLC refutes; the real counter only wraps after usize::MAX insertions,   *)
(* which is outside every bound and stated as an assumption).              *)
(***************************************************************************)
EXTENDS Naturals, FiniteSets, TLC

CONSTANTS Keys,        \* the set of keys ever used
          Cap,         \* capacity of the capped variant
          Variant      \* "as-built" | "reset-on-full"

VARIABLES map,         \* partial function Keys -> token
          counter,
          filed        \* [token -> key under which live pool state was filed] (tokens with live state)

vars == <<map, counter, filed>>

Init == map = [k \in {} |-> 0] /\ counter = 1 /\ filed = [t \in {} |-> 0]

\* Pool::checkout(key): look the token up (or create it) and file state (a waiter, later an idle connection) under it
Checkout(k) ==
  LET full == Variant = "reset-on-full" /\ k \notin DOMAIN map /\ Cardinality(DOMAIN map) >= Cap
      m0 == IF full THEN [x \in {} |-> 0] ELSE map
      c0 == IF full THEN 1 ELSE counter
      t == IF k \in DOMAIN m0 THEN m0[k] ELSE c0
  IN /\ map' = IF k \in DOMAIN m0 THEN m0 ELSE [x \in DOMAIN m0 \cup {k} |-> IF x = k THEN c0 ELSE m0[x]]
     /\ counter' = IF k \in DOMAIN m0 THEN c0 ELSE c0 + 1
     /\ filed' = IF t \in DOMAIN filed THEN filed ELSE [x \in DOMAIN filed \cup {t} |-> IF x = t THEN k ELSE filed[x]]

Next == \E k \in Keys : Checkout(k)
Spec == Init /\ [][Next]_vars

\* C06 (key level): whatever is filed under a token was filed for the key that now maps to it
NoSharedToken == \A k \in DOMAIN map : map[k] \in DOMAIN filed => filed[map[k]] = k
Bound == counter <= Cardinality(Keys) + 2
Injective == \A a, b \in DOMAIN map : map[a] = map[b] => a = b
=============================================================================
