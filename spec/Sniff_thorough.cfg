\* intended behaviour, every m, len, eof, every chunking with <= 6 cuts + all-ones, Pending anywhere
CONSTANTS
    AsBuiltCompare = FALSE
    MaxCuts = 6
    Caps <- MCCaps
    Window <- MCWindow
    GenK = 0
    Tier = "thorough"
SPECIFICATION Spec
VIEW viewVars
INVARIANTS TypeOK C08Decision C08Bytes C08Answer C08BytesPrefix SniffBuffer NoStuck FnAgrees
