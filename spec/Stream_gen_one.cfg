\* C18 generation: EVERY single op on every REAL stack (exhaustive, length 1)
SPECIFICATION Spec
CONSTANTS
  MaxSteps = 1
  Bug = "none"
  Stacks <- MCAllStacks
  ReadCaps <- MCReadCaps
  ReadPres <- MCReadPres
  UBs <- MCUBs
  WriteLens <- MCWriteLens
  VecLens <- MCVecLens
  RInj <- MCRInj
  WInj <- MCWInj
  CInj <- MCCInj
INVARIANTS
  GenPrint
