INIT Init
NEXT Next
INVARIANTS Consumed C17Holds
CHECK_DEADLOCK FALSE
