\* Upgrade model check, quick: auto server (sniffer in front), the pooled client, seven two-request vectors, fragmentation, holds, shutdown, drop, one tunnel operation
SPECIFICATION Spec
CONSTANTS
  KindVecs <- VecsQuick
  MaxConn = 3
  Server = "auto"
  Client = "pool"
  HL = 2
  SniffMax = 3
  MaxW = 2
  WSizes <- W12
  MaxEnv = 1
  HoldSets <- Hold01
  DHoldSets <- DHold0
  AllowShutdown = TRUE
  AllowDrop = TRUE
  Quiescent = FALSE
  Bug = "none"
VIEW MCView
INVARIANTS
  TypeOK
  U1_NoSendAfterUpgrade U1_NotPooledAfterUpgrade U1_DiscardedOnlyIfDead
  U2_ServerGetsExactly U2_ClientGetsExactly U2_ParserSeesNoTunnelByte U2_EofOnlyAfterEnd U2_QuietAllDelivered
  U3_Matched U3_HeadsWhole U3_NoSpuriousFailure U3_FailedOnlyIfExcused U3_ResponseAsProduced
  U4_NoConnectionHeadersOnH2 U4_NoSwitchOnH2 U4_ConnectRejectedOnH2
  U5_OnMatchesAnswer
