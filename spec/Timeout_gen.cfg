CONSTANTS
  NReq = 3
  NOrig = 1
  MaxDial = 3
  MaxTick = 0
  AsBuilt = {}
  Caps = {TRUE, FALSE}
  MaxIdles = {1, 2}
  IdleTimeouts = {0}
  Protos = {TRUE, FALSE}
  Faults <- SomeFaults
  Spurious = FALSE
  AllowDrop = FALSE
  Durs <- Durs013
  MaxT = 6
  RespFaults = TRUE
  PreResp = TRUE
  Probe = FALSE
  AsBuiltT <- NoT
  GenDepth = 24
INIT InitH
NEXT NextH
INVARIANT Emit
CONSTRAINT StopAtDepth
CHECK_DEADLOCK FALSE
