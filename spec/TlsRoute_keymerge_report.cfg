SPECIFICATION Spec
INVARIANT KeyMergeReport
CHECK_DEADLOCK FALSE
CONSTANT KeyMergesWsIntoHttp = TRUE
CONSTANT SetterDropsTls = FALSE
