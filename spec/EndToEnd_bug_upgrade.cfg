CONSTANTS
  Req <- MCReq3
  Conn <- MCConn2
  Origin <- MCOrigin1
  Versions <- MCH1
  Buggy <- MCBugUpgrade
  AllowBreak = FALSE
  AllowUpgrade = TRUE
INIT Init
NEXT Next
INVARIANTS TypeOK
PROPERTIES NoReuseAfterUpgrade
CHECK_DEADLOCK FALSE
