CONSTANTS
  Keys = {k1, k2, k3, k4}
  Cap = 3
  Variant = "as-built"
SPECIFICATION Spec
INVARIANTS NoSharedToken Injective
CHECK_DEADLOCK FALSE
CONSTRAINT Bound
