\* C18 generation: GENK (env) random op sequences per REAL stack, chosen by TLC, printed as JSON lines
SPECIFICATION SpecGen
CONSTANTS
  MaxSteps = 7
  Bug = "none"
  Stacks <- MCAllStacks
  ReadCaps <- MCReadCaps
  ReadPres <- MCReadPres
  UBs <- MCUBs
  WriteLens <- MCWriteLens
  VecLens <- MCVecLens
  RInj <- MCRInj
  WInj <- MCWInj
  CInj <- MCCInj
INVARIANTS
  GenPrint
