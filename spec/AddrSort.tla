------------------------------ MODULE AddrSort ------------------------------
(* Model of the address plan of hyperdriver's TcpTransport:                                         *)
(*   TcpTransport::connect     addrs.set_port(port); connecting(addrs)                              *)
(*   TcpTransport::connecting  if happy_eyeballs_timeout.is_some() { addrs.sort_preferred(          *)
(*                                 IpVersion::from_binding(local_address_ipv4, local_address_ipv6)) }*)
(*   SocketAddrs::sort_preferred  index search, removal (higher index first), push-front            *)
(*   TcpConnecting::connect    while let Some(a) = addresses.pop() { attempts.push(..a..) }         *)
(* The whole input vector is chosen in Init; one step computes the plan; the C16 formulas of        *)
(* AddrSortProps.tla are invariants.                                                                *)
(* SortAlways selects the INTENDED behaviour (TRUE: the preference is applied whatever              *)
(* happy_eyeballs_timeout is - what C16 states) or the AS-BUILT behaviour (FALSE: the pinned code    *)
(* only sorts when happy_eyeballs_timeout is Some).                                                 *)
EXTENDS AddrSortProps, TLC, Json

CONSTANTS MaxLen,       \* longest resolver answer
          Tags,         \* identity tags per family (two tags make duplicates and distinct addresses)
          Ports,        \* request ports
          FullPortLen,  \* lists longer than this are only combined with DefaultPort
          DefaultPort,
          SortAlways

Addr  == [f : {4, 6}, t : Tags]
Binds == {"none", "v4", "v6", "both"}
InPort(a) == 7000 + a.t      \* port the resolver answer carries (rewritten by set_port)

VARIABLES list, bind, he, port, stage, plan
vars == <<list, bind, he, port, stage, plan>>

Lists == UNION {[1..k -> Addr] : k \in 0..MaxLen}

Init == /\ list \in Lists
        /\ bind \in Binds /\ he \in BOOLEAN
        /\ port \in (IF Len(list) <= FullPortLen THEN Ports ELSE {DefaultPort})
        /\ stage = "resolved" /\ plan = <<>>

---------------------------------------------------------------------------
\* IpVersion::from_binding: 0 stands for None
FromBinding(b) == CASE b = "both" -> 6 [] b = "v4" -> 4 [] b = "v6" -> 6 [] OTHER -> 0

\* the index search loop of sort_preferred (first v4 index, first v6 index; 0 = None)
Search(s) ==
  LET F[i \in 0..Len(s)] ==
        IF i = 0 THEN [v4 |-> 0, v6 |-> 0, brk |-> FALSE]
        ELSE LET p == F[i-1] IN
             IF p.brk THEN p
             ELSE IF s[i].f = 4 /\ p.v4 = 0 THEN [p EXCEPT !.v4 = i]
             ELSE IF s[i].f = 6 /\ p.v6 = 0 THEN [p EXCEPT !.v6 = i]
             ELSE IF p.v4 # 0 /\ p.v6 # 0 THEN [p EXCEPT !.brk = TRUE]
             ELSE p
  IN F[Len(s)]

RemoveAt(s, i) == SubSeq(s, 1, i - 1) \o SubSeq(s, i + 1, Len(s))     \* VecDeque::remove(idx)
PushFront(s, a) == <<a>> \o s

SortPreferred(s, prefer) ==
  LET ix == Search(s)
      v4i == ix.v4
      v6i == ix.v6
      \* removal: the higher index first, so that the lower one stays valid
      afterFirst  == IF v4i # 0 /\ v6i # 0 /\ v4i > v6i THEN RemoveAt(s, v4i)
                     ELSE IF v6i # 0 THEN RemoveAt(s, v6i) ELSE s
      afterSecond == IF v4i # 0 /\ v6i # 0 /\ v4i > v6i THEN RemoveAt(afterFirst, v6i)
                     ELSE IF v4i # 0 THEN RemoveAt(afterFirst, v4i) ELSE afterFirst
      rest == afterSecond
  IN IF v4i # 0 /\ v6i # 0
     THEN IF prefer = 4 THEN PushFront(PushFront(rest, s[v6i]), s[v4i])
                        ELSE PushFront(PushFront(rest, s[v4i]), s[v6i])      \* Some(V6) and None
     ELSE IF v4i # 0 THEN PushFront(rest, s[v4i])
     ELSE IF v6i # 0 THEN PushFront(rest, s[v6i])
     ELSE rest

SetPort(s, p) == [i \in 1..Len(s) |-> [f |-> s[i].f, t |-> s[i].t, port |-> p]]
WithInPort(s) == [i \in 1..Len(s) |-> [f |-> s[i].f, t |-> s[i].t, port |-> InPort(s[i])]]

\* connect(): set_port, connecting() (sort or not), then pop front to back
Plan(s, b, h, p) ==
  LET a == SetPort(WithInPort(s), p)
  IN IF h \/ SortAlways THEN SortPreferred(a, FromBinding(b)) ELSE a

Compute == /\ stage = "resolved"
           /\ plan' = Plan(list, bind, he, port)
           /\ stage' = "planned"
           /\ UNCHANGED <<list, bind, he, port>>
Next == Compute
Spec == Init /\ [][Next]_vars

---------------------------------------------------------------------------
V == [list |-> list, bind |-> bind, he |-> he, port |-> port]
O == [plan |-> plan]
Planned == stage = "planned"

C16Inv == Planned => C16(V, O)
\* the model agrees with the declarative description of the expected plan (model-only)
Expected(v) == LET heads == (IF P(v) > 0 THEN <<v.list[P(v)]>> ELSE <<>>) \o (IF Q(v) > 0 THEN <<v.list[Q(v)]>> ELSE <<>>)
               IN SetPort(heads \o Without(v.list, {P(v), Q(v)}), v.port)
Tight == Planned /\ (he \/ SortAlways) => plan = Expected(V)

Emit == Planned => PrintT(<<"VEC", ToJson([v |-> V, o |-> O])>>)
=============================================================================
