SPECIFICATION Spec
CONSTANTS
  NCli = 2
  Cap = 1
  MaxHandles = 2
  BufSizes <- B12
  LBufs <- L0
  MaxBytes = 1
  WriteLens <- W1
  ReadCaps <- R1
  DataClients <- NoData
  Spurious = TRUE
  Variant = "ok"
  NActive = 2
VIEW View
INVARIANTS TypeOK ChanOK P1 P2_Prefix P2_BufRule P2_NoLostWake P3_ConnectErr P5_NoLostWake
PROPERTIES P2_Step P3_AcceptErr P4_Fifo P4_SkipOnlyCancelled
CHECK_DEADLOCK FALSE
