\* Upgrade vacuity guard: the model with the seeded defect 'nowake' must violate a property
SPECIFICATION Spec
CONSTANTS
  KindVecs <- VecsBugPool
  MaxConn = 3
  Server = "auto"
  Client = "pool"
  HL = 2
  SniffMax = 3
  MaxW = 2
  WSizes <- W12
  MaxEnv = 1
  HoldSets <- Hold0
  DHoldSets <- DHold0
  AllowShutdown = TRUE
  AllowDrop = TRUE
  Quiescent = FALSE
  Bug = "nowake"
VIEW MCView
INVARIANTS
  TypeOK
  U1_NoSendAfterUpgrade U1_NotPooledAfterUpgrade U1_DiscardedOnlyIfDead
  U2_ServerGetsExactly U2_ClientGetsExactly U2_ParserSeesNoTunnelByte U2_EofOnlyAfterEnd U2_QuietAllDelivered
  U3_Matched U3_HeadsWhole U3_NoSpuriousFailure U3_FailedOnlyIfExcused U3_ResponseAsProduced
  U4_NoConnectionHeadersOnH2 U4_NoSwitchOnH2 U4_ConnectRejectedOnH2
  U5_OnMatchesAnswer
