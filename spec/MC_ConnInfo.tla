---------------------------- MODULE MC_ConnInfo ----------------------------
(* Model-checking instance of ConnInfo.tla: constant values, the VIEW that hides the last event, the bound  *)
(* for the seeded-defect variants.  (Generation of behaviours: MC_ConnInfoGen.tla.)                         *)
EXTENDS ConnInfo, Json

K(tr, tls, sni, alpn, proto) == [tr |-> tr, tls |-> tls, sni |-> sni, alpn |-> alpn, proto |-> proto]
KPlainH1 == K("duplex", FALSE, "none", "none", "h1")
KPlainH2 == K("duplex", FALSE, "none", "none", "h2")
KTlsA    == K("duplex", TRUE, "a", "h1", "h1")
KTlsB    == K("duplex", TRUE, "b", "h2", "h2")
KTlsNoSni == K("duplex", TRUE, "none", "none", "h1")
KTcp     == K("tcp", FALSE, "none", "none", "h1")
KUnix    == K("unix", FALSE, "none", "none", "h1")

KindsPlain == {KPlainH1}
KindsSmall == {KPlainH1, KTlsA, KTlsB}
KindsTls2  == {KTlsA, KTlsB}
KindsTls   == {KTlsA, KTlsB, KTlsNoSni}
KindsGen   == {KPlainH1, KPlainH2, KTlsA, KTlsB, KTlsNoSni}
KindsAll   == {KPlainH1, KPlainH2, KTlsA, KTlsB, KTlsNoSni, KTcp, KUnix}

St(ci, ti, sh, sni) == [ci |-> ci, ti |-> ti, shared |-> sh, sni |-> sni]
StacksFull   == {St(TRUE, TRUE, FALSE, FALSE)}
StacksSni    == {St(TRUE, TRUE, FALSE, TRUE)}
StacksQuick  == {St(TRUE, TRUE, FALSE, FALSE), St(TRUE, FALSE, FALSE, FALSE), St(FALSE, FALSE, FALSE, FALSE)}
StacksFour   == {St(TRUE, TRUE, FALSE, TRUE), St(TRUE, TRUE, FALSE, FALSE), St(TRUE, TRUE, TRUE, FALSE), St(FALSE, FALSE, FALSE, FALSE)}
StacksMake   == {St(ci, ti, FALSE, FALSE) : ci, ti \in BOOLEAN}
StacksShared == {St(ci, ti, TRUE, FALSE) : ci, ti \in BOOLEAN}
StacksAll    == {St(ci, ti, sh, FALSE) : ci, ti, sh \in BOOLEAN} \cup {St(TRUE, TRUE, FALSE, TRUE), St(FALSE, TRUE, TRUE, TRUE)}
KA(S) == [Conns -> S]
KASmall == KA(KindsSmall)
KATls2  == KA(KindsTls2)
KAPlain == KA(KindsPlain)
KAAll   == KA(KindsAll)
KAQuick == KA({KTlsA, KTlsB}) \cup KA({KPlainH1})
KAPair  == {[c \in Conns |-> IF c = 1 THEN KTlsA ELSE KTlsB], [c \in Conns |-> IF c = 1 THEN KTlsB ELSE KTlsNoSni]}
KA3     == KA({KPlainH1}) \cup KA({KTlsA, KTlsB})
KAMix   == KAPair \cup KA({KPlainH1, KPlainH2})
\* a listener is either TLS or not: homogeneous assignments (what the real acceptor can produce)
KAHomog == KA({KPlainH1, KPlainH2}) \cup KA({KTlsA, KTlsB, KTlsNoSni})
\* generation: a few assignments (the initial states are enumerated before a simulation starts)
KAGen == {[c \in Conns |-> IF c = 1 THEN k1 ELSE IF c = 2 THEN k2 ELSE k3] :
            k1 \in {KTlsA, KTlsNoSni}, k2 \in {KTlsB, KTlsA}, k3 \in {KTlsA, KTlsB, KTlsNoSni}}
         \cup {[c \in Conns |-> IF c = 1 THEN k1 ELSE IF c = 2 THEN k2 ELSE KPlainH1] : k1 \in {KPlainH1, KPlainH2}, k2 \in {KPlainH1, KPlainH2}}
HOwn  == {[c \in Conns |-> [k \in Reqs |-> "own"]]}
HBoth == [Conns -> [Reqs -> {"own", "other"}]]
\* generation: the last request of a connection may name another host
HGen  == {[c \in Conns |-> [k \in Reqs |-> IF k = NReq /\ c \in S THEN "other" ELSE "own"]] : S \in SUBSET Conns}

View == <<cfg, kind, srv, lp, mk, rdy, sig, queue, cst, mg, svc, hs, chan, rq, host, ext, slot, first,
          nmk, mkarg, accd, mkAfterSig, cause>>
\* the seeded defects only need to be followed until the defect shows
Bound == \A c \in Conns : nmk[c] <= 2

=============================================================================
