------------------------------ MODULE TlsStream ------------------------------
(***************************************************************************)
(* The lazily-handshaking TLS streams of hyperdriver, both sides:          *)
(*   server  src/server/conn/tls/mod.rs   TlsStream { Handshake(Accept) |  *)
(*           Streaming }, tx: TlsConnectionInfoSender, rx                  *)
(*   client  src/client/conn/stream/tls.rs TlsStream { Handshake(Connect)  *)
(*           | Streaming }, tls: Option<TlsConnectionInfo>                 *)
(* and what sits around them (TlsAcceptor::poll_accept wraps without       *)
(* handshaking; TlsBraid / client Stream / server Stream dispatch every    *)
(* entry point unchanged; Handshaking / TlsHandshakeFuture poll            *)
(* poll_handshake).                                                        *)
(*                                                                         *)
(* One action per IO entry point, structured like the code:                *)
(*   Read, Write          `handshake(cx, |stream| stream.poll_x(..))`:     *)
(*                        in state Handshake poll the accept/connect       *)
(*                        future first; Pending and Err are returned; on   *)
(*                        Ok publish the info, run the action on the new   *)
(*                        stream, THEN store State::Streaming              *)
(*   FinishHandshake      the same with the action `Ready(Ok(()))`         *)
(*   Flush, Shutdown      in state Handshake: Ready(Ok(())) at once,       *)
(*                        nothing is driven, nothing is sent               *)
(* and environment actions: Pump (the peer reads what is on the wire and   *)
(* answers: handshake bytes arrive / the peer refuses the certificate),    *)
(* PSend, PClose (close_notify), PDrop, PReset, Garbage, WBlock/WUnblock   *)
(* (the inner transport returns Pending on writes), Recv (a new receiver   *)
(* of the TLS info is created).                                            *)
(*                                                                         *)
(* The inner machinery (tokio-rustls 0.26 MidHandshake + rustls 0.23) is   *)
(* modelled at the granularity of FLIGHTS: items CH, SF (server flight     *)
(* with the certificate), CF (client Finished), TK (tickets), AL (fatal    *)
(* alert), CN (close_notify), GB (bytes that are not TLS), and application *)
(* chunks of NUMBERED bytes (the i-th byte written into a direction is the *)
(* number i).  `sbuf` is what rustls has produced but the transport has    *)
(* not accepted yet; rustls does not read while it has handshake bytes to  *)
(* send; poll_write buffers (returns Ok(n) although the transport is       *)
(* blocked), poll_flush does not.                                          *)
(*                                                                         *)
(* Properties (clauses; the same names are used by the monitor             *)
(* TlsStreamObs.tla on the REAL records):                                  *)
(*  T1 (C18)  bytes delivered at the far end are a prefix of the bytes     *)
(*            accepted, in order, both directions; end of stream is        *)
(*            reported only after close_notify with everything delivered;  *)
(*            a handshake / transport / record error is returned by the    *)
(*            entry point that hit it (not Ok(0), not Pending); after a    *)
(*            successful flush / shutdown nothing accepted is left behind  *)
(*  T2 (C12)  no application byte reaches the inner transport in the clear *)
(*            and none is accepted before the handshake has completed,     *)
(*            for every order of entry points                              *)
(*  T3 (C09/C07) a handshake that does not complete leaves Read / Write /  *)
(*            FinishHandshake Pending; Shutdown (and Flush) on such a      *)
(*            stream is Ready: closing the connection never waits for the  *)
(*            peer (C07: seeded change C07-n2); after a failed handshake   *)
(*            every further handshake-driving entry point gets an error    *)
(*            again (intended; AS BUILT it panics: `Bug = "asbuilt"`)      *)
(*  T4 (C20)  the info is published exactly once, only after a successful  *)
(*            handshake, with the negotiated values; every receiver,       *)
(*            created before or after, sees it                             *)
(*  T5        FinishHandshake on an established stream is Ok and changes   *)
(*            nothing; the lazy path establishes exactly like it           *)
(***************************************************************************)
EXTENDS Naturals, Sequences, FiniteSets

CONSTANTS MaxOps,      \* bound on the number of steps of a behaviour
          MaxBytes,    \* bound on application bytes per direction
          Sides,       \* subset of {"server", "client"}
          Certs,       \* subset of {"ok", "bad"}: the peer accepts / presents a trusted certificate or not
          ReadCaps, WriteLens, SendLens,
          MaxRx,       \* receivers of the TLS info (server side)
          Bug          \* "none" (intended) | "asbuilt" | a seeded defect of the design (must be refuted)

VARIABLES s,     \* the world: stream under test, transport, peer, ghost counters
          last,  \* what the last step was and what it returned
          hist   \* the ops so far (generation only; hidden by VIEW in the model-checking configs)
vars == <<s, last, hist>>

Run(a, b) == [i \in 1..(IF b >= a THEN b - a + 1 ELSE 0) |-> a + i - 1]
Min(a, b) == IF a < b THEN a ELSE b
It(k)     == [k |-> k, d |-> <<>>]
App(d)    == [k |-> "APP", d |-> d]

RECURSIVE AppLen(_)
AppLen(q) == IF q = <<>> THEN 0 ELSE Len(Head(q).d) + AppLen(Tail(q))
RECURSIVE Flat(_)
Flat(q) == IF q = <<>> THEN <<>> ELSE Head(q) \o Flat(Tail(q))

S0(side, cert) ==
  [side |-> side, cert |-> cert,
   st |-> "hs",                                     \* wrapper state: hs (Handshake) | str (Streaming) | fail
   ph |-> IF side = "server" THEN "s0" ELSE "c1",   \* rustls of the stream: s0 await CH, s2 await CF, c1 await SF, up
   sbuf |-> IF side = "client" THEN <<It("CH")>> ELSE <<>>,   \* ClientConnection::new queues the ClientHello
   wout |-> <<>>, win |-> <<>>,                     \* on the wire: from the stream (not yet read by the peer), to the stream
   rbuf |-> <<>>, gotCN |-> FALSE, rerr |-> FALSE,
   wblock |-> FALSE, closed |-> "open", wshut |-> FALSE, sutshut |-> FALSE,
   fkind |-> "",
   pph |-> IF side = "server" THEN "p0" ELSE "wCH", \* peer: p0 (client, hello not sent), wSF, wCH, wCF, up, fail
   pgot |-> <<>>, pcn |-> FALSE, psent |-> 0, pclosed |-> FALSE, garb |-> FALSE,
   W |-> 0, R |-> 0, clear |-> 0,
   info |-> "unsent", sends |-> 0, rxs |-> 0,
   failed |-> FALSE, early |-> <<>>, ops |-> 0]

NoLast == [op |-> "Init", a |-> 0, res |-> "Ok", n |-> 0, kind |-> "", data |-> <<>>, pre |-> "hs", hit |-> "none",
           pfailed |-> FALSE, same |-> TRUE]

(***************************************************************************)
(* the transport and the record layer                                      *)
(***************************************************************************)
ClosedKind(x) == IF x.closed = "reset" THEN "ConnectionReset" ELSE "BrokenPipe"

\* write what rustls has queued: r = "ok" (nothing left), "blk" (transport Pending), "err"
WriteOut(x) ==
  IF x.sbuf = <<>> THEN [r |-> "ok", x |-> x]
  ELSE IF x.closed # "open" THEN [r |-> "err", x |-> x]
  ELSE IF x.wblock THEN [r |-> "blk", x |-> x]
  ELSE [r |-> "ok", x |-> [x EXCEPT !.wout = @ \o x.sbuf, !.sbuf = <<>>]]

\* last-gasp write of the alert rustls queues when it rejects its input
Gasp(x) == LET y == [x EXCEPT !.sbuf = Append(@, It("AL"))]
           IN IF y.closed = "open" /\ ~y.wblock THEN [y EXCEPT !.wout = @ \o y.sbuf, !.sbuf = <<>>] ELSE y

\* the stream's rustls processes the items it has read, in order
RECURSIVE Eat(_, _)
Eat(x, q) ==
  IF q = <<>> THEN [x |-> x, err |-> FALSE]
  ELSE LET it == Head(q) IN
    CASE x.gotCN -> Eat(x, Tail(q))                       \* whatever follows the peer's close_notify is ignored
      [] it.k \in {"GB", "AL", "RAW"} -> [x |-> x, err |-> TRUE]
      [] x.ph = "s0" -> IF it.k = "CH" THEN Eat([x EXCEPT !.ph = "s2", !.sbuf = Append(@, It("SF"))], Tail(q))
                                       ELSE [x |-> x, err |-> TRUE]
      [] x.ph = "s2" -> IF it.k = "CF" THEN Eat([x EXCEPT !.ph = "up", !.sbuf = Append(@, It("TK"))], Tail(q))
                                       ELSE [x |-> x, err |-> TRUE]
      [] x.ph = "c1" -> IF it.k = "SF" /\ x.cert = "ok"
                          THEN Eat([x EXCEPT !.ph = "up", !.sbuf = Append(@, It("CF"))], Tail(q))
                          ELSE [x |-> x, err |-> TRUE]         \* certificate not trusted (or nonsense)
      [] OTHER -> \* up
         CASE it.k = "APP" -> Eat([x EXCEPT !.rbuf = Append(@, it.d)], Tail(q))
           [] it.k = "CN"  -> Eat([x EXCEPT !.gotCN = TRUE], Tail(q))
           [] it.k = "TK"  -> Eat(x, Tail(q))
           [] OTHER        -> [x |-> x, err |-> TRUE]

(***************************************************************************)
(* poll of the accept / connect future (tokio-rustls MidHandshake)         *)
(* out: "done" | "pend" | "err"                                            *)
(***************************************************************************)
Publish(x) == IF x.info = "unsent" THEN [x EXCEPT !.info = "neg", !.sends = @ + 1] ELSE x

RECURSIVE Drive(_)
Drive(x) ==
  LET w == WriteOut(x) IN
  IF w.r = "err" THEN [x |-> x, out |-> "err", kind |-> ClosedKind(x), hit |-> "transport"]
  ELSE IF w.r = "blk" THEN [x |-> x, out |-> "pend", kind |-> "", hit |-> "none"]
  ELSE LET y == w.x IN
    IF y.ph = "up" THEN [x |-> y, out |-> "done", kind |-> "", hit |-> "none"]
    ELSE IF y.win = <<>> THEN
           CASE y.closed = "eof"   -> [x |-> y, out |-> "err", kind |-> "UnexpectedEof", hit |-> "transport"]
             [] y.closed = "reset" -> [x |-> y, out |-> "err", kind |-> "ConnectionReset", hit |-> "transport"]
             [] OTHER              -> [x |-> y, out |-> "pend", kind |-> "", hit |-> "none"]
    ELSE LET e == Eat([y EXCEPT !.win = <<>>], y.win) IN
         IF e.err THEN [x |-> Gasp(e.x), out |-> "err", kind |-> "InvalidData", hit |-> "handshake"]
         ELSE Drive(e.x)

Ret(x, op, a, res, n, kind, data, hit) ==
  [x |-> x, l |-> [op |-> op, a |-> a, res |-> res, n |-> n, kind |-> kind, data |-> data, hit |-> hit]]

\* what an entry point that goes through `handshake()` does before its own action; k.go says "run the action"
Through(x, op, a) ==
  CASE x.st = "str"  -> [go |-> TRUE, x |-> x, r |-> Ret(x, op, a, "Ok", 0, "", <<>>, "none")]
    [] x.st = "fail" -> \* the accept future has completed: tokio-rustls panics when it is polled again
         [go |-> FALSE, x |-> x,
          r |-> IF Bug = "asbuilt" THEN Ret(x, op, a, "Panic", 0, "", <<>>, "none")
                                   ELSE Ret(x, op, a, "Err", 0, x.fkind, <<>>, "none")]
    [] OTHER ->
       LET x0 == IF Bug = "earlyinfo" /\ x.info = "unsent" THEN [x EXCEPT !.info = "early", !.sends = @ + 1] ELSE x
           d  == IF Bug = "errconsumed" /\ x0.failed
                   THEN [x |-> x0, out |-> "pend", kind |-> "", hit |-> "none"]    \* the error is gone, the future is dead
                   ELSE Drive(x0)
       IN CASE d.out = "pend" -> [go |-> FALSE, x |-> d.x, r |-> Ret(d.x, op, a, "Pending", 0, "", <<>>, "none")]
            [] d.out = "err"  ->
                 LET y == [d.x EXCEPT !.st = IF Bug = "errconsumed" THEN "hs" ELSE "fail", !.failed = TRUE, !.fkind = d.kind]
                 IN [go |-> FALSE, x |-> y, r |-> Ret(y, op, a, "Err", 0, d.kind, <<>>, d.hit)]
            [] OTHER ->
                 LET pub == IF Bug = "lazynoinfo" /\ op # "Fin" /\ d.x.side = "server" THEN d.x ELSE Publish(d.x)
                     y0  == [pub EXCEPT !.st = "str"]
                     y   == [y0 EXCEPT !.sbuf = @ \o [i \in 1..Len(y0.early) |-> App(y0.early[i])], !.early = <<>>]
                 IN [go |-> TRUE, x |-> y, r |-> Ret(y, op, a, "Ok", 0, "", <<>>, "none")]

(***************************************************************************)
(* the entry points on an established stream (tokio-rustls TlsStream)      *)
(***************************************************************************)
ReadStr(x, cap) ==
  \* poll_fill_buf: while rustls wants input (nothing decrypted is waiting, no close_notify yet) read the transport
  \* until it is empty (Pending), ended (EOF) or broken; then hand out the first decrypted chunk
  LET pull == x.rbuf = <<>> /\ ~x.gotCN
      \* a record error poisons rustls: what was decrypted before it stays readable, every later input fails again
      e    == IF pull /\ x.win # <<>>
                THEN IF x.rerr THEN [x |-> [x EXCEPT !.win = <<>>], err |-> TRUE] ELSE Eat([x EXCEPT !.win = <<>>], x.win)
                ELSE [x |-> x, err |-> FALSE]
      y    == e.x
      more == pull /\ y.rbuf = <<>> /\ ~y.gotCN          \* still hungry after what was there: the transport is asked again
  IN IF e.err THEN Ret(Gasp([y EXCEPT !.rerr = TRUE]), "Read", cap, "Err", 0, "InvalidData", <<>>, "record")
     ELSE IF more /\ x.closed = "reset"
       THEN Ret(y, "Read", cap, "Err", 0, "ConnectionReset", <<>>, "transport")
     ELSE IF y.rbuf # <<>> THEN
            LET c == Head(y.rbuf)
                n == Min(cap, Len(c))
                rest == IF n = Len(c) THEN Tail(y.rbuf) ELSE <<SubSeq(c, n + 1, Len(c))>> \o Tail(y.rbuf)
            IN Ret([y EXCEPT !.rbuf = rest, !.R = @ + n], "Read", cap, "Ok", n, "", SubSeq(c, 1, n), "none")
     ELSE IF y.gotCN THEN Ret(y, "Read", cap, "Ok", 0, "", <<>>, "none")                       \* clean end of stream
     ELSE IF x.closed = "eof"
       \* transport ended without close_notify (a poisoned rustls answers the end of input with its old error)
       THEN Ret(y, "Read", cap, "Err", 0, IF y.rerr THEN "InvalidData" ELSE "UnexpectedEof", <<>>, "transport")
     ELSE Ret(y, "Read", cap, "Pending", 0, "", <<>>, "none")

WriteStr(x, n) ==
  IF n = 0 THEN Ret(x, "Write", n, "Ok", 0, "", <<>>, "none")
  ELSE LET y == [x EXCEPT !.sbuf = Append(@, App(Run(x.W + 1, x.W + n)))]
           w == WriteOut(y)
       IN IF w.r = "err" THEN Ret(y, "Write", n, "Err", 0, ClosedKind(y), <<>>, "transport")
          ELSE Ret([w.x EXCEPT !.W = @ + n], "Write", n, "Ok", n, "", <<>>, "none")    \* buffered if the transport is blocked

FlushStr(x) ==
  \* seeded defect (C18-p2): poll_flush flushes the inner TRANSPORT instead of the TLS session, so records that rustls
  \* still holds (transport was blocked when they were written) stay where they are and Ok is reported
  IF Bug = "flushinner" THEN Ret(x, "Flush", 0, "Ok", 0, "", <<>>, "none") ELSE
  LET w == WriteOut(x) IN
  CASE w.r = "err" -> Ret(x, "Flush", 0, "Err", 0, ClosedKind(x), <<>>, "transport")
    [] w.r = "blk" -> Ret(x, "Flush", 0, "Pending", 0, "", <<>>, "none")
    [] OTHER       -> Ret(w.x, "Flush", 0, "Ok", 0, "", <<>>, "none")

ShutStr(x) ==
  LET y == IF x.wshut THEN x ELSE [x EXCEPT !.sbuf = Append(@, It("CN")), !.wshut = TRUE]
      w == WriteOut(y)
  IN CASE w.r = "err" -> Ret(y, "Shutdown", 0, "Err", 0, ClosedKind(y), <<>>, "transport")
       [] w.r = "blk" -> Ret(y, "Shutdown", 0, "Pending", 0, "", <<>>, "none")
       [] OTHER       -> Ret([w.x EXCEPT !.sutshut = TRUE], "Shutdown", 0, "Ok", 0, "", <<>>, "none")

(***************************************************************************)
(* the entry points of the lazily-handshaking wrapper                      *)
(***************************************************************************)
DoFin(x) == Through(x, "Fin", 0).r

DoRead(x, cap) == LET t == Through(x, "Read", cap) IN IF t.go THEN ReadStr(t.x, cap) ELSE t.r

DoWrite(x, n) ==
  IF Bug = "writethrough" /\ x.st = "hs" /\ n > 0 THEN
     \* seeded defect: the bytes are handed to the inner stream while the state is still Handshake
     Ret([x EXCEPT !.wout = Append(@, [k |-> "RAW", d |-> Run(x.W + 1, x.W + n)]), !.W = @ + n, !.clear = @ + n],
         "Write", n, "Ok", n, "", <<>>, "none")
  ELSE LET t == Through(x, "Write", n) IN
       IF t.go THEN WriteStr(t.x, n)
       ELSE IF Bug = "shutdownskip" /\ t.r.l.res = "Pending" /\ n > 0 THEN
              \* seeded defect: bytes are taken into a side buffer while the handshake is pending
              Ret([t.x EXCEPT !.early = Append(@, Run(t.x.W + 1, t.x.W + n)), !.W = @ + n], "Write", n, "Ok", n, "", <<>>, "none")
       ELSE t.r

DoFlush(x) == IF x.st = "str" THEN FlushStr(x) ELSE Ret(x, "Flush", 0, "Ok", 0, "", <<>>, "none")

DoShutdown(x) ==
  IF x.st = "str" THEN ShutStr(x)
  ELSE IF Bug = "shutdownhs" THEN
         \* seeded defect (C07-n2): poll_shutdown goes through the handshake
         LET t == Through(x, "Shutdown", 0) IN IF t.go THEN ShutStr(t.x) ELSE t.r
  ELSE IF Bug = "shutdownskip" THEN Ret([x EXCEPT !.early = <<>>], "Shutdown", 0, "Ok", 0, "", <<>>, "none")
  ELSE Ret(x, "Shutdown", 0, "Ok", 0, "", <<>>, "none")

(***************************************************************************)
(* environment                                                             *)
(***************************************************************************)
\* the peer's rustls processes what the stream has put on the wire
RECURSIVE PEat(_, _)
PEat(x, q) ==
  IF q = <<>> \/ x.pph = "fail" THEN x
  ELSE LET it == Head(q) IN
    CASE it.k \in {"RAW", "AL", "GB"} -> [x EXCEPT !.pph = "fail"]
      [] x.pph = "wSF" -> IF it.k = "SF"
                            THEN IF x.cert = "ok" THEN PEat([x EXCEPT !.pph = "up", !.win = Append(@, It("CF"))], Tail(q))
                                                  ELSE [x EXCEPT !.pph = "fail", !.win = Append(@, It("AL"))]
                            ELSE [x EXCEPT !.pph = "fail"]
      [] x.pph = "wCH" -> IF it.k = "CH" THEN PEat([x EXCEPT !.pph = "wCF", !.win = Append(@, It("SF"))], Tail(q))
                                         ELSE [x EXCEPT !.pph = "fail"]
      [] x.pph = "wCF" -> IF it.k = "CF" THEN PEat([x EXCEPT !.pph = "up", !.win = Append(@, It("TK"))], Tail(q))
                                         ELSE [x EXCEPT !.pph = "fail"]    \* the client's alert
      [] OTHER -> \* up
         IF x.pcn THEN PEat(x, Tail(q))
         ELSE CASE it.k = "APP" -> PEat([x EXCEPT !.pgot = @ \o it.d], Tail(q))
                [] it.k = "CN"  -> PEat([x EXCEPT !.pcn = TRUE], Tail(q))
                [] OTHER        -> PEat(x, Tail(q))

DoPump(x) ==
  LET y == IF x.pph = "p0" THEN [x EXCEPT !.pph = "wSF", !.win = Append(@, It("CH"))] ELSE x
  IN PEat([y EXCEPT !.wout = <<>>], y.wout)

Env(x, op, a) == Ret(x, op, a, "Ok", 0, "", <<>>, "none")

\* the step function: the world after `op` and what the op returned (used by the actions AND, in lock-step, by the monitor)
Step(x, op, a) ==
  CASE op = "Read"     -> DoRead(x, a)
    [] op = "Write"    -> DoWrite(x, a)
    [] op = "Flush"    -> DoFlush(x)
    [] op = "Shutdown" -> DoShutdown(x)
    [] op = "Fin"      -> DoFin(x)
    [] op = "Recv"     -> Env([x EXCEPT !.rxs = @ + 1], op, a)
    [] op = "Pump"     -> Env(DoPump(x), op, a)
    [] op = "PSend"    -> Env([x EXCEPT !.win = Append(@, App(Run(x.psent + 1, x.psent + a))), !.psent = @ + a], op, a)
    [] op = "PClose"   -> Env([x EXCEPT !.win = Append(@, It("CN")), !.pclosed = TRUE], op, a)
    [] op = "PDrop"    -> Env(IF x.closed = "open" THEN [x EXCEPT !.closed = "eof"] ELSE x, op, a)
    [] op = "PReset"   -> Env(IF x.closed = "open" THEN [x EXCEPT !.closed = "reset"] ELSE x, op, a)
    [] op = "Garbage"  -> Env([x EXCEPT !.win = Append(@, It("GB")), !.garb = TRUE], op, a)
    [] op = "WBlock"   -> Env([x EXCEPT !.wblock = TRUE], op, a)
    [] OTHER           -> Env([x EXCEPT !.wblock = FALSE], op, a)    \* WUnblock

SutOps   == {"Read", "Write", "Flush", "Shutdown", "Fin"}
DriveOps == {"Read", "Write", "Fin"}

\* which steps a behaviour of the MODEL takes (the harness' random walks are wider; the monitor does not care)
Enabled(x, op, a) ==
  /\ x.ops < MaxOps
  /\ CASE op = "Read"     -> a \in ReadCaps
       [] op = "Write"    -> a \in WriteLens /\ ~x.wshut /\ x.W + a <= MaxBytes
       [] op = "Recv"     -> x.side = "server" /\ x.rxs < MaxRx
       [] op = "Pump"     -> x.pph = "p0" \/ x.wout # <<>>
       [] op = "PSend"    -> a \in SendLens /\ x.pph = "up" /\ ~x.pclosed /\ x.psent + a <= MaxBytes
       [] op = "PClose"   -> x.pph = "up" /\ ~x.pclosed
       [] op = "PDrop"    -> x.closed = "open"
       [] op = "PReset"   -> x.closed = "open"
       [] op = "Garbage"  -> ~x.garb
       [] op = "WBlock"   -> ~x.wblock
       [] op = "WUnblock" -> x.wblock
       [] OTHER           -> TRUE

Do(op, a) ==
  /\ Enabled(s, op, a)
  /\ LET r == Step(s, op, a) IN
     /\ s' = [r.x EXCEPT !.ops = @ + 1]
     /\ last' = [op |-> op, a |-> a, res |-> r.l.res, n |-> r.l.n, kind |-> r.l.kind, data |-> r.l.data,
                 pre |-> s.st, hit |-> r.l.hit, pfailed |-> s.failed,
                 same |-> ([r.x EXCEPT !.ops = 0] = [s EXCEPT !.ops = 0])]
     /\ hist' = Append(hist, [op |-> op, a |-> a])

Read            == \E c \in ReadCaps : Do("Read", c)
Write           == \E n \in WriteLens : Do("Write", n)
Flush           == Do("Flush", 0)
Shutdown        == Do("Shutdown", 0)
FinishHandshake == Do("Fin", 0)
Recv            == Do("Recv", 0)
Pump            == Do("Pump", 0)
PSend           == \E n \in SendLens : Do("PSend", n)
PClose          == Do("PClose", 0)
PDrop           == Do("PDrop", 0)
PReset          == Do("PReset", 0)
Garbage         == Do("Garbage", 0)
WBlock          == Do("WBlock", 0)
WUnblock        == Do("WUnblock", 0)

Init == /\ \E sd \in Sides, c \in Certs : s = S0(sd, c)
        /\ last = NoLast
        /\ hist = <<>>

Next == \/ Read \/ Write \/ Flush \/ Shutdown \/ FinishHandshake \/ Recv
        \/ Pump \/ PSend \/ PClose \/ PDrop \/ PReset \/ Garbage \/ WBlock \/ WUnblock

Spec == Init /\ [][Next]_vars

(***************************************************************************)
(* the properties, as invariants over the world and the last step          *)
(***************************************************************************)
OnWire(x)   == AppLen(SelectSeq(x.wout, LAMBDA it : it.k = "APP"))
Unsent(x)   == AppLen(SelectSeq(x.sbuf, LAMBDA it : it.k = "APP")) + Len(Flat(x.early))

\* T1: the far end has a prefix of what was accepted, in order; nothing is invented
T1_PrefixOut == s.pgot = Run(1, Len(s.pgot)) /\ Len(s.pgot) <= s.W
T1_PrefixIn  == (last.op = "Read" /\ last.res = "Ok") =>
                   /\ last.data = Run(s.R - last.n + 1, s.R)
                   /\ last.n <= last.a
                   /\ s.R <= s.psent
T1_Quiet     == (last.op \in SutOps /\ last.res # "Ok") => last.n = 0 /\ last.data = <<>>
\* end of stream only after the peer's close_notify, with everything the peer sent delivered
T1_EofReal   == (last.op = "Read" /\ last.res = "Ok" /\ last.n = 0 /\ last.a > 0) => s.pclosed /\ s.gotCN /\ s.R = s.psent
\* an error is returned by the entry point that hit it
T1_ErrProp   == last.hit # "none" => last.res = "Err"
\* a successful flush / shutdown leaves nothing accepted behind
T1_FlushDelivers == (last.op \in {"Flush", "Shutdown"} /\ last.res = "Ok") => Unsent(s) = 0
T1_Accounted == (s.closed = "open" /\ ~s.failed /\ ~s.rerr /\ s.pph # "fail" /\ ~s.pcn) => Len(s.pgot) + OnWire(s) + Unsent(s) = s.W

\* T2: nothing in the clear, nothing accepted before the handshake is over
T2_NoClear   == s.clear = 0 /\ \A i \in 1..Len(s.wout) : s.wout[i].k # "RAW"
T2_NoEarly   == s.st # "str" => (s.W = 0 /\ s.R = 0 /\ OnWire(s) + Unsent(s) = 0)
T2_OkMeansUp == (last.op \in DriveOps /\ last.res = "Ok") => (s.st = "str" /\ s.ph = "up")

\* T3: stalled / failed handshakes
T3_StallPending  == (last.op \in DriveOps /\ last.pre = "hs" /\ s.st = "hs" /\ ~last.pfailed) => last.res = "Pending"
T3_ShutdownReady == (last.op \in {"Shutdown", "Flush"} /\ last.pre # "str") => last.res # "Pending"
T3_FailedSticky  == (last.op \in DriveOps /\ last.pfailed) => last.res = "Err"
T3_NoPanic       == last.res # "Panic"
T3_FailReported  == (s.failed /\ ~last.pfailed) => last.res = "Err"

\* T4: the info
T4_Once          == s.sends <= 1
T4_AfterSuccess  == s.info # "unsent" => (s.st = "str" /\ s.info = "neg")
T4_Available     == s.st = "str" => s.info = "neg"
T4_NeverOnFail   == s.failed => s.info = "unsent"

\* T5: FinishHandshake on an established stream is Ok and changes nothing
T5_Idempotent    == (last.op = "Fin" /\ last.pre = "str") => (last.res = "Ok" /\ last.same)

TypeOK == /\ s.st \in {"hs", "str", "fail"}
          /\ s.ph \in {"s0", "s2", "c1", "up"}
          /\ s.pph \in {"p0", "wSF", "wCH", "wCF", "up", "fail"}
          /\ last.res \in {"Ok", "Pending", "Err", "Panic"}
=============================================================================
