---------------------------- MODULE MC_TlsRoute ----------------------------
(* Model-checking instance of TlsRoute.tla: generation of the vectors and the as-built prediction. *)
EXTENDS TlsRoute, Json

ExpOf(o) == [class |-> Class(o), firsts |-> o.firsts, carrier |-> o.carrier, snis |-> o.snis,
             verifies |-> o.verifies, peerHs |-> o.peerHs, shared |-> o.shared]

\* one line per (vector, transcription): the abstract vector and the outcome the model computes for it
Gen == Done => PrintT(<<"VEC", ToJson([v |-> v, asBuilt |-> asBuilt, exp |-> ExpOf(out)])>>)

PAll(x, o) == /\ P_NoClear(x, o) /\ P_Established(x, o) /\ P_Name(x, o) /\ P_FailIsError(x, o)
              /\ P_OtherNotWrapped(x, o) /\ P_Outcome(x, o) /\ P_PoolClass(x, o)
FailedClause(x, o) == IF ~P_Outcome(x, o) THEN "Outcome" ELSE IF ~P_NoClear(x, o) THEN "NoClear"
                      ELSE IF ~P_Established(x, o) THEN "Established" ELSE IF ~P_Name(x, o) THEN "Name"
                      ELSE IF ~P_FailIsError(x, o) THEN "FailIsError" ELSE IF ~P_OtherNotWrapped(x, o) THEN "OtherNotWrapped"
                      ELSE "PoolClass"
\* prediction from the as-built transcription: the vectors on which the pinned code is expected to break a
\* clause (always TRUE: a report, one ABBAD line per such vector)
AsBuiltReport == AB => (PAll(v, out) \/ PrintT(<<"ABBAD", ToJson([v |-> v, clause |-> FailedClause(v, out)])>>))
\* the same as genuine invariants: TLC must report a violation (standing demonstration that the model
\* distinguishes the as-built behaviour, DESIGN 2.4)
AsBuiltHolds == AB => PAll(v, out)
\* the intended transcription with the merged pool key: TLC must refute it (TlsRoute_keymerge.cfg)
KeyMergeHolds == Claimed => PAll(v, out)
SetterDropsHolds == Claimed => PAll(v, out)
SetterDropsReport == Claimed => (PAll(v, out) \/ PrintT(<<"SDBAD", ToJson([v |-> v, clause |-> FailedClause(v, out)])>>))
KeyMergeReport == Claimed => (PAll(v, out) \/ PrintT(<<"KMBAD", ToJson([v |-> v, clause |-> FailedClause(v, out)])>>))
=============================================================================
