---- MODULE MC_Server_TTrace_1790455419 ----
EXTENDS Sequences, TLCExt, Toolbox, MC_Server, Naturals, TLC

_expression ==
    LET MC_Server_TEExpression == INSTANCE MC_Server_TEExpression
    IN MC_Server_TEExpression!expression
----

_trace ==
    LET MC_Server_TETrace == INSTANCE MC_Server_TETrace
    IN MC_Server_TETrace!trace
----

_inv ==
    ~(
        TLCGet("level") = Len(_TETrace)
        /\
        acc = ("Preparing")
        /\
        oas = ({})
        /\
        making = (0)
        /\
        c = (<<[cl |-> "gone", kind |-> "h2", plain |-> FALSE, behave |-> FALSE, half |-> FALSE, junk |-> FALSE, herr |-> FALSE, sc |-> "closed", told |-> 0, fused |-> FALSE, rq |-> <<[sent |-> 2, st |-> "started", gate |-> "shut", ch |-> 0, sas |-> TRUE], [sent |-> 0, st |-> "none", gate |-> "shut", ch |-> 0, sas |-> FALSE]>>], [cl |-> "new", kind |-> "h1", plain |-> FALSE, behave |-> TRUE, half |-> FALSE, junk |-> FALSE, herr |-> FALSE, sc |-> "none", told |-> 0, fused |-> FALSE, rq |-> <<[sent |-> 0, st |-> "none", gate |-> "shut", ch |-> 0, sas |-> FALSE], [sent |-> 0, st |-> "none", gate |-> "shut", ch |-> 0, sas |-> FALSE]>>]>>)
        /\
        cfg = ([proto |-> "h2", tls |-> FALSE, makeGated |-> FALSE])
        /\
        watchClosed = (TRUE)
        /\
        listener = ("up")
        /\
        cause = ("signal")
        /\
        nenv = (0)
        /\
        mode = ("free")
        /\
        hist = (<<>>)
        /\
        backlog = (<<>>)
        /\
        srvAtSig = ("running")
        /\
        srv = ("ok")
        /\
        nfaults = (1)
        /\
        sigFired = (TRUE)
        /\
        mk = ("none")
    )
----

_init ==
    /\ cause = _TETrace[1].cause
    /\ watchClosed = _TETrace[1].watchClosed
    /\ srv = _TETrace[1].srv
    /\ mk = _TETrace[1].mk
    /\ backlog = _TETrace[1].backlog
    /\ mode = _TETrace[1].mode
    /\ c = _TETrace[1].c
    /\ hist = _TETrace[1].hist
    /\ listener = _TETrace[1].listener
    /\ acc = _TETrace[1].acc
    /\ oas = _TETrace[1].oas
    /\ making = _TETrace[1].making
    /\ sigFired = _TETrace[1].sigFired
    /\ nenv = _TETrace[1].nenv
    /\ srvAtSig = _TETrace[1].srvAtSig
    /\ nfaults = _TETrace[1].nfaults
    /\ cfg = _TETrace[1].cfg
----

_next ==
    /\ \E i,j \in DOMAIN _TETrace:
        /\ \/ /\ j = i + 1
              /\ i = TLCGet("level")
        /\ cause  = _TETrace[i].cause
        /\ cause' = _TETrace[j].cause
        /\ watchClosed  = _TETrace[i].watchClosed
        /\ watchClosed' = _TETrace[j].watchClosed
        /\ srv  = _TETrace[i].srv
        /\ srv' = _TETrace[j].srv
        /\ mk  = _TETrace[i].mk
        /\ mk' = _TETrace[j].mk
        /\ backlog  = _TETrace[i].backlog
        /\ backlog' = _TETrace[j].backlog
        /\ mode  = _TETrace[i].mode
        /\ mode' = _TETrace[j].mode
        /\ c  = _TETrace[i].c
        /\ c' = _TETrace[j].c
        /\ hist  = _TETrace[i].hist
        /\ hist' = _TETrace[j].hist
        /\ listener  = _TETrace[i].listener
        /\ listener' = _TETrace[j].listener
        /\ acc  = _TETrace[i].acc
        /\ acc' = _TETrace[j].acc
        /\ oas  = _TETrace[i].oas
        /\ oas' = _TETrace[j].oas
        /\ making  = _TETrace[i].making
        /\ making' = _TETrace[j].making
        /\ sigFired  = _TETrace[i].sigFired
        /\ sigFired' = _TETrace[j].sigFired
        /\ nenv  = _TETrace[i].nenv
        /\ nenv' = _TETrace[j].nenv
        /\ srvAtSig  = _TETrace[i].srvAtSig
        /\ srvAtSig' = _TETrace[j].srvAtSig
        /\ nfaults  = _TETrace[i].nfaults
        /\ nfaults' = _TETrace[j].nfaults
        /\ cfg  = _TETrace[i].cfg
        /\ cfg' = _TETrace[j].cfg

\* Uncomment the ASSUME below to write the states of the error trace
\* to the given file in Json format. Note that you can pass any tuple
\* to `JsonSerialize`. For example, a sub-sequence of _TETrace.
    \* ASSUME
    \*     LET J == INSTANCE Json
    \*         IN J!JsonSerialize("MC_Server_TTrace_1790455419.json", _TETrace)

=============================================================================

 Note that you can extract this module `MC_Server_TEExpression`
  to a dedicated file to reuse `expression` (the module in the 
  dedicated `MC_Server_TEExpression.tla` file takes precedence 
  over the module `MC_Server_TEExpression` below).

---- MODULE MC_Server_TEExpression ----
EXTENDS Sequences, TLCExt, Toolbox, MC_Server, Naturals, TLC

expression == 
    [
        \* To hide variables of the `MC_Server` spec from the error trace,
        \* remove the variables below.  The trace will be written in the order
        \* of the fields of this record.
        cause |-> cause
        ,watchClosed |-> watchClosed
        ,srv |-> srv
        ,mk |-> mk
        ,backlog |-> backlog
        ,mode |-> mode
        ,c |-> c
        ,hist |-> hist
        ,listener |-> listener
        ,acc |-> acc
        ,oas |-> oas
        ,making |-> making
        ,sigFired |-> sigFired
        ,nenv |-> nenv
        ,srvAtSig |-> srvAtSig
        ,nfaults |-> nfaults
        ,cfg |-> cfg
        
        \* Put additional constant-, state-, and action-level expressions here:
        \* ,_stateNumber |-> _TEPosition
        \* ,_causeUnchanged |-> cause = cause'
        
        \* Format the `cause` variable as Json value.
        \* ,_causeJson |->
        \*     LET J == INSTANCE Json
        \*     IN J!ToJson(cause)
        
        \* Lastly, you may build expressions over arbitrary sets of states by
        \* leveraging the _TETrace operator.  For example, this is how to
        \* count the number of times a spec variable changed up to the current
        \* state in the trace.
        \* ,_causeModCount |->
        \*     LET F[s \in DOMAIN _TETrace] ==
        \*         IF s = 1 THEN 0
        \*         ELSE IF _TETrace[s].cause # _TETrace[s-1].cause
        \*             THEN 1 + F[s-1] ELSE F[s-1]
        \*     IN F[_TEPosition - 1]
    ]

=============================================================================



Parsing and semantic processing can take forever if the trace below is long.
 In this case, it is advised to uncomment the module below to deserialize the
 trace from a generated binary file.

\*
\*---- MODULE MC_Server_TETrace ----
\*EXTENDS IOUtils, MC_Server, TLC
\*
\*trace == IODeserialize("MC_Server_TTrace_1790455419.bin", TRUE)
\*
\*=============================================================================
\*

---- MODULE MC_Server_TETrace ----
EXTENDS MC_Server, TLC

trace == 
    <<
    ([acc |-> "Preparing",oas |-> {},making |-> 0,c |-> <<[cl |-> "new", kind |-> "h1", plain |-> FALSE, behave |-> TRUE, half |-> FALSE, junk |-> FALSE, herr |-> FALSE, sc |-> "none", told |-> 0, fused |-> FALSE, rq |-> <<[sent |-> 0, st |-> "none", gate |-> "shut", ch |-> 0, sas |-> FALSE], [sent |-> 0, st |-> "none", gate |-> "shut", ch |-> 0, sas |-> FALSE]>>], [cl |-> "new", kind |-> "h1", plain |-> FALSE, behave |-> TRUE, half |-> FALSE, junk |-> FALSE, herr |-> FALSE, sc |-> "none", told |-> 0, fused |-> FALSE, rq |-> <<[sent |-> 0, st |-> "none", gate |-> "shut", ch |-> 0, sas |-> FALSE], [sent |-> 0, st |-> "none", gate |-> "shut", ch |-> 0, sas |-> FALSE]>>]>>,cfg |-> [proto |-> "h2", tls |-> FALSE, makeGated |-> FALSE],watchClosed |-> FALSE,listener |-> "up",cause |-> "none",nenv |-> 0,mode |-> "free",hist |-> <<>>,backlog |-> <<>>,srvAtSig |-> "none",srv |-> "running",nfaults |-> 0,sigFired |-> FALSE,mk |-> "none"]),
    ([acc |-> "Preparing",oas |-> {},making |-> 0,c |-> <<[cl |-> "queued", kind |-> "h2", plain |-> FALSE, behave |-> TRUE, half |-> FALSE, junk |-> FALSE, herr |-> FALSE, sc |-> "none", told |-> 0, fused |-> FALSE, rq |-> <<[sent |-> 0, st |-> "none", gate |-> "shut", ch |-> 0, sas |-> FALSE], [sent |-> 0, st |-> "none", gate |-> "shut", ch |-> 0, sas |-> FALSE]>>], [cl |-> "new", kind |-> "h1", plain |-> FALSE, behave |-> TRUE, half |-> FALSE, junk |-> FALSE, herr |-> FALSE, sc |-> "none", told |-> 0, fused |-> FALSE, rq |-> <<[sent |-> 0, st |-> "none", gate |-> "shut", ch |-> 0, sas |-> FALSE], [sent |-> 0, st |-> "none", gate |-> "shut", ch |-> 0, sas |-> FALSE]>>]>>,cfg |-> [proto |-> "h2", tls |-> FALSE, makeGated |-> FALSE],watchClosed |-> FALSE,listener |-> "up",cause |-> "none",nenv |-> 0,mode |-> "free",hist |-> <<>>,backlog |-> <<1>>,srvAtSig |-> "none",srv |-> "running",nfaults |-> 0,sigFired |-> FALSE,mk |-> "none"]),
    ([acc |-> "Accepting",oas |-> {},making |-> 0,c |-> <<[cl |-> "queued", kind |-> "h2", plain |-> FALSE, behave |-> TRUE, half |-> FALSE, junk |-> FALSE, herr |-> FALSE, sc |-> "none", told |-> 0, fused |-> FALSE, rq |-> <<[sent |-> 0, st |-> "none", gate |-> "shut", ch |-> 0, sas |-> FALSE], [sent |-> 0, st |-> "none", gate |-> "shut", ch |-> 0, sas |-> FALSE]>>], [cl |-> "new", kind |-> "h1", plain |-> FALSE, behave |-> TRUE, half |-> FALSE, junk |-> FALSE, herr |-> FALSE, sc |-> "none", told |-> 0, fused |-> FALSE, rq |-> <<[sent |-> 0, st |-> "none", gate |-> "shut", ch |-> 0, sas |-> FALSE], [sent |-> 0, st |-> "none", gate |-> "shut", ch |-> 0, sas |-> FALSE]>>]>>,cfg |-> [proto |-> "h2", tls |-> FALSE, makeGated |-> FALSE],watchClosed |-> FALSE,listener |-> "up",cause |-> "none",nenv |-> 0,mode |-> "free",hist |-> <<>>,backlog |-> <<1>>,srvAtSig |-> "none",srv |-> "running",nfaults |-> 0,sigFired |-> FALSE,mk |-> "none"]),
    ([acc |-> "Making",oas |-> {},making |-> 1,c |-> <<[cl |-> "open", kind |-> "h2", plain |-> FALSE, behave |-> TRUE, half |-> FALSE, junk |-> FALSE, herr |-> FALSE, sc |-> "making", told |-> 0, fused |-> FALSE, rq |-> <<[sent |-> 0, st |-> "none", gate |-> "shut", ch |-> 0, sas |-> FALSE], [sent |-> 0, st |-> "none", gate |-> "shut", ch |-> 0, sas |-> FALSE]>>], [cl |-> "new", kind |-> "h1", plain |-> FALSE, behave |-> TRUE, half |-> FALSE, junk |-> FALSE, herr |-> FALSE, sc |-> "none", told |-> 0, fused |-> FALSE, rq |-> <<[sent |-> 0, st |-> "none", gate |-> "shut", ch |-> 0, sas |-> FALSE], [sent |-> 0, st |-> "none", gate |-> "shut", ch |-> 0, sas |-> FALSE]>>]>>,cfg |-> [proto |-> "h2", tls |-> FALSE, makeGated |-> FALSE],watchClosed |-> FALSE,listener |-> "up",cause |-> "none",nenv |-> 0,mode |-> "free",hist |-> <<>>,backlog |-> <<>>,srvAtSig |-> "none",srv |-> "running",nfaults |-> 0,sigFired |-> FALSE,mk |-> "ok"]),
    ([acc |-> "Preparing",oas |-> {},making |-> 0,c |-> <<[cl |-> "open", kind |-> "h2", plain |-> FALSE, behave |-> TRUE, half |-> FALSE, junk |-> FALSE, herr |-> FALSE, sc |-> "h2", told |-> 0, fused |-> FALSE, rq |-> <<[sent |-> 0, st |-> "none", gate |-> "shut", ch |-> 0, sas |-> FALSE], [sent |-> 0, st |-> "none", gate |-> "shut", ch |-> 0, sas |-> FALSE]>>], [cl |-> "new", kind |-> "h1", plain |-> FALSE, behave |-> TRUE, half |-> FALSE, junk |-> FALSE, herr |-> FALSE, sc |-> "none", told |-> 0, fused |-> FALSE, rq |-> <<[sent |-> 0, st |-> "none", gate |-> "shut", ch |-> 0, sas |-> FALSE], [sent |-> 0, st |-> "none", gate |-> "shut", ch |-> 0, sas |-> FALSE]>>]>>,cfg |-> [proto |-> "h2", tls |-> FALSE, makeGated |-> FALSE],watchClosed |-> FALSE,listener |-> "up",cause |-> "none",nenv |-> 0,mode |-> "free",hist |-> <<>>,backlog |-> <<>>,srvAtSig |-> "none",srv |-> "running",nfaults |-> 0,sigFired |-> FALSE,mk |-> "none"]),
    ([acc |-> "Preparing",oas |-> {},making |-> 0,c |-> <<[cl |-> "open", kind |-> "h2", plain |-> FALSE, behave |-> TRUE, half |-> FALSE, junk |-> FALSE, herr |-> FALSE, sc |-> "h2", told |-> 0, fused |-> FALSE, rq |-> <<[sent |-> 0, st |-> "none", gate |-> "shut", ch |-> 0, sas |-> FALSE], [sent |-> 0, st |-> "none", gate |-> "shut", ch |-> 0, sas |-> FALSE]>>], [cl |-> "new", kind |-> "h1", plain |-> FALSE, behave |-> TRUE, half |-> FALSE, junk |-> FALSE, herr |-> FALSE, sc |-> "none", told |-> 0, fused |-> FALSE, rq |-> <<[sent |-> 0, st |-> "none", gate |-> "shut", ch |-> 0, sas |-> FALSE], [sent |-> 0, st |-> "none", gate |-> "shut", ch |-> 0, sas |-> FALSE]>>]>>,cfg |-> [proto |-> "h2", tls |-> FALSE, makeGated |-> FALSE],watchClosed |-> FALSE,listener |-> "up",cause |-> "none",nenv |-> 0,mode |-> "free",hist |-> <<>>,backlog |-> <<>>,srvAtSig |-> "running",srv |-> "running",nfaults |-> 0,sigFired |-> TRUE,mk |-> "none"]),
    ([acc |-> "Preparing",oas |-> {},making |-> 0,c |-> <<[cl |-> "open", kind |-> "h2", plain |-> FALSE, behave |-> TRUE, half |-> FALSE, junk |-> FALSE, herr |-> FALSE, sc |-> "h2", told |-> 0, fused |-> FALSE, rq |-> <<[sent |-> 2, st |-> "none", gate |-> "shut", ch |-> 0, sas |-> FALSE], [sent |-> 0, st |-> "none", gate |-> "shut", ch |-> 0, sas |-> FALSE]>>], [cl |-> "new", kind |-> "h1", plain |-> FALSE, behave |-> TRUE, half |-> FALSE, junk |-> FALSE, herr |-> FALSE, sc |-> "none", told |-> 0, fused |-> FALSE, rq |-> <<[sent |-> 0, st |-> "none", gate |-> "shut", ch |-> 0, sas |-> FALSE], [sent |-> 0, st |-> "none", gate |-> "shut", ch |-> 0, sas |-> FALSE]>>]>>,cfg |-> [proto |-> "h2", tls |-> FALSE, makeGated |-> FALSE],watchClosed |-> FALSE,listener |-> "up",cause |-> "none",nenv |-> 0,mode |-> "free",hist |-> <<>>,backlog |-> <<>>,srvAtSig |-> "running",srv |-> "running",nfaults |-> 0,sigFired |-> TRUE,mk |-> "none"]),
    ([acc |-> "Preparing",oas |-> {},making |-> 0,c |-> <<[cl |-> "open", kind |-> "h2", plain |-> FALSE, behave |-> TRUE, half |-> FALSE, junk |-> FALSE, herr |-> FALSE, sc |-> "h2", told |-> 0, fused |-> FALSE, rq |-> <<[sent |-> 2, st |-> "started", gate |-> "shut", ch |-> 0, sas |-> FALSE], [sent |-> 0, st |-> "none", gate |-> "shut", ch |-> 0, sas |-> FALSE]>>], [cl |-> "new", kind |-> "h1", plain |-> FALSE, behave |-> TRUE, half |-> FALSE, junk |-> FALSE, herr |-> FALSE, sc |-> "none", told |-> 0, fused |-> FALSE, rq |-> <<[sent |-> 0, st |-> "none", gate |-> "shut", ch |-> 0, sas |-> FALSE], [sent |-> 0, st |-> "none", gate |-> "shut", ch |-> 0, sas |-> FALSE]>>]>>,cfg |-> [proto |-> "h2", tls |-> FALSE, makeGated |-> FALSE],watchClosed |-> FALSE,listener |-> "up",cause |-> "none",nenv |-> 0,mode |-> "free",hist |-> <<>>,backlog |-> <<>>,srvAtSig |-> "running",srv |-> "running",nfaults |-> 0,sigFired |-> TRUE,mk |-> "none"]),
    ([acc |-> "Preparing",oas |-> {},making |-> 0,c |-> <<[cl |-> "gone", kind |-> "h2", plain |-> FALSE, behave |-> FALSE, half |-> FALSE, junk |-> FALSE, herr |-> FALSE, sc |-> "h2", told |-> 0, fused |-> FALSE, rq |-> <<[sent |-> 2, st |-> "started", gate |-> "shut", ch |-> 0, sas |-> FALSE], [sent |-> 0, st |-> "none", gate |-> "shut", ch |-> 0, sas |-> FALSE]>>], [cl |-> "new", kind |-> "h1", plain |-> FALSE, behave |-> TRUE, half |-> FALSE, junk |-> FALSE, herr |-> FALSE, sc |-> "none", told |-> 0, fused |-> FALSE, rq |-> <<[sent |-> 0, st |-> "none", gate |-> "shut", ch |-> 0, sas |-> FALSE], [sent |-> 0, st |-> "none", gate |-> "shut", ch |-> 0, sas |-> FALSE]>>]>>,cfg |-> [proto |-> "h2", tls |-> FALSE, makeGated |-> FALSE],watchClosed |-> FALSE,listener |-> "up",cause |-> "none",nenv |-> 0,mode |-> "free",hist |-> <<>>,backlog |-> <<>>,srvAtSig |-> "running",srv |-> "running",nfaults |-> 1,sigFired |-> TRUE,mk |-> "none"]),
    ([acc |-> "Preparing",oas |-> {},making |-> 0,c |-> <<[cl |-> "gone", kind |-> "h2", plain |-> FALSE, behave |-> FALSE, half |-> FALSE, junk |-> FALSE, herr |-> FALSE, sc |-> "closed", told |-> 0, fused |-> FALSE, rq |-> <<[sent |-> 2, st |-> "started", gate |-> "shut", ch |-> 0, sas |-> FALSE], [sent |-> 0, st |-> "none", gate |-> "shut", ch |-> 0, sas |-> FALSE]>>], [cl |-> "new", kind |-> "h1", plain |-> FALSE, behave |-> TRUE, half |-> FALSE, junk |-> FALSE, herr |-> FALSE, sc |-> "none", told |-> 0, fused |-> FALSE, rq |-> <<[sent |-> 0, st |-> "none", gate |-> "shut", ch |-> 0, sas |-> FALSE], [sent |-> 0, st |-> "none", gate |-> "shut", ch |-> 0, sas |-> FALSE]>>]>>,cfg |-> [proto |-> "h2", tls |-> FALSE, makeGated |-> FALSE],watchClosed |-> FALSE,listener |-> "up",cause |-> "none",nenv |-> 0,mode |-> "free",hist |-> <<>>,backlog |-> <<>>,srvAtSig |-> "running",srv |-> "running",nfaults |-> 1,sigFired |-> TRUE,mk |-> "none"]),
    ([acc |-> "Preparing",oas |-> {},making |-> 0,c |-> <<[cl |-> "gone", kind |-> "h2", plain |-> FALSE, behave |-> FALSE, half |-> FALSE, junk |-> FALSE, herr |-> FALSE, sc |-> "closed", told |-> 0, fused |-> FALSE, rq |-> <<[sent |-> 2, st |-> "started", gate |-> "shut", ch |-> 0, sas |-> TRUE], [sent |-> 0, st |-> "none", gate |-> "shut", ch |-> 0, sas |-> FALSE]>>], [cl |-> "new", kind |-> "h1", plain |-> FALSE, behave |-> TRUE, half |-> FALSE, junk |-> FALSE, herr |-> FALSE, sc |-> "none", told |-> 0, fused |-> FALSE, rq |-> <<[sent |-> 0, st |-> "none", gate |-> "shut", ch |-> 0, sas |-> FALSE], [sent |-> 0, st |-> "none", gate |-> "shut", ch |-> 0, sas |-> FALSE]>>]>>,cfg |-> [proto |-> "h2", tls |-> FALSE, makeGated |-> FALSE],watchClosed |-> TRUE,listener |-> "up",cause |-> "signal",nenv |-> 0,mode |-> "free",hist |-> <<>>,backlog |-> <<>>,srvAtSig |-> "running",srv |-> "ok",nfaults |-> 1,sigFired |-> TRUE,mk |-> "none"])
    >>
----


=============================================================================

---- CONFIG MC_Server_TTrace_1790455419 ----
CONSTANTS
    NConn = 2
    MaxReq = 2
    Protos <- AllProtos
    TlsModes <- BothBool
    MakeModes <- BothBool
    MaxFaults = 2
    AsBuiltD8 = FALSE
    GenMode = FALSE
    GenLen = 0

INVARIANT
    _inv

CHECK_DEADLOCK
    \* CHECK_DEADLOCK off because of PROPERTY or INVARIANT above.
    FALSE

INIT
    _init

NEXT
    _next

CONSTANT
    _TETrace <- _trace

ALIAS
    _expression
=============================================================================
\* Generated on Sat Sep 26 20:43:49 UTC 2026