------------------------------ MODULE Upgrade ------------------------------
(***************************************************************************)
(* Protocol upgrades through the whole stack: a client with a connection   *)
(* pool sends k requests to ONE origin, some of them ask for a protocol    *)
(* upgrade (HTTP/1.1 `Upgrade:` answered with 101, or CONNECT answered     *)
(* with 2xx); the server (with_http1, or with_auto_http = a sniffer in     *)
(* front that reads up to SniffMax tokens and replays them through a       *)
(* rewind buffer) accepts the upgrade, refuses it with an ordinary         *)
(* response (keep-alive or `Connection: close`) or - on an HTTP/2          *)
(* connection - never sees the upgrade headers at all.                     *)
(*                                                                         *)
(* Bytes are TOKENS.  Client to server: HL head tokens per request         *)
(* ("h", r, j) - fragmentation may cut inside a head -, numbered tunnel    *)
(* bytes ("b", r, i), "fin".  Server to client: one response token         *)
(* ("resp", r, code), tunnel bytes, "fin".  Per connection the path        *)
(*   client app/pool -> w (in flight) -> sock (arrived, unread)            *)
(*       -> pre (the sniffer's rewind prefix) -> rb (hyper's read buffer)  *)
(*       -> HTTP parser | tunnel reader of the server application          *)
(* and back  server -> d (in flight, delivered only while the gate of the  *)
(* connection is open) -> client dispatcher | tunnel reader of the caller. *)
(*                                                                         *)
(* The pool's view of a connection: out (held by a request) -> ready (the  *)
(* request's future is done, `WhenReady` waits for the connection) ->      *)
(* idle | gone;  HTTP/2 connections are shared and stay in the pool.       *)
(*                                                                         *)
(* Environment: Issue, Open (gate), tunnel writes / half-close / drop on   *)
(* either side, the graceful shutdown signal at any point, fragmentation   *)
(* (Net delivers one token or everything).  With Quiescent = TRUE the      *)
(* environment moves only when the system has nothing left to do: that is  *)
(* the discipline of the Rust driver (settle after every step) and what    *)
(* the generation config prints.                                           *)
(*                                                                         *)
(* Properties                                                              *)
(*   U1 (C02)  no request is sent on a connection after it carried an      *)
(*             accepted upgrade; a connection is discarded only if it was  *)
(*             upgraded or closed (a refused upgrade with a keep-alive     *)
(*             response leaves it reusable, one with close does not)       *)
(*   U2 (C18)  each direction of a tunnel delivers exactly the bytes       *)
(*             written, in order, from the first byte after the request    *)
(*             head / after the 101; no tunnel byte reaches the HTTP       *)
(*             parser; EOF only after the writer ended, and then surely    *)
(*   U3 (C01)  every response is the one the server produced for that      *)
(*             request; the server sees request heads whole; requests not  *)
(*             hit by a close / the shutdown complete                      *)
(*   U4 (C13)  on an HTTP/2 connection the head carries no connection      *)
(*             specific headers, nobody switches protocols, CONNECT is     *)
(*             rejected before anything is sent                            *)
(*   U5        both `upgrade::on` futures resolve once the 101 is          *)
(*             exchanged (liveness), with an error when the peer answers   *)
(*             normally                                                    *)
(***************************************************************************)
EXTENDS Naturals, Sequences, FiniteSets, TLC

CONSTANTS
  KindVecs,      \* set of sequences of [kind, early]: the requests of one scenario
  MaxConn,       \* connections that can be dialled
  Server,        \* "h1" | "auto"
  Client,        \* "pool" (the real client) | "raw" (scripted: head and early bytes in one segment, no pool)
  HL,            \* tokens per request head
  SniffMax,      \* tokens the sniffer takes at most (24 bytes in the code)
  MaxW,          \* tunnel bytes per direction and tunnel, early bytes included
  WSizes,        \* sizes of one tunnel write
  MaxEnv,        \* bound on tunnel operations + shutdown per behaviour
  HoldSets,      \* the sets of connections whose server-to-client direction may start held
  DHoldSets,     \* the sets of connections whose DIAL may be held: the request that dials waits, and may be served by a released connection
  AllowShutdown, AllowDrop,
  Quiescent,     \* environment steps only when the system is quiet; LIFO choice of the idle connection
  Bug            \* "none" or a seeded defect

Kinds == {"plain", "up", "refuse", "refuseclose", "connect", "h2plain", "h2up", "h2connect"}
Bugs  == {"none", "isopen", "handback", "half", "dupprefix", "swallow", "h2hdr", "h2switch", "h2connect", "crosstalk", "noeof", "nowake", "lostwake"}

ASSUME /\ MaxConn \in Nat /\ HL \in Nat \ {0} /\ SniffMax \in Nat \ {0} /\ MaxW \in Nat /\ MaxEnv \in Nat
       /\ Server \in {"h1", "auto"} /\ Client \in {"pool", "raw"} /\ Bug \in Bugs
       /\ AllowShutdown \in BOOLEAN /\ AllowDrop \in BOOLEAN /\ Quiescent \in BOOLEAN

VARIABLES
  kinds,   \* the chosen request vector
  hold,    \* the chosen sets of held connections: [s |-> server-to-client direction, d |-> dial]
  req,     \* r -> [st, c, code, for, con, son, after]
  conn,    \* c -> connection record
  tun,     \* r -> the tunnel of request r as its two applications see it
  shut,    \* the graceful shutdown signal has fired
  nenv,    \* tunnel operations + shutdown so far
  flags,   \* history: things that must never happen
  stamp,   \* push counter of the idle list
  hist     \* generation: environment steps and the quiescent observation before each

vars == <<kinds, hold, req, conn, tun, shut, nenv, flags, stamp, hist>>

N    == Len(kinds)
Reqs == 1..N
Cs   == 1..MaxConn

Base(k) == CASE k = "h2plain" -> "plain" [] k = "h2up" -> "up" [] k = "h2connect" -> "connect" [] OTHER -> k
IsH2Kind(k)   == k \in {"h2plain", "h2up", "h2connect"}
Upgradeish(k) == Base(k) \in {"up", "connect", "refuse", "refuseclose"}
HasUpHdr(k)   == Base(k) \in {"up", "refuse", "refuseclose"}       \* the caller put `Connection: upgrade` / `Upgrade:` on it
Kind(r)  == kinds[r].kind

Tok(k, r, i, x) == [k |-> k, r |-> r, i |-> i, x |-> x]
HeadToks(r, hdr) == [j \in 1..HL |-> Tok("h", r, j, IF hdr THEN "hdr" ELSE "")]
ByteToks(r, from, n) == [j \in 1..n |-> Tok("b", r, from + j, "")]
Fin == Tok("fin", 0, 0, "")
Resp(r, code) == Tok("resp", r, 0, code)

Req0  == [st |-> "new", c |-> 0, code |-> "", for |-> 0, con |-> "none", son |-> "none", after |-> FALSE]
Conn0 == [ver |-> "none", cst |-> "none", pool |-> "none", sst |-> "none", up |-> FALSE, ctun |-> 0, stun |-> 0, gate |-> TRUE, dgate |-> TRUE, owner |-> 0,
          w |-> <<>>, sock |-> <<>>, pre |-> <<>>, opre |-> <<>>, rb |-> <<>>, d |-> <<>>, cq |-> <<>>, stamp |-> 0]
Tun0  == [cw |-> 0, cws |-> "none", sgot |-> <<>>, seof |-> FALSE, sw |-> 0, sws |-> "none", cgot |-> <<>>, ceof |-> FALSE]
Flags0 == [parsedByte |-> FALSE, badHead |-> FALSE, h2hdr |-> FALSE, h2switch |-> FALSE, h2connectSent |-> FALSE,
           spurious |-> FALSE, lostConn |-> FALSE, strayResp |-> FALSE]

Init == /\ kinds \in KindVecs
        /\ hold \in [s : HoldSets, d : DHoldSets]
        /\ ((\E i \in 1..Len(kinds) : IsH2Kind(kinds[i].kind)) => hold.d = {})     \* (waiting for an HTTP/2 attempt of somebody else: Pool.tla)
        /\ req = [r \in 1..Len(kinds) |-> Req0]
        /\ conn = [c \in Cs |-> Conn0]
        /\ tun = [r \in 1..Len(kinds) |-> Tun0]
        /\ shut = FALSE /\ nenv = 0 /\ flags = Flags0 /\ stamp = 0
        /\ hist = [steps |-> <<>>, pre |-> <<>>, fin |-> FALSE]

(* ------------------------------------------------------------------------ *)
(* the pool's judgement of a connection                                     *)
IsOpen(c) == \/ conn[c].cst = "open"
             \/ Bug \in {"isopen", "handback"} /\ conn[c].cst = "tunnel"
InPool(c) == conn[c].pool \in {"idle", "shared"}
Usable(c) == InPool(c) /\ IsOpen(c)
\* LIFO: entries above the first open one are closed ones, the pop discards them
TopUsable(c) == Usable(c) /\ \A e \in Cs : (Usable(e) /\ e # c) => conn[e].stamp < conn[c].stamp
Unused(c) == conn[c].ver = "none"
NextUnused(c) == Unused(c) /\ \A e \in Cs : e < c => ~Unused(e)

(* ------------------------------------------------------------------------ *)
(* what may still move on its own                                           *)
NetReady(c)  == conn[c].w # <<>>
CRecvReady(c) == /\ conn[c].gate /\ conn[c].d # <<>>
                 \* seeded liveness defect: a 101 that was held back is never looked at again
                 /\ ~(Bug = "lostwake" /\ c \in hold.s /\ Head(conn[c].d).k = "resp" /\ Head(conn[c].d).x = "switch")
SrvInput(c)  == conn[c].rb # <<>> \/ conn[c].pre # <<>> \/ conn[c].sock # <<>>
Partial(rb)  == rb # <<>> /\ Len(rb) < HL /\ \A j \in 1..Len(rb) : rb[j].k = "h" /\ rb[j].r = rb[1].r /\ rb[j].i = j
SrvCanStep(c) == \/ conn[c].sst = "sniff" /\ conn[c].sock # <<>>
                 \/ conn[c].sst = "http" /\ (conn[c].pre # <<>> \/ conn[c].sock # <<>> \/ (conn[c].rb # <<>> /\ ~Partial(conn[c].rb)))
                 \/ conn[c].sst = "tunnel" /\ SrvInput(c)
\* graceful shutdown of a connection the server has nothing to do on; an HTTP/2 connection is closed in two phases (GOAWAY, ping,
\* final GOAWAY) which need the client's cooperation: only once everything the server sent has reached the client
SrvCloseReady(c) == /\ shut /\ conn[c].sst \in {"sniff", "http"} /\ ~SrvCanStep(c)
                    /\ (conn[c].ver = "h2" => (conn[c].gate /\ conn[c].d = <<>> /\ conn[c].w = <<>>))
AcquireReady(r) == req[r].st = "wait" /\ \E c \in Cs : Usable(c)
DialReady(r)    == req[r].st = "wait" /\ req[r].c = 0 /\ (~\E c \in Cs : Usable(c)) /\ \E c \in Cs : Unused(c)
DialDoneReady(c) == conn[c].cst = "dialing" /\ conn[c].dgate
SysEnabled ==
  \/ \E r \in Reqs : AcquireReady(r) \/ DialReady(r)
  \/ \E c \in Cs : \/ NetReady(c) \/ CRecvReady(c) \/ DialDoneReady(c)
                   \/ conn[c].pool = "ready"
                   \/ SrvCanStep(c)
                   \/ SrvCloseReady(c)
Quiet == ~SysEnabled
EnvOK == ~Quiescent \/ Quiet

Snap ==   \* what the driver can observe in a quiescent state
  [rq |-> [r \in Reqs |-> [st |-> CASE req[r].st = "new" -> "new" [] req[r].st \in {"wait", "sent"} -> "pending"
                                    [] req[r].st = "resp" -> "resp" [] OTHER -> "error",
                           code |-> req[r].code, con |-> req[r].con, son |-> req[r].son,
                           cw |-> tun[r].cw, sn |-> Len(tun[r].sgot), seof |-> tun[r].seof,
                           sw |-> tun[r].sw, cn |-> Len(tun[r].cgot), ceof |-> tun[r].ceof]],
   idle |-> Cardinality({c \in Cs : Usable(c)}),
   dials |-> Cardinality({c \in Cs : conn[c].sst # "none"})]

Log(a, r, n, c) == hist' = IF Quiescent THEN [hist EXCEPT !.steps = Append(@, [a |-> a, r |-> r, n |-> n, c |-> c]), !.pre = Append(@, Snap)]
                                        ELSE hist

(* ------------------------------------------------------------------------ *)
(* client: issue, checkout, send                                            *)
SendOn(r, c, cn) ==   \* request r goes out on connection c whose record (after a dial) is cn
  LET k == Kind(r)
      h2 == cn.ver = "h2"
  IN IF h2 /\ Base(k) = "connect" /\ Bug # "h2connect"
     THEN /\ req' = [req EXCEPT ![r] = [@ EXCEPT !.st = "fail", !.c = c, !.code = "rej"]]
          /\ conn' = [conn EXCEPT ![c] = [cn EXCEPT !.pool = "shared", !.stamp = stamp + 1]]
          /\ flags' = flags /\ stamp' = stamp + 1
     ELSE /\ req' = [req EXCEPT ![r] = [@ EXCEPT !.st = "sent", !.c = c, !.after = cn.up]]
          /\ conn' = [conn EXCEPT ![c] = [cn EXCEPT !.w = @ \o HeadToks(r, IF h2 THEN Bug = "h2hdr" /\ HasUpHdr(k) ELSE HasUpHdr(k)),
                                                    !.cq = Append(@, r),
                                                    !.pool = IF h2 THEN "shared" ELSE "out",
                                                    !.stamp = IF h2 THEN stamp + 1 ELSE @]]
          /\ stamp' = IF h2 THEN stamp + 1 ELSE stamp
          /\ flags' = [flags EXCEPT !.h2hdr = @ \/ (h2 /\ Bug = "h2hdr" /\ HasUpHdr(k)),
                                    !.h2connectSent = @ \/ (h2 /\ Base(k) = "connect")]

Issue(r) ==
  /\ EnvOK /\ ~hist.fin
  /\ req[r].st = "new" /\ (IF r = 1 THEN TRUE ELSE req[r - 1].st # "new")
  /\ (Client = "raw" => (shut \/ \E c \in Cs : Unused(c)))
  /\ Log("Issue", r, 0, 0)
  /\ IF Client = "pool"
     THEN /\ req' = [req EXCEPT ![r].st = "wait"]
          /\ UNCHANGED <<conn, tun, flags>>
     ELSE \* the raw client dials by itself and writes the head and the early bytes in one go
          IF shut
          THEN /\ req' = [req EXCEPT ![r].st = "fail"]
               /\ UNCHANGED <<conn, tun, flags>>
          ELSE LET c == CHOOSE c \in Cs : NextUnused(c)
                   e == kinds[r].early
               IN /\ req' = [req EXCEPT ![r] = [@ EXCEPT !.st = "sent", !.c = c]]
                  /\ conn' = [conn EXCEPT ![c] = [Conn0 EXCEPT !.ver = "h1", !.cst = "open", !.pool = "raw", !.gate = c \notin hold.s,
                                                               !.sst = IF Server = "auto" THEN "sniff" ELSE "http",
                                                               !.w = HeadToks(r, HasUpHdr(Kind(r))) \o ByteToks(r, 0, e), !.cq = <<r>>]]
                  /\ tun' = [tun EXCEPT ![r] = [@ EXCEPT !.cw = e, !.cws = IF Base(Kind(r)) \in {"up", "connect"} THEN "open" ELSE "none"]]
                  /\ flags' = flags
  /\ UNCHANGED <<kinds, hold, shut, nenv, stamp>>

Acquire(r) ==
  /\ AcquireReady(r)
  /\ (Quiescent => \A q \in Reqs : q < r => req[q].st # "wait")      \* (generation: the waiters are served first come, first served)
  /\ \E c \in Cs :
       /\ IF Quiescent THEN TopUsable(c) ELSE Usable(c)
       /\ SendOn(r, c, conn[c])
  /\ UNCHANGED <<kinds, hold, tun, shut, nenv, hist>>

Established(cn) == [cn EXCEPT !.cst = "open", !.sst = IF Server = "auto" /\ cn.ver = "h1" THEN "sniff" ELSE "http"]

Dial(r) ==     \* (every attempt takes the next connection number, also one that is refused)
  /\ DialReady(r) /\ \E c \in Cs : Unused(c)
  /\ LET c == CHOOSE c \in Cs : NextUnused(c)
         v == IF IsH2Kind(Kind(r)) /\ Server = "auto" THEN "h2" ELSE "h1"
         cn == [Conn0 EXCEPT !.ver = v, !.gate = c \notin hold.s, !.owner = r]
     IN IF c \in hold.d
        THEN \* the dial is held: the request waits (and may meanwhile be served by a connection somebody releases)
             /\ conn' = [conn EXCEPT ![c] = [cn EXCEPT !.cst = "dialing", !.dgate = FALSE]]
             /\ req' = [req EXCEPT ![r].c = c]
             /\ UNCHANGED <<flags, stamp>>
        ELSE IF shut
        THEN \* the listener is gone: refused (excused)
             /\ conn' = [conn EXCEPT ![c] = [cn EXCEPT !.cst = "closed", !.pool = "gone"]]
             /\ req' = [req EXCEPT ![r].st = "fail"]
             /\ UNCHANGED <<flags, stamp>>
        ELSE SendOn(r, c, Established(cn))
  /\ UNCHANGED <<kinds, hold, tun, shut, nenv, hist>>

DialDone(c) ==     \* a held dial completes: its request takes it if it still waits, otherwise the connection joins the pool
  /\ DialDoneReady(c)
  /\ LET cn == conn[c]
         r  == cn.owner
         waiting == req[r].st = "wait" /\ req[r].c = c
     IN IF shut
        THEN /\ conn' = [conn EXCEPT ![c] = [cn EXCEPT !.cst = "closed", !.pool = "gone"]]
             /\ req' = IF waiting THEN [req EXCEPT ![r].st = "fail"] ELSE req
             /\ UNCHANGED <<flags, stamp>>
        ELSE IF waiting THEN SendOn(r, c, Established(cn))
        ELSE /\ conn' = [conn EXCEPT ![c] = [Established(cn) EXCEPT !.pool = IF cn.ver = "h2" THEN "shared" ELSE "idle", !.stamp = stamp + 1]]
             /\ stamp' = stamp + 1
             /\ UNCHANGED <<req, flags>>
  /\ UNCHANGED <<kinds, hold, tun, shut, nenv, hist>>

(* ------------------------------------------------------------------------ *)
(* the wire and the server                                                  *)
Net(c) ==
  /\ NetReady(c)
  /\ \E k \in (IF Quiescent THEN {Len(conn[c].w)} ELSE {1, Len(conn[c].w)}) :
       conn' = [conn EXCEPT ![c] = [@ EXCEPT !.w = SubSeq(@, k + 1, Len(@)),
                                             !.sock = IF conn[c].sst = "closed" THEN <<>> ELSE @ \o SubSeq(conn[c].w, 1, k)]]
  /\ UNCHANGED <<kinds, hold, req, tun, shut, nenv, flags, stamp, hist>>

Min(a, b) == IF a < b THEN a ELSE b

Sniff(c) ==
  /\ conn[c].sst = "sniff" /\ conn[c].sock # <<>>
  /\ LET n == Min(SniffMax, Len(conn[c].sock))
     IN conn' = [conn EXCEPT ![c] = [@ EXCEPT !.pre = SubSeq(conn[c].sock, 1, n), !.opre = SubSeq(conn[c].sock, 1, n),
                                              !.sock = SubSeq(@, n + 1, Len(@)), !.sst = "http"]]
  /\ UNCHANGED <<kinds, hold, req, tun, shut, nenv, flags, stamp, hist>>

SrvRead(c) ==    \* hyper reads through the rewind adapter: the prefix first, then the live stream
  /\ conn[c].sst = "http" /\ (conn[c].pre # <<>> \/ conn[c].sock # <<>>)
  /\ conn' = [conn EXCEPT ![c] = IF @.pre # <<>> THEN [@ EXCEPT !.rb = @ \o conn[c].pre, !.pre = <<>>]
                                                 ELSE [@ EXCEPT !.rb = @ \o conn[c].sock, !.sock = <<>>]]
  /\ UNCHANGED <<kinds, hold, req, tun, shut, nenv, flags, stamp, hist>>

HeadAt(rb) == /\ Len(rb) >= HL
              /\ \A j \in 1..HL : rb[j].k = "h" /\ rb[j].r = rb[1].r /\ rb[j].i = j

Parse(c) ==      \* a complete head: the handler answers at once
  /\ conn[c].sst = "http" /\ HeadAt(conn[c].rb)
  /\ LET cn   == conn[c]
         r    == cn.rb[1].r
         k    == Kind(r)
         rest == SubSeq(cn.rb, HL + 1, Len(cn.rb))
         h2   == cn.ver = "h2"
         acc  == ~h2 /\ Base(k) \in {"up", "connect"}
         sw   == h2 /\ Bug = "h2switch" /\ Base(k) = "up"
         code == IF h2 THEN (IF sw THEN "switch" ELSE "h2ok")
                 ELSE CASE Base(k) \in {"up", "connect"} -> "switch" [] Base(k) = "refuseclose" -> "okclose" [] OTHER -> "ok"
         ans  == IF Bug = "crosstalk" /\ r > 1 /\ ~acc THEN r - 1 ELSE r
         closing == ~acc /\ (code = "okclose" \/ (shut /\ ~h2))
     IN /\ conn' = [conn EXCEPT ![c] =
               [cn EXCEPT !.d = (@ \o <<Resp(ans, code)>>) \o (IF closing THEN <<Fin>> ELSE <<>>),
                          !.sst = IF acc THEN "tunnel" ELSE IF closing THEN "closed" ELSE "http",
                          !.stun = IF acc THEN r ELSE @,
                          !.rb = IF acc THEN (CASE Bug = "swallow" -> <<>>
                                                [] Bug = "dupprefix" -> rest \o cn.opre
                                                [] OTHER -> rest)
                                 ELSE rest]]
        /\ req' = [req EXCEPT ![r].son = IF acc /\ Bug # "nowake" THEN "ok" ELSE @]      \* (a handler that refuses does not ask for the upgraded IO)
        /\ tun' = [tun EXCEPT ![r].sws = IF acc THEN "open" ELSE @]
        /\ flags' = [flags EXCEPT !.h2switch = @ \/ sw]
  /\ UNCHANGED <<kinds, hold, shut, nenv, stamp, hist>>

ParseOther(c) ==   \* something that is not a head at the front of the read buffer
  /\ conn[c].sst = "http" /\ conn[c].rb # <<>> /\ ~HeadAt(conn[c].rb)
  /\ LET t == conn[c].rb[1]
     IN /\ ~Partial(conn[c].rb)        \* an incomplete head just waits for more
        /\ conn' = [conn EXCEPT ![c] = [@ EXCEPT !.rb = <<>>, !.sock = <<>>, !.pre = <<>>, !.sst = "closed", !.d = Append(@, Fin)]]
        /\ flags' = [flags EXCEPT !.parsedByte = @ \/ t.k = "b", !.badHead = @ \/ t.k = "h"]
  /\ UNCHANGED <<kinds, hold, req, tun, shut, nenv, stamp, hist>>

RECURSIVE Deliver(_, _, _)
Deliver(got, toks, r) == IF toks = <<>> THEN got
                         ELSE LET t == Head(toks)
                              IN Deliver(IF t.k = "fin" THEN got ELSE Append(got, <<t.r, IF t.k = "b" THEN t.i ELSE 0>>), Tail(toks), r)
HasFin(toks) == \E j \in 1..Len(toks) : toks[j].k = "fin"

TunRead(c) ==    \* the server application reads its upgraded IO: hyper's buffer, then the rewind prefix, then the stream
  /\ conn[c].sst = "tunnel" /\ SrvInput(c)
  /\ LET cn == conn[c]
         r  == cn.stun
         src == IF cn.rb # <<>> THEN cn.rb ELSE IF cn.pre # <<>> THEN cn.pre ELSE cn.sock
     IN /\ conn' = [conn EXCEPT ![c] = IF cn.rb # <<>> THEN [cn EXCEPT !.rb = <<>>]
                                       ELSE IF cn.pre # <<>> THEN [cn EXCEPT !.pre = <<>>] ELSE [cn EXCEPT !.sock = <<>>]]
        /\ tun' = IF tun[r].sws = "drop" THEN tun
                  ELSE [tun EXCEPT ![r] = [@ EXCEPT !.sgot = Deliver(@, src, r), !.seof = @ \/ (HasFin(src) /\ Bug # "noeof")]]
  /\ UNCHANGED <<kinds, hold, req, shut, nenv, flags, stamp, hist>>

SrvClose(c) ==   \* graceful shutdown: a connection that is still sniffing is cancelled, an idle one is closed
  /\ SrvCloseReady(c)
  /\ conn' = [conn EXCEPT ![c] = [@ EXCEPT !.sst = "closed", !.d = Append(@, Fin), !.sock = <<>>, !.pre = <<>>, !.rb = <<>>]]
  /\ UNCHANGED <<kinds, hold, req, tun, shut, nenv, flags, stamp, hist>>

(* ------------------------------------------------------------------------ *)
(* client: what arrives                                                     *)
FailAll(rq, q) == [r \in DOMAIN rq |-> IF \E j \in 1..Len(q) : q[j] = r THEN [rq[r] EXCEPT !.st = "fail"] ELSE rq[r]]

CRecv(c) ==
  /\ CRecvReady(c)
  /\ LET cn == conn[c]
         t  == Head(cn.d)
         rest == Tail(cn.d)
     IN CASE cn.cst = "closed" ->
               /\ conn' = [conn EXCEPT ![c].d = <<>>]
               /\ UNCHANGED <<req, tun, flags>>
          [] t.k = "resp" /\ cn.cst = "open" ->
               IF cn.cq = <<>>
               THEN /\ conn' = [conn EXCEPT ![c].d = rest]
                    /\ flags' = [flags EXCEPT !.strayResp = TRUE]
                    /\ UNCHANGED <<req, tun>>
               ELSE LET h2 == cn.ver = "h2"
                        r  == IF h2 /\ \E j \in 1..Len(cn.cq) : cn.cq[j] = t.r THEN t.r ELSE Head(cn.cq)
                        k  == Kind(r)
                        swi == t.x = "switch" /\ ~h2
                        con == IF swi THEN "ok" ELSE IF Upgradeish(k) THEN "err" ELSE "none"
                    IN /\ req' = [req EXCEPT ![r] = [@ EXCEPT !.st = "resp", !.code = t.x, !.for = t.r, !.con = con]]
                       /\ conn' = [conn EXCEPT ![c] =
                             [cn EXCEPT !.d = rest,
                                        !.cq = SelectSeq(@, LAMBDA x : x # r),
                                        !.cst = IF swi THEN "tunnel" ELSE IF t.x = "okclose" THEN "closed" ELSE @,
                                        !.up = @ \/ swi,
                                        !.ctun = IF swi THEN r ELSE @,
                                        !.pool = IF cn.pool = "out" THEN "ready" ELSE @]]
                       /\ tun' = [tun EXCEPT ![r].cws = IF swi /\ @ = "none" THEN "open" ELSE @]
                       /\ flags' = flags
          [] t.k = "b" ->
               /\ conn' = [conn EXCEPT ![c].d = rest]
               /\ tun' = IF cn.cst = "tunnel" /\ tun[cn.ctun].cws # "drop"
                         THEN [tun EXCEPT ![cn.ctun].cgot = Append(@, <<t.r, t.i>>)] ELSE tun
               /\ UNCHANGED <<req, flags>>
          [] t.k = "fin" ->
               IF cn.cst = "tunnel"
               THEN /\ conn' = [conn EXCEPT ![c].d = rest]
                    /\ tun' = IF tun[cn.ctun].cws # "drop" /\ Bug # "noeof" THEN [tun EXCEPT ![cn.ctun].ceof = TRUE] ELSE tun
                    /\ UNCHANGED <<req, flags>>
               ELSE \* the peer closed an HTTP connection: whoever still waits on it fails
                    /\ conn' = [conn EXCEPT ![c] = [@ EXCEPT !.d = <<>>, !.cst = "closed", !.cq = <<>>,
                                                             !.pool = IF @ = "out" THEN "ready" ELSE @]]
                    /\ req' = FailAll(req, cn.cq)
                    /\ flags' = [flags EXCEPT !.lostConn = @ \/ (cn.cq # <<>> /\ ~shut)]
                    /\ UNCHANGED tun
          [] OTHER ->    \* a response token on a connection that is a tunnel: it is tunnel garbage for the caller
               /\ conn' = [conn EXCEPT ![c].d = rest]
               /\ tun' = IF cn.cst = "tunnel" /\ tun[cn.ctun].cws # "drop" THEN [tun EXCEPT ![cn.ctun].cgot = Append(@, <<t.r, 0>>)] ELSE tun
               /\ UNCHANGED <<req, flags>>
  /\ UNCHANGED <<kinds, hold, shut, nenv, stamp, hist>>

WhenReady(c) ==   \* the released connection reports ready (or fails): back to the idle list only if it is still open
  /\ conn[c].pool = "ready"
  /\ (Quiescent => ~CRecvReady(c))      \* (generation: what has already arrived - a close behind the response - is seen first, as in the driver's schedule)
  /\ LET back == IF Bug \in {"handback", "half"} THEN conn[c].cst \in {"open", "tunnel"} ELSE IsOpen(c)
     IN /\ conn' = [conn EXCEPT ![c] = [@ EXCEPT !.pool = IF back THEN "idle" ELSE "gone", !.stamp = stamp + 1]]
        /\ stamp' = stamp + 1
  /\ UNCHANGED <<kinds, hold, req, tun, shut, nenv, flags, hist>>

(* ------------------------------------------------------------------------ *)
(* environment: the gate, the two applications of a tunnel, the signal      *)
Open(c) ==
  /\ EnvOK /\ ~hist.fin
  /\ ~Unused(c) /\ (~conn[c].gate \/ ~conn[c].dgate)
  /\ conn' = [conn EXCEPT ![c] = [@ EXCEPT !.gate = TRUE, !.dgate = TRUE]]
  /\ Log("Open", 0, 0, c)
  /\ UNCHANGED <<kinds, hold, req, tun, shut, nenv, flags, stamp>>

EnvTun == EnvOK /\ ~hist.fin /\ nenv < MaxEnv

CW(r, n) ==
  /\ EnvTun /\ tun[r].cws = "open" /\ tun[r].cw + n <= MaxW
  /\ (Client = "pool" => req[r].con = "ok")
  /\ conn' = [conn EXCEPT ![req[r].c].w = @ \o ByteToks(r, tun[r].cw, n)]
  /\ tun' = [tun EXCEPT ![r].cw = @ + n]
  /\ nenv' = nenv + 1 /\ Log("CW", r, n, 0)
  /\ UNCHANGED <<kinds, hold, req, shut, flags, stamp>>

SW(r, n) ==
  /\ EnvTun /\ tun[r].sws = "open" /\ tun[r].sw + n <= MaxW
  /\ conn' = [conn EXCEPT ![req[r].c].d = @ \o ByteToks(r, tun[r].sw, n)]
  /\ tun' = [tun EXCEPT ![r].sw = @ + n]
  /\ nenv' = nenv + 1 /\ Log("SW", r, n, 0)
  /\ UNCHANGED <<kinds, hold, req, shut, flags, stamp>>

CEnd(r, how) ==
  /\ EnvTun /\ tun[r].cws = "open" /\ (how = "drop" => AllowDrop)
  /\ (Client = "pool" => req[r].con = "ok")
  /\ (how = "drop" => req[r].st = "resp")        \* (a raw client that goes away before the answer has cancelled its request)
  /\ conn' = [conn EXCEPT ![req[r].c].w = Append(@, Fin)]
  /\ tun' = [tun EXCEPT ![r].cws = how]
  /\ nenv' = nenv + 1 /\ Log(IF how = "shut" THEN "CShut" ELSE "CDrop", r, 0, 0)
  /\ UNCHANGED <<kinds, hold, req, shut, flags, stamp>>

SEnd(r, how) ==
  /\ EnvTun /\ tun[r].sws = "open" /\ (how = "drop" => AllowDrop)
  /\ conn' = [conn EXCEPT ![req[r].c].d = Append(@, Fin)]
  /\ tun' = [tun EXCEPT ![r].sws = how]
  /\ nenv' = nenv + 1 /\ Log(IF how = "shut" THEN "SShut" ELSE "SDrop", r, 0, 0)
  /\ UNCHANGED <<kinds, hold, req, shut, flags, stamp>>

Shutdown ==
  /\ EnvTun /\ AllowShutdown /\ ~shut
  /\ shut' = TRUE
  /\ nenv' = nenv + 1 /\ Log("Shutdown", 0, 0, 0)
  /\ UNCHANGED <<kinds, hold, req, conn, tun, flags, stamp>>

Finish ==    \* generation: the scenario ends here (everything is released first)
  /\ Quiescent /\ Quiet /\ ~hist.fin
  /\ \A c \in Cs : Unused(c) \/ (conn[c].gate /\ conn[c].dgate)
  /\ \A r \in Reqs : req[r].st # "new"
  /\ hist' = [hist EXCEPT !.fin = TRUE, !.pre = Append(@, Snap)]
  /\ UNCHANGED <<kinds, hold, req, conn, tun, shut, nenv, flags, stamp>>

Sys == \/ \E r \in Reqs : Acquire(r)
       \/ \E r \in Reqs : Dial(r)
       \/ \E c \in Cs : DialDone(c)
       \/ \E c \in Cs : Net(c)
       \/ \E c \in Cs : Sniff(c)
       \/ \E c \in Cs : SrvRead(c)
       \/ \E c \in Cs : Parse(c)
       \/ \E c \in Cs : ParseOther(c)
       \/ \E c \in Cs : TunRead(c)
       \/ \E c \in Cs : SrvClose(c)
       \/ \E c \in Cs : CRecv(c)
       \/ \E c \in Cs : WhenReady(c)
Env == \/ \E r \in Reqs : Issue(r)
       \/ \E r \in Reqs, n \in WSizes : CW(r, n)
       \/ \E r \in Reqs, n \in WSizes : SW(r, n)
       \/ \E r \in Reqs, how \in {"shut", "drop"} : CEnd(r, how)
       \/ \E r \in Reqs, how \in {"shut", "drop"} : SEnd(r, how)
       \/ \E c \in Cs : Open(c)
       \/ Shutdown
Next == Sys \/ Env \/ Finish

Spec == Init /\ [][Next]_vars
\* liveness: the system is fair, every gate is opened eventually
FairSpec == Spec /\ WF_vars(Sys) /\ \A c \in Cs : WF_vars(Open(c))

(* ------------------------------------------------------------------------ *)
(* properties                                                               *)
Exact(got, r) == \A j \in 1..Len(got) : got[j] = <<r, j>>

TypeOK == /\ \A r \in Reqs : /\ req[r].st \in {"new", "wait", "sent", "resp", "fail"}
                             /\ req[r].con \in {"none", "ok", "err"} /\ req[r].son \in {"none", "ok", "err"}
                             /\ tun[r].cws \in {"none", "open", "shut", "drop"} /\ tun[r].sws \in {"none", "open", "shut", "drop"}
          /\ \A c \in Cs : /\ conn[c].ver \in {"none", "h1", "h2"}
                           /\ conn[c].pool \in {"none", "out", "ready", "idle", "gone", "shared", "raw"}
                           /\ conn[c].sst \in {"none", "sniff", "http", "tunnel", "closed"}
                           /\ conn[c].cst \in {"none", "dialing", "open", "tunnel", "closed"}

\* U1 (C02)
U1_NoSendAfterUpgrade == \A r \in Reqs : ~req[r].after
U1_NotPooledAfterUpgrade == Bug # "half" => \A c \in Cs : conn[c].up => conn[c].pool \notin {"idle", "shared"}
U1_DiscardedOnlyIfDead == \A c \in Cs : conn[c].pool = "gone" => (conn[c].up \/ conn[c].cst = "closed")

\* U2 (C18)
U2_ServerGetsExactly == \A r \in Reqs : Exact(tun[r].sgot, r) /\ Len(tun[r].sgot) <= tun[r].cw
U2_ClientGetsExactly == \A r \in Reqs : Exact(tun[r].cgot, r) /\ Len(tun[r].cgot) <= tun[r].sw
U2_ParserSeesNoTunnelByte == ~flags.parsedByte
U2_EofOnlyAfterEnd == \A r \in Reqs : /\ tun[r].seof => tun[r].cws \in {"shut", "drop"} /\ (tun[r].sws # "drop" => Len(tun[r].sgot) = tun[r].cw)
                                      /\ tun[r].ceof => tun[r].sws \in {"shut", "drop"} /\ (tun[r].cws # "drop" => Len(tun[r].cgot) = tun[r].sw)
Alive(r) == tun[r].cws \in {"open", "shut"} /\ tun[r].sws \in {"open", "shut"}
U2_QuietAllDelivered ==    \* nothing in flight, nothing held, both applications alive: everything written has arrived, EOF included
  Quiet => \A r \in Reqs : (Alive(r) /\ conn[req[r].c].gate) =>
              /\ Len(tun[r].sgot) = tun[r].cw /\ Len(tun[r].cgot) = tun[r].sw
              /\ (tun[r].cws = "shut" => tun[r].seof) /\ (tun[r].sws = "shut" => tun[r].ceof)

\* U3 (C01)
U3_Matched == \A r \in Reqs : req[r].st = "resp" => req[r].for = r
U3_HeadsWhole == ~flags.badHead /\ ~flags.strayResp
U3_NoSpuriousFailure == ~flags.lostConn
U3_FailedOnlyIfExcused == \A r \in Reqs : req[r].st = "fail" => (shut \/ req[r].code = "rej" \/ \E c \in Cs : c = req[r].c /\ conn[c].cst = "closed")
U3_ResponseAsProduced == \A r \in Reqs : req[r].st = "resp" =>
     LET h2 == conn[req[r].c].ver = "h2"
     IN req[r].code = IF h2 THEN "h2ok" ELSE CASE Base(Kind(r)) \in {"up", "connect"} -> "switch" [] Base(Kind(r)) = "refuseclose" -> "okclose" [] OTHER -> "ok"

\* U4 (C13)
U4_NoConnectionHeadersOnH2 == ~flags.h2hdr
U4_NoSwitchOnH2 == ~flags.h2switch /\ \A r \in Reqs : (req[r].st = "resp" /\ conn[req[r].c].ver = "h2") => req[r].code = "h2ok" /\ req[r].con # "ok"
U4_ConnectRejectedOnH2 == ~flags.h2connectSent

\* U5: resolution of the two futures (safety part: with what; liveness part below)
U5_OnMatchesAnswer == \A r \in Reqs : /\ req[r].con = "ok" => req[r].code = "switch"
                                      /\ (req[r].st = "resp" /\ req[r].code = "switch") => (req[r].con = "ok" /\ req[r].son = "ok")
                                      /\ (req[r].st = "resp" /\ req[r].code # "switch" /\ Upgradeish(Kind(r))) => req[r].con = "err"
Switching(r) == req[r].st = "sent" /\ conn[req[r].c].ver = "h1" /\ Base(Kind(r)) \in {"up", "connect"}
\* (TLC wants a constant range in a temporal quantifier: RMax bounds the length of every vector)
RMax == 4
In(r) == r \in DOMAIN req
U5_OnResolves == \A r \in 1..RMax : (IF In(r) THEN Switching(r) ELSE FALSE)
                                       ~> (IF In(r) THEN req[r].st = "fail" \/ (req[r].con = "ok" /\ req[r].son = "ok") ELSE TRUE)
U5_Completes == \A r \in 1..RMax : (IF In(r) THEN req[r].st \in {"wait", "sent"} ELSE FALSE)
                                      ~> (IF In(r) THEN req[r].st \in {"resp", "fail"} ELSE TRUE)
U5_TunnelDrains == \A r \in 1..RMax : (IF In(r) THEN Alive(r) /\ tun[r].sw > 0 ELSE FALSE)
                                         ~> (IF In(r) THEN ~Alive(r) \/ Len(tun[r].cgot) = tun[r].sw ELSE TRUE)

=============================================================================
