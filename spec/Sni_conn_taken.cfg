SPECIFICATION ConnSpec
CONSTANT Variant <- MCIntended
CONSTANT InfoVariant <- MCTaken
INVARIANT ConnTypeOK
INVARIANT ConnInvReport
