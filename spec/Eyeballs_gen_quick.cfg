CONSTANTS
  N = 3
  Grid <- qGrid
  Delays <- qDelays
  Timeouts <- qTimeouts
  Concs <- qConcs
INIT Init
NEXT Next
INVARIANTS TypeOK C10Inv C11Inv Tight Emit
CHECK_DEADLOCK FALSE
