CONSTANTS
  NConn = 3
  NReq = 2
  KindAssign <- KAGen
  Stacks <- StacksAll
  HostAssign <- HGen
  GateReady = FALSE
  GateMake = TRUE
  GateApp = TRUE
  AllowErr = TRUE
  AllowSignal = TRUE
  AllowFault = TRUE
  AnonDuplex = FALSE
  Variant = "ok"
  GenDepth = 18
  SigAfter = 10
  MaxFault = 1
INIT InitH
NEXT GenNext
INVARIANT Emit
CHECK_DEADLOCK FALSE
