----------------------------- MODULE DuplexObs -----------------------------
(***************************************************************************)
(* Property monitor for the in-process duplex transport (the duplex part   *)
(* of C09 and C18), evaluated by TLC over a trace RECORDED FROM THE REAL    *)
(* TYPES (harness/src/bin/duplex.rs: one ndjson record per action with its  *)
(* result and the observable state after it).  The monitor constrains       *)
(* nothing but the properties: its next-state relation is "take the next    *)
(* record"; it does not know the model (no channel capacity, no stages of a *)
(* connect, no buffer sizes).  It knows only what a user of the API sees:   *)
(* which connect futures exist and how they resolved, what poll_accept      *)
(* returned, which bytes were written (accepted counts) and read where.     *)
(*                                                                          *)
(* Bytes carry their origin: byte = 8 * tag + (index in its direction mod   *)
(* 8); the writer's tag is assigned at its first write (client ends 1..15,  *)
(* server ends 16..31) and announced in the Write record.                    *)
(*                                                                          *)
(* Clauses (keys):                                                          *)
(*  P1  C18:duplex-pairing/...   an end reads the bytes of exactly one end of the other kind, that end's bytes  *)
(*                               are read by nobody else, and the relation is symmetric                         *)
(*  P2  C18:duplex-bytes/...     the bytes read continue the writer's numbering without gap, repetition or       *)
(*                               invention; never more than was accepted; EOF only after the writer closed and   *)
(*                               everything it wrote was read; Pending only while nothing is buffered and the    *)
(*                               writer is open; write errors only after own shutdown / peer gone; wake-ups;     *)
(*                               at the end of a run every end still held has read everything and seen EOF       *)
(*  P3  C09:duplex-accept-error-after-cancel/...  poll_accept fails only when no client handle and no connect    *)
(*      C09:duplex-connect-error/...              future exists; a connect fails only when the listener is gone; *)
(*      C09:duplex-probe-not-accepted/...         a fresh connect after the run is accepted;                     *)
(*      C09:duplex-connect-stranded/...           no connect is left unresolved once everybody woken was polled  *)
(*  P4  C18:duplex-fifo/...      among requests that certainly entered the channel at their first poll (fewer    *)
(*                               than cap_lb requests outstanding), accept order is first-poll order, except for *)
(*                               requests cancelled before the later one was accepted                            *)
(***************************************************************************)
EXTENDS Naturals, Sequences, FiniteSets, TLC, Json, IOUtils

Rec == ndJsonDeserialize(IOEnv.TRACE)
N == Len(Rec)

VARIABLES l, h
vars == <<l, h>>

E0 == [has |-> FALSE, tag |-> 0, wr |-> 0, rd |-> 0, peer |-> 0, shut |-> FALSE, dropped |-> FALSE, eof |-> FALSE,
       rpark |-> FALSE, wpark |-> FALSE]
H0 == [run |-> 0, base |-> 0, src |-> "", caplb |-> 8,
       ce |-> <<>>,        \* client -> its stream end (E0 until connect returned Ok)
       se |-> <<>>,        \* accept slot -> the stream end it carried
       sure |-> <<>>,      \* clients whose request certainly entered the channel at their first poll, in that order
       npolled |-> 0,      \* connects polled at least once
       nacc |-> 0,         \* connections returned by poll_accept
       cancelAt |-> <<>>,  \* client -> index of its Cancel record (0 = not cancelled)
       acceptAt |-> <<>>,  \* accept slot -> index of its Accept record
       ended |-> FALSE,    \* poll_accept returned an error
       viol |-> <<>>]

Init == l = 0 /\ h = H0

Get(s, i, d) == IF i \in DOMAIN s THEN s[i] ELSE d
Put(s, i, v, d) == [j \in 1..(IF i > Len(s) THEN i ELSE Len(s)) |-> IF j = i THEN v ELSE Get(s, j, d)]
V(key, s, i) == [l |-> l + 1, key |-> key, s |-> s, i |-> i]
If(c, v) == IF c THEN <<v>> ELSE <<>>

\* ends are named <<side, index>>
EndRec(hh, x) == IF x[1] = "cli" THEN Get(hh.ce, x[2], E0) ELSE Get(hh.se, x[2], E0)
AllEnds(hh) == {<<"cli", i>> : i \in {j \in 1..Len(hh.ce) : hh.ce[j].has}} \cup {<<"srv", i>> : i \in {j \in 1..Len(hh.se) : hh.se[j].has}}
WritersOf(hh, t) == {x \in AllEnds(hh) : EndRec(hh, x).tag = t}          \* the end that announced tag t
ReadersOf(hh, t) == {x \in AllEnds(hh) : EndRec(hh, x).peer = t}         \* the ends that have read bytes tagged t
Opposite(x) == IF x[1] = "cli" THEN "srv" ELSE "cli"
\* observable state helpers
NoE == [st |-> "none", r |-> FALSE, w |-> FALSE]
OCl(o, c) == IF c \in 1..Len(o.cl) THEN o.cl[c] ELSE [st |-> "idle", w |-> FALSE, e |-> NoE]
OEnd(o, x) == IF x[1] = "cli" THEN OCl(o, x[2]).e ELSE IF x[2] \in 1..Len(o.srv) THEN o.srv[x[2]] ELSE NoE
LiveClients(o) == {c \in 1..Len(o.cl) : o.cl[c].st \in {"new", "pending"}}

\* an end of the other kind that nobody is known to be wired to and that is closed or gone: the possible cause of an
\* EOF / a write error seen by an end that has not read a byte yet (its peer is still unknown)
Unpaired(hh, y) == LET Y == EndRec(hh, y) IN (Y.tag = 0 \/ ReadersOf(hh, Y.tag) = {}) /\ Y.peer = 0
ClosedCandidate(hh, x, needDrop) ==
  \/ \E y \in AllEnds(hh) : /\ y[1] = Opposite(x) /\ Unpaired(hh, y)
                            /\ (EndRec(hh, y).dropped \/ (~needDrop /\ EndRec(hh, y).shut))
  \* a client half that was still inside the oneshot when its connect future was dropped
  \/ (x[1] = "srv" /\ \E c \in 1..Len(hh.cancelAt) : hh.cancelAt[c] # 0)

-----------------------------------------------------------------------------
(* The clauses.  hh = history before the event, pre/post = observable state before/after it, e = the record *)

Tags(bs) == {bs[j] \div 8 : j \in 1..Len(bs)}

ReadClauses(hh, pre, e, post) ==
  LET x == <<e.s, IF e.s = "cli" THEN e.c ELSE e.k>>
      E == EndRec(hh, x)
      n == Len(e.bytes)
      \* the end wired to this one, as far as the bytes have told: whoever reads mine, or whose bytes I read
      Ps == (IF E.tag = 0 THEN {} ELSE ReadersOf(hh, E.tag)) \cup (IF E.peer = 0 THEN {} ELSE WritersOf(hh, E.peer))
  IN
  IF e.res = "ok" /\ n = 0 THEN <<V("C18:duplex-bytes/read-count", x[1], x[2])>>
  ELSE IF e.res = "ok" THEN
    LET T == Tags(e.bytes)
        t == e.bytes[1] \div 8
        Ws == WritersOf(hh, t)
        W == IF Ws = {} THEN E0 ELSE EndRec(hh, CHOOSE y \in Ws : TRUE)
        wx == IF Ws = {} THEN <<"", 0>> ELSE CHOOSE y \in Ws : TRUE
    IN
       If(n = 0 \/ n > e.a, V("C18:duplex-bytes/read-count", x[1], x[2]))
    \o If(Cardinality(T \cup ({E.peer} \ {0})) > 1, V("C18:duplex-pairing/two-writers-on-one-end", x[1], x[2]))
    \o If((x[1] = "cli" /\ t < 16) \/ (x[1] = "srv" /\ t >= 16), V("C18:duplex-pairing/same-side", x[1], x[2]))
    \o If(Ws = {}, V("C18:duplex-pairing/unknown-writer", x[1], x[2]))
    \o If(ReadersOf(hh, t) \ {x} # {}, V("C18:duplex-pairing/one-writer-two-readers", x[1], x[2]))
    \o If(Ws # {} /\ ((E.tag # 0 /\ ReadersOf(hh, E.tag) \ {wx} # {}) \/ (W.peer # 0 /\ W.peer # E.tag)),
          V("C18:duplex-pairing/asymmetric", x[1], x[2]))
    \o If(\E j \in 1..n : e.bytes[j] % 8 # (E.rd + j - 1) % 8, V("C18:duplex-bytes/out-of-order", x[1], x[2]))
    \o If(Ws # {} /\ E.rd + n > W.wr, V("C18:duplex-bytes/read-more-than-written", x[1], x[2]))
    \* the parked writer of these bytes is woken by the read
    \o If(Ws # {} /\ W.wpark /\ ~W.dropped /\ n > 0 /\ ~OEnd(post, wx).w, V("C18:duplex-bytes/lost-wakeup-write", wx[1], wx[2]))
  ELSE IF e.res = "eof" THEN
    IF Ps # {}
    THEN LET W == EndRec(hh, CHOOSE y \in Ps : TRUE) IN
            If(~(W.shut \/ W.dropped), V("C18:duplex-bytes/eof-invented", x[1], x[2]))
         \o If(E.rd # W.wr, V("C18:duplex-bytes/eof-before-all-bytes", x[1], x[2]))
    ELSE If(~ClosedCandidate(hh, x, FALSE), V("C18:duplex-bytes/eof-invented", x[1], x[2]))
  ELSE IF e.res = "pending" THEN
    IF Ps # {} /\ e.a > 0
    THEN LET W == EndRec(hh, CHOOSE y \in Ps : TRUE) IN
            If(W.wr > E.rd, V("C18:duplex-bytes/pending-with-data-buffered", x[1], x[2]))
         \o If(W.wr = E.rd /\ (W.shut \/ W.dropped), V("C18:duplex-bytes/eof-not-propagated", x[1], x[2]))
    ELSE <<>>
  ELSE IF e.res = "zero" THEN <<>>
  ELSE <<V("C18:duplex-bytes/read-" \o e.res, x[1], x[2])>>          \* err, panic

WriteClauses(hh, pre, e, post) ==
  LET x == <<e.s, IF e.s = "cli" THEN e.c ELSE e.k>>
      E == EndRec(hh, x)
      Rs == IF e.tag = 0 THEN {} ELSE ReadersOf(hh, e.tag)
      \* the end wired to this one, as far as the bytes have told: whoever reads mine, or whose bytes I read
      Ps == Rs \cup (IF E.peer = 0 THEN {} ELSE WritersOf(hh, E.peer))
  IN
  IF e.res = "ok" THEN
       If(e.m > e.a \/ Len(e.bytes) # e.m \/ (e.a > 0 /\ e.m = 0), V("C18:duplex-bytes/write-count", x[1], x[2]))
    \o If(\E y \in Rs : EndRec(hh, y).rpark /\ ~EndRec(hh, y).dropped /\ e.m > 0 /\ ~OEnd(post, y).r,
          V("C18:duplex-bytes/lost-wakeup-read", x[1], x[2]))
  ELSE IF e.res = "err" THEN
    If(~E.shut /\ (IF Ps # {} THEN \A y \in Ps : ~EndRec(hh, y).dropped ELSE ~ClosedCandidate(hh, x, TRUE)),
       V("C18:duplex-bytes/write-error-invented", x[1], x[2]))
  ELSE IF e.res = "pending" THEN <<>>
  ELSE <<V("C18:duplex-bytes/write-" \o e.res, x[1], x[2])>>

AcceptClauses(hh, pre, e, post) ==
  IF e.res \in {"err", "panic"}
  THEN If(e.res = "panic" \/ pre.handles # 0 \/ LiveClients(pre) # {},
          V("C09:duplex-accept-error-after-cancel/"
              \o (IF e.res = "panic" THEN "panic"
                  ELSE IF \E c \in 1..Len(hh.cancelAt) : hh.cancelAt[c] # 0 THEN "cancelled-connect" ELSE "no-cancel")
              \o "/" \o e.api, "", 0))
  ELSE <<>>

PollClauses(hh, pre, e, post) ==
     If(e.res = "err" /\ pre.lst = "open", V("C09:duplex-connect-error/listener-alive", "cli", e.c))
  \o If(e.res = "panic", V("C09:duplex-connect-error/panic", "cli", e.c))

\* the accept slot whose end is wired to client c's end, as far as the bytes have told
SlotsOf(hh, c) == LET C == Get(hh.ce, c, E0) IN
  {k \in 1..Len(hh.se) : hh.se[k].has /\ ((C.tag # 0 /\ hh.se[k].peer = C.tag) \/ (hh.se[k].tag # 0 /\ C.peer = hh.se[k].tag))}
OwnedSlots(hh) == UNION {SlotsOf(hh, c) : c \in 1..Len(hh.ce)}
EndClauses(hh, pre, e, post) ==
     If(e.probe.c # 0 /\ e.probe.st # "ok", V("C09:duplex-probe-not-accepted/" \o e.probe.st, "cli", e.probe.c))
  \o If(~hh.ended /\ LiveClients(post) # {}, V("C09:duplex-connect-stranded/listener-" \o post.lst, "cli",
                                               IF LiveClients(post) = {} THEN 0 ELSE CHOOSE c \in LiveClients(post) : TRUE))
  \o (LET open == {x \in AllEnds(hh) : ~EndRec(hh, x).dropped /\ ~EndRec(hh, x).eof}
      IN If(open # {}, V("C18:duplex-bytes/no-eof-at-drain", IF open = {} THEN "" ELSE (CHOOSE x \in open : TRUE)[1],
                         IF open = {} THEN 0 ELSE (CHOOSE x \in open : TRUE)[2])))
  \o (LET bad == {p \in (1..Len(hh.sure)) \X (1..Len(hh.sure)) :
                    /\ p[1] < p[2]
                    /\ LET c1 == hh.sure[p[1]] c2 == hh.sure[p[2]] IN
                       \E k2 \in SlotsOf(hh, c2) :
                          /\ ~(\E k1 \in SlotsOf(hh, c1) : k1 < k2)
                          /\ ~(Get(hh.cancelAt, c1, 0) # 0 /\ Get(hh.cancelAt, c1, 0) < Get(hh.acceptAt, k2, 0))
                          /\ ~(SlotsOf(hh, c1) = {} /\ \E k \in 1..(k2 - 1) : hh.se[k].has /\ k \notin OwnedSlots(hh))}
      IN If(bad # {}, V("C18:duplex-fifo/overtaken", "cli", IF bad = {} THEN 0 ELSE hh.sure[(CHOOSE p \in bad : TRUE)[1]])))
  \o If(e.panics > 0 /\ hh.viol = <<>>, V("C18:duplex-bytes/panic", "", 0))

Clauses(hh, pre, e, post) ==
  CASE e.e = "Read" -> ReadClauses(hh, pre, e, post)
    [] e.e = "Write" -> WriteClauses(hh, pre, e, post)
    [] e.e = "Shutdown" -> If(e.res # "ok", V("C18:duplex-bytes/shutdown-" \o e.res, e.s, IF e.s = "cli" THEN e.c ELSE e.k))
    [] e.e = "Accept" -> AcceptClauses(hh, pre, e, post)
    [] e.e = "Poll" -> PollClauses(hh, pre, e, post)
    [] e.e = "End" -> EndClauses(hh, pre, e, post)
    [] OTHER -> <<>>

-----------------------------------------------------------------------------
SetEnd(hh, x, v) == IF x[1] = "cli" THEN [hh EXCEPT !.ce = Put(@, x[2], v, E0)] ELSE [hh EXCEPT !.se = Put(@, x[2], v, E0)]

Upd(hh, pre, e, post) ==
  CASE e.e = "Poll" ->
         LET first == OCl(pre, e.c).st = "new"
             h1 == IF first THEN [hh EXCEPT !.npolled = @ + 1,
                                            !.sure = IF e.res = "pending" /\ hh.npolled - hh.nacc < hh.caplb THEN Append(@, e.c) ELSE @]
                   ELSE hh
         IN IF e.res = "ok" THEN SetEnd(h1, <<"cli", e.c>>, [E0 EXCEPT !.has = TRUE]) ELSE h1
    [] e.e = "Cancel" -> [hh EXCEPT !.cancelAt = Put(@, e.c, l + 1, 0)]
    [] e.e = "Accept" ->
         IF e.res = "ok" THEN [SetEnd(hh, <<"srv", e.k>>, [E0 EXCEPT !.has = TRUE]) EXCEPT !.nacc = @ + 1, !.acceptAt = Put(@, e.k, l + 1, 0)]
         ELSE IF e.res = "pending" THEN hh ELSE [hh EXCEPT !.ended = TRUE]
    [] e.e = "Write" ->
         LET x == <<e.s, IF e.s = "cli" THEN e.c ELSE e.k>> E == EndRec(hh, x) IN
         SetEnd(hh, x, [E EXCEPT !.tag = e.tag, !.wr = IF e.res = "ok" THEN @ + e.m ELSE @, !.wpark = (e.res = "pending")])
    [] e.e = "Read" ->
         LET x == <<e.s, IF e.s = "cli" THEN e.c ELSE e.k>> E == EndRec(hh, x) IN
         SetEnd(hh, x, [E EXCEPT !.rd = IF e.res = "ok" THEN @ + Len(e.bytes) ELSE @,
                                 !.peer = IF e.res = "ok" /\ Len(e.bytes) > 0 /\ @ = 0 THEN e.bytes[1] \div 8 ELSE @,
                                 !.eof = (e.res = "eof"), !.rpark = (e.res = "pending")])
    [] e.e = "Shutdown" ->
         LET x == <<e.s, IF e.s = "cli" THEN e.c ELSE e.k>> IN SetEnd(hh, x, [EndRec(hh, x) EXCEPT !.shut = TRUE])
    [] e.e = "DropEnd" ->
         LET x == <<e.s, IF e.s = "cli" THEN e.c ELSE e.k>> IN SetEnd(hh, x, [EndRec(hh, x) EXCEPT !.dropped = TRUE])
    [] OTHER -> hh

Step ==
  /\ l < N
  /\ l' = l + 1
  /\ LET e == Rec[l + 1] IN
     IF e.e = "Reset"
     THEN h' = [H0 EXCEPT !.run = e.run, !.src = e.src, !.base = l + 1, !.caplb = e.cfg.cap_lb, !.viol = h.viol]
     ELSE LET pre == Rec[l].obs
              post == e.obs
              new == Clauses(h, pre, e, post)
          IN h' = [Upd(h, pre, e, post) EXCEPT !.viol = h.viol \o [i \in 1..Len(new) |-> new[i] @@ [run |-> h.run, base |-> h.base, src |-> h.src]]]

Spec == Init /\ [][Step]_vars

\* the trace is well-formed (a failure here is a tool error, not a verdict)
Sane == l > 0 => Rec[l].e \in {"Reset", "Clone", "DropHandle", "Start", "Poll", "Cancel", "Accept", "DropListener", "Write", "Read",
                               "Shutdown", "DropEnd", "Skip", "End"}
\* the whole trace was read
Consumed == TLCGet("stats").diameter - 1 = N
\* printed once, at the end of the trace: every falsified clause
Report == l = N => PrintT(<<"VIOL", ToJson(h.viol)>>)
=============================================================================
