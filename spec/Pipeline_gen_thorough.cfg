SPECIFICATION Spec
CONSTANT NbK = 3
CONSTANT SampleN = 60000
CONSTANT InitVectors <- MCInitVectors
INVARIANT Gen
CHECK_DEADLOCK FALSE
