CONSTANTS
  NCli = 5
  Cap = 32
  MaxHandles = 2
  BufSizes <- B123
  LBufs <- L02
  MaxBytes = 6
  WriteLens <- W12
  ReadCaps <- R13
  DataClients <- Data12
  Spurious = TRUE
  Variant = "ok"
  NActive = 5
  GenDepth = 45
  FillB = 1
INIT InitH
NEXT GenNext
INVARIANT Emit
CHECK_DEADLOCK FALSE
