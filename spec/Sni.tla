------------------------------- MODULE Sni -------------------------------
(***************************************************************************)
(* C20 -- SNI validation middleware (server/conn/tls/sni.rs).              *)
(*                                                                         *)
(* A "vector spec": Init chooses one abstract request vector out of the    *)
(* full cross product of the input classes, one step (Handle) decides it.  *)
(*                                                                         *)
(*  * The PROPERTY (C20 clauses, written from the property text only) is   *)
(*    a predicate over (vector, outcome): C20(v, o).                       *)
(*  * Intended(v) is the decision function the text describes;             *)
(*  * AsBuilt(v) is a transcription of what sni.rs `handle` does on the    *)
(*    pinned tree (no Host fallback for HTTP/2, byte-wise comparison).     *)
(*    The constant Variant selects which one the model executes, so TLC    *)
(*    can list the vectors on which the as-built code breaks the property  *)
(*    (DESIGN.md section 5, D10).                                          *)
(*                                                                         *)
(* Reading of the text (kept literal):                                     *)
(*  - subject of every clause: "a request that arrived over TLS and names  *)
(*    a host".  Arrived over TLS = TLS connection info present in the      *)
(*    request extensions.  Names a host: HTTP/1.x -> the Host header;      *)
(*    HTTP/2 -> the URI authority, failing that the Host header.           *)
(*  - for requests outside that subject (no TLS info, or no host named)    *)
(*    the text fixes no outcome: forwarded-or-rejected is NOT checked      *)
(*    there (only recorded, a change shows up as DRIFT).                   *)
(*  - "equals ... compared case-insensitively and ignoring the port".      *)
(*  - "and is then marked as validated": forwarded /\ match => flag set.   *)
(*    The flag means "the host was checked against the server name", so    *)
(*    the monitor also requires flag set => (TLS /\ host named /\ match).  *)
(***************************************************************************)
EXTENDS Naturals, Sequences, FiniteSets, TLC

CONSTANT Variant          \* "intended" | "asbuilt"

Versions == {"1.0", "1.1", "2"}
\* spellings of a host-carrying field (Host header value / URI authority):
\*   a: the name;  A: the same name in different letter case;  a_port: name:port;
\*   b: a different name;  v4: IPv4 literal;  v6: [IPv6];  v6_port: [IPv6]:port
HostForms == {"none", "a", "A", "a_port", "A_port", "b", "v4", "v6", "v6_port"}
SniForms  == {"none", "a", "A", "b"}

Vectors == [ver : Versions, hosthdr : HostForms, auth : HostForms, sni : SniForms, tls : BOOLEAN]

\* The host *name* a form denotes: case folded, port removed.
Name(f) == CASE f \in {"a", "A", "a_port", "A_port"} -> "a"
             [] f = "b" -> "b"
             [] f = "v4" -> "v4"
             [] f \in {"v6", "v6_port"} -> "v6"
             [] OTHER -> "none"
\* The byte string `Authority::host()` yields for a form: port removed, case kept.
Bytes(f) == CASE f \in {"a", "a_port"} -> "a"
              [] f \in {"A", "A_port"} -> "A"
              [] f = "b" -> "b"
              [] f = "v4" -> "v4"
              [] f \in {"v6", "v6_port"} -> "v6"
              [] OTHER -> "none"

---------------------------------------------------------------------------
(* The property text.                                                      *)
NamedHost(v) == IF v.ver = "2"
                  THEN (IF v.auth # "none" THEN v.auth ELSE v.hosthdr)
                  ELSE v.hosthdr
Subject(v)   == v.tls /\ NamedHost(v) # "none"
Match(v)     == v.sni # "none" /\ Name(NamedHost(v)) = Name(v.sni)

\* an outcome: [kind : {"forwarded","rejected","panicked"}, validated : BOOLEAN]
\* (validated = the flag the application sees on the TLS info of the forwarded request)
C20onlyIf(v, o)   == Subject(v) /\ o.kind = "forwarded" => Match(v)
C20marked(v, o)   == Subject(v) /\ o.kind = "forwarded" /\ Match(v) => o.validated
C20rejects(v, o)  == Subject(v) /\ ~Match(v) => o.kind = "rejected"
C20neverRej(v, o) == Subject(v) /\ Match(v) => o.kind = "forwarded"
C20markTrue(v, o) == o.kind = "forwarded" /\ o.validated => Subject(v) /\ Match(v)
C20(v, o) == /\ C20onlyIf(v, o) /\ C20marked(v, o) /\ C20rejects(v, o)
             /\ C20neverRej(v, o) /\ C20markTrue(v, o)

\* which clause fails first (for violation keys / reports)
FailedClause(v, o) ==
    CASE ~C20neverRej(v, o) -> "neverRej"
      [] ~C20onlyIf(v, o)   -> "onlyIf"
      [] ~C20rejects(v, o)  -> "rejects"
      [] ~C20marked(v, o)   -> "marked"
      [] ~C20markTrue(v, o) -> "markTrue"
      [] OTHER -> "none"

---------------------------------------------------------------------------
(* The decision function the text describes.  Outside the subject the text *)
(* is silent; the function below follows the documented behaviour of the   *)
(* middleware there (no TLS info: pass; TLS, no host: pass iff a server     *)
(* name was sent) -- this part is conformance only.                        *)
Fwd(val) == [kind |-> "forwarded", validated |-> val]
Rej      == [kind |-> "rejected",  validated |-> FALSE]

Intended(v) ==
    IF ~v.tls THEN Fwd(FALSE)
    ELSE IF NamedHost(v) = "none" THEN (IF v.sni = "none" THEN Rej ELSE Fwd(FALSE))
    ELSE IF Match(v) THEN Fwd(TRUE) ELSE Rej

(* Transcription of sni.rs `handle` on the pinned tree.                    *)
AsBuiltHost(v) == IF v.ver = "2" THEN v.auth ELSE v.hosthdr
AsBuilt(v) ==
    IF ~v.tls THEN Fwd(FALSE)
    ELSE IF v.sni = "none" THEN Rej                                   \* MissingSNI
    ELSE IF AsBuiltHost(v) = "none" THEN Fwd(FALSE)
    ELSE IF Bytes(AsBuiltHost(v)) # Bytes(v.sni) THEN Rej             \* InvalidSNI
    ELSE Fwd(TRUE)

Decide(v) == IF Variant = "asbuilt" THEN AsBuilt(v) ELSE Intended(v)

\* the vector class used in violation keys: stable under re-spelling
Class(v) == <<v.ver, v.hosthdr, v.auth, v.sni>>

---------------------------------------------------------------------------
VARIABLES vec, st, out
vars == <<vec, st, out>>

Init == /\ vec \in Vectors
        /\ st = "arrived"
        /\ out = [kind |-> "pending", validated |-> FALSE]

Forward == /\ st = "arrived" /\ Decide(vec).kind = "forwarded"
           /\ st' = "done" /\ out' = Decide(vec) /\ UNCHANGED vec
Reject  == /\ st = "arrived" /\ Decide(vec).kind = "rejected"
           /\ st' = "done" /\ out' = Decide(vec) /\ UNCHANGED vec
Next == Forward \/ Reject
Spec == Init /\ [][Next]_vars

TypeOK == /\ vec \in Vectors /\ st \in {"arrived", "done"}
          /\ out.kind \in {"pending", "forwarded", "rejected"} /\ out.validated \in BOOLEAN

\* the property on the model
InvC20 == st = "done" => C20(vec, out)
\* where the text fixes the outcome, it fixes it uniquely: the function form and the clause form agree
InvFunctional == st = "done" /\ Subject(vec) => out = Intended(vec)
\* where do as-built and intended differ at all (informative; expected to fail for Variant="asbuilt" only)
InvSameAsIntended == st = "done" => out = Intended(vec)
=============================================================================
