------------------------------- MODULE Sni -------------------------------
(***************************************************************************)
(* C20 -- SNI validation middleware (server/conn/tls/sni.rs).              *)
(*                                                                         *)
(* A "vector spec": Init chooses one abstract request vector out of the    *)
(* full cross product of the input classes, one step (Handle) decides it.  *)
(*                                                                         *)
(*  * The PROPERTY (C20 clauses, written from the property text only) is   *)
(*    a predicate over (vector, outcome): C20(v, o).                       *)
(*  * Intended(v) is the decision function the text describes;             *)
(*  * AsBuilt(v) is a transcription of what sni.rs `handle` does on the    *)
(*    pinned tree (no Host fallback for HTTP/2, byte-wise comparison).     *)
(*    The constant Variant selects which one the model executes, so TLC    *)
(*    can list the vectors on which the as-built code breaks the property  *)
(*    (DESIGN.md section 5, D10).                                          *)
(*                                                                         *)
(* Reading of the text (kept literal):                                     *)
(*  - subject of every clause: "a request that arrived over TLS and names  *)
(*    a host".  Arrived over TLS = TLS connection info present in the      *)
(*    request extensions.  Names a host: HTTP/1.x -> the Host header;      *)
(*    HTTP/2 -> the URI authority, failing that the Host header.           *)
(*  - for requests outside that subject (no TLS info, or no host named)    *)
(*    the text fixes no outcome: forwarded-or-rejected is NOT checked      *)
(*    there (only recorded, a change shows up as DRIFT).                   *)
(*  - "equals ... compared case-insensitively and ignoring the port".      *)
(*  - "and is then marked as validated": forwarded /\ match => flag set.   *)
(*    The flag means "the host was checked against the server name", so    *)
(*    the monitor also requires flag set => (TLS /\ host named /\ match).  *)
(***************************************************************************)
EXTENDS Naturals, Sequences, FiniteSets, TLC

CONSTANT Variant          \* "intended" | "asbuilt"

Versions == {"1.0", "1.1", "2"}
\* spellings of a host-carrying field (Host header value / URI authority):
\*   a: the name;  A: the same name in different letter case;  a_port: name:port;
\*   b: a different name;  v4: IPv4 literal;  v6: [IPv6];  v6_port: [IPv6]:port
HostForms == {"none", "a", "A", "a_port", "A_port", "b", "v4", "v6", "v6_port"}
SniForms  == {"none", "a", "A", "b"}

Vectors == [ver : Versions, hosthdr : HostForms, auth : HostForms, sni : SniForms, tls : BOOLEAN]

\* The host *name* a form denotes: case folded, port removed.
Name(f) == CASE f \in {"a", "A", "a_port", "A_port"} -> "a"
             [] f = "b" -> "b"
             [] f = "v4" -> "v4"
             [] f \in {"v6", "v6_port"} -> "v6"
             [] OTHER -> "none"
\* The byte string `Authority::host()` yields for a form: port removed, case kept.
Bytes(f) == CASE f \in {"a", "a_port"} -> "a"
              [] f \in {"A", "A_port"} -> "A"
              [] f = "b" -> "b"
              [] f = "v4" -> "v4"
              [] f \in {"v6", "v6_port"} -> "v6"
              [] OTHER -> "none"

---------------------------------------------------------------------------
(* The property text.                                                      *)
NamedHost(v) == IF v.ver = "2"
                  THEN (IF v.auth # "none" THEN v.auth ELSE v.hosthdr)
                  ELSE v.hosthdr
Subject(v)   == v.tls /\ NamedHost(v) # "none"
Match(v)     == v.sni # "none" /\ Name(NamedHost(v)) = Name(v.sni)

\* an outcome: [kind : {"forwarded","rejected","panicked"}, validated : BOOLEAN]
\* (validated = the flag the application sees on the TLS info of the forwarded request)
C20onlyIf(v, o)   == Subject(v) /\ o.kind = "forwarded" => Match(v)
C20marked(v, o)   == Subject(v) /\ o.kind = "forwarded" /\ Match(v) => o.validated
C20rejects(v, o)  == Subject(v) /\ ~Match(v) => o.kind = "rejected"
C20neverRej(v, o) == Subject(v) /\ Match(v) => o.kind = "forwarded"
C20markTrue(v, o) == o.kind = "forwarded" /\ o.validated => Subject(v) /\ Match(v)
C20(v, o) == /\ C20onlyIf(v, o) /\ C20marked(v, o) /\ C20rejects(v, o)
             /\ C20neverRej(v, o) /\ C20markTrue(v, o)

\* which clause fails first (for violation keys / reports)
FailedClause(v, o) ==
    CASE ~C20neverRej(v, o) -> "neverRej"
      [] ~C20onlyIf(v, o)   -> "onlyIf"
      [] ~C20rejects(v, o)  -> "rejects"
      [] ~C20marked(v, o)   -> "marked"
      [] ~C20markTrue(v, o) -> "markTrue"
      [] OTHER -> "none"

---------------------------------------------------------------------------
(* The decision function the text describes.  Outside the subject the text *)
(* is silent; the function below follows the documented behaviour of the   *)
(* middleware there (no TLS info: pass; TLS, no host: pass iff a server     *)
(* name was sent) -- this part is conformance only.                        *)
Fwd(val) == [kind |-> "forwarded", validated |-> val]
Rej      == [kind |-> "rejected",  validated |-> FALSE]

Intended(v) ==
    IF ~v.tls THEN Fwd(FALSE)
    ELSE IF NamedHost(v) = "none" THEN (IF v.sni = "none" THEN Rej ELSE Fwd(FALSE))
    ELSE IF Match(v) THEN Fwd(TRUE) ELSE Rej

(* Transcription of sni.rs `handle` on the pinned tree.                    *)
AsBuiltHost(v) == IF v.ver = "2" THEN v.auth ELSE v.hosthdr
AsBuilt(v) ==
    IF ~v.tls THEN Fwd(FALSE)
    ELSE IF v.sni = "none" THEN Rej                                   \* MissingSNI
    ELSE IF AsBuiltHost(v) = "none" THEN Fwd(FALSE)
    ELSE IF Bytes(AsBuiltHost(v)) # Bytes(v.sni) THEN Rej             \* InvalidSNI
    ELSE Fwd(TRUE)

Decide(v) == IF Variant = "asbuilt" THEN AsBuilt(v) ELSE Intended(v)

\* the vector class used in violation keys: stable under re-spelling
Class(v) == <<v.ver, v.hosthdr, v.auth, v.sni>>

---------------------------------------------------------------------------
VARIABLES vec, st, out
vars == <<vec, st, out>>

Init == /\ vec \in Vectors
        /\ st = "arrived"
        /\ out = [kind |-> "pending", validated |-> FALSE]

Forward == /\ st = "arrived" /\ Decide(vec).kind = "forwarded"
           /\ st' = "done" /\ out' = Decide(vec) /\ UNCHANGED vec
Reject  == /\ st = "arrived" /\ Decide(vec).kind = "rejected"
           /\ st' = "done" /\ out' = Decide(vec) /\ UNCHANGED vec
Next == Forward \/ Reject
Spec == Init /\ [][Next]_vars

TypeOK == /\ vec \in Vectors /\ st \in {"arrived", "done"}
          /\ out.kind \in {"pending", "forwarded", "rejected"} /\ out.validated \in BOOLEAN

\* the property on the model
InvC20 == st = "done" => C20(vec, out)
\* where the text fixes the outcome, it fixes it uniquely: the function form and the clause form agree
InvFunctional == st = "done" /\ Subject(vec) => out = Intended(vec)
\* where do as-built and intended differ at all (informative; expected to fail for Variant="asbuilt" only)
InvSameAsIntended == st = "done" => out = Intended(vec)

---------------------------------------------------------------------------
(***************************************************************************)
(* Second binding: the per-connection chain                                *)
(*   TLS acceptor --(channel of info/tls.rs)--> TlsConnectionInfoLayer's   *)
(*   service (server/conn/tls/info.rs) --> ValidateSNI --> application.    *)
(* The TLS handshake sends the connection info ONCE into a per-connection  *)
(* channel; every request future of the connection asks the shared         *)
(* receiver state (Pending / Received / Empty) for it, attaches it to the  *)
(* request and only then calls ValidateSNI.  Request futures can be        *)
(* cancelled (dropped) while they wait.  Property:                         *)
(*   a request that arrived over TLS is judged against the connection's    *)
(*   server name regardless of what happened to earlier requests on that   *)
(*   connection                                                            *)
(* i.e. every request that completes got the info (ConnInvInfo), so the    *)
(* C20 clauses hold for it with tls = TRUE (ConnInvC20).                   *)
(*                                                                         *)
(* State (held in the variable `out`, scenario in `vec`, st = "conn"):     *)
(*   info : state of the shared receiver;  chan : has the handshake sent;  *)
(*   rq[r]: idle | queued (waits for the state lock) | waiting (holds the  *)
(*          lock, awaits the channel) | done_info | done_none | dropped    *)
(* External events: S r (request r starts; requests start in order),       *)
(* D r (a suspended request future is dropped), H (handshake completes).   *)
(* After every event the connection settles (lock hand-over is FIFO).      *)
(* InfoVariant = "shared": the receiver stays in the shared state while    *)
(* it is awaited (the pinned code).  "taken": it is moved out of the state *)
(* for the wait (state Empty meanwhile) -- the variant TLC refutes.        *)
(***************************************************************************)
CONSTANT InfoVariant      \* "shared" | "taken"

Reqs == 1..3
Classes == {"match", "differ", "absent"}
Scenarios == [ver : {"1.1", "2"}, sni : {"a", "none"}, cls : [Reqs -> Classes]]

ConnInit0 == [info |-> "Pending", chan |-> "empty", hs |-> FALSE, rq |-> [r \in Reqs |-> "idle"]]

MinOf(S) == CHOOSE x \in S : \A y \in S : x <= y

RECURSIVE Settle(_)
Settle(c) ==
    IF \E r \in Reqs : c.rq[r] = "waiting" THEN c
    ELSE LET Q == {r \in Reqs : c.rq[r] = "queued"} IN
         IF Q = {} THEN c
         ELSE LET r == MinOf(Q) IN
              CASE c.info = "Received" -> Settle([c EXCEPT !.rq[r] = "done_info"])
                [] c.info = "Empty"    -> Settle([c EXCEPT !.rq[r] = "done_none"])
                [] c.info = "Pending" /\ c.chan = "sent" ->
                        Settle([c EXCEPT !.rq[r] = "done_info", !.info = "Received"])
                [] OTHER -> [c EXCEPT !.rq[r] = "waiting",
                                      !.info = IF InfoVariant = "taken" THEN "Empty" ELSE "Pending"]

Events == [e : {"S", "D"}, r : Reqs] \cup {[e |-> "H", r |-> 0]}
EvEnabled(c, ev) ==
    CASE ev.e = "S" -> c.rq[ev.r] = "idle" /\ \A q \in Reqs : q < ev.r => c.rq[q] # "idle"
      [] ev.e = "D" -> c.rq[ev.r] \in {"waiting", "queued"}
      [] OTHER      -> ~c.hs
Step(c, ev) ==
    CASE ev.e = "S" -> Settle([c EXCEPT !.rq[ev.r] = "queued"])
      [] ev.e = "D" -> Settle([c EXCEPT !.rq[ev.r] = "dropped"])
      [] OTHER ->
           IF \E w \in Reqs : c.rq[w] = "waiting"
             THEN LET w == CHOOSE w \in Reqs : c.rq[w] = "waiting" IN
                  Settle([c EXCEPT !.rq[w] = "done_info", !.info = "Received", !.chan = "sent", !.hs = TRUE])
             ELSE Settle([c EXCEPT !.chan = "sent", !.hs = TRUE])

\* the request vector of request r of a scenario (canonical spelling of its class), as it arrived: over TLS
ClassForm(cl) == CASE cl = "match" -> "a" [] cl = "differ" -> "b" [] OTHER -> "none"
ScnReq(s, r) == [ver |-> s.ver, sni |-> s.sni, tls |-> TRUE,
                 hosthdr |-> IF s.ver = "2" THEN "none" ELSE ClassForm(s.cls[r]),
                 auth    |-> IF s.ver = "2" THEN ClassForm(s.cls[r]) ELSE "none"]
\* what ValidateSNI decides for it: it sees the TLS info only if the chain delivered it
ScnOutcome(s, r, status) == Decide([ScnReq(s, r) EXCEPT !.tls = (status = "done_info")])

ConnInit == /\ vec \in Scenarios /\ st = "conn" /\ out = ConnInit0
ConnNext == \E ev \in Events : /\ EvEnabled(out, ev)
                               /\ out' = Step(out, ev)
                               /\ UNCHANGED <<vec, st>>
ConnSpec == ConnInit /\ [][ConnNext]_vars

ConnTypeOK == /\ vec \in Scenarios /\ st = "conn"
              /\ out.info \in {"Pending", "Received", "Empty"} /\ out.chan \in {"empty", "sent"}
              /\ out.rq \in [Reqs -> {"idle", "queued", "waiting", "done_info", "done_none", "dropped"}]
              /\ Cardinality({r \in Reqs : out.rq[r] = "waiting"}) <= 1
ConnInvInfo == \A r \in Reqs : out.rq[r] # "done_none"
ConnInvC20  == \A r \in Reqs : out.rq[r] \in {"done_info", "done_none"} =>
                   C20(ScnReq(vec, r), ScnOutcome(vec, r, out.rq[r]))
\* after the handshake nobody is left suspended
ConnInvSettled == out.hs => \A r \in Reqs : out.rq[r] \notin {"waiting", "queued"}

\* the maximal behaviours (event sequences) of the connection machine, for replay on the real chain
RECURSIVE Behaviours(_)
Behaviours(c) ==
    LET En == {ev \in Events : EvEnabled(c, ev)} IN
    IF En = {} THEN {<<>>}
    ELSE UNION {{<<ev>> \o b : b \in Behaviours(Step(c, ev))} : ev \in En}
RECURSIVE StatusTrace(_, _)
StatusTrace(c, b) == IF b = <<>> THEN <<>>
                     ELSE LET c2 == Step(c, b[1]) IN <<c2.rq>> \o StatusTrace(c2, Tail(b))
=============================================================================
