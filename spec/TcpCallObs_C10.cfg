INIT Init
NEXT Next
INVARIANTS Consumed C10Holds
CHECK_DEADLOCK FALSE
