\* TlsStream vacuity guard / standing demonstration: the design variant "lazynoinfo" MUST violate T4_Available
SPECIFICATION Spec
CONSTANTS
  MaxOps = 6
  MaxBytes = 3
  MaxRx = 1
  Bug = "lazynoinfo"
  Sides <- MCSides
  Certs <- MCCerts
  ReadCaps <- MCReadCaps
  WriteLens <- MCWriteLens
  SendLens <- MCSendLens
VIEW MCView
INVARIANTS
  T4_Available
