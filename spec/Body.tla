-------------------------------- MODULE Body --------------------------------
(***************************************************************************)
(* A body as its consumer sees it (stage of C01 and C17).                  *)
(*                                                                         *)
(* A SOURCE is a finite sequence of items: data frames (length n >= 0),    *)
(* optionally a trailers frame as the last item, or an error in place of   *)
(* the last item.  Data bytes are NUMBERED: the i-th data byte of a source *)
(* is the number i, so loss, duplication, reordering and invention are     *)
(* visible in the numbers a consumer is handed.  The source sits under a   *)
(* STACK: a variant of `hyperdriver::Body` (empty / full / incoming)       *)
(* reached through one of its constructors or `From` impls, optionally     *)
(* converted by `as_boxed`, optionally obtained through the body adapting  *)
(* service layers.  The consumer's operations are Poll (`poll_frame`, one  *)
(* poll), Clone (`try_clone`), Drop; after EVERY operation `is_end_stream` *)
(* and `size_hint` are observed.  For the incoming variant the source is   *)
(* produced by the peer of a real hyper connection; Feed releases its next *)
(* item (that is where Pending comes from).                                *)
(*                                                                         *)
(* Part 1 is the PROPERTY: clauses over one observation `o` and the        *)
(* reference state `r` recomputed from the observations before it.  The    *)
(* same operators are the invariants of the model configurations and of    *)
(* the monitor over observations recorded from the real crate              *)
(* (BodyObs.tla).                                                          *)
(*   B1 the frames delivered are the source's, in order, nothing lost,     *)
(*      duplicated or invented; trailers once and last; an error once, at  *)
(*      its position, nothing after it; the end only after the source's    *)
(*   B2 is_end_stream is TRUE only if the next poll_frame returns None     *)
(*      (or the source's error), and once TRUE it stays TRUE               *)
(*   B3 size_hint: lower <= bytes remaining <= upper (sound); upper never  *)
(*      grows (monotone); exact where the variant knows its length         *)
(*   B4 Pending only while nothing is available (exact stacks: never); the *)
(*      waker of a Pending poll is woken when the source releases more     *)
(*   B5 try_clone: Some(equal, independent body) exactly for empty / full, *)
(*      None for incoming; the original is unaffected                      *)
(*   B6 = B1..B3 on the stacks with a conversion (From impls, as_boxed,    *)
(*      service layers) - the same clauses, other stacks                   *)
(* Part 2 is the MODEL: the variants as explicit machines (for the         *)
(* incoming variant: hyper's HTTP/1 length-delimited, HTTP/1 chunked and   *)
(* HTTP/2 receive paths as observed under "settle after every operation"), *)
(* the adapter layers as pass-through with seeded defects (`Bug`).         *)
(* Part 3 enumerates (stack, source, operation sequence).                  *)
(***************************************************************************)
EXTENDS Naturals, Sequences, FiniteSets, TLC

CONSTANTS MaxSteps,   \* bound on the number of operations of a behaviour
          Stacks,     \* set of stack descriptors (MC_Body)
          MaxItems,   \* incoming stacks: at most this many data items in a source
          DataLens,   \* incoming stacks: lengths of data items
          FullLens,   \* full stacks: lengths of the data
          Bug         \* "none" or the name of a seeded defect

VARIABLES stack,  \* [name, var, ctor, boxed, wire, side, known]
          src,    \* the source: sequence of [k |-> "d"|"t"|"e", n |-> length]
          ms,     \* model state
          ref,    \* reference state (recomputed from the observations)
          bad,    \* names of the clauses the last observation falsified
          ev,     \* if bad # {}: the observation and the reference state before it
          hist    \* the operations so far (generation configurations only)
vars == <<stack, src, ms, ref, bad, ev, hist>>

-----------------------------------------------------------------------------
(* helpers *)
Run(a, b) == [i \in 1..(IF b >= a THEN (b - a) + 1 ELSE 0) |-> (a + i) - 1]     \* <<a, .., b>>
D(n) == [k |-> "d", n |-> n]
T0   == [k |-> "t", n |-> 0]
E0   == [k |-> "e", n |-> 0]
HasErr(S) == \E i \in 1..Len(S) : S[i].k = "e"
HasTr(S)  == \E i \in 1..Len(S) : S[i].k = "t"
RECURSIVE DataUpTo(_, _)
DataUpTo(S, f) == IF f = 0 \/ S = <<>> THEN 0
                  ELSE (IF Head(S).k = "d" THEN Head(S).n ELSE 0) + DataUpTo(Tail(S), f - 1)
Total(S)    == DataUpTo(S, Len(S))                       \* data bytes of the source
Decl(S)     == Total(S) + (IF HasErr(S) THEN 1 ELSE 0)   \* the length a length-declaring source announces:
                                                         \* a source that fails announced one byte it never sends
MaxFeeds(S) == IF HasErr(S) THEN Len(S) ELSE Len(S) + 1  \* every item, then the end (a failed source has no end)
TrailerValue == 7

Exact(st)  == st.var # "INC"                \* frame-exact stacks: the variant itself holds the data
\* the wire of an incoming stack carries trailers: HTTP/2 always, HTTP/1 only with chunked framing
TPass(st)  == st.var = "INC" /\ (st.wire = "h2" \/ ~st.known)
KnowsLen(st) == st.var \in {"EMPTY", "FULL"} \/ (st.var = "INC" /\ st.known)
Kind(st) == IF st.var = "EMPTY" THEN "empty" ELSE IF st.var = "FULL" THEN "full"
            ELSE IF st.wire = "h2" THEN "h2" ELSE IF st.known THEN "h1cl" ELSE "h1ch"

(* The observation of one operation - the same schema in the model and in the ndjson written by
   harness/src/bin/body.rs:
     op     "Init" (the state right after construction) | "Feed" | "Poll" | "Clone" | "Drop"
     ph     "run" | "drain" (the harness releases everything and polls to the end) | "post" (after the end)
     res    Poll: "Data" | "Trailers" | "Err" | "None" | "Pending" | "Panic";  Clone: "Some" | "NoClone" | "Panic";
            Feed: "Ok" | "NoFeed";  Drop, Init: "Ok" | "Panic"
     bytes  Poll/Data: the bytes of the frame;   tv: Poll/Trailers: 7 if the trailer section is the source's, else -1
     eos, lo, hiS, hi   is_end_stream() and size_hint() (upper = hi if hiS) after the operation
     gone   the body has been dropped;   opanic: is_end_stream / size_hint panicked
     wakes  wake count of the consumer's waker after the operation (and the settling that follows it)
     fed    items the source has released so far
     cl     Clone/Some: [fr |-> frames the clone delivered when drained, eos, lo, hiS, hi |-> its first observation] *)
Cl0  == [fr |-> <<>>, eos |-> FALSE, lo |-> 0, hiS |-> FALSE, hi |-> 0]
Obs0 == [op |-> "Init", ph |-> "run", res |-> "Ok", bytes |-> <<>>, tv |-> 0, eos |-> FALSE, lo |-> 0, hiS |-> FALSE,
         hi |-> 0, gone |-> FALSE, opanic |-> FALSE, wakes |-> 0, fed |-> 0, cl |-> Cl0]

-----------------------------------------------------------------------------
(*                          PART 1 - THE PROPERTY                           *)
(* Reference state r:
     init   an observation has been seen (FALSE only before the Init record)
     dl     data bytes delivered so far          tr    trailers delivered
     ended  poll_frame has returned None         errd  poll_frame has returned an error
     eos, lo, hiS, hi   the previous observation of is_end_stream / size_hint
     armed  the last poll returned Pending       w0    wake count before that poll
     wk     wake count of the previous record    fed   items released before this operation
     gone   the body was dropped *)
Ref0 == [init |-> FALSE, dl |-> 0, tr |-> FALSE, ended |-> FALSE, errd |-> FALSE, eos |-> FALSE, lo |-> 0, hiS |-> FALSE,
         hi |-> 0, armed |-> FALSE, w0 |-> 0, wk |-> 0, fed |-> 0, gone |-> FALSE]

IsPoll(o)  == o.op = "Poll"
First(r)   == ~r.ended /\ ~r.errd                       \* the body has not terminated yet
Dl2(r, o)  == r.dl + (IF IsPoll(o) /\ o.res = "Data" THEN Len(o.bytes) ELSE 0)
Rem2(S, r, o) == IF Total(S) >= Dl2(r, o) THEN Total(S) - Dl2(r, o) ELSE 0
\* the source has certainly ended once `f` items are released: the end itself, or trailers (they are last), or -
\* with a declared length - all the declared bytes
EndImplied(st, S, f) == \/ Exact(st)
                        \/ f >= Len(S) + 1
                        \/ (HasTr(S) /\ f >= Len(S))
                        \/ (st.known /\ DataUpTo(S, f) = Decl(S))
\* releasing item j gives the consumer something new to see (HTTP/1 drops empty data frames; a length-delimited
\* HTTP/1 message ends with its last byte, its trailers cannot be sent)
Deliverable(st, S, j) ==
  IF j <= Len(S)
  THEN CASE S[j].k = "d" -> S[j].n > 0 \/ st.wire = "h2"
         [] S[j].k = "t" -> TPass(st)
         [] OTHER        -> TRUE
  ELSE ~(HasTr(S) /\ TPass(st)) /\ ~(st.known /\ st.wire = "h1")

(* --- B1: the frames ------------------------------------------------------- *)
\* a data frame holds exactly the next bytes of the source
B1_DataOrder(st, S, r, o) == IsPoll(o) /\ o.res = "Data" => o.bytes = Run(r.dl + 1, r.dl + Len(o.bytes))
\* ... and only bytes the source has released
B1_DataInvented(st, S, r, o) == IsPoll(o) /\ o.res = "Data" =>
                                   r.dl + Len(o.bytes) <= (IF Exact(st) THEN Total(S) ELSE DataUpTo(S, o.fed))
\* frame-exact stacks: the one data frame of the source, whole, not empty
B1_FrameBoundary(st, S, r, o) == IsPoll(o) /\ o.res = "Data" /\ Exact(st) => r.dl = 0 /\ Len(o.bytes) = Total(S) /\ Total(S) > 0
\* nothing after the end, nothing but the end (or the error again) after an error, no data after trailers
B1_AfterEnd(st, S, r, o) == IsPoll(o) => /\ (r.ended => o.res \in {"None", "Panic"})
                                         /\ (r.errd => o.res \in {"None", "Err", "Panic"})
                                         /\ (r.tr => o.res \notin {"Data", "Trailers"})
\* trailers: the source's, once, after all the data
B1_Trailers(st, S, r, o) == IsPoll(o) /\ o.res = "Trailers" =>
                               HasTr(S) /\ TPass(st) /\ ~r.tr /\ r.dl = Total(S) /\ o.tv = TrailerValue /\ o.fed >= Len(S)
\* an error only if the source failed, after the failure was released
B1_ErrorInvented(st, S, r, o) == IsPoll(o) /\ o.res = "Err" /\ First(r) => HasErr(S) /\ o.fed >= Len(S)
\* the end only after the source's end (a Pending turned into None, an invented end)
B1_EarlyEnd(st, S, r, o) == IsPoll(o) /\ o.res = "None" /\ First(r) => EndImplied(st, S, o.fed)
\* at the end everything was delivered: all data bytes, the trailers, and the source did not fail
B1_Truncated(st, S, r, o) == IsPoll(o) /\ o.res = "None" /\ First(r) /\ ~HasErr(S) => r.dl = Total(S)
B1_TrailersLost(st, S, r, o) == IsPoll(o) /\ o.res = "None" /\ First(r) /\ HasTr(S) /\ TPass(st) => r.tr
B1_ErrorSwallowed(st, S, r, o) == IsPoll(o) /\ o.res = "None" /\ First(r) => ~HasErr(S)
\* unknown frame kinds are never produced
B1_Kind(st, S, r, o) == IsPoll(o) => o.res \in {"Data", "Trailers", "Err", "None", "Pending", "Panic"}
\* at the end of a run (the harness has released everything and polled on): the body terminated
B1_Stalled(st, S, r, o) == o.op = "Drop" /\ o.ph = "post" => r.ended \/ r.errd

(* --- B2: is_end_stream ---------------------------------------------------- *)
B2_FalseEnd(st, S, r, o) == IsPoll(o) /\ r.init /\ r.eos => o.res \in ({"None", "Panic"} \cup (IF HasErr(S) THEN {"Err"} ELSE {}))
B2_Revoked(st, S, r, o)  == r.init /\ r.eos /\ ~o.gone => o.eos

(* --- B3: size_hint -------------------------------------------------------- *)
B3_Unsound(st, S, r, o) == ~HasErr(S) /\ ~o.gone /\ ~o.opanic =>
                              o.lo <= Rem2(S, r, o) /\ (o.hiS => Rem2(S, r, o) <= o.hi)
B3_NotMonotone(st, S, r, o) == r.init /\ r.hiS /\ ~o.gone /\ ~o.opanic => o.hiS /\ o.hi <= r.hi
B3_Inexact(st, S, r, o) == ~HasErr(S) /\ ~o.gone /\ ~o.opanic /\ KnowsLen(st) =>
                              o.lo = Rem2(S, r, o) /\ o.hiS /\ o.hi = Rem2(S, r, o)

(* --- B4: Pending ---------------------------------------------------------- *)
\* frame-exact stacks never pend; nobody pends after the end
B4_PendingInvented(st, S, r, o) == IsPoll(o) /\ o.res = "Pending" => ~Exact(st) /\ First(r)
\* the waker of a Pending poll is woken when the source releases something deliverable
B4_LostWakeup(st, S, r, o) == r.armed /\ o.op = "Feed" /\ o.res = "Ok" /\ Deliverable(st, S, o.fed) => o.wakes > r.w0

(* --- B5: try_clone -------------------------------------------------------- *)
Clonable(st) == st.var \in {"EMPTY", "FULL"}
FrNone == [k |-> "None", bytes |-> <<>>, tv |-> 0]
CloneFrames(S, r) == IF r.dl < Total(S) /\ First(r)
                     THEN <<[k |-> "Data", bytes |-> Run(r.dl + 1, Total(S)), tv |-> 0], FrNone>> ELSE <<FrNone>>
B5_Clonable(st, S, r, o) == o.op = "Clone" /\ ~st.boxed /\ o.res # "Panic" => (o.res = "Some" <=> Clonable(st))
B5_CloneDiffers(st, S, r, o) == o.op = "Clone" /\ o.res = "Some" =>
                                   /\ o.cl.fr = CloneFrames(S, r)
                                   /\ o.cl.eos = r.eos /\ o.cl.lo = r.lo /\ o.cl.hiS = r.hiS /\ o.cl.hi = r.hi
B5_OriginalAffected(st, S, r, o) == o.op = "Clone" /\ o.res # "Panic" =>
                                       o.eos = r.eos /\ o.lo = r.lo /\ o.hiS = r.hiS /\ o.hi = r.hi

(* --- no panic (C17) ------------------------------------------------------- *)
NoPanic(st, S, r, o) == o.res # "Panic" /\ ~o.opanic

ClauseNames == {"B1-data-order", "B1-data-invented", "B1-frame-boundary", "B1-after-end", "B1-trailers", "B1-error-invented",
                "B1-early-end", "B1-truncated", "B1-trailers-lost", "B1-error-swallowed", "B1-kind", "B1-stalled",
                "B2-false-end", "B2-revoked", "B3-unsound", "B3-not-monotone", "B3-inexact",
                "B4-pending-invented", "B4-lost-wakeup", "B5-clonable", "B5-clone-differs", "B5-original-affected", "panic"}
Holds(c, st, S, r, o) ==
  CASE c = "B1-data-order" -> B1_DataOrder(st, S, r, o)        [] c = "B1-data-invented" -> B1_DataInvented(st, S, r, o)
    [] c = "B1-frame-boundary" -> B1_FrameBoundary(st, S, r, o) [] c = "B1-after-end" -> B1_AfterEnd(st, S, r, o)
    [] c = "B1-trailers" -> B1_Trailers(st, S, r, o)          [] c = "B1-error-invented" -> B1_ErrorInvented(st, S, r, o)
    [] c = "B1-early-end" -> B1_EarlyEnd(st, S, r, o)         [] c = "B1-truncated" -> B1_Truncated(st, S, r, o)
    [] c = "B1-trailers-lost" -> B1_TrailersLost(st, S, r, o) [] c = "B1-error-swallowed" -> B1_ErrorSwallowed(st, S, r, o)
    [] c = "B1-kind" -> B1_Kind(st, S, r, o)                  [] c = "B1-stalled" -> B1_Stalled(st, S, r, o)
    [] c = "B2-false-end" -> B2_FalseEnd(st, S, r, o)         [] c = "B2-revoked" -> B2_Revoked(st, S, r, o)
    [] c = "B3-unsound" -> B3_Unsound(st, S, r, o)            [] c = "B3-not-monotone" -> B3_NotMonotone(st, S, r, o)
    [] c = "B3-inexact" -> B3_Inexact(st, S, r, o)            [] c = "B4-pending-invented" -> B4_PendingInvented(st, S, r, o)
    [] c = "B4-lost-wakeup" -> B4_LostWakeup(st, S, r, o)     [] c = "B5-clonable" -> B5_Clonable(st, S, r, o)
    [] c = "B5-clone-differs" -> B5_CloneDiffers(st, S, r, o) [] c = "B5-original-affected" -> B5_OriginalAffected(st, S, r, o)
    [] OTHER -> NoPanic(st, S, r, o)
\* names of the clauses that are false on this observation
Failing(st, S, r, o) == {c \in ClauseNames : ~Holds(c, st, S, r, o)}

(* the reference state after an observation *)
RefNext(st, S, r, o) ==
  [init  |-> TRUE,
   dl    |-> Dl2(r, o),
   tr    |-> r.tr \/ (IsPoll(o) /\ o.res = "Trailers"),
   ended |-> r.ended \/ (IsPoll(o) /\ o.res = "None"),
   errd  |-> r.errd \/ (IsPoll(o) /\ o.res = "Err"),
   eos   |-> IF o.gone THEN r.eos ELSE o.eos,
   lo    |-> IF o.gone THEN r.lo ELSE o.lo,
   hiS   |-> IF o.gone THEN r.hiS ELSE o.hiS,
   hi    |-> IF o.gone THEN r.hi ELSE o.hi,
   armed |-> IF IsPoll(o) THEN o.res = "Pending" ELSE r.armed,
   w0    |-> IF IsPoll(o) /\ o.res = "Pending" THEN r.wk ELSE r.w0,
   wk    |-> o.wakes,
   fed   |-> o.fed,
   gone  |-> r.gone \/ o.gone]

-----------------------------------------------------------------------------
(*                            PART 2 - THE MODEL                            *)
(* Model state m:
     i      operations done            fed    items released (exact stacks: everything from the start)
     taken  full: the frame was taken  dlv    data bytes delivered by the source
     q      pieces received and not yet handed to the consumer (h1 chunked: behind the slot; h2: all of them)
     slot   HTTP/1: the one piece in the body channel       wait  h1 length-delimited: bytes received behind the slot
     errIn  h1 length-delimited: the connection failed      closed h2: "no" | "end" (END_STREAM seen) | "reset"
     done   h1 length-delimited: "no" | "err" (the error was delivered)
     parked the last poll returned Pending (a waker is registered)      wakes  wake count      gone  dropped *)
P(k, n) == [k |-> k, n |-> n]
NoP == P("-", 0)
MS0(st, S) == [i |-> 0, fed |-> IF Exact(st) THEN MaxFeeds(S) ELSE 0, taken |-> FALSE, dlv |-> 0, q |-> <<>>, slot |-> NoP,
               wait |-> 0, errIn |-> FALSE, closed |-> "no", done |-> "no", parked |-> FALSE, wakes |-> 0, gone |-> FALSE]

PR(res, n, m) == [res |-> res, n |-> n, m |-> m]
\* one poll_frame of the variant
SrcPoll(st, S, m) ==
  LET kd == Kind(st) IN
  CASE kd = "empty" -> PR("None", 0, m)
    [] kd = "full"  -> IF ~m.taken /\ Total(S) > 0
                       THEN PR("Data", Total(S), [m EXCEPT !.taken = (Bug # "dupframe"), !.dlv = Total(S)])
                       ELSE PR("None", 0, m)
    [] kd = "h1ch"  -> CASE m.slot.k = "D" -> PR("Data", m.slot.n, [m EXCEPT !.slot = NoP, !.dlv = @ + m.slot.n])
                         [] m.slot.k = "T" -> PR("Trailers", 0, [m EXCEPT !.slot = NoP])
                         [] m.slot.k = "N" -> PR("None", 0, m)
                         [] m.slot.k = "E" -> PR("Err", 0, [m EXCEPT !.slot = P("N", 0)])
                         [] OTHER          -> PR("Pending", 0, m)
    [] kd = "h1cl"  -> IF Decl(S) = 0 THEN PR("None", 0, m)
                       ELSE IF m.slot.k = "D" THEN PR("Data", m.slot.n, [m EXCEPT !.slot = NoP, !.dlv = @ + m.slot.n])
                       ELSE IF m.dlv = Decl(S) \/ m.done = "err" THEN PR("None", 0, m)
                       ELSE IF m.errIn THEN PR("Err", 0, [m EXCEPT !.done = "err"])
                       ELSE PR("Pending", 0, m)
    [] OTHER        -> IF m.q # <<>>                      \* h2
                       THEN (IF Head(m.q).k = "D"
                             THEN PR("Data", Head(m.q).n, [m EXCEPT !.q = Tail(@), !.dlv = @ + Head(m.q).n])
                             ELSE PR("Trailers", 0, [m EXCEPT !.q = Tail(@)]))
                       ELSE IF m.closed = "end" THEN PR("None", 0, m)
                       ELSE IF m.closed = "reset" THEN PR("Err", 0, m)
                       ELSE PR("Pending", 0, m)

SrcEos(st, S, m) ==
  LET kd == Kind(st) IN
  CASE kd = "empty" -> TRUE
    [] kd = "full"  -> m.taken \/ Total(S) = 0
    [] kd = "h1ch"  -> FALSE
    [] kd = "h1cl"  -> m.dlv = Decl(S)
    [] OTHER        -> m.closed # "no" /\ m.q = <<>>

H(lo, hiS, hi) == [lo |-> lo, hiS |-> hiS, hi |-> hi]
Left(S, m) == IF Decl(S) >= m.dlv THEN Decl(S) - m.dlv ELSE 0
SrcHint(st, S, m) ==
  LET kd == Kind(st) IN
  CASE kd = "empty" -> H(0, TRUE, 0)
    [] kd = "full"  -> IF Bug = "hintstale" THEN H(Total(S), TRUE, Total(S)) ELSE H(Left(S, m), TRUE, Left(S, m))
    [] kd = "h1ch"  -> H(0, FALSE, 0)
    [] kd = "h1cl"  -> H(Left(S, m), TRUE, Left(S, m))
    [] OTHER        -> IF st.known THEN H(Left(S, m), TRUE, Left(S, m)) ELSE H(0, FALSE, 0)

\* the source releases its next item; the peer's hyper sends it at once
SrcFeed(st, S, m) ==
  LET j  == m.fed + 1
      it == IF j <= Len(S) THEN S[j] ELSE [k |-> "end", n |-> 0]
      kd == Kind(st)
      m1 == [m EXCEPT !.fed = j]
  IN CASE kd = "h1ch" ->
            CASE it.k = "d" -> IF it.n > 0 THEN [m1 EXCEPT !.q = Append(@, P("D", it.n))] ELSE m1
              [] it.k = "t" -> [m1 EXCEPT !.q = @ \o <<P("T", 0), P("N", 0)>>]
              [] it.k = "e" -> [m1 EXCEPT !.q = Append(@, P("E", 0))]
              [] OTHER      -> IF HasTr(S) THEN m1 ELSE [m1 EXCEPT !.q = Append(@, P("N", 0))]
       [] kd = "h1cl" ->
            CASE it.k = "d" -> [m1 EXCEPT !.wait = @ + it.n]
              [] it.k = "e" -> [m1 EXCEPT !.errIn = TRUE]
              [] OTHER      -> m1
       [] kd = "h2" ->
            CASE it.k = "d" -> [m1 EXCEPT !.q = Append(@, P("D", it.n))]
              [] it.k = "t" -> [m1 EXCEPT !.q = Append(@, P("T", 0)), !.closed = "end"]
              [] it.k = "e" -> [m1 EXCEPT !.closed = "reset"]
              [] OTHER      -> IF HasTr(S) THEN m1 ELSE [m1 EXCEPT !.q = Append(@, P("D", 0)), !.closed = "end"]
       [] OTHER -> m1

\* what the connection task does when it runs (after every operation): move the next piece into the free slot
Refill(st, m) ==
  LET kd == Kind(st) IN
  CASE kd = "h1ch" /\ m.slot.k = "-" /\ m.q # <<>> -> [m EXCEPT !.slot = Head(m.q), !.q = Tail(@)]
    [] kd = "h1cl" /\ m.slot.k = "-" /\ m.wait > 0 -> [m EXCEPT !.slot = P("D", m.wait), !.wait = 0]
    [] OTHER -> m

(* the adapter layers: the enum dispatch of `Body` and the boxing of `as_boxed` forward poll_frame,
   is_end_stream and size_hint unchanged; `Bug` seeds a defect into one of them *)
LPoll(st, res) == CASE Bug = "droptrailers" /\ st.var = "INC" /\ res = "Trailers" -> "None"
                    [] Bug = "pendnone" /\ st.var = "INC" /\ res = "Pending" -> "None"
                    [] Bug = "errswallow" /\ res = "Err" -> "None"
                    [] OTHER -> res
LEos(st, e)  == IF Bug = "fullend" /\ st.var = "FULL" THEN TRUE ELSE e
LHint(st, h) == IF Bug = "hintdrop" /\ st.boxed THEN H(0, FALSE, 0) ELSE h

Seen(st, S, m, o) ==      \* fills in what is observed after every operation
  IF m.gone THEN [o EXCEPT !.gone = TRUE, !.wakes = m.wakes, !.fed = m.fed]
  ELSE LET h == LHint(st, SrcHint(st, S, m))
       IN [o EXCEPT !.eos = LEos(st, SrcEos(st, S, m)), !.lo = h.lo, !.hiS = h.hiS, !.hi = h.hi, !.wakes = m.wakes, !.fed = m.fed]

InitObs(st, S) == Seen(st, S, MS0(st, S), Obs0)

Step(st, S, m, op) ==
  CASE op = "Poll" ->
         LET p   == SrcPoll(st, S, m)
             res == LPoll(st, p.res)
             m1  == Refill(st, [p.m EXCEPT !.parked = (res = "Pending"), !.i = @ + 1])
             by  == IF res # "Data" THEN <<>> ELSE IF Kind(st) = "full" THEN Run(1, p.n) ELSE Run(m.dlv + 1, m.dlv + p.n)
         IN [m |-> m1,
             o |-> Seen(st, S, m1, [Obs0 EXCEPT !.op = "Poll", !.res = res, !.bytes = by,
                                                !.tv = IF res = "Trailers" THEN TrailerValue ELSE 0])]
    [] op = "Feed" ->
         LET m1 == Refill(st, [SrcFeed(st, S, m) EXCEPT !.i = @ + 1])
             wk == m1.parked /\ SrcPoll(st, S, m1).res # "Pending"
             m2 == IF wk THEN [m1 EXCEPT !.wakes = @ + 1, !.parked = FALSE] ELSE m1
         IN [m |-> m2, o |-> Seen(st, S, m2, [Obs0 EXCEPT !.op = "Feed"])]
    [] op = "Clone" ->
         LET m1  == [m EXCEPT !.i = @ + 1]
             o1  == Seen(st, S, m1, [Obs0 EXCEPT !.op = "Clone"])
             rest == IF Kind(st) = "full" /\ ~m.taken /\ Total(S) > 0 /\ Bug # "clonempty"
                     THEN <<[k |-> "Data", bytes |-> Run(1, Total(S)), tv |-> 0], FrNone>> ELSE <<FrNone>>
         IN [m |-> m1,
             o |-> IF Clonable(st) /\ ~st.boxed
                   THEN [o1 EXCEPT !.res = "Some", !.cl = [fr |-> rest, eos |-> o1.eos, lo |-> o1.lo, hiS |-> o1.hiS, hi |-> o1.hi]]
                   ELSE [o1 EXCEPT !.res = "NoClone"]]
    [] OTHER ->
         LET m1 == [m EXCEPT !.i = @ + 1, !.gone = TRUE]
         IN [m |-> m1, o |-> Seen(st, S, m1, [Obs0 EXCEPT !.op = "Drop"])]

-----------------------------------------------------------------------------
(*                           PART 3 - BEHAVIOURS                            *)
\* the sources a stack can have
RECURSIVE DataSeqs(_)
DataSeqs(k) == IF k = 0 THEN {<<>>} ELSE LET s == DataSeqs(k - 1) IN s \cup {Append(x, D(n)) : x \in s, n \in DataLens}
SourcesOf(st) ==
  CASE st.var = "EMPTY" -> {<<>>}
    [] st.var = "FULL"  -> (IF st.ctor = "from_string" THEN {} ELSE {<<>>}) \cup {<<D(n)>> : n \in FullLens}
    [] OTHER -> LET ds == DataSeqs(MaxItems) IN ds \cup {Append(x, T0) : x \in ds} \cup {Append(x, E0) : x \in ds}

NoEv == [o |-> Obs0, r |-> Ref0]

Init == /\ stack \in Stacks
        /\ src \in SourcesOf(stack)
        /\ ms = MS0(stack, src)
        /\ bad = Failing(stack, src, Ref0, InitObs(stack, src))
        /\ ev = IF bad = {} THEN NoEv ELSE [o |-> InitObs(stack, src), r |-> Ref0]
        /\ ref = RefNext(stack, src, Ref0, InitObs(stack, src))
        /\ hist = <<>>

Do(op) == LET s == Step(stack, src, ms, op) IN
          /\ ms.i < MaxSteps /\ ~ms.gone
          /\ ms' = s.m
          /\ bad' = Failing(stack, src, ref, s.o)
          /\ ev' = IF bad' = {} THEN NoEv ELSE [o |-> s.o, r |-> ref]
          /\ ref' = RefNext(stack, src, ref, s.o)
          /\ hist' = Append(hist, [op |-> op])
          /\ UNCHANGED <<stack, src>>

Feed  == ~Exact(stack) /\ ms.fed < MaxFeeds(src) /\ Do("Feed")
Poll  == ~ms.gone /\ Do("Poll")
Clone == ~stack.boxed /\ Do("Clone")
Drop  == ~ms.gone /\ Do("Drop")

Next == Feed \/ Poll \/ Clone \/ Drop
Spec == Init /\ [][Next]_vars

(* the property as invariants of the model, one per clause, so that TLC names the clause *)
I_B1_DataOrder      == "B1-data-order" \notin bad
I_B1_DataInvented   == "B1-data-invented" \notin bad
I_B1_FrameBoundary  == "B1-frame-boundary" \notin bad
I_B1_AfterEnd       == "B1-after-end" \notin bad
I_B1_Trailers       == "B1-trailers" \notin bad
I_B1_ErrorInvented  == "B1-error-invented" \notin bad
I_B1_EarlyEnd       == "B1-early-end" \notin bad
I_B1_Truncated      == "B1-truncated" \notin bad
I_B1_TrailersLost   == "B1-trailers-lost" \notin bad
I_B1_ErrorSwallowed == "B1-error-swallowed" \notin bad
I_B1_Kind           == "B1-kind" \notin bad
I_B2_FalseEnd       == "B2-false-end" \notin bad
I_B2_Revoked        == "B2-revoked" \notin bad
I_B3_Unsound        == "B3-unsound" \notin bad
I_B3_NotMonotone    == "B3-not-monotone" \notin bad
I_B3_Inexact        == "B3-inexact" \notin bad
I_B4_PendingInvented == "B4-pending-invented" \notin bad
I_B4_LostWakeup     == "B4-lost-wakeup" \notin bad
I_B5_Clonable       == "B5-clonable" \notin bad
I_B5_CloneDiffers   == "B5-clone-differs" \notin bad
I_B5_OriginalAffected == "B5-original-affected" \notin bad
I_NoPanic           == "panic" \notin bad
\* the model's counters agree with the reference recomputed from its observations
I_ModelRef == ~ms.gone => ms.dlv = ref.dl /\ ms.fed = ref.fed
\* no stall: once everything is released a poll never pends (the drain of a real run reaches the end)
I_NoStall == ms.fed = MaxFeeds(src) /\ ~ms.gone => SrcPoll(stack, src, ms).res # "Pending"
\* progress of the delivery: delivered is a prefix of what was released
I_Prefix == ref.dl <= Total(src)

=============================================================================
