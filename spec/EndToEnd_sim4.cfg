CONSTANTS
  Req <- MCReq4
  Conn <- MCConn2
  Origin <- MCOrigin2
  Versions <- MCBoth
  Buggy <- MCNoBug
  AllowBreak = TRUE
  AllowUpgrade = TRUE
INIT Init
NEXT Next
INVARIANTS TypeOK MatchedState H1ExclusiveState NoCrossOriginState FailedOnlyIfBroken
PROPERTIES Matched ResponseIntact RequestIntact H1Exclusive NoReuseAfterUpgrade NoCrossOrigin NoSpuriousFailure
CHECK_DEADLOCK FALSE
