SPECIFICATION Spec
CONSTANTS
  NCalls = 2
  Kinds <- KBoth
  Vers <- V11_2_3
  Spurious = TRUE
  MaxGen = 1
  AllowDrop = TRUE
  Look = 2
  WithSvc = FALSE
  Variant = "ok"
VIEW View
INVARIANTS TypeOK K2_Once K2_Order K2_Args K3_NoLostWake K4_Dropped
PROPERTIES K1_Result K4_Quiet K5_Indep
CHECK_DEADLOCK FALSE
