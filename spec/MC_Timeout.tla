----------------------------- MODULE MC_Timeout -----------------------------
(* Model-checking instance of Timeout.tla (no history variable): INIT TInit, NEXT TNext, or the fair *)
(* specifications TFairSpec / ProbeSpec for the liveness properties.                                  *)
EXTENDS Timeout

NoFaults == {}
CloseOnly == {"close"}
ConnectOnly == {"connect"}
SomeFaults == {"connect", "handshake", "close"}
DialFaults == {"connect", "handshake"}
NoT == {}
TimerFirst == {"TimerFirst"}
LazyTimer == {"LazyTimer"}
KeepInner == {"KeepInner"}
ZeroNoTimeout == {"ZeroNoTimeout"}
NoArm == {"NoArm"}
D2 == {"D2"}
D4 == {"D4"}
Durs013 == {0, 1, 3}
Durs01 == {0, 1}
Durs1 == {1}
Durs13 == {1, 3}

=============================================================================
