----------------------------- MODULE MC_Timeout -----------------------------
(* Model-checking and generation instance of Timeout.tla.                                   *)
(* GenDepth = 0: pure model checking (hist stays empty).  GenDepth > 0: `hist` records every *)
(* completed step (one TimeoutFuture::poll = one entry) with the observable state after it;  *)
(* Emit prints a finished behaviour as one JSON line for harness/src/bin/timeout.rs replay.  *)
EXTENDS Timeout, Json

CONSTANTS GenDepth

VARIABLE hist

NoFaults == {}
SomeFaults == {"connect", "handshake", "close"}
DialFaults == {"connect", "handshake"}
NoT == {}
TimerFirst == {"TimerFirst"}
LazyTimer == {"LazyTimer"}
KeepInner == {"KeepInner"}
ZeroNoTimeout == {"ZeroNoTimeout"}
NoArm == {"NoArm"}
D2 == {"D2"}
D4 == {"D4"}
Durs013 == {0, 1, 3}
Durs01 == {0, 1}
Durs1 == {1}
Durs13 == {1, 3}

InitH == TInit /\ hist = <<>>
NextH == /\ TNext
         /\ hist' = IF GenDepth > 0 /\ pc' = Idle
                    THEN Append(hist, [ev |-> tev', obs |-> TObs'])
                    ELSE hist
SpecH == InitH /\ [][NextH]_<<allvars, hist>>
FairSpecH == SpecH /\ TFairness
ProbeSpecH == SpecH /\ ProbeFairness

Beh == [cfg |-> [cap |-> cfg.cap, maxIdle |-> cfg.maxIdle, idleTimeout |-> cfg.it, dur |-> dur, probe |-> Probe], steps |-> hist]
Emit == (pc = Idle /\ (Len(hist) = GenDepth \/ (Len(hist) > 0 /\ Len(hist) < GenDepth /\ ~ENABLED TNext))) => PrintT(<<"REPLAY", ToJson(Beh)>>)
StopAtDepth == Len(hist) <= GenDepth
ViewH == <<TView, hist>>
=============================================================================
