CONSTANTS
    AsBuiltCompare = FALSE
    MaxCuts = 4
    Caps <- MCCaps
    Window <- MCWindow
    GenK = 4
    Tier = "quick"
INIT GenInit
NEXT GenNext
