CONSTANTS
  N = 4
  Grid <- dGrid
  Delays <- dDelays
  Timeouts <- dTimeouts
  Concs <- dConcs
INIT Init4
NEXT Next
INVARIANTS TypeOK C10Inv C11Inv Tight Emit
CHECK_DEADLOCK FALSE
