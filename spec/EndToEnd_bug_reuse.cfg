CONSTANTS
  Req <- MCReq3
  Conn <- MCConn2
  Origin <- MCOrigin1
  Versions <- MCH1
  Buggy <- MCBugReuse
  AllowBreak = FALSE
  AllowUpgrade = FALSE
INIT Init
NEXT Next
INVARIANTS TypeOK
PROPERTIES H1Exclusive
CHECK_DEADLOCK FALSE
