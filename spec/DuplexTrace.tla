---------------------------- MODULE DuplexTrace ----------------------------
(***************************************************************************)
(* Trace validation (impl -> spec): a trace recorded from the REAL duplex  *)
(* types under a random walk (harness/src/bin/duplex.rs walk) must be a    *)
(* behaviour of Duplex.tla with the real channel capacity (Cap = 32).      *)
(* Each record names the harness action, its arguments and its result and  *)
(* carries the observable state after it; it is matched by the model action *)
(* of the same name whose result and whose observable state agree.          *)
(* A rejected run means the code is no longer the modelled design (DRIFT);  *)
(* it is not by itself a property violation (DESIGN.md 2.3).                *)
(***************************************************************************)
EXTENDS Duplex, Json, IOUtils

Rec == ndJsonDeserialize(IOEnv.TRACE)
N == Len(Rec)

VARIABLE l
tvars == <<vars, l>>

Nat64 == 0..64
Nat1_64 == 1..64

TraceInit == Init /\ l = 0 /\ lbuf = 0

ResetStep(e) ==
  /\ handles' = 1 /\ lst' = "open" /\ lbuf' = e.cfg.lbuf /\ lneed' = TRUE /\ lw' = FALSE
  /\ cst' = [c \in Clients |-> "idle"] /\ cB' = [c \in Clients |-> 0] /\ cw' = [c \in Clients |-> FALSE]
  /\ ack' = [c \in Clients |-> "none"] /\ cend' = [c \in Clients |-> 0]
  /\ sem' = <<>> /\ permits' = Cap /\ q' = <<>> /\ acc' = <<>>
  /\ pipe' = [c \in Clients |-> NoPipe] /\ spare' = 0 /\ ev' = NoEv

EndMatch(o, m) == o.st = m.st /\ o.r = m.r /\ o.w = m.w
ObsMatch(o, m) ==
  /\ o.handles = m.handles /\ o.lst = m.lst /\ o.lneed = m.lneed
  /\ \A c \in Clients : IF c \in 1..Len(o.cl)
                        THEN o.cl[c].st = m.cl[c].st /\ o.cl[c].w = m.cl[c].w /\ EndMatch(o.cl[c].e, m.cl[c].e)
                        ELSE m.cl[c].st = "idle"
  /\ Len(o.srv) = Len(m.srv)
  /\ \A k \in 1..Len(o.srv) : EndMatch(o.srv[k], m.srv[k])

Idx(e) == IF e.s = "cli" THEN e.c ELSE e.k
TraceNext ==
  /\ l < N
  /\ l' = l + 1
  /\ LET e == Rec[l + 1] IN
     CASE e.e = "Reset" -> ResetStep(e)
       [] e.e \in {"End", "Skip"} -> UNCHANGED vars
       [] OTHER ->
          /\ CASE e.e = "Clone" -> CloneHandle
               [] e.e = "DropHandle" -> DropHandle
               [] e.e = "Start" -> Start(e.c, e.a)
               [] e.e = "Poll" -> Poll(e.c) /\ ev'.res = e.res
               [] e.e = "Cancel" -> Cancel(e.c)
               [] e.e = "Accept" -> Accept /\ ev'.res = e.res /\ (e.res # "pending" => ev'.k = e.k)
               [] e.e = "DropListener" -> DropListener
               [] e.e = "Write" -> Write(e.s, Idx(e), e.a) /\ ev'.res = e.res /\ ev'.m = e.m
               [] e.e = "Read" -> /\ Read(e.s, Idx(e), e.a)
                                  /\ IF e.res = "zero" THEN ev'.res \in {"ok", "eof"} ELSE ev'.res = e.res
                                  /\ ev'.m = e.m
                                  \* the numbered bytes: model lo+1..lo+m <-> real sequence numbers (lo + j - 1) mod 8
                                  /\ \A j \in 1..Len(e.bytes) : e.bytes[j] % 8 = (ev'.lo + j - 1) % 8
               [] e.e = "Shutdown" -> IF HasEnd(e.s, Idx(e)) /\ pipe[PipeOf(e.s, Idx(e))][Out(e.s)].closed
                                      THEN UNCHANGED vars          \* (closing a closed direction changes nothing)
                                      ELSE Shutdown(e.s, Idx(e))
               [] e.e = "DropEnd" -> DropEnd(e.s, Idx(e))
               [] OTHER -> FALSE
          /\ ObsMatch(e.obs, Obs')

TraceSpec == TraceInit /\ [][TraceNext]_tvars

Accepted ==
  LET k == TLCGet("stats").diameter - 1 IN
  IF k >= N THEN TRUE
  ELSE PrintT(<<"REJECT", k, ToJson([rec |-> Rec[k + 1]])>>)
=============================================================================
