CONSTANTS
  MaxHops = 3
  Delays = {0, 1, 2}
  Durs = {0, 1, 3, 4}
  AsBuilt = {}
  Gen = TRUE
SPECIFICATION Spec
INVARIANTS ChainByDeadline ChainNoStall ChainNotEarly ChainInnerFirst ChainOkIsInner Emit
CHECK_DEADLOCK FALSE
