SPECIFICATION Spec
INVARIANT TypeOK
INVARIANT Progress
INVARIANT M_NoClear
INVARIANT M_Established
INVARIANT M_Name
INVARIANT M_FailIsError
INVARIANT M_OtherNotWrapped
INVARIANT M_Outcome
INVARIANT M_PoolClass
CHECK_DEADLOCK FALSE
CONSTANT KeyMergesWsIntoHttp = FALSE
CONSTANT SetterDropsTls = FALSE
