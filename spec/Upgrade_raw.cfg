\* Upgrade model check: scripted raw client against the auto server: early tunnel bytes behind the request head in one segment
SPECIFICATION Spec
CONSTANTS
  KindVecs <- VecsRaw
  MaxConn = 3
  Server = "auto"
  Client = "raw"
  HL = 2
  SniffMax = 3
  MaxW = 4
  WSizes <- W1
  MaxEnv = 2
  HoldSets <- Hold01
  DHoldSets <- DHold0
  AllowShutdown = TRUE
  AllowDrop = TRUE
  Quiescent = FALSE
  Bug = "none"
VIEW MCView
INVARIANTS
  TypeOK
  U1_NoSendAfterUpgrade U1_NotPooledAfterUpgrade U1_DiscardedOnlyIfDead
  U2_ServerGetsExactly U2_ClientGetsExactly U2_ParserSeesNoTunnelByte U2_EofOnlyAfterEnd U2_QuietAllDelivered
  U3_Matched U3_HeadsWhole U3_NoSpuriousFailure U3_FailedOnlyIfExcused U3_ResponseAsProduced
  U4_NoConnectionHeadersOnH2 U4_NoSwitchOnH2 U4_ConnectRejectedOnH2
  U5_OnMatchesAnswer
