---- MODULE MC_AddrSort ----
EXTENDS AddrSort
cTags  == {1, 2}
cPorts == {0, 80, 65535}
====
