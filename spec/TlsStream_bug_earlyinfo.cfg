\* TlsStream vacuity guard / standing demonstration: the design variant "earlyinfo" MUST violate T4_AfterSuccess
SPECIFICATION Spec
CONSTANTS
  MaxOps = 5
  MaxBytes = 3
  MaxRx = 1
  Bug = "earlyinfo"
  Sides <- MCSides
  Certs <- MCCerts
  ReadCaps <- MCReadCaps
  WriteLens <- MCWriteLens
  SendLens <- MCSendLens
VIEW MCView
INVARIANTS
  T4_AfterSuccess
