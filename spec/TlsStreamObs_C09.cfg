\* TlsStream monitor deciding for C09: the clauses that belong to the text of C09 (TlsStreamObs!Pids) as ONE invariant over
\* the recorded real observations; Report prints every falsified observation (BAD) and the first model drift of every
\* schedule (DRIFT) and is never false
INIT ObsInit
NEXT ObsNext
VIEW ObsView
CONSTANTS
  MaxOps = 0
  MaxBytes = 0
  MaxRx = 0
  Bug = "asbuilt"
  Sides = {}
  Certs = {}
  ReadCaps = {}
  WriteLens = {}
  SendLens = {}
INVARIANTS
  I_Sane
  Report
  I_C09
