SPECIFICATION Spec
CONSTANTS
  NCli = 3
  Cap = 2
  MaxHandles = 1
  BufSizes <- B12
  LBufs <- L02
  MaxBytes = 1
  WriteLens <- W1
  ReadCaps <- R1
  DataClients <- Data1
  Spurious = FALSE
  Variant = "dropnext"
  NActive = 3
VIEW View
INVARIANTS TypeOK ChanOK P1 P2_Prefix P2_BufRule P2_NoLostWake P3_ConnectErr P5_NoLostWake
PROPERTIES P2_Step P3_AcceptErr P4_Fifo P4_SkipOnlyCancelled
CHECK_DEADLOCK FALSE
