\* Body generation (simulation): (stack, source, op sequence) vectors over every REAL stack, printed as JSON lines
SPECIFICATION SpecGen
CONSTANTS
  MaxSteps = 8
  Stacks <- MCRealStacks
  MaxItems = 3
  DataLens <- L012
  FullLens <- F123
  Bug = "none"
INVARIANTS
  Emit
