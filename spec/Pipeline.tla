------------------------------ MODULE Pipeline ------------------------------
(***************************************************************************)
(* C17 -- no well-typed request value makes the client panic.               *)
(*                                                                         *)
(* A "vector spec": Init chooses one abstract request + stack + transport   *)
(* + build configuration; the actions are a transcription of the validation *)
(* pipeline a request passes on its way to the wire, as an outcome-class    *)
(* function:                                                               *)
(*   UriKey::try_from(&Parts)            src/client/pool/key.rs             *)
(*   HttpProtocol::from(http::Version)   src/client/conn/protocol/mod.rs    *)
(*   TlsTransport::call, TlsStream::new  src/client/conn/transport/mod.rs,  *)
(*                                       src/client/conn/stream/tls.rs      *)
(*   HttpConnectionBuilder::handshake    src/client/conn/protocol/auto.rs   *)
(*   set_host_header                     src/service/host.rs                *)
(*   check_http2_request, check_http1_request (authority_form,             *)
(*   absolute_form, origin_form)         src/service/http.rs                *)
(*   HttpConnection::send_request -> hyper                                 *)
(* `out.classes` is the set of outcome classes the stage reached allows     *)
(* ("resp", "err", "panic", "stall"); where hyper or the certificate decide *)
(* and the abstract class does not determine the result, both "resp" and    *)
(* "err" are allowed.  The property: "panic" (and "stall", a poll that      *)
(* never returns) is never an outcome.                                      *)
(*                                                                         *)
(* `asBuilt` (a variable fixed in Init, DESIGN 2.4) selects the            *)
(* transcription of the pinned tree where it deviates (DESIGN D6, D9):      *)
(*   - From<http::Version>: `_ => panic!("Unsupported HTTP protocol")` for  *)
(*     HTTP/0.9 and HTTP/3                                                 *)
(*   - TlsStream::new: `.expect("should be valid dns name")`                *)
(*   - authority_form: `unreachable!` for a CONNECT without authority       *)
(*   - absolute_form: debug assertions on scheme / authority (debug builds) *)
(*   - EyeballSet::process_all: happy_eyeballs_concurrency as a loop bound   *)
(*     (D20: Some(usize::MAX) never returns from the poll)                   *)
(*                                                                         *)
(* C17 quantifies over "inputs, CONFIGURATIONS": besides the request the    *)
(* vector carries the configuration of the stack and the HISTORY of the     *)
(* client the request is sent through, as classes:                          *)
(*   pool      with / without pool (Builder::with_pool / without_pool)       *)
(*   idle      pool::Config::idle_timeout     None, Some(0), Some(1ns),      *)
(*             Some(90s) (default), Some(Duration::MAX)                      *)
(*   maxidle   pool::Config::max_idle_per_host  0, 1, 32 (default), usize::MAX *)
(*   cap       pool::Config::continue_after_preemption                       *)
(*   rto       Builder::with_optional_timeout  None, Some(0), Some(30s),     *)
(*             Some(Duration::MAX)                                           *)
(*   redir     Builder redirect policy  off / policy::Standard               *)
(*   net       "mem" in-memory transport | "tcp" the real TcpTransport on    *)
(*             loopback, configured by TcpTransportConfig:                   *)
(*   ct, het, ka   connect_timeout, happy_eyeballs_timeout, keep_alive_timeout *)
(*             None, Some(0), default, Some(Duration::MAX)                   *)
(*   hec       happy_eyeballs_concurrency  None, Some(0), Some(1), Some(2)   *)
(*             (default), Some(usize::MAX)                                   *)
(*   buf       send/recv_buffer_size  None, Some(0), Some(usize::MAX)        *)
(*   hist      the request is the 1st, 2nd or 3rd request of the same client *)
(*             to the same origin; every previous request either completed   *)
(*             and left its connection idle ("idle"), is still in flight     *)
(*             ("inflight"), or completed and the peer then closed the        *)
(*             connections ("closed")                                        *)
(* Dimensions that cannot influence the stack of the vector are pinned to    *)
(* the centre value (Norm): pool classes without a pool, builder classes     *)
(* off the Client stack, TcpTransportConfig classes off the TCP transport.   *)
(* The outcome stays what C17 says - a response or an error, never a panic - *)
(* for every combination; the configuration and history only add stages      *)
(* (request timeout, check-out with re-use, TCP dial) that end in "err" or   *)
(* continue.  `out.reuse` predicts whether the request is carried by a       *)
(* connection of a previous request ("yes" / "no" / "any"); a difference is  *)
(* DRIFT (it guards the history machinery of the driver against vacuity).    *)
(***************************************************************************)
EXTENDS Naturals, FiniteSets, Sequences, TLC

Vers       == {"0.9", "1.0", "1.1", "2", "3"}
Methods    == {"GET", "POST", "CONNECT", "OPTIONS", "ext"}
UriForms   == {"http", "https", "ws", "wss", "other", "origin", "authority", "asterisk"}
Hosts      == {"name", "v4", "v6", "legal", "odd", "none"}   \* legal: unusual, still a DNS name; odd: URI-legal only
Hdrs       == {"none", "host", "conn", "big"}
Bodies     == {"empty", "some"}
Stacks     == {"client", "pool", "nopool", "connector", "connectorBare"}
Transports == {"plain", "tls", "tlsalpn"}

\* configuration and history classes
Nets       == {"mem", "tcp"}
OnOff      == {"on", "off"}
IdleTOs    == {"none", "zero", "tiny", "default", "max"}
MaxIdles   == {"zero", "one", "default", "max"}
ReqTOs     == {"none", "zero", "default", "max"}
TcpTOs     == {"none", "zero", "default", "max"}
Concs      == {"none", "zero", "one", "default", "max"}
Bufs       == {"none", "zero", "max"}
PrevStates == {"idle", "inflight", "closed"}
Hists      == {"first"} \cup PrevStates \cup {a \o "-" \o b : a, b \in PrevStates}

VARIABLES v, asBuilt, pc, conn, out
vars == <<v, asBuilt, pc, conn, out>>

HasScheme(x)    == x.uri \in {"http", "https", "ws", "wss", "other"}
HasAuthority(x) == HasScheme(x) \/ x.uri = "authority"
Secure(x)       == x.uri \in {"https", "wss"}
TlsOn(x)        == x.transport \in {"tls", "tlsalpn"}
Pooled(x)       == x.stack \in {"client", "pool", "nopool"}
Checks(x)       == x.stack # "connectorBare"                \* SetHostHeader, Http2Checks, Http1Checks present

\* Header-set and body classes occur in no guard of the pipeline below (the code never branches on them before
\* the request is handed to hyper), so they are not part of the model-checking state: the generator crosses
\* Payloads onto every vector and the monitor checks the property on every (vector, payload) record.
Payloads == [hdr : Hdrs, body : Bodies]

\* the request grammar with default configuration and no history (every combination is a vector)
BaseVectors == {x \in [ver : Vers, method : Methods, uri : UriForms, host : Hosts,
                       stack : Stacks, transport : Transports, da : BOOLEAN] :
                  (x.host = "none") = ~HasAuthority(x)}

\* ---- the full vector: request x configuration x history ---------------------------------------------
Dom == [ver |-> Vers, method |-> Methods, uri |-> UriForms, host |-> Hosts, stack |-> Stacks, transport |-> Transports,
        net |-> Nets, pool |-> OnOff, idle |-> IdleTOs, maxidle |-> MaxIdles, cap |-> OnOff, rto |-> ReqTOs,
        redir |-> OnOff, ct |-> TcpTOs, het |-> TcpTOs, hec |-> Concs, ka |-> TcpTOs, buf |-> Bufs, hist |-> Hists]
Dims == DOMAIN Dom
PoolDims    == {"idle", "maxidle", "cap"}
BuilderDims == {"pool", "rto", "redir"}
TcpDims     == {"ct", "het", "hec", "ka", "buf"}

\* the centre: an ordinary request through the Client as the driver has always built it, first request
Centre == [ver |-> "1.1", method |-> "GET", uri |-> "http", host |-> "name", stack |-> "client", transport |-> "plain",
           net |-> "mem", pool |-> "on", idle |-> "default", maxidle |-> "default", cap |-> "on", rto |-> "none",
           redir |-> "off", ct |-> "default", het |-> "default", hec |-> "default", ka |-> "default", buf |-> "none",
           hist |-> "first", da |-> FALSE]
Fields == DOMAIN Centre        \* Dims and "da"

HasPool(x)  == (x.stack = "client" /\ x.pool = "on") \/ x.stack = "pool"
Relevant(x, d) == CASE d \in PoolDims    -> HasPool(x)
                    [] d \in BuilderDims -> x.stack = "client"
                    [] d \in TcpDims     -> x.net = "tcp"
                    [] OTHER             -> TRUE
\* pin what cannot matter; give the URI form the host it needs (explicit record constructors: TLC is an order of
\* magnitude faster on records than on functions with a string domain)
Norm(x) == LET cl  == x.stack = "client"
               pl  == IF cl THEN x.pool ELSE Centre.pool
               hp  == (cl /\ pl = "on") \/ x.stack = "pool"
               tcp == x.net = "tcp"
           IN  [ver |-> x.ver, method |-> x.method, uri |-> x.uri,
                host |-> IF HasAuthority(x) THEN (IF x.host = "none" THEN "name" ELSE x.host) ELSE "none",
                stack |-> x.stack, transport |-> x.transport, net |-> x.net,
                pool |-> pl,
                idle |-> IF hp THEN x.idle ELSE Centre.idle,
                maxidle |-> IF hp THEN x.maxidle ELSE Centre.maxidle,
                cap |-> IF hp THEN x.cap ELSE Centre.cap,
                rto |-> IF cl THEN x.rto ELSE Centre.rto,
                redir |-> IF cl THEN x.redir ELSE Centre.redir,
                ct |-> IF tcp THEN x.ct ELSE Centre.ct,
                het |-> IF tcp THEN x.het ELSE Centre.het,
                hec |-> IF tcp THEN x.hec ELSE Centre.hec,
                ka |-> IF tcp THEN x.ka ELSE Centre.ka,
                buf |-> IF tcp THEN x.buf ELSE Centre.buf,
                hist |-> x.hist, da |-> x.da]
Ext(b) == [ver |-> b.ver, method |-> b.method, uri |-> b.uri, host |-> b.host, stack |-> b.stack,
           transport |-> b.transport, net |-> Centre.net, pool |-> Centre.pool, idle |-> Centre.idle,
           maxidle |-> Centre.maxidle, cap |-> Centre.cap, rto |-> Centre.rto, redir |-> Centre.redir, ct |-> Centre.ct,
           het |-> Centre.het, hec |-> Centre.hec, ka |-> Centre.ka, buf |-> Centre.buf, hist |-> Centre.hist, da |-> b.da]

IsVector(x) == /\ DOMAIN x = Fields
               /\ \A d \in Dims : x[d] \in Dom[d]
               /\ x.da \in BOOLEAN
               /\ Norm(x) = x
BaseOf(x) == [d \in {"ver", "method", "uri", "host", "stack", "transport", "da"} |-> x[d]]

\* position of the request and the state the previous requests left behind
Pos(x)      == IF x.hist = "first" THEN 1 ELSE IF x.hist \in PrevStates THEN 2 ELSE 3
LastPrev(x) == CASE x.hist = "first" -> "none"
                 [] x.hist \in PrevStates -> x.hist
                 [] OTHER -> CHOOSE b \in PrevStates : \E a \in PrevStates : x.hist = a \o "-" \o b

\* the base grammar as full vectors (every other dimension at the centre)
BaseFull == {x \in [ver : Vers, method : Methods, uri : UriForms, host : Hosts, stack : Stacks, transport : Transports,
                    net : {Centre.net}, pool : {Centre.pool}, idle : {Centre.idle}, maxidle : {Centre.maxidle},
                    cap : {Centre.cap}, rto : {Centre.rto}, redir : {Centre.redir}, ct : {Centre.ct}, het : {Centre.het},
                    hec : {Centre.hec}, ka : {Centre.ka}, buf : {Centre.buf}, hist : {Centre.hist}, da : BOOLEAN] :
               (x.host = "none") = ~HasAuthority(x)}

\* the set of vectors a configuration file checks / generates (MC_Pipeline overrides: base grammar plus the
\* configuration x history neighbourhoods and samples)
InitVectors == BaseFull

Init == /\ v \in InitVectors
        /\ asBuilt \in BOOLEAN
        /\ pc = "call"
        /\ conn = "none"
        /\ out = [classes |-> {}, stage |-> "none", reuse |-> "none"]

Finish(cs, st) == /\ out' = [classes |-> cs, stage |-> st, reuse |-> out.reuse]
                  /\ pc' = "done"
                  /\ UNCHANGED <<v, asBuilt, conn>>
Goto(p) == pc' = p /\ UNCHANGED <<v, asBuilt, conn, out>>

\* ---- ConnectionPoolService::connect_to: K::try_from(parts) -------------------------------------
PoolKeyMissingScheme ==          \* UriError::MissingScheme -> ResponseFuture::error
  /\ pc = "call" /\ Pooled(v) /\ ~HasScheme(v)
  /\ Finish({"err"}, "uri")
PoolKeyOk ==
  /\ pc = "call" /\ Pooled(v) /\ HasScheme(v)
  /\ Goto("version")
ConnectorCall ==                 \* ConnectorService::call: no key
  /\ pc = "call" /\ ~Pooled(v)
  /\ Goto("version")

\* ---- request_parts.version.into() --------------------------------------------------------------
Supported(x) == x.ver \in {"1.0", "1.1", "2"}
Legacy(x)    == x.ver = "0.9"      \* "HTTP/0.9 and HTTP/1.0 are supported by HTTP/1.1" (doc of HttpProtocol)
VersionOk ==
  /\ pc = "version" /\ Supported(v)
  /\ Goto("checkout")
VersionLegacyAsHttp1 ==          \* intended: either carried by an HTTP/1.1 connection as documented ...
  /\ pc = "version" /\ Legacy(v) /\ ~asBuilt
  /\ Goto("checkout")
VersionPanic ==                  \* _ => panic!("Unsupported HTTP protocol")
  /\ pc = "version" /\ ~Supported(v) /\ asBuilt
  /\ Finish({"panic"}, "version")
VersionError ==                  \* ... or refused with an error to the caller (HTTP/3 always)
  /\ pc = "version" /\ ~Supported(v) /\ ~asBuilt
  /\ Finish({"err"}, "version")

\* ---- Connector: transport.connect(parts) = TlsTransport::call -----------------------------------
TlsRoute(x) == TlsOn(x) /\ Secure(x)
NameConverts(x) == x.host \in {"name", "v4", "legal"} \/ (~asBuilt /\ x.host = "v6")
\* HttpProtocol::Http2 -> h2; Http1 -> h2 when ALPN negotiated h2 (client offers it only in `tlsalpn`), else h1
ConnVersion(x) == IF x.ver = "2" \/ (TlsRoute(x) /\ x.transport = "tlsalpn") THEN "h2" ELSE "h1"

\* ---- the request timeout of the Client (service::Timeout around everything below) -------------------------
\* TimeoutFuture polls the inner future first and then a tokio Sleep of the configured duration: Some(0) expires at
\* the first poll at which the inner future is pending, i.e. as soon as anything has to be awaited - under the
\* paused clock of the in-memory vectors; with a real clock (TCP vectors) the timer fires at the next turn of the
\* timer wheel and an answer from loopback can win. Some(MAX) and Some(30s) never expire against a peer that
\* answers. The synchronous refusals above (key, version) win the race.
RtoZero(x)   == x.stack = "client" /\ x.rto = "zero"
RtoPasses(x) == ~RtoZero(x) \/ x.net = "tcp"
ReqTimeoutZero ==
  /\ pc = "checkout" /\ RtoZero(v)
  /\ Finish({"err"}, "reqtimeout")

\* ---- Pool::checkout (only with a pool): a connection a previous request left behind, or a new one -----------
\* A connection can be waiting only if the pool keeps any (max_idle_per_host > 0), the last thing that happened
\* was not the peer closing every connection (a request still in flight at that moment fails or connects again,
\* and may then share its new connection), and the previous requests (same origin, same version) could get one.
NothingLeft(x) == x.hist \in {"closed", "idle-closed", "closed-closed"}
\* a request in flight may still be connecting: its connection is handed to whoever waits for it (a multiplexed
\* connection to every waiter) before the idle list and its limit are consulted
InFlightIn(x)  == \/ x.hist = "inflight"
                  \/ \E a, b \in PrevStates : x.hist = a \o "-" \o b /\ "inflight" \in {a, b}
MayReuse(x)  == /\ HasPool(x) /\ Pos(x) > 1 /\ (x.maxidle # "zero" \/ InFlightIn(x)) /\ ~NothingLeft(x)
                /\ (TlsRoute(x) => NameConverts(x))
\* ... and is found for certain when the previous request has completed, its connection is kept alive by the
\* protocol (HTTP/1.1 and HTTP/2), not yet expired (Some(1ns) has always expired; None, Some(0) and Some(MAX)
\* never do) and the TLS handshake to an unusual name did not fail
MustReuse(x) == /\ MayReuse(x) /\ LastPrev(x) = "idle" /\ x.maxidle # "zero" /\ x.idle # "tiny" /\ x.ver \in {"1.1", "2"}
                /\ x.host # "legal" /\ x.net = "mem"
CheckoutReuse ==
  /\ pc = "checkout" /\ RtoPasses(v) /\ MayReuse(v)
  /\ conn' = ConnVersion(v)
  /\ out' = [out EXCEPT !.reuse = "yes"]
  /\ pc' = IF Checks(v) THEN "sethost" ELSE "send"
  /\ UNCHANGED <<v, asBuilt>>
CheckoutDial ==                  \* also every stack without a pool
  /\ pc = "checkout" /\ RtoPasses(v) /\ ~MustReuse(v)
  /\ out' = [out EXCEPT !.reuse = "no"]
  /\ pc' = "dial"
  /\ UNCHANGED <<v, asBuilt, conn>>

\* ---- the transport below TLS: in memory, or TcpTransport::call -------------------------------------------------
\* get_host_and_port ("missing host", "missing port"), the resolver under connect_timeout, TcpConnecting::connect
\* (delay = happy_eyeballs_timeout / number of addresses, EyeballSet, one attempt per address under
\* connect_timeout): an error for a URI without host or port, an unresolvable name, Some(0) timeouts, a refused
\* connection - or a stream. Which one is below the abstraction (spelling of the port, the resolver's answer).
DialMem ==
  /\ pc = "dial" /\ v.net = "mem"
  /\ Goto("transport")
\* As built (D20): EyeballSet::process_all starts the first attempts with `for _ in 0..initial_concurrency`, so
\* happy_eyeballs_concurrency = Some(usize::MAX) ("no limit") spins 2^64 times inside one poll: the future never
\* returns and never yields ("stall"). Intended: at most as many iterations as there are candidates.
TcpSpins(x) == asBuilt /\ x.hec = "max"
DialTcp ==
  /\ pc = "dial" /\ v.net = "tcp"
  /\ \/ ~TcpSpins(v) /\ Goto("transport")
     \/ Finish({"err"}, "tcp")
     \/ TcpSpins(v) /\ Finish({"stall"}, "eyeballs")
ConnectPlain ==
  /\ pc = "transport" /\ ~TlsRoute(v)
  /\ Goto("protocol")
ConnectTlsNamePanic ==           \* TlsStream::new .expect("should be valid dns name")
  /\ pc = "transport" /\ TlsRoute(v) /\ ~NameConverts(v) /\ asBuilt
  /\ Finish({"panic"}, "tlsname")
ConnectTlsNameError ==
  /\ pc = "transport" /\ TlsRoute(v) /\ ~NameConverts(v) /\ ~asBuilt
  /\ Finish({"err"}, "tlsname")
\* the peer's certificate names the canonical spellings of name / v4 / v6; an unusual DNS name may or may not
\* be covered (letter case is, an underscore label is not)
ConnectTlsHandshake ==
  /\ pc = "transport" /\ TlsRoute(v) /\ NameConverts(v)
  /\ IF v.host = "legal"
       THEN \/ Goto("protocol")
            \/ Finish({"err"}, "tlshandshake")
       ELSE Goto("protocol")

\* ---- HttpConnectionBuilder::handshake: protocol of the connection ---------------------------------
ProtocolHandshake ==
  /\ pc = "protocol"
  /\ conn' = ConnVersion(v)
  /\ pc' = IF Checks(v) THEN "sethost" ELSE "send"
  /\ UNCHANGED <<v, asBuilt, out>>

\* ---- SetHostHeader: only for connections below HTTP/2, only with a host, only if absent -----------------
SetHost ==
  /\ pc = "sethost"
  /\ Goto("h2checks")

\* ---- check_http2_request --------------------------------------------------------------------------
H2ConnectRefused ==              \* Err(Error::InvalidMethod(CONNECT))
  /\ pc = "h2checks" /\ conn = "h2" /\ v.method = "CONNECT"
  /\ Finish({"err"}, "h2method")
H2ChecksPass ==
  /\ pc = "h2checks" /\ ~(conn = "h2" /\ v.method = "CONNECT")
  /\ Goto("h1checks")

\* ---- check_http1_request --------------------------------------------------------------------------
H1Skip ==
  /\ pc = "h1checks" /\ conn = "h2"
  /\ Goto("send")
H1ConnectAuthorityForm ==        \* authority_form (+ origin_form for https)
  /\ pc = "h1checks" /\ conn = "h1" /\ v.method = "CONNECT" /\ HasAuthority(v)
  /\ Goto("send")
H1ConnectNoAuthorityPanic ==     \* unreachable!("authority_form with relative uri")
  /\ pc = "h1checks" /\ conn = "h1" /\ v.method = "CONNECT" /\ ~HasAuthority(v) /\ asBuilt
  /\ Finish({"panic"}, "authority_form")
H1ConnectNoAuthorityError ==
  /\ pc = "h1checks" /\ conn = "h1" /\ v.method = "CONNECT" /\ ~HasAuthority(v) /\ ~asBuilt
  /\ Finish({"err"}, "authority_form")
H1OriginForm ==
  /\ pc = "h1checks" /\ conn = "h1" /\ v.method # "CONNECT" /\ HasScheme(v)
  /\ Goto("send")
H1AbsoluteFormAssert ==          \* debug_assert!(uri.scheme().is_some()) -- only with debug assertions
  /\ pc = "h1checks" /\ conn = "h1" /\ v.method # "CONNECT" /\ ~HasScheme(v) /\ asBuilt /\ v.da
  /\ Finish({"panic"}, "absolute_form")
H1AbsoluteFormPass ==
  /\ pc = "h1checks" /\ conn = "h1" /\ v.method # "CONNECT" /\ ~HasScheme(v) /\ ~(asBuilt /\ v.da)
  /\ Goto("send")

\* ---- HttpConnection::send_request -> hyper, peer = hyper server --------------------------------------
\* hyper's h2 client refuses a request URI with neither scheme nor authority (user error); everything else gets
\* an answer or an error from hyper or from the peer depending on details below the abstraction
H2Refuses(x) == ~HasAuthority(x)
Send ==
  /\ pc = "send"
  /\ Finish(IF conn = "h2" /\ H2Refuses(v) THEN {"err"} ELSE {"resp", "err"}, "send")

Next == \/ PoolKeyMissingScheme \/ PoolKeyOk \/ ConnectorCall
        \/ VersionOk \/ VersionLegacyAsHttp1 \/ VersionPanic \/ VersionError
        \/ ReqTimeoutZero \/ CheckoutReuse \/ CheckoutDial \/ DialMem \/ DialTcp
        \/ ConnectPlain \/ ConnectTlsNamePanic \/ ConnectTlsNameError \/ ConnectTlsHandshake
        \/ ProtocolHandshake \/ SetHost \/ H2ConnectRefused \/ H2ChecksPass
        \/ H1Skip \/ H1ConnectAuthorityForm \/ H1ConnectNoAuthorityPanic \/ H1ConnectNoAuthorityError
        \/ H1OriginForm \/ H1AbsoluteFormAssert \/ H1AbsoluteFormPass \/ Send

Spec == Init /\ [][Next]_vars

\* ---- the property ------------------------------------------------------------------------------------
\* over (vector x, observation o): o.panicked = some panic was raised, in the caller's task or in a task
\* spawned for the request; o.returned = the caller got a response or an error
P_NoPanic(x, o)  == ~o.panicked
P_Returns(x, o)  == o.returned
\* o.stuck = a poll of the request's future did not return (the executor thread is blocked: no timeout can fire, no
\* other task runs); the caller then gets neither a response nor an error, whatever the peer does
P_NoStall(x, o)  == ~o.stuck

Done    == pc = "done"
Claimed == Done /\ ~asBuilt
ModelObs == [panicked |-> "panic" \in out.classes, returned |-> out.classes \subseteq {"resp", "err"} /\ out.classes # {},
             stuck |-> "stall" \in out.classes]

M_NoPanic == Claimed => P_NoPanic(v, ModelObs)
M_Returns == Claimed => P_Returns(v, ModelObs)
M_NoStall == Claimed => P_NoStall(v, ModelObs)

AB == Done /\ asBuilt
AB_NoPanic == AB => P_NoPanic(v, ModelObs) /\ P_NoStall(v, ModelObs)

TypeOK == /\ IsVector(v) /\ asBuilt \in BOOLEAN /\ conn \in {"none", "h1", "h2"}
          /\ pc \in {"call", "version", "checkout", "dial", "transport", "protocol", "sethost", "h2checks", "h1checks",
                      "send", "done"}
          /\ out.classes \subseteq {"resp", "err", "panic", "stall"} /\ out.reuse \in {"none", "yes", "no"}
Progress == pc # "done" => ENABLED Next
=============================================================================
