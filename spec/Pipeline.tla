------------------------------ MODULE Pipeline ------------------------------
(***************************************************************************)
(* C17 -- no well-typed request value makes the client panic.               *)
(*                                                                         *)
(* A "vector spec": Init chooses one abstract request + stack + transport   *)
(* + build configuration; the actions are a transcription of the validation *)
(* pipeline a request passes on its way to the wire, as an outcome-class    *)
(* function:                                                               *)
(*   UriKey::try_from(&Parts)            src/client/pool/key.rs             *)
(*   HttpProtocol::from(http::Version)   src/client/conn/protocol/mod.rs    *)
(*   TlsTransport::call, TlsStream::new  src/client/conn/transport/mod.rs,  *)
(*                                       src/client/conn/stream/tls.rs      *)
(*   HttpConnectionBuilder::handshake    src/client/conn/protocol/auto.rs   *)
(*   set_host_header                     src/service/host.rs                *)
(*   check_http2_request, check_http1_request (authority_form,             *)
(*   absolute_form, origin_form)         src/service/http.rs                *)
(*   HttpConnection::send_request -> hyper                                 *)
(* `out.classes` is the set of outcome classes the stage reached allows     *)
(* ("resp", "err", "panic"); where hyper or the certificate decide and the  *)
(* abstract class does not determine the result, both "resp" and "err" are  *)
(* allowed.  The property: "panic" is never an outcome.                     *)
(*                                                                         *)
(* `asBuilt` (a variable fixed in Init, DESIGN 2.4) selects the            *)
(* transcription of the pinned tree where it deviates (DESIGN D6, D9):      *)
(*   - From<http::Version>: `_ => panic!("Unsupported HTTP protocol")` for  *)
(*     HTTP/0.9 and HTTP/3                                                 *)
(*   - TlsStream::new: `.expect("should be valid dns name")`                *)
(*   - authority_form: `unreachable!` for a CONNECT without authority       *)
(*   - absolute_form: debug assertions on scheme / authority (debug builds) *)
(***************************************************************************)
EXTENDS Naturals, FiniteSets, TLC

Vers       == {"0.9", "1.0", "1.1", "2", "3"}
Methods    == {"GET", "POST", "CONNECT", "OPTIONS", "ext"}
UriForms   == {"http", "https", "ws", "wss", "other", "origin", "authority", "asterisk"}
Hosts      == {"name", "v4", "v6", "legal", "odd", "none"}   \* legal: unusual, still a DNS name; odd: URI-legal only
Hdrs       == {"none", "host", "conn", "big"}
Bodies     == {"empty", "some"}
Stacks     == {"client", "pool", "nopool", "connector", "connectorBare"}
Transports == {"plain", "tls", "tlsalpn"}

VARIABLES v, asBuilt, pc, conn, out
vars == <<v, asBuilt, pc, conn, out>>

HasScheme(x)    == x.uri \in {"http", "https", "ws", "wss", "other"}
HasAuthority(x) == HasScheme(x) \/ x.uri = "authority"
Secure(x)       == x.uri \in {"https", "wss"}
TlsOn(x)        == x.transport \in {"tls", "tlsalpn"}
Pooled(x)       == x.stack \in {"client", "pool", "nopool"}
Checks(x)       == x.stack # "connectorBare"                \* SetHostHeader, Http2Checks, Http1Checks present

\* Header-set and body classes occur in no guard of the pipeline below (the code never branches on them before
\* the request is handed to hyper), so they are not part of the model-checking state: the generator crosses
\* Payloads onto every vector and the monitor checks the property on every (vector, payload) record.
Payloads == [hdr : Hdrs, body : Bodies]

Vectors == {x \in [ver : Vers, method : Methods, uri : UriForms, host : Hosts,
                   stack : Stacks, transport : Transports, da : BOOLEAN] :
              (x.host = "none") = ~HasAuthority(x)}

Init == /\ v \in Vectors
        /\ asBuilt \in BOOLEAN
        /\ pc = "call"
        /\ conn = "none"
        /\ out = [classes |-> {}, stage |-> "none"]

Finish(cs, st) == /\ out' = [classes |-> cs, stage |-> st]
                  /\ pc' = "done"
                  /\ UNCHANGED <<v, asBuilt, conn>>
Goto(p) == pc' = p /\ UNCHANGED <<v, asBuilt, conn, out>>

\* ---- ConnectionPoolService::connect_to: K::try_from(parts) -------------------------------------
PoolKeyMissingScheme ==          \* UriError::MissingScheme -> ResponseFuture::error
  /\ pc = "call" /\ Pooled(v) /\ ~HasScheme(v)
  /\ Finish({"err"}, "uri")
PoolKeyOk ==
  /\ pc = "call" /\ Pooled(v) /\ HasScheme(v)
  /\ Goto("version")
ConnectorCall ==                 \* ConnectorService::call: no key
  /\ pc = "call" /\ ~Pooled(v)
  /\ Goto("version")

\* ---- request_parts.version.into() --------------------------------------------------------------
Supported(x) == x.ver \in {"1.0", "1.1", "2"}
Legacy(x)    == x.ver = "0.9"      \* "HTTP/0.9 and HTTP/1.0 are supported by HTTP/1.1" (doc of HttpProtocol)
VersionOk ==
  /\ pc = "version" /\ Supported(v)
  /\ Goto("transport")
VersionLegacyAsHttp1 ==          \* intended: either carried by an HTTP/1.1 connection as documented ...
  /\ pc = "version" /\ Legacy(v) /\ ~asBuilt
  /\ Goto("transport")
VersionPanic ==                  \* _ => panic!("Unsupported HTTP protocol")
  /\ pc = "version" /\ ~Supported(v) /\ asBuilt
  /\ Finish({"panic"}, "version")
VersionError ==                  \* ... or refused with an error to the caller (HTTP/3 always)
  /\ pc = "version" /\ ~Supported(v) /\ ~asBuilt
  /\ Finish({"err"}, "version")

\* ---- Connector: transport.connect(parts) = TlsTransport::call -----------------------------------
TlsRoute(x) == TlsOn(x) /\ Secure(x)
NameConverts(x) == x.host \in {"name", "v4", "legal"} \/ (~asBuilt /\ x.host = "v6")
ConnectPlain ==
  /\ pc = "transport" /\ ~TlsRoute(v)
  /\ Goto("protocol")
ConnectTlsNamePanic ==           \* TlsStream::new .expect("should be valid dns name")
  /\ pc = "transport" /\ TlsRoute(v) /\ ~NameConverts(v) /\ asBuilt
  /\ Finish({"panic"}, "tlsname")
ConnectTlsNameError ==
  /\ pc = "transport" /\ TlsRoute(v) /\ ~NameConverts(v) /\ ~asBuilt
  /\ Finish({"err"}, "tlsname")
\* the peer's certificate names the canonical spellings of name / v4 / v6; an unusual DNS name may or may not
\* be covered (letter case is, an underscore label is not)
ConnectTlsHandshake ==
  /\ pc = "transport" /\ TlsRoute(v) /\ NameConverts(v)
  /\ IF v.host = "legal"
       THEN \/ Goto("protocol")
            \/ Finish({"err"}, "tlshandshake")
       ELSE Goto("protocol")

\* ---- HttpConnectionBuilder::handshake: protocol of the connection ---------------------------------
\* HttpProtocol::Http2 -> h2; Http1 -> h2 when ALPN negotiated h2 (client offers it only in `tlsalpn`), else h1
ConnVersion(x) == IF x.ver = "2" \/ (TlsRoute(x) /\ x.transport = "tlsalpn") THEN "h2" ELSE "h1"
ProtocolHandshake ==
  /\ pc = "protocol"
  /\ conn' = ConnVersion(v)
  /\ pc' = IF Checks(v) THEN "sethost" ELSE "send"
  /\ UNCHANGED <<v, asBuilt, out>>

\* ---- SetHostHeader: only for connections below HTTP/2, only with a host, only if absent -----------------
SetHost ==
  /\ pc = "sethost"
  /\ Goto("h2checks")

\* ---- check_http2_request --------------------------------------------------------------------------
H2ConnectRefused ==              \* Err(Error::InvalidMethod(CONNECT))
  /\ pc = "h2checks" /\ conn = "h2" /\ v.method = "CONNECT"
  /\ Finish({"err"}, "h2method")
H2ChecksPass ==
  /\ pc = "h2checks" /\ ~(conn = "h2" /\ v.method = "CONNECT")
  /\ Goto("h1checks")

\* ---- check_http1_request --------------------------------------------------------------------------
H1Skip ==
  /\ pc = "h1checks" /\ conn = "h2"
  /\ Goto("send")
H1ConnectAuthorityForm ==        \* authority_form (+ origin_form for https)
  /\ pc = "h1checks" /\ conn = "h1" /\ v.method = "CONNECT" /\ HasAuthority(v)
  /\ Goto("send")
H1ConnectNoAuthorityPanic ==     \* unreachable!("authority_form with relative uri")
  /\ pc = "h1checks" /\ conn = "h1" /\ v.method = "CONNECT" /\ ~HasAuthority(v) /\ asBuilt
  /\ Finish({"panic"}, "authority_form")
H1ConnectNoAuthorityError ==
  /\ pc = "h1checks" /\ conn = "h1" /\ v.method = "CONNECT" /\ ~HasAuthority(v) /\ ~asBuilt
  /\ Finish({"err"}, "authority_form")
H1OriginForm ==
  /\ pc = "h1checks" /\ conn = "h1" /\ v.method # "CONNECT" /\ HasScheme(v)
  /\ Goto("send")
H1AbsoluteFormAssert ==          \* debug_assert!(uri.scheme().is_some()) -- only with debug assertions
  /\ pc = "h1checks" /\ conn = "h1" /\ v.method # "CONNECT" /\ ~HasScheme(v) /\ asBuilt /\ v.da
  /\ Finish({"panic"}, "absolute_form")
H1AbsoluteFormPass ==
  /\ pc = "h1checks" /\ conn = "h1" /\ v.method # "CONNECT" /\ ~HasScheme(v) /\ ~(asBuilt /\ v.da)
  /\ Goto("send")

\* ---- HttpConnection::send_request -> hyper, peer = hyper server --------------------------------------
\* hyper's h2 client refuses a request URI with neither scheme nor authority (user error); everything else gets
\* an answer or an error from hyper or from the peer depending on details below the abstraction
H2Refuses(x) == ~HasAuthority(x)
Send ==
  /\ pc = "send"
  /\ Finish(IF conn = "h2" /\ H2Refuses(v) THEN {"err"} ELSE {"resp", "err"}, "send")

Next == \/ PoolKeyMissingScheme \/ PoolKeyOk \/ ConnectorCall
        \/ VersionOk \/ VersionLegacyAsHttp1 \/ VersionPanic \/ VersionError
        \/ ConnectPlain \/ ConnectTlsNamePanic \/ ConnectTlsNameError \/ ConnectTlsHandshake
        \/ ProtocolHandshake \/ SetHost \/ H2ConnectRefused \/ H2ChecksPass
        \/ H1Skip \/ H1ConnectAuthorityForm \/ H1ConnectNoAuthorityPanic \/ H1ConnectNoAuthorityError
        \/ H1OriginForm \/ H1AbsoluteFormAssert \/ H1AbsoluteFormPass \/ Send

Spec == Init /\ [][Next]_vars

\* ---- the property ------------------------------------------------------------------------------------
\* over (vector x, observation o): o.panicked = some panic was raised, in the caller's task or in a task
\* spawned for the request; o.returned = the caller got a response or an error
P_NoPanic(x, o)  == ~o.panicked
P_Returns(x, o)  == o.returned

Done    == pc = "done"
Claimed == Done /\ ~asBuilt
ModelObs == [panicked |-> "panic" \in out.classes, returned |-> out.classes \subseteq {"resp", "err"} /\ out.classes # {}]

M_NoPanic == Claimed => P_NoPanic(v, ModelObs)
M_Returns == Claimed => P_Returns(v, ModelObs)

AB == Done /\ asBuilt
AB_NoPanic == AB => P_NoPanic(v, ModelObs)

TypeOK == /\ v \in Vectors /\ asBuilt \in BOOLEAN /\ conn \in {"none", "h1", "h2"}
          /\ pc \in {"call", "version", "transport", "protocol", "sethost", "h2checks", "h1checks", "send", "done"}
          /\ out.classes \subseteq {"resp", "err", "panic"}
Progress == pc # "done" => ENABLED Next
=============================================================================
