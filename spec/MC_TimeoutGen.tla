--------------------------- MODULE MC_TimeoutGen ---------------------------
(* Generation instance of Timeout.tla.  `hist` records every completed step (one TimeoutFuture::poll  *)
(* = one entry) with the observable state after it; Emit prints a finished behaviour as one JSON line *)
(* for harness/src/bin/timeout.rs replay.                                                             *)
EXTENDS Timeout, Json

CONSTANTS GenDepth

VARIABLE hist

NoFaults == {}
CloseOnly == {"close"}
ConnectOnly == {"connect"}
SomeFaults == {"connect", "handshake", "close"}
DialFaults == {"connect", "handshake"}
NoT == {}
TimerFirst == {"TimerFirst"}
LazyTimer == {"LazyTimer"}
KeepInner == {"KeepInner"}
ZeroNoTimeout == {"ZeroNoTimeout"}
NoArm == {"NoArm"}
D2 == {"D2"}
D4 == {"D4"}
Durs013 == {0, 1, 3}
Durs01 == {0, 1}
Durs1 == {1}
Durs13 == {1, 3}

InitH == TInit /\ hist = <<>>
NextH == /\ TNext
         /\ hist' = IF pc' = Idle
                    THEN Append(hist, [ev |-> tev', obs |-> TObs'])
                    ELSE hist

Beh == [cfg |-> [cap |-> cfg.cap, maxIdle |-> cfg.maxIdle, idleTimeout |-> cfg.it, dur |-> dur, probe |-> Probe], steps |-> hist]
Emit == (pc = Idle /\ (Len(hist) = GenDepth \/ (Len(hist) > 0 /\ Len(hist) < GenDepth /\ ~ENABLED TNext))) => PrintT(<<"REPLAY", ToJson(Beh)>>)
StopAtDepth == Len(hist) <= GenDepth
=============================================================================
