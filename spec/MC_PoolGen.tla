------------------------------ MODULE MC_PoolGen ---------------------------
(* Model-checking / generation instance of Pool.tla.  `hist` records every step with the *)
(* observable state after it; Emit prints a finished behaviour as one JSON line.           *)
EXTENDS Pool, Json

CONSTANTS GenDepth,     \* behaviours are printed when they reach this length (or cannot continue)
          MaxCancel     \* bound on Cancel steps per generated behaviour

VARIABLE hist

AllD == {"D1", "D2", "D3", "D4", "D5", "D11", "D13", "D17"}
NoFaults == {}
AllFaults == {"connect", "handshake", "close", "upgrade"}
SomeFaults == {"connect", "handshake", "close"}
CloseOnly == {"close"}

InitH == Init /\ hist = <<>>
NCancel == Len(SelectSeq(hist, LAMBDA h : h.ev.e = "Cancel"))
NextH == /\ Next
         /\ (ev'.e = "Cancel" => NCancel < MaxCancel)
         /\ hist' = Append(hist, [ev |-> ev', obs |-> Obs'])
Beh == [cfg |-> [cap |-> cfg.cap, maxIdle |-> cfg.maxIdle, idleTimeout |-> cfg.it, noPool |-> cfg.nopool], steps |-> hist]
Emit == (Len(hist) >= GenDepth \/ (Len(hist) > 0 /\ ~ENABLED Next)) => PrintT(<<"REPLAY", ToJson(Beh)>>)
StopAtDepth == Len(hist) <= GenDepth
=============================================================================
