INIT ObsInit
NEXT ObsNext
INVARIANT WellFormed
INVARIANT C12_NoClear
INVARIANT C12_Established
INVARIANT C12_Name
INVARIANT C12_FailIsError
INVARIANT C12_OtherNotWrapped
INVARIANT C12_Outcome
INVARIANT C12_PoolClass
POSTCONDITION Consumed
CHECK_DEADLOCK FALSE
CONSTANT KeyMergesWsIntoHttp = FALSE
CONSTANT SetterDropsTls = FALSE
