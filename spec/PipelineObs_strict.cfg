INIT ObsInit
NEXT ObsNext
INVARIANT WellFormed
INVARIANT C17_NoPanic
POSTCONDITION Consumed
CHECK_DEADLOCK FALSE
