INIT ObsInit
NEXT ObsNext
INVARIANT WellFormed
INVARIANT C17_NoPanic
INVARIANT C17_NoStall
POSTCONDITION Consumed
CHECK_DEADLOCK FALSE
