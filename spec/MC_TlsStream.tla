---------------------------- MODULE MC_TlsStream ----------------------------
(* Model-checking / generation instance of TlsStream.tla: constants, VIEW, JSON printing. *)
EXTENDS TlsStream, Json, IOUtils, TLC

MCSides     == {"server", "client"}
MCCerts     == {"ok", "bad"}
MCCertsOk   == {"ok"}
MCReadCaps  == {1, 2}
MCWriteLens == {1, 2}
MCSendLens  == {1, 2}
MCReadCapsW == {0, 1, 2, 8}
MCWriteLensW == {0, 1, 3}

(* pure model checking: the history is not part of the state *)
MCView == <<s, last>>

(* vacuity guard without -coverage (TLC's coverage pre-pass does not terminate on this module: the semantic graph walk
   is exponential in the nesting of operator applications): one line per distinct state naming the action that
   produced it, its result and the wrapper state it was called in; the check counts them per action *)
CovPrint == PrintT(<<"COV", last.op \o "/" \o last.res \o "/" \o last.pre>>)

(* generation: one JSON line per complete behaviour (every behaviour can be extended to MaxOps steps:
   Flush, Shutdown and FinishHandshake are always enabled) *)
Done     == s.ops = MaxOps
GenPrint == Done => PrintT(<<"SEQ", ToJson([side |-> s.side, cert |-> s.cert, ops |-> hist])>>)

(* simulated generation: uniform simulation mostly injects a fault in the first steps; only behaviours that reached
   a corner are printed.  GenPrintCorner (full Next): late failures, record errors, transport loss on an established
   stream, "handshake over at the TLS level but the final flush is blocked".  GenPrintHappy (SpecHappy: no fault
   actions): data in both directions, close_notify, shutdown, backpressure. *)
Line == ToJson([side |-> s.side, cert |-> s.cert, ops |-> hist])
CornerFault == \/ s.failed /\ (s.pph \notin {"p0", "wCH"} \/ s.garb)
               \/ s.rerr
               \/ s.closed # "open" /\ s.st = "str"
               \/ s.st = "hs" /\ s.ph = "up"
CornerHappy == s.st = "str" /\ s.W > 0 /\ Len(s.pgot) > 0 /\ (s.R > 0 \/ s.gotCN \/ s.wshut)
GenPrintCorner == (Done /\ CornerFault) => PrintT(<<"SEQ", Line>>)
\* accepted bytes sat in the TLS session behind a blocked transport at some point and a flush was attempted
CornerBuffered == s.st = "str" /\ s.W > 0 /\ \E i \in 1..Len(hist) : hist[i].op = "WBlock" /\ \E j \in (i + 1)..Len(hist) :
                     hist[j].op = "Write" /\ hist[j].a > 0 /\ \E m \in (j + 1)..Len(hist) : hist[m].op = "Flush"
GenPrintHappy  == (Done /\ (CornerHappy \/ CornerBuffered)) => PrintT(<<"SEQ", Line>>)
NextHappy == \/ Read \/ Write \/ Flush \/ Shutdown \/ FinishHandshake \/ Recv
             \/ Pump \/ Pump \/ PSend \/ PClose \/ WBlock \/ WUnblock
SpecHappy == Init /\ [][NextHappy]_vars
=============================================================================
