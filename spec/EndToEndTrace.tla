---------------------------- MODULE EndToEndTrace ----------------------------
(***************************************************************************)
(* C01 property monitor over ndjson traces recorded from the REAL          *)
(* hyperdriver client and server (harness bin `e2e`).                      *)
(*                                                                         *)
(* The trace file is a concatenation of runs: Reset, events, EndRun.       *)
(* Every run is walked from its Reset record (one initial state per run),  *)
(* so a counterexample is never longer than one run.  The only state kept  *)
(* is what the formulas of EndToEndProps need to be JOINED across events:  *)
(*   issued  : request -> origin it was addressed to (from Issue)          *)
(*   excused : requests that were sent on a connection the test            *)
(*             environment broke (from Send.broken)                        *)
(*   open    : issued requests that have no terminal event yet             *)
(* No cross-thread order is used: the harness writes the events of one     *)
(* request in that request's own program order (Issue, Send*, terminal),   *)
(* Handle events are self-contained.                                       *)
(*                                                                         *)
(* The INVARIANTs are the operators of EndToEndProps -- the same ones that *)
(* are checked on the model EndToEnd.tla.  Run with -continue: each        *)
(* violating record is reported by a BAD line and by TLC's error report.   *)
(* WellFormed is tool sanity (a malformed trace is a harness bug, exit 2). *)
(***************************************************************************)
EXTENDS Naturals, Sequences, FiniteSets, TLC, Json, IOUtils, EndToEndProps

Rec == ndJsonDeserialize(IOEnv.TRACE)
N == Len(Rec)

VARIABLES i, issued, excused, open
vars == <<i, issued, excused, open>>

ev == Rec[i]
Empty == [x \in {} |-> 0]
Terminals == {"Response", "Error", "Cancel", "Stuck"}

Init == /\ i \in {k \in 1..N : Rec[k].e = "Reset"}
        /\ issued = Empty
        /\ excused = {}
        /\ open = {}

Step(e) ==
    CASE e.e = "Issue" ->
            /\ issued' = [r \in DOMAIN issued \cup {e.r} |-> IF r = e.r THEN e.origin ELSE issued[r]]
            /\ open' = open \cup {e.r}
            /\ UNCHANGED excused
      [] e.e = "Send" ->
            /\ excused' = IF e.broken THEN excused \cup {e.r} ELSE excused
            /\ UNCHANGED <<issued, open>>
      [] e.e \in Terminals ->
            /\ open' = open \ {e.r}
            /\ UNCHANGED <<issued, excused>>
      [] OTHER -> UNCHANGED <<issued, excused, open>>

Next == /\ i < N
        /\ Rec[i + 1].e # "Reset"
        /\ i' = i + 1
        /\ Step(Rec[i + 1])

-----------------------------------------------------------------------------
(* tool sanity: the record can be interpreted (evaluated in the state AFTER consuming it) *)
WellFormedEv ==
    CASE ev.e = "Reset" -> TRUE
      [] ev.e = "Issue" -> ev.r \in DOMAIN issued /\ ev.ver \in {"h1", "h2"}
      [] ev.e = "Send" -> ev.r \in open /\ ev.ver \in {"h1", "h2"}
      [] ev.e \in Terminals -> ev.r \in DOMAIN issued
      [] ev.e = "Handle" -> TRUE
      [] ev.e = "Dial" -> ev.r \in DOMAIN issued      \* informative (transport dial of a request)
      [] ev.e = "EndRun" -> open = {} /\ Cardinality(DOMAIN issued) = ev.issued
      [] OTHER -> FALSE

Report(name, ok) == ok \/ ~PrintT(<<"BAD", ToJson([inv |-> name, i |-> i])>>)

WellFormed == Report("WellFormed", WellFormedEv)

(* THE PROPERTY: the formulas of EndToEndProps on every recorded event *)
Matched            == Report("Matched", WellFormedEv => PMatched(ev, issued))
ResponseIntact     == Report("ResponseIntact", WellFormedEv => PResponseIntact(ev))
RequestIntact      == Report("RequestIntact", WellFormedEv => PRequestIntact(ev, issued))
H1Exclusive        == Report("H1Exclusive", WellFormedEv => PH1Exclusive(ev))
NoSendAfterUpgrade == Report("NoSendAfterUpgrade", WellFormedEv => PNoSendAfterUpgrade(ev))
NoCrossOrigin      == Report("NoCrossOrigin", WellFormedEv => PNoCrossOrigin(ev, issued))
NoSpuriousFailure  == Report("NoSpuriousFailure", WellFormedEv => PNoSpuriousFailure(ev, excused))

\* every record was visited exactly once
Consumed == PrintT(<<"CONSUMED", TLCGet("stats").distinct, N>>) /\ TLCGet("stats").distinct = N
Alias == [i |-> i]
=============================================================================
