SPECIFICATION Spec
CONSTANTS
  NConn = 2
  MaxReq = 1
  MaxReq2 = 1
  Protos <- H1Only
  TlsModes <- OnlyFalse
  MakeModes <- OnlyFalse
  MaxFaults = 1
  AsBuiltD8 = FALSE
  SigOnMake <- SigFirst
  Hoisted = TRUE
  GenMode = FALSE
  GenLen = 0
PROPERTIES C07_NoAcceptAfterSignal
