------------------------------- MODULE Sniff -------------------------------
(***************************************************************************)
(* C08: protocol detection on the auto-detecting server is independent of  *)
(* how the client's bytes are fragmented, and the protocol handler sees    *)
(* exactly the client's bytes.                                             *)
(*                                                                         *)
(* Code modelled (hyperdriver):                                            *)
(*   src/server/conn/auto.rs   ReadVersion::poll  (24-byte sniff buffer,   *)
(*                             `filled`, `version`, `cancelled`),          *)
(*                             UpgradableConnection::poll (hands the       *)
(*                             Rewind to hyper's http1 / http2 connection) *)
(*   src/rewind.rs             Rewind::poll_read (replays the sniffed      *)
(*                             prefix, then delegates to the inner stream) *)
(*                                                                         *)
(* The client stream is abstracted to                                      *)
(*   m    length of its longest common prefix with the 24-byte HTTP/2      *)
(*        preface "PRI * HTTP/2.0\r\n\r\nSM\r\n\r\n",                      *)
(*   len  number of its bytes inside the 32-byte window,                   *)
(*   eof  TRUE: the stream ends after len bytes; FALSE: len = Window and   *)
(*        more bytes follow (they are one opaque token `Rest`).            *)
(* Bytes are identified by their position 1..len.  The chunking (read      *)
(* sizes, Pending in between) is chosen by the environment step by step,   *)
(* so one TLC run covers every chunking with at most MaxCuts cuts and the  *)
(* one-byte-at-a-time chunking.                                            *)
(***************************************************************************)
EXTENDS Naturals, Sequences, FiniteSets, TLC

CONSTANTS
    AsBuiltCompare,  \* TRUE: the comparison as written in the pinned tree (defect D7)
    MaxCuts,         \* bound on the number of cuts inside the window (the all-ones mode is exempt)
    Caps,            \* buffer capacities the protocol handler offers when it reads
    Window           \* 32: fragmentation beyond it is irrelevant to the sniffer

PLen == 24
Preface == <<80,82,73,32,42,32,72,84,84,80,47,50,46,48,13,10,13,10,83,77,13,10,13,10>>
Rest == Window + 1          \* the token standing for every byte after the window
PendMark == 1000            \* in `hist` and in recorded IO scripts: the IO answered Pending
RestMark == 2000            \* in `hist`: the opaque rest was delivered

Min(a, b) == IF a <= b THEN a ELSE b

(* longest common prefix of a byte sequence with the preface *)
Lcp(s) == LET n == Min(Len(s), PLen)
          IN  CHOOSE k \in 0..n :
                  /\ \A i \in 1..k : s[i] = Preface[i]
                  /\ (k = n \/ s[k+1] # Preface[k+1])
ASSUME Lcp(Preface) = PLen /\ Lcp(<<80, 82, 88>>) = 2 /\ Lcp(<<>>) = 0 /\ Lcp(<<71, 69, 84>>) = 0

Ids(a, b) == [i \in 1..(IF b >= a THEN b - a + 1 ELSE 0) |-> a + i - 1]   \* <<a, a+1, .., b>>
IsPrefix(s, t) == Len(s) <= Len(t) /\ \A i \in 1..Len(s) : s[i] = t[i]

(* A single-protocol server is a function of the protocol it speaks and the bytes it receives. *)
Respond(proto, bytes) == <<proto, bytes>>
ProtoOf(mm) == IF mm >= PLen THEN "h2" ELSE "h1"

-----------------------------------------------------------------------------
(* The C08 formulas, over plain values. Sniff.tla applies them to the model *)
(* state, SniffObs.tla to observations recorded from the real crate.        *)

DecisionOK(mm, proto) == (proto = "h2") <=> (mm >= PLen)   \* served as HTTP/2 exactly when the stream begins with the preface
BytesOK(snt, sw)      == sw = snt                          \* the handler saw the client's bytes: none lost, duplicated, reordered
AnswerOK(ans, rf)     == ans \in rf                        \* answered as by the single-protocol server on the same bytes
                                                           \* (rf: the set of answers that server gives to these bytes; on the
                                                           \* real side hyper's own answer to some malformed streams depends
                                                           \* on how they are fragmented, so it is a set)

-----------------------------------------------------------------------------
VARIABLES
    m, len, eof, ones,        \* the input: stream class; ones = the one-byte-at-a-time chunking
    sent,                     \* what the client sends (ids), fixed in Init
    ref,                      \* the single-protocol server's answer(s) to `sent` (a set), fixed in Init
    arrived, chunkLeft, cuts, \* IO: bytes handed to a reader so far, rest of the chunk in flight, cuts so far
    pendOk,                   \* the IO may answer Pending now (at most one Pending between two deliveries)
    pc,                       \* "sniff" | "serve" | "done" | "cancelled"
    susp, cancelled,          \* ReadVersion is suspended (returned Pending / not polled yet); cancel() was called
    filled, version,          \* ReadVersion.filled, ReadVersion.version
    prefix, rpos,             \* Rewind: length of the buffered prefix, how much of it has been replayed
    saw,                      \* ids the protocol handler has read so far, in order
    answer,                   \* what the client is answered (set when the handler has the whole stream)
    hist                      \* history of IO answers (chunk sizes, "P"); hidden by VIEW when model checking

ioVars   == <<arrived, chunkLeft, cuts, pendOk>>
inVars   == <<m, len, eof, ones, sent, ref>>
vars     == <<m, len, eof, ones, sent, ref, arrived, chunkLeft, cuts, pendOk, pc, susp, cancelled,
              filled, version, prefix, rpos, saw, answer, hist>>
decided == pc \in {"serve", "done"}

(* VIEW for model checking. hist is a history variable. sent and ref are functions of (m >= PLen, len, eof). *)
(* Once the protocol is decided nothing reads m except through m >= PLen (handler actions do not mention  *)
(* it, the invariants use ProtoOf(m) only), so states that differ only in m are merged after the decision. *)
viewVars == <<IF decided THEN PLen + (IF m >= PLen THEN 2 ELSE 1) ELSE m, len, eof, ones,
              arrived, chunkLeft, cuts, pendOk, pc, susp, cancelled,
              filled, version, prefix, rpos, saw, answer>>

TypeOK ==
    /\ m \in 0..PLen /\ len \in m..Window /\ eof \in BOOLEAN /\ ones \in BOOLEAN
    /\ (~eof => len = Window)
    /\ arrived \in 0..len /\ chunkLeft \in 0..Window /\ arrived + chunkLeft <= len
    /\ cuts \in 0..Window /\ pendOk \in BOOLEAN
    /\ pc \in {"sniff", "serve", "done", "cancelled"}
    /\ susp \in BOOLEAN /\ cancelled \in BOOLEAN
    /\ filled \in 0..PLen /\ version \in {"h1", "h2"}
    /\ prefix \in 0..PLen /\ rpos \in 0..prefix

Init ==
    /\ m \in 0..PLen
    /\ eof \in BOOLEAN
    /\ len \in (IF eof THEN m..Window ELSE {Window})
    /\ ones \in BOOLEAN
    /\ sent = Ids(1, len) \o (IF eof THEN <<>> ELSE <<Rest>>)
    /\ ref = {Respond(ProtoOf(m), sent)}
    /\ arrived = 0 /\ chunkLeft = 0 /\ cuts = 0 /\ pendOk = TRUE
    /\ pc = "sniff" /\ susp = TRUE /\ cancelled = FALSE
    /\ filled = 0 /\ version = "h2"          \* ReadVersion::new: version starts as Http2
    /\ prefix = 0 /\ rpos = 0
    /\ saw = <<>> /\ answer = <<>>
    /\ hist = <<>>

-----------------------------------------------------------------------------
(* The scripted IO. A read offering `cap` bytes is answered with n bytes:   *)
(* the rest of the chunk in flight, or a new chunk of any size, or n = 0    *)
(* at the end of an eof stream. Pending is a separate action.               *)
(* IoAnswers(cap): the possible answers [n, left, cuts, h] (bytes delivered, *)
(* rest of the chunk, cuts so far, what is appended to hist).               *)

CutsAfter(k) == IF arrived + k < len THEN cuts + 1 ELSE cuts   \* a chunk ending inside the window is a cut
IoAnswers(cap) ==
    IF chunkLeft > 0                                           \* rest of the chunk in flight
    THEN {[n |-> Min(chunkLeft, cap), left |-> chunkLeft - Min(chunkLeft, cap), cuts |-> cuts, h |-> <<>>]}
    ELSE IF arrived < len                                      \* a new chunk of k bytes arrives
    THEN {[n |-> Min(k, cap), left |-> k - Min(k, cap), cuts |-> CutsAfter(k), h |-> <<k>>] :
             k \in {j \in 1..(len - arrived) : IF ones THEN j = 1 ELSE CutsAfter(j) <= MaxCuts}}
    ELSE IF eof THEN {[n |-> 0, left |-> 0, cuts |-> cuts, h |-> <<0>>]}   \* end of stream
    ELSE {}                                                    \* only the opaque rest is left (HReadRest)

IoDeliver(a) ==
    /\ arrived' = arrived + a.n
    /\ chunkLeft' = a.left
    /\ cuts' = a.cuts
    /\ hist' = hist \o a.h
    /\ pendOk' = TRUE

IoPending ==
    /\ pendOk
    /\ ~(chunkLeft = 0 /\ arrived = len /\ ~eof)   \* not while only the opaque rest is left
    /\ pendOk' = FALSE
    /\ hist' = Append(hist, PendMark)
    /\ UNCHANGED <<arrived, chunkLeft, cuts>>

-----------------------------------------------------------------------------
(* ReadVersion::poll.  One action = one iteration of its `while` loop       *)
(* (one poll_read of the underlying IO into the unfilled part of the 24     *)
(* byte buffer, the comparison, the decision).                              *)

(* `buf.filled()[len..] != HTTP2_PREFIX[len..]` : the newly read bytes are positions f+1..f+n of a stream *)
(* whose first mm bytes are the preface's.                                                              *)
MatchesAt(f, n, mm) ==
    IF AsBuiltCompare
    THEN f + n = PLen /\ f + n <= mm     \* as built: compared with the WHOLE remaining preface: slices of different
                                         \* length are unequal unless this read completes the 24 bytes
    ELSE f + n <= mm                     \* intended: compared with the corresponding preface bytes
Matches(n) == MatchesAt(filled, n, m)

Decide(v, f) ==                                   \* Rewind::new(io, buf.filled()); hand over to hyper
    /\ pc' = "serve" /\ version' = v /\ prefix' = f /\ rpos' = 0

SniffRead ==
    /\ pc = "sniff" /\ ~(susp /\ cancelled)
    /\ \E a \in IoAnswers(PLen - filled) :
          /\ IoDeliver(a)
          /\ filled' = filled + a.n
          /\ IF a.n = 0 \/ ~Matches(a.n)
             THEN Decide("h1", filled + a.n)                     \* EOF or mismatch: HTTP/1
             ELSE IF filled + a.n = PLen
                  THEN Decide(version, PLen)                     \* the whole preface: version is still Http2
                  ELSE UNCHANGED <<pc, version, prefix, rpos>>   \* keep reading
    /\ susp' = FALSE
    /\ UNCHANGED <<inVars, cancelled, saw, answer>>

SniffPending ==                                   \* poll_read returned Pending: ReadVersion returns Pending
    /\ pc = "sniff" /\ ~(susp /\ cancelled)
    /\ IoPending
    /\ susp' = TRUE
    /\ UNCHANGED <<inVars, pc, cancelled, filled, version, prefix, rpos, saw, answer>>

Cancel ==                                         \* graceful_shutdown while in the ReadVersion state
    /\ pc = "sniff" /\ susp /\ ~cancelled
    /\ cancelled' = TRUE
    /\ UNCHANGED <<inVars, ioVars, pc, susp, filled, version, prefix, rpos, saw, answer, hist>>

SniffCancelled ==                                 \* next poll: Err(Interrupted); no protocol is ever served
    /\ pc = "sniff" /\ susp /\ cancelled
    /\ pc' = "cancelled"
    /\ UNCHANGED <<inVars, ioVars, susp, cancelled, filled, version, prefix, rpos, saw, answer, hist>>

(* The same loop as a function of the scripted IO answers `items` (chunk sizes, 0 = end of stream,        *)
(* PendMark = Pending): the decision and the capacity offered at every poll_read. Used to compare the     *)
(* recorded reads of the real sniffer with the model (conformance, SniffObs.tla); FnAgrees ties it to     *)
(* the automaton.                                                                                        *)
RECURSIVE SniffFn(_, _, _, _)
SniffFn(mm, items, f, acc) ==
    IF f = PLen THEN [proto |-> "h2", filled |-> f, caps |-> acc]
    ELSE IF items = <<>> THEN [proto |-> "?", filled |-> f, caps |-> acc]       \* script exhausted: still sniffing
    ELSE LET x == Head(items)  cap == PLen - f IN
         IF x = PendMark THEN SniffFn(mm, Tail(items), f, Append(acc, cap))
         ELSE LET n == Min(x, cap) IN
              IF n = 0 \/ ~MatchesAt(f, n, mm)
              THEN [proto |-> "h1", filled |-> f + n, caps |-> Append(acc, cap)]
              ELSE SniffFn(mm, IF x > n THEN <<x - n>> \o Tail(items) ELSE Tail(items), f + n, Append(acc, cap))

FnConstraint == /\ pc = "sniff" \/ (pc = "serve" /\ saw = <<>> /\ pendOk)   \* the sniff phase and the just-decided states
                /\ ~ones /\ Len(hist) <= 6                                  \* (histories are exponential otherwise)
FnAgrees == (pc = "serve" /\ saw = <<>>) => LET r == SniffFn(m, hist, 0, <<>>) IN r.proto = version /\ r.filled = prefix

-----------------------------------------------------------------------------
(* The protocol handler (hyper http1 / http2) reading through Rewind.       *)

Finish(sw) == /\ pc' = "done" /\ answer' = Respond(version, sw)

HReadPrefix(cap) ==                               \* Rewind::poll_read with a non-empty prefix
    /\ pc = "serve" /\ rpos < prefix
    /\ LET n == Min(prefix - rpos, cap)
       IN  /\ saw' = saw \o Ids(rpos + 1, rpos + n)
           /\ rpos' = rpos + n
    /\ UNCHANGED <<inVars, ioVars, pc, susp, cancelled, filled, version, prefix, answer, hist>>

HReadInner(cap) ==                                \* prefix drained: delegate to the inner stream
    /\ pc = "serve" /\ rpos = prefix
    /\ \E a \in IoAnswers(cap) :
          /\ IoDeliver(a)
          /\ saw' = saw \o Ids(arrived + 1, arrived + a.n)
          /\ IF a.n = 0 THEN Finish(saw) ELSE UNCHANGED <<pc, answer>>
    /\ UNCHANGED <<inVars, susp, cancelled, filled, version, prefix, rpos>>

HReadRest ==                                      \* everything after the window, then the request is complete
    /\ pc = "serve" /\ rpos = prefix
    /\ chunkLeft = 0 /\ arrived = len /\ ~eof
    /\ saw' = Append(saw, Rest)
    /\ Finish(Append(saw, Rest))
    /\ hist' = Append(hist, RestMark)
    /\ UNCHANGED <<inVars, ioVars, susp, cancelled, filled, version, prefix, rpos>>

HPending ==
    /\ pc = "serve" /\ rpos = prefix
    /\ IoPending
    /\ UNCHANGED <<inVars, pc, susp, cancelled, filled, version, prefix, rpos, saw, answer>>

Next ==
    \/ SniffRead \/ SniffPending \/ Cancel \/ SniffCancelled
    \/ \E cap \in Caps : HReadPrefix(cap) \/ HReadInner(cap)
    \/ HReadRest \/ HPending

Spec == Init /\ [][Next]_vars

-----------------------------------------------------------------------------
(* C08 on the model state (the same operators SniffObs.tla evaluates on     *)
(* what the real crate did).                                                *)

C08Decision == decided => DecisionOK(m, version)
C08Bytes    == pc = "done" => BytesOK(sent, saw)
C08Answer   == pc = "done" => AnswerOK(answer, ref)

(* stronger, model only: at every moment the handler has seen a prefix of the client's bytes *)
C08BytesPrefix == IsPrefix(saw, sent)
(* the sniffer never consumes more than it buffers, and the Rewind prefix is what it consumed *)
SniffBuffer == /\ pc = "sniff" => filled = arrived
               /\ decided => prefix = filled
(* every run that is not cancelled can finish *)
NoStuck == pc \in {"sniff", "serve"} => ENABLED Next

=============================================================================
