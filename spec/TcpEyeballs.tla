---------------------------- MODULE TcpEyeballs ----------------------------
(* The TCP wiring around the happy-eyeballs set: TcpConnecting::connect (src/client/conn/transport/tcp.rs) *)
(*                                                                                                          *)
(*   let delay = if addresses.is_empty() { timeout } else { timeout.map(|d| d / addresses.len()) };         *)
(*   let mut attempts = EyeballSet::new(delay, timeout, concurrency);                                       *)
(*   while let Some(address) = addresses.pop() {                                                            *)
(*       attempts.push(async { TcpConnectionAttempt::new(address, config).connect().await });               *)
(*   }                    // the attempt's local set-up (socket(), set_nonblocking, bind_local_address)     *)
(*                        // runs INSIDE the attempt future, i.e. when the set first polls it               *)
(*   attempts.finish().await.map_err(Error(e) -> e | Timeout -> "timed out" | NoProgress -> "exhausted")    *)
(*                                                                                                          *)
(* A candidate has a local set-up outcome (ok | setupError) and a connect outcome (ok | err | never) with   *)
(* a latency.  The module derives the EyeballSet scenario from the candidates and re-uses the timed          *)
(* transcription Eyeballs.tla for the set itself.  Two as-built-style switches describe wirings that TLC     *)
(* refutes (kept as standing demonstrations, cfgs TcpEyeballs_eager.cfg / TcpEyeballs_drained.cfg):          *)
(*   EagerSetup            the set-up of EVERY candidate runs while the set is being filled and its error is *)
(*                         propagated with `?`: one candidate's set-up failure aborts the whole connect.     *)
(*   DelayFromDrainedList  the stagger is computed after the address list was drained, so the is_empty()     *)
(*                         guard makes it the whole timeout.                                                 *)
EXTENDS Eyeballs

CONSTANTS HeTimeouts,            \* happy_eyeballs_timeout values (NONE = None)
          EagerSetup, DelayFromDrainedList

VARIABLES setup,     \* [Att -> {"ok", "setupError"}]
          conn,      \* [Att -> {"ok", "err", "never"}]   connect outcome if the set-up succeeds
          heT        \* happy_eyeballs_timeout
tvars == <<setup, conn, heT>>

SetupFails == {i \in 1..n : setup[i] = "setupError"}
FirstOfSet(S) == CHOOSE i \in S : \A j \in S : i <= j

TcpInit ==
  /\ n \in 0..N
  /\ setup \in [Att -> {"ok", "setupError"}]
  /\ conn \in [Att -> {"ok", "err", "never"}]
  /\ lat \in [Att -> Grid]
  /\ \A i \in Att : i > n => setup[i] = "ok" /\ conn[i] = "never" /\ lat[i] = 0          \* canonical padding
  /\ \A i \in Att : setup[i] = "setupError" => conn[i] = "err" /\ lat[i] = 0            \* set-up errors are synchronous
  /\ \A i \in Att : conn[i] = "never" => lat[i] = 0
  /\ heT \in HeTimeouts /\ conc \in Concs
  \* what the set is given
  /\ outcome = [i \in Att |-> IF setup[i] = "setupError" THEN "err" ELSE conn[i]]
  /\ tmo = heT
  /\ delay = IF heT = NONE THEN NONE
             ELSE IF DelayFromDrainedList \/ n = 0 THEN heT ELSE heT \div n
  /\ now = 0 /\ cur = 0 /\ running = {} /\ fresh = <<>> /\ comp = {}
  /\ start = [i \in Att |-> NONE] /\ ord = [i \in Att |-> 0] /\ nord = 0
  /\ firstErr = 0 /\ stepDl = NONE
  /\ IF EagerSetup /\ SetupFails # {}
     THEN \* `connect(&address, ..)?` inside the filling loop: the whole connect ends before any attempt starts
          /\ q = <<>> /\ phase = "done"
          /\ result = [kind |-> "err", id |-> FirstOfSet(SetupFails), at |-> 0]
     ELSE /\ q = [i \in 1..n |-> i] /\ phase = "init"
          /\ result = [kind |-> "none", id |-> 0, at |-> NONE]

TcpNext == Next /\ UNCHANGED tvars
TcpSpec == TcpInit /\ [][TcpNext]_<<vars, tvars>>

---------------------------------------------------------------------------
\* scenario and observation at the TCP level (outcome level: what a caller of connect_to_addrs can see)
TV == [n |-> n,
       oc |-> [i \in Att |-> IF i > n THEN "never" ELSE IF setup[i] = "setupError" THEN "setuperr" ELSE conn[i]],
       tmoMs |-> heT, conc |-> conc]
TO == [kind |-> result.kind, id |-> IF result.kind = "ok" THEN result.id ELSE 0,
       errclass |-> IF result.kind = "err" THEN (IF setup[result.id] = "setupError" THEN "setup" ELSE "connect") ELSE "",
       elapsedMs |-> result.at]

\* the timed C10 / C11 formulas on the scenario the set was given (a set-up error is the candidate's failure at
\* the instant it is started), and the outcome-level readings used for the real loopback runs
TcpC10Inv    == Done => C10(V, O) /\ Tcp_C10(TV, TO)
TcpC11Inv    == Done => C11(V, O) /\ Tcp_C11(TV, TO)
\* the stagger the set was given is timeout / ORIGINAL number of addresses
TcpDelayInv  == delay = TcpDelay(TV)

TcpEmit == Done => PrintT(<<"TCPVEC", ToJson([v |-> TV, o |-> TO])>>)
=============================================================================
