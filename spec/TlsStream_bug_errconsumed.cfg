\* TlsStream vacuity guard / standing demonstration: the design variant "errconsumed" MUST violate T3_FailedSticky
SPECIFICATION Spec
CONSTANTS
  MaxOps = 5
  MaxBytes = 3
  MaxRx = 1
  Bug = "errconsumed"
  Sides <- MCSides
  Certs <- MCCerts
  ReadCaps <- MCReadCaps
  WriteLens <- MCWriteLens
  SendLens <- MCSendLens
VIEW MCView
INVARIANTS
  T3_FailedSticky
