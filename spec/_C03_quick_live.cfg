CONSTANTS
  NReq = 2
  NOrig = 1
  MaxDial = 2
  MaxTick = 0
  AsBuilt = {}
  Caps = {TRUE, FALSE}
  MaxIdles = {1}
  IdleTimeouts = {0}
  Protos = {TRUE, FALSE}
  Faults <- SomeFaults
  Spurious = FALSE
SPECIFICATION FairSpec
PROPERTY C03live
CHECK_DEADLOCK FALSE
