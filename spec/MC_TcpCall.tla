---- MODULE MC_TcpCall ----
EXTENDS TcpCall
\* One time unit = 300 ms in the loopback runs (harness/src/bin/tcpcall.rs --unit): connect_timeout 2 = 600 ms,
\* happy_eyeballs_timeout 6 = 1.8 s (divisible by 1, 2, 3 addresses).
UPORT == 8080
cUnusedSet == {NONE}
Schemes == {"http", "https", "ws", "wss", "other", "none"}
Hosts   == {"dns", "v4", "v6", "none"}
PortFs  == {"explicit", "absent"}

Pad(f, k, d) == [i \in 1..N |-> IF i <= k THEN f[i] ELSE d]
Vec(tr, sch, h, p, r, rl, k, xfam, xoc, xlat, b, ct, he, cc, dt) ==
  [transport |-> tr, scheme |-> sch, host |-> h, port |-> p, uport |-> IF p = "explicit" THEN UPORT ELSE 0,
   res |-> r, rlat |-> rl, n |-> IF r = "list" THEN k ELSE 0,
   fam |-> IF r = "list" THEN Pad(xfam, k, 4) ELSE [i \in 1..N |-> 4],
   oc  |-> IF r = "list" THEN Pad(xoc, k, "never") ELSE [i \in 1..N |-> "never"],
   lat |-> IF r = "list" THEN Pad(xlat, k, 0) ELSE [i \in 1..N |-> 0],
   bind |-> b, ct |-> ct, heT |-> he, conc |-> cc, dropT |-> dt]

\* resolver answers: at most one IPv6 address (the loopback has a single one)
FamLists(k) == {f \in [1..k -> {4, 6}] : Cardinality({i \in 1..k : f[i] = 6}) <= 1}
\* candidate behaviours: (outcome, accept latency)
CO(lats) == {<<"ok", l>> : l \in lats} \cup {<<"err", 0>>, <<"never", 0>>}
Cands(k, lats) == {[fam |-> f, oc |-> [i \in 1..k |-> c[i][1]], lat |-> [i \in 1..k |-> c[i][2]]] :
                     f \in FamLists(k), c \in [1..k -> CO(lats)]}
One == [fam |-> <<4>>, oc |-> <<"ok">>, lat |-> <<0>>]          \* the canonical answer: one live IPv4 address

\* every URI class, both transports, with the canonical rest
FUri(z) == {Vec(tr, s, h, p, r, 0, 1, One.fam, One.oc, One.lat, "none", 2, 6, 2, NONE) :
           tr \in {"tcp", "simple"}, s \in Schemes, h \in Hosts, p \in PortFs, r \in {"list", "error", "empty"}}
\* the resolver stage
FRes(rlats, drops) ==
  {Vec(tr, "http", "dns", "explicit", r, rl, 1, One.fam, One.oc, One.lat, "none", ct, 6, 2, dt) :
     tr \in {"tcp", "simple"}, r \in {"list", "error", "empty", "never"}, rl \in rlats, ct \in {NONE, 2}, dt \in drops}
\* sort + eyeballs + per-attempt connect_timeout
FEb(ks, lats, binds, concs, rlats, drops) ==
  UNION {{Vec("tcp", "http", "dns", "explicit", "list", rl, k, c.fam, c.oc, c.lat, b, ct, he, cc, dt) :
            c \in Cands(k, lats), b \in binds, ct \in {NONE, 2}, he \in {NONE, 6}, cc \in concs, rl \in rlats, dt \in drops}
         : k \in ks}
\* the simple transport
FSimple(ks, lats) ==
  UNION {{Vec("simple", "http", "dns", "explicit", "list", 0, k, c.fam, c.oc, c.lat, "none", ct, NONE, NONE, NONE) :
            c \in Cands(k, lats), ct \in {NONE, 2}} : k \in ks}
\* directed: three IPv4 candidates, immediate answers or silence
FEb3(z) == {Vec("tcp", "http", "dns", "explicit", "list", 0, 3, <<4, 4, 4>>, xoc, <<0, 0, 0>>, "none", ct, he, cc, NONE) :
           xoc \in [1..3 -> {"ok", "err", "never"}], ct \in {NONE, 2}, he \in {NONE, 6}, cc \in {1, 2}}

\* lists of length one (and none): the classic special-case site.  connect_timeout None / shorter / LONGER than the
\* overall deadline, every concurrency, both preferences, both families
FOne(z) == {Vec("tcp", "http", "dns", "explicit", "list", 0, 1, <<f>>, <<c>>, <<0>>, b, ct, he, cc, NONE) :
              f \in {4, 6}, c \in {"ok", "err", "never"}, b \in {"none", "v4"}, ct \in {NONE, 2, 8}, he \in {NONE, 6},
              cc \in {NONE, 0, 1, 2}}
FZero(z) == {Vec("tcp", "http", "dns", "explicit", "empty", rl, 0, <<>>, <<>>, <<>>, b, ct, he, cc, NONE) :
              rl \in {0, 1}, b \in {"none", "v4"}, ct \in {NONE, 2, 8}, he \in {NONE, 6}, cc \in {NONE, 0, 1, 2}}
\* (operators with a dummy parameter: TLC evaluates parameterless constant definitions eagerly at start-up)
QuickVectors(z) == FUri(0) \cup FRes({0, 1, 3}, {NONE, 2})
                \cup FEb({1, 2}, {0, 3}, {"none"}, {NONE, 1, 2}, {0}, {NONE})
                \cup FEb({2}, {0}, {"v4", "v6", "both"}, {1}, {0}, {NONE})           \* the preference under every binding
                \cup FEb3(0) \cup FOne(0) \cup FZero(0)
                \cup FSimple({1, 2}, {0, 3})
                \cup FEb({1, 2}, {0}, {"none"}, {1}, {0, 2}, {1})              \* caller drops the call
\* thorough: the small families as sets, the big ones as nested quantifiers (TLC need not build and normalise one huge set)
ThoroughSmall(z) == FUri(0) \cup FRes({0, 1, 2, 3}, {NONE, 0, 2}) \cup FOne(0) \cup FZero(0) \cup FEb3(0)
                    \cup FSimple({1, 2, 3}, {0, 1, 3})
InitThorough ==
  \/ \E vec \in ThoroughSmall(0) : CallInitWith(vec)
  \/ \E k \in {1, 2, 3} : \E c \in Cands(k, {0, 1, 3}) :
       \E b \in {"none", "v4", "v6", "both"}, ct \in {NONE, 2}, he \in {NONE, 6}, cc \in {NONE, 0, 1, 2, 3}, rl \in {0, 1} :
          CallInitWith(Vec("tcp", "http", "dns", "explicit", "list", rl, k, c.fam, c.oc, c.lat, b, ct, he, cc, NONE))
  \/ \E k \in {1, 2, 3} : \E c \in Cands(k, {0}) :
       \E b \in {"none", "v4"}, ct \in {NONE, 2}, he \in {NONE, 6}, cc \in {NONE, 1, 2}, rl \in {0, 2}, dt \in {0, 1, 3} :
          CallInitWith(Vec("tcp", "http", "dns", "explicit", "list", rl, k, c.fam, c.oc, c.lat, b, ct, he, cc, dt))

\* the URI stage alone (what C17 needs)
InitUri      == \E vec \in FUri(0) : CallInitWith(vec)
InitQuick    == \E vec \in QuickVectors(0) : CallInitWith(vec)
\* the refuted variants run on a smaller set of vectors
InitVariants == \E vec \in FUri(0) \cup FRes({0, 1}, {NONE, 2}) \cup FOne(0) \cup FEb({2}, {0}, {"none"}, {1}, {0, 2}, {NONE, 1}) : CallInitWith(vec)
====
