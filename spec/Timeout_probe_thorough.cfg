CONSTANTS
  NReq = 2
  NOrig = 1
  MaxDial = 2
  MaxTick = 0
  AsBuilt = {}
  Caps = {TRUE, FALSE}
  MaxIdles = {1}
  IdleTimeouts = {0}
  Protos = {TRUE, FALSE}
  Faults <- DialFaults
  Spurious = FALSE
  AllowDrop = FALSE
  Durs <- Durs01
  MaxT = 2
  RespFaults = FALSE
  PreResp = FALSE
  Probe = TRUE
  AsBuiltT <- NoT
SPECIFICATION ProbeSpec
VIEW TView
PROPERTY ProbeCompletes
CHECK_DEADLOCK FALSE
