SPECIFICATION ConnSpec
CONSTANT Variant <- MCIntended
CONSTANT InfoVariant <- MCShared
INVARIANT ConnTypeOK
INVARIANT ConnInvInfo
INVARIANT ConnInvC20
INVARIANT ConnInvSettled
