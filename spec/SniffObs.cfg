CONSTANTS
    AsBuiltCompare = FALSE
    MaxCuts = 0
    Caps = {}
    Window = 32
SPECIFICATION ObsSpec
INVARIANTS MonDecision MonBytes MonAnswer MonConforms Consumed
