\* TlsStream vacuity guard / standing demonstration: the design variant "asbuilt" MUST violate T3_FailedSticky
SPECIFICATION Spec
CONSTANTS
  MaxOps = 5
  MaxBytes = 3
  MaxRx = 1
  Bug = "asbuilt"
  Sides <- MCSides
  Certs <- MCCerts
  ReadCaps <- MCReadCaps
  WriteLens <- MCWriteLens
  SendLens <- MCSendLens
VIEW MCView
INVARIANTS
  T3_FailedSticky
