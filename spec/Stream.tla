------------------------------- MODULE Stream -------------------------------
(***************************************************************************)
(* C18 - every byte-stream adapter delivers exactly the bytes written, in  *)
(* order, for every pattern of partial reads, partial and vectored writes, *)
(* buffer sizes and Pending results; EOF and errors are propagated.        *)
(*                                                                         *)
(* Bytes are abstract and NUMBERED: the i-th byte ever written into a      *)
(* direction is the number i (1,2,3,...).  Hence the reference FIFO of a   *)
(* direction is fully described by two counters (W = bytes written so far, *)
(* rp = bytes delivered so far): its content is <<rp+1 .. W>>, and loss,   *)
(* duplication, reordering and invention are all visible in the numbers an *)
(* adapter puts into a read buffer or hands to the inner stream.           *)
(*                                                                         *)
(* The module has three parts:                                             *)
(*  1. the PROPERTY (clauses over one observation `o` of one operation and *)
(*     the reference state `r` before it).  The same operators are the     *)
(*     INVARIANTs of the model configurations (Stream_*.cfg) and of the    *)
(*     monitor over traces recorded from the real crate (StreamObs.tla).   *)
(*  2. the MODEL: a scripted inner stream (short reads, short writes,      *)
(*     Pending, EOF, error injected per operation) and the adapter layers  *)
(*     as explicit machines: Rewind (prefix, then inner), TokioIo in both  *)
(*     directions (filled/initialised bookkeeping of the read buffer),     *)
(*     the dispatch wrappers (Braid/TlsBraid/Stream: pass-through, no      *)
(*     vectored forwarding) and the in-process duplex pipe.                *)
(*  3. Init/Next enumerating op sequences, plus mutant switches (`Bug`)    *)
(*     that show each clause is falsifiable (vacuity guard).               *)
(***************************************************************************)
EXTENDS Naturals, Sequences, FiniteSets, TLC

CONSTANTS MaxSteps,    \* bound on the number of operations of a behaviour
          Stacks,      \* set of stack descriptors (see MC_Stream)
          Bug,         \* "none", or the name of a seeded defect
          ReadCaps,    \* unfilled capacities of read buffers        {0,1,2,5}
          ReadPres,    \* pre-filled lengths of read buffers          {0,1,3}
          UBs,         \* buffer handed over uninitialised?           BOOLEAN
          WriteLens,   \* lengths of plain writes
          VecLens,     \* slice-length lists of vectored writes
          RInj, WInj, CInj   \* inner-behaviour injections for read / write / flush+shutdown

VARIABLES stack,   \* the stack descriptor of this behaviour
          ms,      \* model state of adapter + inner stream
          ref,     \* reference state (counters of the reference FIFOs)
          bad,     \* names of the property clauses the last op falsified ({} = the property held)
          ev,      \* if bad # {}: [o |-> observation of the last op, r |-> reference state before it]
          hist     \* the ops so far (inputs only; printed by the _gen configs)
vars == <<stack, ms, ref, bad, ev, hist>>

-----------------------------------------------------------------------------
(* helpers *)
MinN(a, b) == IF a < b THEN a ELSE b
MaxN(a, b) == IF a > b THEN a ELSE b
Nums      == SubSeq([i \in 1..400 |-> i], 1, 400)     \* a tuple, evaluated once
Run(a, b) == SubSeq(Nums, a, b)                 \* <<a, a+1, .., b>>, empty if b < a
Rep(x, n) == [i \in 1..n |-> x]
PRE(i)    == 240 + i                              \* sentinel value of the i-th pre-filled byte
POISON    == 255                                  \* value of every byte of the unfilled part before the call
PreSeq(p) == [i \in 1..p |-> PRE(i)]
RECURSIVE Sum(_)
Sum(s)    == IF s = <<>> THEN 0 ELSE Head(s) + Sum(Tail(s))
LastOf(s)   == s[Len(s)]
Has(s, x) == \E i \in 1..Len(s) : s[i] = x
RECURSIVE FirstNE(_)                              \* length of the first non-empty slice (0 if none)
FirstNE(s) == IF s = <<>> THEN 0 ELSE IF Head(s) > 0 THEN Head(s) ELSE FirstNE(Tail(s))
Other(d)  == IF d = "ab" THEN "ba" ELSE "ab"
RIdx(d)   == IF d = "ab" THEN 1 ELSE 3            \* index into o.wk of the reader's waker of direction d
WIdx(d)   == IF d = "ab" THEN 2 ELSE 4            \* ... of the writer's waker

(* The observation record of one operation (same schema in the model and in the ndjson
   written by harness/src/bin/stream.rs):
     op      "read" | "write" | "writev" | "flush" | "shutdown"
     dir     direction the op acts on ("ab" in scripted mode; peer mode: write at the source end,
             read at the destination end of that direction)
     cap,pre read: unfilled capacity and pre-filled length of the buffer;  ub: handed over uninitialised
     lens    write/writev: the slice lengths offered (the bytes are the next numbers of the direction)
     inj     what the scripted inner stream does during this op
     aw      the op was awaited to completion (peer mode drain) instead of polled once
     res     "Ok" | "Pending" | "Err" | "Panic" | "Stall";  kind: error kind (0 none)
     ikind   error kind the inner stream returned during the op (0 none)
     n       write: the returned count;  read: bytes added
     buf     read: the whole buffer after the call (pre-filled part, then the unfilled part)
     filled, init   read: counters of the buffer after the call
     igave   bytes the inner stream handed out during this op;  igot: bytes it accepted
     icalls  results of the calls the inner stream saw during this op ("r.data","w.pend","f.ok",..)
     woken   the op returned Pending and the waker it was polled with was woken when the inner
             stream fired the waker it had stored
     avec    the adapter's is_write_vectored()
     wk      peer mode: wake counts of <<reader ab, writer ab, reader ba, writer ba>> after the op *)
Obs0 == [op |-> "none", dir |-> "ab", cap |-> 0, pre |-> 0, ub |-> FALSE, lens |-> <<>>, inj |-> "full",
         aw |-> FALSE, res |-> "Ok", kind |-> 0, ikind |-> 0, n |-> 0, buf |-> <<>>, filled |-> 0,
         init |-> 0, igave |-> <<>>, igot |-> <<>>, icalls |-> <<>>, woken |-> FALSE, avec |-> FALSE,
         wk |-> <<0, 0, 0, 0>>]

-----------------------------------------------------------------------------
(*                       PART 1 - THE PROPERTY (C18)                        *)
(* Reference state r:
     W[d]   bytes written into direction d so far (scripted: prefix + what the inner handed out)
     rp[d]  bytes of d delivered to the reader so far        => FIFO(d) = <<rp[d]+1 .. W[d]>>
     cl[d]  the source of d has signalled end of stream (inner EOF / writer shut down)
     eofs[d] the reader of d has been given EOF
     wp     scripted mode: bytes of the write direction accepted according to the return values
     armR[d], armW[d]  peer mode: 0, or 1 + wake count of the reader/writer of d when it got Pending *)
Ref0(S) == [W |-> [ab |-> S.p, ba |-> 0], rp |-> [ab |-> 0, ba |-> 0], cl |-> [ab |-> FALSE, ba |-> FALSE],
            eofs |-> [ab |-> FALSE, ba |-> FALSE], wp |-> 0,
            armR |-> [ab |-> 0, ba |-> 0], armW |-> [ab |-> 0, ba |-> 0]]

IsRead(o)  == o.op = "read"
IsWrite(o) == o.op \in {"write", "writev"}
Added(o)   == IF o.filled >= o.pre THEN o.filled - o.pre ELSE 0
NewBytes(o) == SubSeq(o.buf, o.pre + 1, o.filled)          \* what the read delivered
Offered(o) == Sum(o.lens)
ICallsN(o) == Len(o.icalls)
ILast(o)   == IF o.icalls = <<>> THEN "none" ELSE LastOf(o.icalls)
Eofish(o)  == IsRead(o) /\ o.res = "Ok" /\ o.filled = o.pre /\ o.cap > 0   \* the reader is told "end of stream"

(* --- clauses common to every mode ------------------------------------- *)
NoPanic(M, r, o) == o.res # "Panic"
NoStall(M, r, o) == o.res # "Stall"           \* an awaited op (drain) did not complete: bytes/EOF never delivered

\* bytes are placed only in the unfilled part: the pre-filled part is untouched, whatever the result
R_Prefill(M, r, o) == IsRead(o) => /\ Len(o.buf) = o.pre + o.cap
                                   /\ SubSeq(o.buf, 1, o.pre) = PreSeq(o.pre)
\* filled is advanced by some n with 0 <= n <= cap
R_Bounds(M, r, o) == IsRead(o) /\ o.res = "Ok" => o.pre <= o.filled /\ o.filled <= o.pre + o.cap
\* Pending / error leave no partial effect in the buffer
R_NoEffect(M, r, o) == IsRead(o) /\ o.res \in {"Pending", "Err"} => o.filled = o.pre
\* what a read returns is exactly the next bytes of the FIFO: no loss before them, no duplication, no
\* reordering, no invention (delivered stays a prefix of written)
R_Next(M, r, o) == IsRead(o) /\ o.res = "Ok" /\ o.filled >= o.pre =>
                      /\ NewBytes(o) = Run(r.rp[o.dir] + 1, r.rp[o.dir] + Added(o))
                      /\ r.rp[o.dir] + Added(o) <= r.W[o.dir] + Len(o.igave)
\* EOF is not invented: only after the source ended, and only when everything written was delivered
R_EofReal(M, r, o) == Eofish(o) =>
                      /\ (r.cl[o.dir] \/ Has(o.icalls, "r.eof"))
                      /\ r.rp[o.dir] = r.W[o.dir] + Len(o.igave)
\* a write returns n <= offered; the inner stream accepted exactly the first n offered bytes
W_Ret(M, r, o)  == IsWrite(o) /\ o.res = "Ok" => o.n <= Offered(o)

(* --- scripted mode: the inner stream is observed ---------------------- *)
Scripted(M) == M = "script"
S_R_PendReal(M, r, o) == Scripted(M) /\ IsRead(o) /\ o.res = "Pending" => Has(o.icalls, "r.pend") /\ o.woken
S_R_PendProp(M, r, o) == Scripted(M) /\ IsRead(o) /\ ILast(o) = "r.pend" =>
                            o.res = "Pending" \/ (o.res = "Ok" /\ o.filled > o.pre)
S_R_EofProp(M, r, o)  == Scripted(M) /\ IsRead(o) /\ ILast(o) = "r.eof" /\ o.cap > 0 => o.res = "Ok"
S_R_ErrReal(M, r, o)  == Scripted(M) /\ IsRead(o) /\ o.res = "Err" =>
                            Has(o.icalls, "r.err") /\ o.kind = o.ikind /\ o.kind # 0
S_R_ErrProp(M, r, o)  == Scripted(M) /\ IsRead(o) /\ ILast(o) = "r.err" =>
                            o.res = "Err" \/ (o.res = "Ok" /\ o.filled > o.pre)
S_W_Exact(M, r, o)    == Scripted(M) /\ IsWrite(o) /\ o.res = "Ok" => o.igot = Run(r.wp + 1, r.wp + o.n)
S_W_NoEffect(M, r, o) == Scripted(M) /\ IsWrite(o) /\ o.res \in {"Pending", "Err"} => o.igot = <<>>
S_W_PendReal(M, r, o) == Scripted(M) /\ IsWrite(o) /\ o.res = "Pending" =>
                            (Has(o.icalls, "w.pend") \/ Has(o.icalls, "wv.pend")) /\ o.woken
S_W_ZeroReal(M, r, o) == Scripted(M) /\ IsWrite(o) /\ o.res = "Ok" /\ o.n = 0 /\ Offered(o) > 0 =>
                            Has(o.icalls, "w.eof") \/ Has(o.icalls, "wv.eof")
S_W_ErrReal(M, r, o)  == Scripted(M) /\ IsWrite(o) /\ o.res = "Err" =>
                            (Has(o.icalls, "w.err") \/ Has(o.icalls, "wv.err")) /\ o.kind = o.ikind /\ o.kind # 0
S_W_Prop(M, r, o)     == Scripted(M) /\ IsWrite(o) /\ o.igot = <<>> =>
                            /\ (ILast(o) \in {"w.pend", "wv.pend"} => o.res = "Pending")
                            /\ (ILast(o) \in {"w.err", "wv.err"} => o.res = "Err")
\* reads do not write, writes/flushes do not consume input
S_NoCross(M, r, o)    == Scripted(M) => /\ (IsRead(o) => o.igot = <<>>)
                                        /\ (~IsRead(o) => o.igave = <<>>)
                                        /\ (~IsWrite(o) => o.igot = <<>>)
\* flush and shutdown are forwarded; their Pending and errors are propagated
CtlTag(o, t) == IF o.op = "flush" THEN (CASE t = "ok" -> "f.ok" [] t = "pend" -> "f.pend" [] OTHER -> "f.err")
                ELSE (CASE t = "ok" -> "s.ok" [] t = "pend" -> "s.pend" [] OTHER -> "s.err")
S_Ctl(M, r, o) == Scripted(M) /\ o.op \in {"flush", "shutdown"} =>
                     /\ (o.res = "Ok"      => Has(o.icalls, CtlTag(o, "ok")))
                     /\ (o.res = "Pending" => Has(o.icalls, CtlTag(o, "pend")) /\ o.woken)
                     /\ (o.res = "Err"     => Has(o.icalls, CtlTag(o, "err")) /\ o.kind = o.ikind /\ o.kind # 0)
                     /\ (ILast(o) = CtlTag(o, "pend") => o.res = "Pending")
                     /\ (ILast(o) = CtlTag(o, "err")  => o.res = "Err")

(* --- peer mode: both ends are real, the reference FIFO is recomputed from the return values -- *)
Peer(M)    == M \in {"pipe", "sock"}
P_NoErrRead(M, r, o) == Peer(M) /\ IsRead(o) => o.res # "Err"              \* nothing can have produced an error
P_WErrReal(M, r, o)  == Peer(M) /\ IsWrite(o) /\ o.res = "Err" => r.cl[o.dir]   \* only after own shutdown
\* (after the writer's own shutdown the OS may answer a second shutdown / a flush with NotConnected)
P_Ctl(M, r, o)       == Peer(M) /\ o.op \in {"flush", "shutdown"} => o.res = "Ok" \/ (o.res = "Err" /\ r.cl[o.dir])
\* in-process pipe (synchronous, deterministic): Pending only when it can be resolved by the peer,
\* and the peer's progress wakes the registered waker (a lost wake-up is a delivery failure)
P_PendReal(M, r, o)  == M = "pipe" /\ o.res = "Pending" =>
                          /\ (IsRead(o)  => r.rp[o.dir] = r.W[o.dir] /\ ~r.cl[o.dir])
                          /\ (IsWrite(o) => r.W[o.dir] > r.rp[o.dir])
                          /\ o.op \in {"read", "write", "writev"}
P_Wake(M, r, o)      == M = "pipe" =>
                          /\ (IsWrite(o) /\ o.res = "Ok" /\ o.n > 0 /\ r.armR[o.dir] > 0 => o.wk[RIdx(o.dir)] >= r.armR[o.dir])
                          /\ (o.op = "shutdown" /\ o.res = "Ok" /\ r.armR[o.dir] > 0 => o.wk[RIdx(o.dir)] >= r.armR[o.dir])
                          /\ (IsRead(o) /\ o.res = "Ok" /\ Added(o) > 0 /\ r.armW[o.dir] > 0 => o.wk[WIdx(o.dir)] >= r.armW[o.dir])

(* the clause list: name |-> formula; Holds is the conjunction *)
Holds(M, r, o) ==
  /\ NoPanic(M, r, o) /\ NoStall(M, r, o)
  /\ R_Prefill(M, r, o) /\ R_Bounds(M, r, o) /\ R_NoEffect(M, r, o) /\ R_Next(M, r, o) /\ R_EofReal(M, r, o)
  /\ W_Ret(M, r, o)
  /\ S_R_PendReal(M, r, o) /\ S_R_PendProp(M, r, o) /\ S_R_EofProp(M, r, o) /\ S_R_ErrReal(M, r, o)
  /\ S_R_ErrProp(M, r, o) /\ S_W_Exact(M, r, o) /\ S_W_NoEffect(M, r, o) /\ S_W_PendReal(M, r, o)
  /\ S_W_ZeroReal(M, r, o) /\ S_W_ErrReal(M, r, o) /\ S_W_Prop(M, r, o) /\ S_NoCross(M, r, o) /\ S_Ctl(M, r, o)
  /\ P_NoErrRead(M, r, o) /\ P_WErrReal(M, r, o) /\ P_Ctl(M, r, o) /\ P_PendReal(M, r, o) /\ P_Wake(M, r, o)

\* names of the clauses that are false (used by the screening pass of the monitor)
Failing(M, r, o) ==
  {c \in {"NoPanic", "NoStall", "R_Prefill", "R_Bounds", "R_NoEffect", "R_Next", "R_EofReal", "W_Ret",
          "S_R_PendReal", "S_R_PendProp", "S_R_EofProp", "S_R_ErrReal", "S_R_ErrProp", "S_W_Exact",
          "S_W_NoEffect", "S_W_PendReal", "S_W_ZeroReal", "S_W_ErrReal", "S_W_Prop", "S_NoCross", "S_Ctl",
          "P_NoErrRead", "P_WErrReal", "P_Ctl", "P_PendReal", "P_Wake"} :
     ~ CASE c = "NoPanic" -> NoPanic(M, r, o) [] c = "NoStall" -> NoStall(M, r, o)
         [] c = "R_Prefill" -> R_Prefill(M, r, o) [] c = "R_Bounds" -> R_Bounds(M, r, o)
         [] c = "R_NoEffect" -> R_NoEffect(M, r, o) [] c = "R_Next" -> R_Next(M, r, o)
         [] c = "R_EofReal" -> R_EofReal(M, r, o) [] c = "W_Ret" -> W_Ret(M, r, o)
         [] c = "S_R_PendReal" -> S_R_PendReal(M, r, o) [] c = "S_R_PendProp" -> S_R_PendProp(M, r, o)
         [] c = "S_R_EofProp" -> S_R_EofProp(M, r, o) [] c = "S_R_ErrReal" -> S_R_ErrReal(M, r, o)
         [] c = "S_R_ErrProp" -> S_R_ErrProp(M, r, o) [] c = "S_W_Exact" -> S_W_Exact(M, r, o)
         [] c = "S_W_NoEffect" -> S_W_NoEffect(M, r, o) [] c = "S_W_PendReal" -> S_W_PendReal(M, r, o)
         [] c = "S_W_ZeroReal" -> S_W_ZeroReal(M, r, o) [] c = "S_W_ErrReal" -> S_W_ErrReal(M, r, o)
         [] c = "S_W_Prop" -> S_W_Prop(M, r, o) [] c = "S_NoCross" -> S_NoCross(M, r, o)
         [] c = "S_Ctl" -> S_Ctl(M, r, o) [] c = "P_NoErrRead" -> P_NoErrRead(M, r, o)
         [] c = "P_WErrReal" -> P_WErrReal(M, r, o) [] c = "P_Ctl" -> P_Ctl(M, r, o)
         [] c = "P_PendReal" -> P_PendReal(M, r, o) [] OTHER -> P_Wake(M, r, o)}

\* At the end of a sequence (after the drain the harness appends): every direction that was drained
\* has delivered EOF, and at that point delivered = written.
AtEnd(M, r, drained) == \A d \in drained : r.eofs[d] /\ r.rp[d] = r.W[d]

(* the reference state after an observation *)
RefNext(M, r, o) ==
  LET d == o.dir IN
  IF M = "script" THEN
     [r EXCEPT !.W[d]    = @ + Len(o.igave),
               !.cl[d]   = @ \/ Has(o.icalls, "r.eof"),
               !.rp[d]   = IF IsRead(o) /\ o.res = "Ok" THEN @ + Added(o) ELSE @,
               !.eofs[d] = @ \/ Eofish(o),
               !.wp      = IF IsWrite(o) /\ o.res = "Ok" THEN @ + o.n ELSE @]
  ELSE
     [r EXCEPT !.W[d]    = IF IsWrite(o) /\ o.res = "Ok" THEN @ + o.n ELSE @,
               !.cl[d]   = @ \/ (o.op = "shutdown" /\ o.res = "Ok"),
               !.rp[d]   = IF IsRead(o) /\ o.res = "Ok" THEN @ + Added(o) ELSE @,
               !.eofs[d] = @ \/ Eofish(o),
               !.armR[d] = IF IsRead(o) THEN (IF o.res = "Pending" THEN 1 + o.wk[RIdx(d)] ELSE 0) ELSE @,
               !.armW[d] = IF IsWrite(o) THEN (IF o.res = "Pending" THEN 1 + o.wk[WIdx(d)] ELSE 0) ELSE @]

-----------------------------------------------------------------------------
(*                          PART 2 - THE MODEL                              *)
(* Stack descriptor S: [name, layers, p, ivec, mode, B]
     layers  outermost first, over the scripted inner stream:
             "T2H"  TokioIo<tokio stream> used through hyper::rt::{Read,Write}
             "H2T"  TokioIo<hyper stream> used through tokio::io::{AsyncRead,AsyncWrite}
             "RW"   Rewind (at most one per stack; p = length of its prefix = bytes 1..p)
             "DISP" a dispatch wrapper (Braid / TlsBraid / client Stream / server Stream):
                    pass-through, poll_write_vectored NOT forwarded (trait default: first non-empty slice)
     ivec    the inner stream's is_write_vectored()
     mode    "script" | "pipe" (in-process duplex, B = buffer size) | "sock" (tcp/unix: as pipe, B large)
   Model state m: [pfx, W, reof, wp, i, pipe, pcl, pw]
     pfx remaining Rewind prefix; W bytes the read direction has been given (prefix + inner hand-outs);
     reof inner EOF (sticky); wp bytes accepted by writes; i ops done;
     pipe[d] content of the pipe of direction d; pcl[d] writer of d shut down; pw[d] bytes accepted;
     rwk[d] / wwk[d] a reader / writer waker is registered; wkc wake counts (as o.wk) *)
MS0(S) == [pfx |-> Run(1, S.p), W |-> S.p, reof |-> FALSE, wp |-> 0, i |-> 0,
           pipe |-> [ab |-> <<>>, ba |-> <<>>], pcl |-> [ab |-> FALSE, ba |-> FALSE], pw |-> [ab |-> 0, ba |-> 0],
           rwk |-> [ab |-> FALSE, ba |-> FALSE], wwk |-> [ab |-> FALSE, ba |-> FALSE], wkc |-> <<0, 0, 0, 0>>]

ErrKind(i) == 1 + (i % 3)        \* 1 ConnectionReset, 2 BrokenPipe, 3 Other - chosen by the op index
Forwards(layer) == layer \in {"T2H", "H2T", "RW"}           \* forwards is_write_vectored / poll_write_vectored
AVec(S) == S.ivec /\ \A j \in 1..Len(S.layers) : Forwards(S.layers[j])

RR0 == [res |-> "Ok", kind |-> 0, bytes |-> <<>>, adv |-> 0, igave |-> <<>>, calls |-> <<>>, eof |-> FALSE, pfx |-> <<>>]

\* the scripted inner stream, read side; `cap` is the unfilled capacity it is given
InnerRead(cap, inj, m) ==
  IF m.reof THEN [RR0 EXCEPT !.calls = <<IF cap > 0 THEN "r.eof" ELSE "r.nil">>]
  ELSE IF inj = "pend" THEN [RR0 EXCEPT !.res = "Pending", !.calls = <<"r.pend">>]
  ELSE IF inj = "err" THEN [RR0 EXCEPT !.res = "Err", !.kind = ErrKind(m.i + 1), !.calls = <<"r.err">>]
  ELSE IF cap = 0 THEN [RR0 EXCEPT !.calls = <<"r.nil">>]
  ELSE IF inj = "eof" THEN [RR0 EXCEPT !.calls = <<"r.eof">>, !.eof = TRUE]
  ELSE LET k == IF inj = "full" THEN cap ELSE IF inj = "s1" THEN MinN(1, cap) ELSE MinN(2, cap)
           b == Run(m.W + 1, m.W + k)
       IN [RR0 EXCEPT !.bytes = b, !.adv = k, !.igave = b, !.calls = <<"r.data">>]

\* a read through the layers; returns what is placed at the start of the given unfilled region
\* (`bytes`), by how much the fill pointer is advanced (`adv`) and the new Rewind prefix
RECURSIVE LRead(_, _, _, _)
LRead(L, cap, inj, m) ==
  IF L = <<>> THEN [InnerRead(cap, inj, m) EXCEPT !.pfx = m.pfx]
  ELSE LET top == Head(L)
           sub == LRead(Tail(L), cap, inj, m)
       IN CASE top = "RW" ->
                 IF m.pfx # <<>>
                 THEN LET n == MinN(Len(m.pfx), cap)
                      IN [RR0 EXCEPT !.bytes = SubSeq(m.pfx, 1, n), !.adv = n,
                                     !.pfx = IF Bug = "dropprefix" THEN <<>> ELSE SubSeq(m.pfx, n + 1, Len(m.pfx))]
                 ELSE sub
            [] top = "T2H" -> IF Bug = "fillcap" /\ sub.res = "Ok" THEN [sub EXCEPT !.adv = cap] ELSE sub
            [] top = "H2T" -> IF Bug = "eofpending" /\ sub.res = "Ok" /\ sub.adv = 0 /\ cap > 0
                              THEN [sub EXCEPT !.res = "Pending"] ELSE sub
            [] OTHER -> sub

ReadStep(S, m, cap, pre, ub, inj) ==
  LET R     == LRead(S.layers, cap, inj, m)
      ok    == R.res = "Ok"
      adv   == IF ok THEN R.adv ELSE 0
      body  == IF ok THEN R.bytes \o Rep(POISON, cap - Len(R.bytes)) ELSE Rep(POISON, cap)
      init0 == IF ub THEN pre ELSE pre + cap
  IN [o |-> [Obs0 EXCEPT !.op = "read", !.cap = cap, !.pre = pre, !.ub = ub, !.inj = inj, !.res = R.res,
                         !.kind = R.kind, !.ikind = IF Has(R.calls, "r.err") THEN ErrKind(m.i + 1) ELSE 0,
                         !.n = adv, !.buf = PreSeq(pre) \o body, !.filled = pre + adv,
                         !.init = MaxN(init0, pre + adv), !.igave = R.igave, !.icalls = R.calls,
                         !.woken = (R.res = "Pending" /\ Has(R.calls, "r.pend")), !.avec = AVec(S)],
      m |-> [m EXCEPT !.pfx = R.pfx, !.W = @ + Len(R.igave), !.reof = @ \/ R.eof, !.i = @ + 1]]

WR0 == [res |-> "Ok", kind |-> 0, n |-> 0, igot |-> <<>>, calls |-> <<>>]
Tag(v, t) == IF v THEN (CASE t = "pend" -> "wv.pend" [] t = "err" -> "wv.err" [] t = "nil" -> "wv.nil"
                          [] t = "eof" -> "wv.eof" [] OTHER -> "wv.data")
             ELSE (CASE t = "pend" -> "w.pend" [] t = "err" -> "w.err" [] t = "nil" -> "w.nil"
                          [] t = "eof" -> "w.eof" [] OTHER -> "w.data")
\* the scripted inner stream, write side; `bytes` is what it is offered in one call (v: vectored call)
InnerWrite(bytes, inj, m, v) ==
  LET L == Len(bytes) IN
  IF inj = "pend" THEN [WR0 EXCEPT !.res = "Pending", !.calls = <<Tag(v, "pend")>>]
  ELSE IF inj = "err" THEN [WR0 EXCEPT !.res = "Err", !.kind = ErrKind(m.i + 1), !.calls = <<Tag(v, "err")>>]
  ELSE IF L = 0 THEN [WR0 EXCEPT !.calls = <<Tag(v, "nil")>>]
  ELSE IF inj = "eof" THEN [WR0 EXCEPT !.calls = <<Tag(v, "eof")>>]
  ELSE LET k == IF inj = "full" THEN L ELSE IF inj = "s1" THEN MinN(1, L) ELSE MinN(2, L)
       IN [WR0 EXCEPT !.n = k, !.igot = SubSeq(bytes, 1, k), !.calls = <<Tag(v, "data")>>]

\* a vectored write through the layers: forwarded down to the inner stream while every layer forwards
\* it; a non-forwarding layer (or a non-vectored inner) degrades to a plain write of the first non-empty slice
RECURSIVE LWritev(_, _, _, _, _)
LWritev(L, lens, inj, m, S) ==
  LET all   == Run(m.wp + 1, m.wp + Sum(lens))
      first == Run(m.wp + 1, m.wp + FirstNE(lens))
  IN IF L = <<>> THEN (IF S.ivec THEN InnerWrite(all, inj, m, TRUE) ELSE InnerWrite(first, inj, m, FALSE))
     ELSE IF ~Forwards(Head(L)) THEN InnerWrite(first, inj, m, FALSE)
     ELSE IF Bug = "vecfirst" /\ Head(L) = "T2H"
          THEN LET w == InnerWrite(first, inj, m, FALSE)
               IN IF w.res = "Ok" THEN [w EXCEPT !.n = Sum(lens)] ELSE w
     ELSE LWritev(Tail(L), lens, inj, m, S)

WriteStep(S, m, lens, vectored, inj) ==
  LET w == IF vectored THEN LWritev(S.layers, lens, inj, m, S)
           ELSE InnerWrite(Run(m.wp + 1, m.wp + Sum(lens)), inj, m, FALSE)     \* every layer passes poll_write through
      ik == IF Has(w.calls, "w.err") \/ Has(w.calls, "wv.err") THEN ErrKind(m.i + 1) ELSE 0
  IN [o |-> [Obs0 EXCEPT !.op = IF vectored THEN "writev" ELSE "write", !.lens = lens, !.inj = inj, !.res = w.res,
                         !.kind = w.kind, !.ikind = ik, !.n = w.n, !.igot = w.igot, !.icalls = w.calls,
                         !.woken = (w.res = "Pending"), !.avec = AVec(S)],
      m |-> [m EXCEPT !.wp = @ + (IF w.res = "Ok" THEN w.n ELSE 0), !.i = @ + 1]]

CtlStep(S, m, op, inj) ==
  LET f   == op = "flush"
      res == IF inj = "pend" THEN "Pending" ELSE IF inj = "err" THEN "Err" ELSE "Ok"
      tag == IF f THEN (CASE res = "Pending" -> "f.pend" [] res = "Err" -> "f.err" [] OTHER -> "f.ok")
             ELSE (CASE res = "Pending" -> "s.pend" [] res = "Err" -> "s.err" [] OTHER -> "s.ok")
      dropped == Bug = "noshutdown" /\ ~f
      k   == IF res = "Err" /\ ~dropped THEN ErrKind(m.i + 1) ELSE 0
  IN [o |-> [Obs0 EXCEPT !.op = op, !.inj = inj, !.res = IF dropped THEN "Ok" ELSE res, !.kind = k, !.ikind = k,
                         !.icalls = IF dropped THEN <<>> ELSE <<tag>>,
                         !.woken = (res = "Pending" /\ ~dropped), !.avec = AVec(S)],
      m |-> [m EXCEPT !.i = @ + 1]]

(* the in-process duplex pipe (tokio::io::duplex behind hyperdriver's DuplexStream and the wrappers
   built from it); the wrappers do not forward vectored writes *)
PipeRead(S, m, d, cap, pre, ub) ==
  LET q     == m.pipe[d]
      k     == MinN(Len(q), cap)
      pend  == q = <<>> /\ ~m.pcl[d]
      init0 == IF ub THEN pre ELSE pre + cap
      adv   == IF pend THEN 0 ELSE k
      wake  == adv > 0 /\ m.wwk[d]                       \* moving bytes out wakes a parked writer
      wkc   == IF wake THEN [m.wkc EXCEPT ![WIdx(d)] = @ + 1] ELSE m.wkc
  IN [o |-> [Obs0 EXCEPT !.op = "read", !.dir = d, !.cap = cap, !.pre = pre, !.ub = ub,
                         !.res = IF pend THEN "Pending" ELSE "Ok", !.n = adv,
                         !.buf = PreSeq(pre) \o SubSeq(q, 1, adv) \o Rep(POISON, cap - adv),
                         !.filled = pre + adv, !.init = MaxN(init0, pre + adv), !.wk = wkc],
      m |-> [m EXCEPT !.pipe[d] = SubSeq(q, adv + 1, Len(q)), !.i = @ + 1, !.wkc = wkc,
                      !.rwk[d] = @ \/ pend, !.wwk[d] = @ /\ ~wake]]

PipeWrite(S, m, d, lens, vectored) ==
  LET L     == IF vectored THEN FirstNE(lens) ELSE Sum(lens)
      avail == S.B - Len(m.pipe[d])
      res   == IF m.pcl[d] THEN "Err" ELSE IF avail = 0 THEN "Pending" ELSE "Ok"
      k     == IF res = "Ok" THEN MinN(L, avail) ELSE 0
      wake  == res = "Ok" /\ m.rwk[d]                    \* an accepted write (even of 0 bytes) wakes a parked reader
      wkc   == IF wake THEN [m.wkc EXCEPT ![RIdx(d)] = @ + 1] ELSE m.wkc
  IN [o |-> [Obs0 EXCEPT !.op = IF vectored THEN "writev" ELSE "write", !.dir = d, !.lens = lens, !.res = res,
                         !.kind = IF res = "Err" THEN 2 ELSE 0, !.n = k, !.wk = wkc],
      m |-> [m EXCEPT !.pipe[d] = @ \o Run(m.pw[d] + 1, m.pw[d] + k), !.pw[d] = @ + k, !.i = @ + 1,
                      !.wkc = wkc, !.rwk[d] = @ /\ ~wake, !.wwk[d] = @ \/ res = "Pending"]]

PipeCtl(S, m, d, op) ==
  LET wake == op = "shutdown" /\ m.rwk[d]
      wkc  == IF wake THEN [m.wkc EXCEPT ![RIdx(d)] = @ + 1] ELSE m.wkc
  IN [o |-> [Obs0 EXCEPT !.op = op, !.dir = d, !.wk = wkc],
      m |-> [m EXCEPT !.pcl[d] = @ \/ op = "shutdown", !.i = @ + 1, !.wkc = wkc, !.rwk[d] = @ /\ ~wake]]

(* one step of the model for an op given by its inputs (the fields op,dir,cap,pre,ub,lens,inj of a record) *)
Step(S, m, in) ==
  IF S.mode = "script" THEN
     CASE in.op = "read"   -> ReadStep(S, m, in.cap, in.pre, in.ub, in.inj)
       [] in.op = "write"  -> WriteStep(S, m, in.lens, FALSE, in.inj)
       [] in.op = "writev" -> WriteStep(S, m, in.lens, TRUE, in.inj)
       [] OTHER            -> CtlStep(S, m, in.op, in.inj)
  ELSE
     CASE in.op = "read"   -> PipeRead(S, m, in.dir, in.cap, in.pre, in.ub)
       [] in.op = "write"  -> PipeWrite(S, m, in.dir, in.lens, FALSE)
       [] in.op = "writev" -> PipeWrite(S, m, in.dir, in.lens, TRUE)
       [] OTHER            -> PipeCtl(S, m, in.dir, in.op)

-----------------------------------------------------------------------------
(*                       PART 3 - BEHAVIOURS                                *)
In0 == [op |-> "none", dir |-> "ab", cap |-> 0, pre |-> 0, ub |-> FALSE, lens |-> <<>>, inj |-> "full"]
NoEv == [o |-> Obs0, r |-> Ref0([p |-> 0])]

Init == /\ stack \in Stacks
        /\ ms = MS0(stack)
        /\ ref = Ref0(stack)
        /\ bad = {}
        /\ ev = NoEv
        /\ hist = <<>>

\* One operation.  The clauses of the property are evaluated on the observation of the step and the
\* reference state before it; `bad` is the set of clause names that are false.  The observation itself
\* is kept in the state only when some clause failed (it is then the counterexample), so that states
\* which differ in nothing but the last observation are merged (57 M -> 2.5 M generated for length 5).
DoH(in, h) == LET st == Step(stack, ms, in) IN
          /\ ms.i < MaxSteps
          /\ ms' = st.m
          /\ bad' = Failing(stack.mode, ref, st.o)
          /\ ev' = IF bad' = {} THEN NoEv ELSE [o |-> st.o, r |-> ref]
          /\ ref' = RefNext(stack.mode, ref, st.o)
          /\ hist' = h
          /\ UNCHANGED stack
Do(in) == DoH(in, Append(hist, in))

DirsOf(S) == IF S.mode = "script" THEN {"ab"} ELSE {"ab", "ba"}
InjR(S) == IF S.mode = "script" THEN RInj ELSE {"full"}
InjW(S) == IF S.mode = "script" THEN WInj ELSE {"full"}
InjC(S) == IF S.mode = "script" THEN CInj ELSE {"full"}

Read     == \E d \in DirsOf(stack), c \in ReadCaps, p \in ReadPres, u \in UBs, j \in InjR(stack) :
               Do([In0 EXCEPT !.op = "read", !.dir = d, !.cap = c, !.pre = p, !.ub = u, !.inj = j])
Write    == \E d \in DirsOf(stack), n \in WriteLens, j \in InjW(stack) :
               Do([In0 EXCEPT !.op = "write", !.dir = d, !.lens = <<n>>, !.inj = j])
WriteV   == \E d \in DirsOf(stack), v \in VecLens, j \in InjW(stack) :
               Do([In0 EXCEPT !.op = "writev", !.dir = d, !.lens = v, !.inj = j])
Flush    == \E d \in DirsOf(stack), j \in InjC(stack) : Do([In0 EXCEPT !.op = "flush", !.dir = d, !.inj = j])
Shutdown == \E d \in DirsOf(stack), j \in InjC(stack) : Do([In0 EXCEPT !.op = "shutdown", !.dir = d, !.inj = j])

Next == Read \/ Write \/ WriteV \/ Flush \/ Shutdown
Spec == Init /\ [][Next]_vars

(* the property as invariants of the model: one per clause, so that TLC names the clause *)
I_NoPanic      == "NoPanic" \notin bad
I_NoStall      == "NoStall" \notin bad
I_R_Prefill    == "R_Prefill" \notin bad
I_R_Bounds     == "R_Bounds" \notin bad
I_R_NoEffect   == "R_NoEffect" \notin bad
I_R_Next       == "R_Next" \notin bad
I_R_EofReal    == "R_EofReal" \notin bad
I_W_Ret        == "W_Ret" \notin bad
I_S_R_PendReal == "S_R_PendReal" \notin bad
I_S_R_PendProp == "S_R_PendProp" \notin bad
I_S_R_EofProp  == "S_R_EofProp" \notin bad
I_S_R_ErrReal  == "S_R_ErrReal" \notin bad
I_S_R_ErrProp  == "S_R_ErrProp" \notin bad
I_S_W_Exact    == "S_W_Exact" \notin bad
I_S_W_NoEffect == "S_W_NoEffect" \notin bad
I_S_W_PendReal == "S_W_PendReal" \notin bad
I_S_W_ZeroReal == "S_W_ZeroReal" \notin bad
I_S_W_ErrReal  == "S_W_ErrReal" \notin bad
I_S_W_Prop     == "S_W_Prop" \notin bad
I_S_NoCross    == "S_NoCross" \notin bad
I_S_Ctl        == "S_Ctl" \notin bad
I_P_NoErrRead  == "P_NoErrRead" \notin bad
I_P_WErrReal   == "P_WErrReal" \notin bad
I_P_Ctl        == "P_Ctl" \notin bad
I_P_PendReal   == "P_PendReal" \notin bad
I_P_Wake       == "P_Wake" \notin bad
I_Holds        == bad = {}

\* the reference FIFO, globally: delivered is a prefix of written (counters; the contents are pinned
\* by R_Next; "equal at EOF" is the second conjunct of R_EofReal)
I_Fifo == \A d \in {"ab", "ba"} : ref.rp[d] <= ref.W[d]
\* model sanity: the model's own counters agree with the reference recomputed from the observations
I_ModelRef == IF stack.mode = "script"
              THEN ms.W = ref.W["ab"] /\ ms.wp = ref.wp /\ ms.reof = ref.cl["ab"]
              ELSE \A d \in {"ab", "ba"} : ms.pw[d] = ref.W[d] /\ Len(ms.pipe[d]) = ref.W[d] - ref.rp[d]

=============================================================================
