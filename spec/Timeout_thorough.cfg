CONSTANTS
  NReq = 2
  NOrig = 1
  MaxDial = 2
  MaxTick = 0
  AsBuilt = {}
  Caps = {TRUE, FALSE}
  MaxIdles = {1}
  IdleTimeouts = {0}
  Protos = {TRUE, FALSE}
  Faults <- DialFaults
  Spurious = FALSE
  AllowDrop = FALSE
  Durs <- Durs013
  MaxT = 4
  RespFaults = TRUE
  PreResp = TRUE
  Probe = FALSE
  AsBuiltT <- NoT
INIT TInit
NEXT TNext
VIEW TView
INVARIANTS TTypeOK TypeOK C19NotEarly C19InnerFirst C19ByDeadline TimerWakes C19Unchanged C19TimeoutOnlyIfPending C19Dropped NoOrphan PureHasOwner MarkerHasOwner C02state HandleUnique
PROPERTIES C19Deadline C19NoLater
CHECK_DEADLOCK FALSE
