---------------------------- MODULE MC_Pipeline ----------------------------
(* Model-checking instance of Pipeline.tla: the vector sets (request grammar, configuration x history       *)
(* neighbourhoods, seeded sample of the full product), vector generation and the as-built prediction.        *)
EXTENDS Pipeline, Json

CONSTANTS NbK,       \* radius of the neighbourhoods: every vector that differs from a centre in at most NbK dimensions
          SampleN    \* number of vectors drawn from the full product request x configuration x history

\* ---- neighbourhoods -----------------------------------------------------------------------------------------------
\* The full product of the 19 dimensions (7.2 * 10^10 combinations before normalisation, times 2 builds; the check
\* computes the number from DIMS) is far too large to execute. Stratification: around each centre every combination of values in up to NbK dimensions, all
\* other dimensions at the centre's value (NbK = 2: all pairs of classes; NbK = 3: all triples). The centres are the
\* ordinary first request through the Client, the same as second request on the idle connection of the first, both
\* of these over the real TCP transport on loopback, and a TLS request issued while the previous one is in flight.
Centres == {Centre,
            [Centre EXCEPT !.hist = "idle"],
            [Centre EXCEPT !.net = "tcp", !.host = "v4"],
            [Centre EXCEPT !.net = "tcp", !.host = "v4", !.hist = "idle"],
            [Centre EXCEPT !.uri = "https", !.transport = "tls", !.hist = "inflight"]}
DimVals == UNION {{<<d, a>> : a \in Dom[d]} : d \in Dims}
Dev1(S) == {[c EXCEPT ![dv[1]] = dv[2]] : c \in S, dv \in DimVals}      \* includes S (a value may be the centre's)
RECURSIVE Dev(_, _)
Dev(k, S) == IF k = 0 THEN S ELSE Dev(k - 1, Dev1(S))
NbVectors == {[Norm(x) EXCEPT !.da = b] : x \in Dev(NbK, Centres), b \in BOOLEAN}

\* ---- sample of the full product ------------------------------------------------------------------------------------
\* every dimension drawn independently and uniformly (TLC's RandomElement, reproducible under -seed), then normalised
Sampled == {Norm([d \in Fields |-> IF d = "da" THEN RandomElement(BOOLEAN) ELSE RandomElement(Dom[d])]) : i \in 1..SampleN}

MCInitVectors == BaseFull \cup NbVectors \cup Sampled
\* scenario vectors only (development, replay of a family)
MCInitScenario == NbVectors \cup Sampled

\* one line per terminal state: (vector, transcription, allowed outcome classes, deciding stage, re-use)
Gen == Done => PrintT(<<"VEC", ToJson([v |-> v, asBuilt |-> asBuilt, exp |-> out])>>)

\* the payload classes crossed onto every vector by the generator, and the dimensions with their classes
ASSUME PrintT(<<"PAYLOADS", ToJson(Payloads)>>)
ASSUME PrintT(<<"DIMS", ToJson([dom |-> Dom, centre |-> Centre])>>)

\* prediction from the as-built transcription (always TRUE: a report, one ABBAD line per panicking terminal state)
AsBuiltReport == AB => ((P_NoPanic(v, ModelObs) /\ P_NoStall(v, ModelObs)) \/ PrintT(<<"ABBAD", ToJson([v |-> v, stage |-> out.stage])>>))
AsBuiltHolds == AB_NoPanic
=============================================================================
