---------------------------- MODULE MC_Pipeline ----------------------------
(* Model-checking instance of Pipeline.tla: vector generation and the as-built prediction. *)
EXTENDS Pipeline, Json

\* one line per terminal state: (vector, transcription, allowed outcome classes, deciding stage)
Gen == Done => PrintT(<<"VEC", ToJson([v |-> v, asBuilt |-> asBuilt, exp |-> out])>>)

\* the payload classes crossed onto every vector by the generator
ASSUME PrintT(<<"PAYLOADS", ToJson(Payloads)>>)

\* prediction from the as-built transcription (always TRUE: a report, one ABBAD line per panicking terminal state)
AsBuiltReport == AB => (P_NoPanic(v, ModelObs) \/ PrintT(<<"ABBAD", ToJson([v |-> v, stage |-> out.stage])>>))
AsBuiltHolds == AB_NoPanic
=============================================================================
