---------------------------- MODULE TlsRouteObs ----------------------------
(***************************************************************************)
(* C12 property monitor over records taken from the REAL code (harness bin *)
(* `tlsroute`): one record per (vector, concrete spelling) with what the    *)
(* caller got and what the raw peer saw.  Every record is one initial       *)
(* state; the observation is mapped into the vocabulary of TlsRoute.tla and *)
(* the property clauses P_xxx of TlsRoute.tla -- the very formulas TLC      *)
(* checks on the model -- are evaluated on it.  This module decides         *)
(* VIOLATION.  Two configurations:                                         *)
(*   TlsRouteObs.cfg         report mode: invariants are always TRUE, each   *)
(*                           clause TLC evaluates to FALSE prints a BAD line *)
(*   TlsRouteObs_strict.cfg  the clauses are the INVARIANTs (used by replay) *)
(* Differences between the real outcome and the model's expected outcome    *)
(* that falsify no clause are DRIFT (DIFF lines), never a violation.        *)
(***************************************************************************)
EXTENDS TlsRoute, Json, IOUtils

Rec == ndJsonDeserialize(IOEnv.TRACE)
N == Len(Rec)

VARIABLE l

R == Rec[l]
X == [via |-> R.v.via, wrapper |-> R.v.wrapper, scheme |-> R.v.scheme, scase |-> R.v.scase, host |-> R.v.host,
      port |-> R.v.port, cert |-> R.v.cert, calpn |-> R.v.calpn, salpn |-> R.v.salpn, fault |-> R.v.fault,
      prev |-> R.v.prev, hist |-> R.v.hist, wiring |-> R.v.wiring]

Range(s) == {s[i] : i \in DOMAIN s}
\* a concrete server name in the vocabulary of the model, relative to the host the harness put into the URI
AbsSni(n)    == IF n = "absent" THEN "absent" ELSE IF R.sp.hostName # "" /\ n = R.sp.hostName THEN "host" ELSE "wrong"
AbsVerify(n) == IF n = R.sp.expVerify THEN "host" ELSE "wrong"

O == [result     |-> IF R.obs.result \in {"ok", "error", "panic"} THEN R.obs.result ELSE "none",
      firsts     |-> (IF R.obs.tlsFirst THEN {"tls"} ELSE {}) \cup (IF R.obs.plainFirst THEN {"plain"} ELSE {}),
      carrier    |-> R.obs.carrier,
      leak       |-> R.obs.markerRaw,
      snis       |-> {AbsSni(n) : n \in Range(R.obs.snis)},
      verifies   |-> {AbsVerify(n) : n \in Range(R.obs.verified)},
      clientTls  |-> R.obs.clientTls,
      shared     |-> R.obs.sharedPrev,
      peerHs     |-> R.obs.peerHs,
      taskPanics |-> R.obs.taskPanics]

\* firsts / snis / peerHs are taken over the connections that carried the request under test or were opened for
\* it (the previous request's own connection counts only if the request under test travelled on it)
ObsInit == /\ l \in 1..N
           /\ v = X /\ asBuilt = FALSE /\ pc = "done" /\ out = O
ObsNext == UNCHANGED <<l, vars>>

\* tool sanity: the record lies inside the domain the spec enumerates
WellFormed == /\ v \in Vectors
              /\ out.carrier \in {"tls", "plain", "none"}
              /\ out.clientTls \in {"yes", "no", "na"}
              /\ out.leak \in BOOLEAN /\ out.peerHs \in BOOLEAN /\ out.taskPanics \in Nat /\ out.shared \in BOOLEAN
              /\ (v.prev # "none" => R.obs.prevResult = "ok")      \* the history really happened

Bad(c) == PrintT(<<"BAD", ToJson([i |-> l, clause |-> c])>>)

\* ---- report mode ---------------------------------------------------------------------------------
R_NoClear         == P_NoClear(v, out) \/ Bad("NoClear")
R_Established     == P_Established(v, out) \/ Bad("Established")
R_Name            == P_Name(v, out) \/ Bad("Name")
R_FailIsError     == P_FailIsError(v, out) \/ Bad("FailIsError")
R_OtherNotWrapped == P_OtherNotWrapped(v, out) \/ Bad("OtherNotWrapped")
R_Outcome         == P_Outcome(v, out) \/ Bad("Outcome")
R_PoolClass       == P_PoolClass(v, out) \/ Bad("PoolClass")

\* ---- strict mode: the property itself ---------------------------------------------------------------
C12_NoClear         == P_NoClear(v, out)
C12_Established     == P_Established(v, out)
C12_Name            == P_Name(v, out)
C12_FailIsError     == P_FailIsError(v, out)
C12_OtherNotWrapped == P_OtherNotWrapped(v, out)
C12_Outcome         == P_Outcome(v, out)
C12_PoolClass       == P_PoolClass(v, out)

\* ---- conformance (DRIFT only) -------------------------------------------------------------------------
\* R.exp / R.expAsBuilt are the outcomes TLC computed on TlsRoute.tla for this vector
Same(e) == /\ e.class = Class(out)
           /\ Range(e.firsts) = out.firsts
           /\ e.carrier = out.carrier
           /\ (v.host = "odd" \/ (Range(e.snis) = out.snis /\ Range(e.verifies) = out.verifies))
           /\ e.peerHs = out.peerHs
           /\ e.shared = out.shared
ObsDrift == /\ (Same(R.exp) \/ PrintT(<<"DIFFI", ToJson([i |-> l])>>))
            /\ (Same(R.expAsBuilt) \/ PrintT(<<"DIFFA", ToJson([i |-> l])>>))

Consumed == PrintT(<<"CONSUMED", TLCGet("stats").distinct, N>>) /\ TLCGet("stats").distinct = N
=============================================================================
