CONSTANTS
  N = 3
  Grid <- cUnusedSet
  Delays <- cUnusedSet
  Timeouts <- cUnusedSet
  Concs <- cUnusedSet
  TimeoutWholeSet = TRUE
  WrongDefaultPort = FALSE
  SwallowResolverError = FALSE
  DetachedCall = FALSE
  WsDefaults = FALSE
INIT InitVariants
NEXT CallNext
INVARIANTS CallC10Inv CallC11Inv CallC17Inv CancelInv
CHECK_DEADLOCK FALSE
