SPECIFICATION Spec
CONSTANTS
  NCalls = 3
  Kinds <- KSvc
  Vers <- V11
  Spurious = FALSE
  MaxGen = 0
  AllowDrop = TRUE
  Look = 1
  WithSvc = FALSE
  Variant = "ok"
VIEW View
INVARIANTS TypeOK K2_Once K2_Order K2_Args K3_NoLostWake K4_Dropped
PROPERTIES K1_Result K4_Quiet K5_Indep
CHECK_DEADLOCK FALSE
