----------------------------- MODULE MC_Duplex -----------------------------
(* Model-checking instance of Duplex.tla: constant values and the VIEW that hides the last event.         *)
(* (Generation of behaviours: MC_DuplexGen.tla.)                                                           *)
EXTENDS Duplex, Json

CONSTANTS NActive      \* generation: clients 1..NActive act freely, the others are "fillers" (MC_DuplexGen)

B12 == {1, 2}
B123 == {1, 2, 3}
B2 == {2}
B13 == {1, 3}
L0 == {0}
L01 == {0, 1}
L02 == {0, 2}
L012 == {0, 1, 2}
W1 == {1}
W12 == {1, 2}
W012 == {0, 1, 2}
W0123 == {0, 1, 2, 3}
R1 == {1}
R12 == {1, 2}
R012 == {0, 1, 2}
R013 == {0, 1, 3}
R13 == {1, 3}
NoData == {}
Data1 == {1}
Data12 == {1, 2}
DataAll == Clients
DataActive == 1..NActive

\* the model-checking configs do not distinguish states by the last event
View == <<handles, lst, lbuf, lneed, lw, cst, cB, cw, ack, cend, sem, permits, q, acc, pipe, spare>>

=============================================================================
