------------------------------ MODULE SniffObs ------------------------------
(***************************************************************************)
(* Property monitor for C08 over observations recorded from the REAL crate *)
(* by harness/src/bin/sniff.rs (ndjson, IOEnv.TRACE).                      *)
(*                                                                         *)
(* Every record is loaded into the variables of Sniff.tla (the stream      *)
(* class, the protocol the real server spoke, what the real handler saw,   *)
(* what the client was answered, the single-protocol server's answer) and  *)
(* the C08 formulas of Sniff.tla -- C08Decision, C08Bytes, C08Answer, the  *)
(* very same definitions the model is checked against -- are evaluated on  *)
(* it as invariants. A false formula is reported (PrintT "FAIL") instead   *)
(* of stopping TLC, so that one run lists every failing record; the check  *)
(* alarms exactly on those lines. Nothing but the property is constrained: *)
(* a difference from the model that keeps the formulas true is DRIFT       *)
(* (PrintT "DRIFT"), never a violation.                                    *)
(*                                                                         *)
(* Record kinds:                                                           *)
(*  conn   one stream class x (a set of) chunkings through a real entry    *)
(*         point of the auto-detecting server. head = the first <= 24      *)
(*         bytes the client sent (m is computed here, by Lcp), proto =     *)
(*         protocol observed on the wire, saw / sent = what the service    *)
(*         handler saw behind the auto server / behind the single-protocol *)
(*         hyper server fed the same bytes unfragmented, ans = the client- *)
(*         visible answer, ref = the answers the single-protocol server    *)
(*         gives to the same bytes (unfragmented and under every chunking  *)
(*         with <= 2 cuts and one byte at a time: hyper's own answer to    *)
(*         some malformed streams depends on the fragmentation). g=1: a group of n vectors     *)
(*         with identical observation (the formulas do not read the        *)
(*         chunking); g=0: one vector, with its IO script and the reads    *)
(*         the real code issued.                                           *)
(*  rewind hyperdriver::verif::Rewind driven directly: saw / sent are the  *)
(*         byte sequences; no protocol decision is involved.               *)
(*  cancel, summary: not property-relevant here (skipped).                 *)
(***************************************************************************)
EXTENDS Sniff, Json, IOUtils

Rec == ndJsonDeserialize(IOEnv.TRACE)
N == Len(Rec)

VARIABLE l      \* index of the record currently loaded (0: none yet)

Has(r, f) == f \in DOMAIN r
Relevant(r) == r.k \in {"conn", "rewind"}

Load(r) ==
    IF r.k = "conn"
    THEN /\ m' = Lcp(r.head) /\ len' = r.len /\ eof' = r.eof
         /\ version' = r.proto /\ saw' = r.saw /\ sent' = r.sent
         /\ answer' = r.ans /\ ref' = {r.ref[i] : i \in 1..Len(r.ref)}
         /\ pc' = "done"
    ELSE IF r.k = "rewind"
    THEN \* no decision is observed in these runs: m, version are set so that DecisionOK is trivially true;
         \* the answer is the bytes themselves
         /\ m' = 0 /\ version' = "h1" /\ len' = r.len /\ eof' = TRUE
         /\ saw' = r.saw /\ sent' = r.sent
         /\ answer' = Respond("h1", r.saw) /\ ref' = {Respond("h1", r.sent)}
         /\ pc' = "done"
    ELSE /\ pc' = "sniff"                       \* formulas are conditional on pc: nothing is claimed
         /\ UNCHANGED <<m, len, eof, version, saw, sent, answer, ref>>

ObsInit ==
    /\ l = 0
    /\ m = 0 /\ len = 0 /\ eof = TRUE /\ ones = FALSE /\ sent = <<>> /\ ref = {}
    /\ arrived = 0 /\ chunkLeft = 0 /\ cuts = 0 /\ pendOk = TRUE
    /\ pc = "sniff" /\ susp = TRUE /\ cancelled = FALSE /\ filled = 0 /\ version = "h2"
    /\ prefix = 0 /\ rpos = 0 /\ saw = <<>> /\ answer = <<>> /\ hist = <<>>

ObsNext ==
    /\ l < N
    /\ l' = l + 1
    /\ Load(Rec[l + 1])
    /\ UNCHANGED <<ones, arrived, chunkLeft, cuts, pendOk, susp, cancelled, filled, prefix, rpos, hist>>

ObsSpec == ObsInit /\ [][ObsNext]_<<vars, l>>

-----------------------------------------------------------------------------
(* The property: the formulas of Sniff.tla on the loaded observation. *)
Report(clause) == PrintT(<<"FAIL", ToJson([l |-> l, clause |-> clause])>>)
MonDecision == C08Decision \/ Report("decision")
MonBytes    == C08Bytes    \/ Report("bytes")
MonAnswer   == C08Answer   \/ Report("answer")

(* strict variant (stops at the first failing record; used by the replay command) *)
StrictC08 == C08Decision /\ C08Bytes /\ C08Answer

-----------------------------------------------------------------------------
(* Conformance with the model (DRIFT only). For single-vector records the reads the real sniffer issued *)
(* are compared with SniffFn on the same IO script: the capacities offered while sniffing, and the      *)
(* decision where it is visible on the wire.                                                           *)
Take(s, n) == [i \in 1..Min(n, Len(s)) |-> s[i]]
Conforms(r) ==
    IF r.k = "conn" /\ Has(r, "io") /\ Has(r, "caps")
    THEN LET f == SniffFn(Lcp(r.head), r.io, 0, <<>>)
         IN  /\ Take(r.caps, Len(f.caps)) = Take(f.caps, Len(r.caps))
             /\ (r.proto \in {"h1", "h2"} => r.proto = f.proto)
    ELSE TRUE
MonConforms == l = 0 \/ Conforms(Rec[l]) \/ PrintT(<<"DRIFT", ToJson([l |-> l])>>)

(* the whole trace was consumed *)
Consumed == l = N => PrintT(<<"CONSUMED", ToJson([n |-> N, relevant |-> Cardinality({i \in 1..N : Relevant(Rec[i])})])>>)

=============================================================================
