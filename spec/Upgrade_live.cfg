\* Upgrade liveness: both upgrade futures resolve, every request completes, tunnel bytes drain (fair system, every gate opens eventually)
SPECIFICATION FairSpec
CONSTANTS
  KindVecs <- VecsLive
  MaxConn = 3
  Server = "auto"
  Client = "pool"
  HL = 2
  SniffMax = 3
  MaxW = 2
  WSizes <- W12
  MaxEnv = 1
  HoldSets <- Hold01
  DHoldSets <- DHold1
  AllowShutdown = TRUE
  AllowDrop = FALSE
  Quiescent = FALSE
  Bug = "none"
PROPERTIES
  U5_OnResolves U5_Completes U5_TunnelDrains
