CONSTANTS
  NReq = 3
  NOrig = 1
  MaxDial = 3
  MaxTick = 0
  AsBuilt = {}
  Caps = {TRUE, FALSE}
  MaxIdles = {1, 2}
  IdleTimeouts = {0}
  Protos = {TRUE, FALSE}
  Faults <- SomeFaults
  Spurious = FALSE
  AllowDrop = FALSE
  Durs <- Durs013
  MaxT = 6
  RespFaults = TRUE
  PreResp = TRUE
  Probe = FALSE
  AsBuiltT <- NoT
INIT TInit
NEXT TNext
INVARIANTS TTypeOK TypeOK C19NotEarly C19InnerFirst C19ByDeadline TimerWakes C19Unchanged C19TimeoutOnlyIfPending C19Dropped NoOrphan PureHasOwner MarkerHasOwner C02state HandleUnique
PROPERTIES C19Deadline C19NoLater
CHECK_DEADLOCK FALSE
