\* body monitor: the clauses of Body.tla, the layer clauses and the end-to-end clauses over recorded real observations
SPECIFICATION Spec
INVARIANTS Sane Report
POSTCONDITION Consumed
CHECK_DEADLOCK FALSE
