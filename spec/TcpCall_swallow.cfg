CONSTANTS
  N = 3
  Grid <- cUnusedSet
  Delays <- cUnusedSet
  Timeouts <- cUnusedSet
  Concs <- cUnusedSet
  TimeoutWholeSet = FALSE
  WrongDefaultPort = FALSE
  SwallowResolverError = TRUE
  DetachedCall = FALSE
  WsDefaults = FALSE
INIT InitVariants
NEXT CallNext
INVARIANTS CallC10Inv CallC11Inv CallC17Inv CancelInv
CHECK_DEADLOCK FALSE
