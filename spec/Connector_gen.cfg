CONSTANTS
  NCalls = 3
  Kinds <- KBoth
  Vers <- VAll
  Spurious = TRUE
  MaxGen = 2
  AllowDrop = TRUE
  Look = 4
  WithSvc = TRUE
  Variant = "ok"
  GenDepth = 30
  MaxCancel = 1
INIT InitH
NEXT GenNext
INVARIANT Emit
CHECK_DEADLOCK FALSE
