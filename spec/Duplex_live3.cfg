SPECIFICATION Spec
CONSTANTS
  NCli = 3
  Cap = 1
  MaxHandles = 1
  BufSizes <- B2
  LBufs <- L0
  MaxBytes = 1
  WriteLens <- W1
  ReadCaps <- R1
  DataClients <- NoData
  Spurious = FALSE
  Variant = "ok"
  NActive = 3
INVARIANTS TypeOK
PROPERTIES P5
CHECK_DEADLOCK FALSE
