SPECIFICATION Spec
CONSTANTS
  NCalls = 1
  Kinds <- KBoth
  Vers <- V11_2_3
  Spurious = TRUE
  MaxGen = 1
  AllowDrop = TRUE
  Look = 4
  WithSvc = FALSE
  Variant = "no_rereg"
VIEW View
CONSTRAINT Bound
INVARIANTS TypeOK K3_NoLostWake
CHECK_DEADLOCK FALSE
