SPECIFICATION FairSpec
CONSTANTS
  NCalls = 1
  Kinds <- KBoth
  Vers <- V11_2_3
  Spurious = TRUE
  MaxGen = 1
  AllowDrop = FALSE
  Look = 4
  WithSvc = FALSE
  Variant = "ok"
INVARIANTS TypeOK
PROPERTIES K1_Live
CHECK_DEADLOCK FALSE
