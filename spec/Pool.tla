-------------------------------- MODULE Pool --------------------------------
(***************************************************************************)
(* The client connection pool of hyperdriver                                *)
(*   src/client/pool/mod.rs      Pool::checkout, PoolInner::{push,pop,      *)
(*                               cancel_connection}, Pooled::drop, WhenReady *)
(*   src/client/pool/checkout.rs Checkout::poll, Waiting::poll, PinnedDrop, *)
(*                               register_connected, as_delayed              *)
(*   src/client/pool/idle.rs     IdleConnections::pop                        *)
(*   src/client/pool/service.rs  ConnectionPoolService::call, ResponseFuture *)
(*                                                                          *)
(* One action per lock-protected section or per call of Future::poll.  The  *)
(* environment (transport, protocol handshake, peer, executor, clock) is    *)
(* explicit: every future the pool awaits is a gate the environment opens.  *)
(*                                                                          *)
(* AsBuilt selects deviations of the pinned tree from the intended design   *)
(* (DESIGN.md section 5):                                                    *)
(*   D1  Waiting::poll drops the receiver of an own-attempt waiter at its   *)
(*       first Pending poll                                                  *)
(*   D2  pure waiters are not released when the owner of the attempt fails  *)
(*   D3  max_idle_per_host is not enforced                                   *)
(*   D4  every dropped checkout clears the `connecting` marker              *)
(*   D5  pop removes an HTTP/2 idle handle until the popping request is     *)
(*       first polled                                                        *)
(*   D11 a checkout dropped before its first poll drops a pre-popped idle   *)
(*       connection                                                          *)
(*   D13 push clears the marker for a non-shareable hand-back               *)
(*   D17 a checkout told to wait for another checkout's attempt has no      *)
(*       connector of its own: when released it fails with Unavailable      *)
(* With AsBuilt = {} the specification describes the repaired code.         *)
(***************************************************************************)
EXTENDS Naturals, Sequences, FiniteSets, TLC

CONSTANTS NReq,        \* request slots 1..NReq
          NOrig,       \* origins 1..NOrig (pool keys)
          MaxDial,     \* bound on Transport::connect calls
          MaxTick,     \* bound on clock ticks (0: no Tick action)
          AsBuilt,     \* subset of {"D1","D2","D3","D4","D5","D11","D13"}
          Caps,        \* values of continue_after_preemption to explore
          MaxIdles,    \* values of max_idle_per_host to explore
          IdleTimeouts,\* subset of 0..3: 0 None, 1 Some(0), 2 small (a Tick exceeds it), 3 large
          Protos,      \* subset of BOOLEAN: TRUE = HTTP/2 requests, FALSE = HTTP/1.1
          Faults,      \* subset of {"connect","handshake","close","upgrade"}: environment faults enabled
          Spurious,    \* BOOLEAN: executor may re-poll a request that was not woken
          AllowDrop    \* BOOLEAN: pool absence is explored: the last Pool clone may be dropped while requests are
                       \* outstanding, and the service may be configured without a pool (`without_pool`: cfg.nopool)

Req     == 1..NReq
Origins == 1..NOrig
Dial    == 1..MaxDial          \* a connection has the id of the dial that created it
NoH     == [c |-> 0, z |-> FALSE]

VARIABLES cfg,          \* [cap, maxIdle, it, alive, nopool]  pool configuration; alive = some Pool clone still exists (PoolRef is
                        \* weak); nopool = ConnectionPoolService::without_pool (every checkout is detached; alive is FALSE throughout)
          connecting,   \* SUBSET Origins                      PoolInner.connecting
          waiting,      \* [Origins -> Seq(Req)]               PoolInner.waiting (senders, by checkout id)
          idle,         \* [Origins -> Seq([c, z, at])]        PoolInner.idle, top of the stack = last
          chan,         \* [Req -> [st, h]]                    the oneshot between waiting and Checkout.waiter
          co,           \* [Req -> checkout record]            Checkout
          gc, gh,       \* [Dial -> {"none","ok","fail"}]      transport / handshake gates
          dl,           \* [Dial -> [o, h2, r]]                the dial: origin, protocol, request that started it
          conn,         \* [Dial -> [st, o, h2, busy, up]]     st in {"none","open","closed"}
          held,         \* [Req -> Handle]                     Pooled held by the inner service
          wr,           \* set of handles parked in WhenReady tasks
          req,          \* [Req -> [st, o, h2, stale]]   stale: connections already closed when the request was issued
          woken, polled,\* [Req -> BOOLEAN]                    executor view of the request future
          rxw,          \* [Req -> BOOLEAN]                    the receiver has a registered waker
          dw,           \* [Dial -> 0..NReq]                   request whose waker a gate holds (0: a background task)
          ndial, now,
          ev            \* the step just taken (action name and arguments)

vars == <<cfg, connecting, waiting, idle, chan, co, gc, gh, dl, conn, held, wr, req, woken, polled, rxw, dw, ndial, now, ev>>

NoCo == [st |-> "none", o |-> 1, waiter |-> "NoPool", inner |-> "Done", h |-> NoH, d |-> 0, owner |-> FALSE, pure |-> FALSE, standby |-> FALSE, fin |-> "none"]
NoEv == [e |-> "Init", r |-> 0, c |-> 0, d |-> 0, o |-> 0, h2 |-> FALSE, ok |-> FALSE, kind |-> "", stage |-> ""]
Ev(e) == [NoEv EXCEPT !.e = e]

Has(x) == x \in AsBuilt

\* HttpConnection::is_open = is_ready: open, not busy, not taken over by an upgrade
IsOpen(c) == conn[c].st = "open" /\ ~conn[c].busy /\ ~conn[c].up

Init ==
  /\ \E np \in (IF AllowDrop THEN BOOLEAN ELSE {FALSE}) :
        cfg \in [cap : Caps, maxIdle : MaxIdles, it : IdleTimeouts, alive : {~np}, nopool : {np}]
  /\ connecting = {}
  /\ waiting = [o \in Origins |-> <<>>]
  /\ idle = [o \in Origins |-> <<>>]
  /\ chan = [r \in Req |-> [st |-> "none", h |-> NoH]]
  /\ co = [r \in Req |-> NoCo]
  /\ gc = [d \in Dial |-> "none"] /\ gh = [d \in Dial |-> "none"]
  /\ dl = [d \in Dial |-> [o |-> 1, h2 |-> FALSE, r |-> 0]]
  /\ conn = [d \in Dial |-> [st |-> "none", o |-> 1, h2 |-> FALSE, busy |-> FALSE, up |-> FALSE]]
  /\ held = [r \in Req |-> NoH]
  /\ wr = {}
  /\ req = [r \in Req |-> [st |-> "new", o |-> 1, h2 |-> FALSE, stale |-> {}]]
  /\ woken = [r \in Req |-> FALSE] /\ polled = [r \in Req |-> FALSE] /\ rxw = [r \in Req |-> FALSE]
  /\ dw = [d \in Dial |-> 0]
  /\ ndial = 0 /\ now = 0
  /\ ev = NoEv

-----------------------------------------------------------------------------
(* The lock-protected pool state is threaded through pure operators as a     *)
(* record p = [cn, wt, id, ch, wr, wk]: connecting, waiting, idle, channels, *)
(* WhenReady tasks, requests woken so far in this step.                      *)
PS == [cn |-> connecting, wt |-> waiting, id |-> idle, ch |-> chan, wr |-> wr, wk |-> {}]
Commit(p) == /\ connecting' = p.cn /\ waiting' = p.wt /\ idle' = p.id /\ chan' = p.ch /\ wr' = p.wr
Wake(S, wk) == [r \in Req |-> wk[r] \/ r \in S]

Room(p, o) == Has("D3") \/ Len(p.id[o]) < cfg.maxIdle
Entry(c) == [c |-> c, z |-> FALSE, at |-> now]

FirstOpen(ws, ch) == IF \E i \in 1..Len(ws) : ch[ws[i]].st = "open"
                     THEN CHOOSE i \in 1..Len(ws) : ch[ws[i]].st = "open" /\ \A j \in 1..(i-1) : ch[ws[j]].st # "open"
                     ELSE 0

\* PoolInner::push(token o, connection c); h2 = c.can_share()
PushP(p, o, c, h2) ==
  IF ~cfg.alive THEN p ELSE      \* PoolRef::lock() is None: nothing is registered
  LET cn1 == IF h2 \/ Has("D13") THEN p.cn \ {o} ELSE p.cn
      ws  == p.wt[o]
  IN IF h2
     THEN LET live == {k \in Req : (\E i \in 1..Len(ws) : ws[i] = k) /\ p.ch[k].st = "open"}
          IN [p EXCEPT !.cn = cn1,
                       !.wt[o] = <<>>,
                       !.ch = [k \in Req |-> IF k \in live THEN [st |-> "sent", h |-> [c |-> c, z |-> TRUE]] ELSE p.ch[k]],
                       !.id[o] = IF Room(p, o) THEN Append(@, Entry(c)) ELSE @,
                       !.wk = @ \cup {k \in live : rxw[k]}]
     ELSE LET i == FirstOpen(ws, p.ch)
          IN IF i = 0
             THEN [p EXCEPT !.cn = cn1, !.wt[o] = <<>>,
                            !.id[o] = IF Room(p, o) THEN Append(@, Entry(c)) ELSE @]
             ELSE [p EXCEPT !.cn = cn1, !.wt[o] = SubSeq(ws, i + 1, Len(ws)),
                            !.ch[ws[i]] = [st |-> "sent", h |-> [c |-> c, z |-> FALSE]],
                            !.wk = @ \cup (IF rxw[ws[i]] THEN {ws[i]} ELSE {})]

\* does push keep the connection (waiter or idle list)?
PushKeeps(p, o, h2) == cfg.alive /\ (Room(p, o) \/ (~h2 /\ FirstOpen(p.wt[o], p.ch) # 0))

\* IdleConnections::pop: from the top; the first expired entry clears the list; closed entries are discarded
Expired(e) == cfg.it = 2 /\ now >= e.at + 3        \* ExpireUnits (defined with the clock below)
RECURSIVE PopWalk(_)
PopWalk(s) ==
  IF s = <<>> THEN [found |-> FALSE, h |-> NoH, rest |-> <<>>]
  ELSE LET e == s[Len(s)] IN
       IF Expired(e) THEN [found |-> FALSE, h |-> NoH, rest |-> <<>>]
       ELSE IF IsOpen(e.c) THEN [found |-> TRUE, h |-> [c |-> e.c, z |-> e.z], rest |-> SubSeq(s, 1, Len(s) - 1)]
       ELSE PopWalk(SubSeq(s, 1, Len(s) - 1))

\* Pooled::drop: a non-shareable connection goes to a WhenReady task
DropPooled(p, h) == IF h.c # 0 /\ ~conn[h.c].h2 THEN [p EXCEPT !.wr = @ \cup {[c |-> h.c, z |-> h.z]}] ELSE p

\* Waiting::close / dropping the receiver of checkout k; a connection sitting in the channel is dropped
RxCloseP(p, k) ==
  IF p.ch[k].st = "open" THEN [p EXCEPT !.ch[k].st = "rxclosed"]
  ELSE IF p.ch[k].st = "sent" THEN DropPooled([p EXCEPT !.ch[k] = [st |-> "rxclosed", h |-> NoH]], p.ch[k].h)
  ELSE p

\* Checkout::drop without a delayed continuation: PoolInner::cancel_connection.
\* Repaired: only the owner of the marker clears it and it releases the pure waiters of the origin.
IsPure(j, o) == co[j].pure /\ co[j].o = o        \* the sender was queued as a pure waiter (tag on the queue entry)
CancelConnP(p, k) ==
  IF ~cfg.alive THEN p ELSE
  LET o == co[k].o
      clear == Has("D4") \/ co[k].owner
      rel == ~Has("D2") /\ co[k].owner
      pures == {j \in Req : IsPure(j, o) /\ p.ch[j].st = "open"}
  IN [p EXCEPT !.cn = IF clear THEN @ \ {o} ELSE @,
               !.ch = IF rel THEN [j \in Req |-> IF j \in pures THEN [st |-> "txdropped", h |-> NoH] ELSE p.ch[j]] ELSE @,
               !.wt[o] = IF rel THEN SelectSeq(@, LAMBDA j : ~IsPure(j, o)) ELSE @,
               !.wk = IF rel THEN @ \cup {j \in pures : rxw[j]} ELSE @]

-----------------------------------------------------------------------------
\* ConnectionPoolService::call -> Pool::checkout
Issue(r, o, h2) ==
  /\ cfg.alive \/ cfg.nopool
  /\ req[r].st = "new"
  /\ \A q \in 1..(r-1) : req[q].st # "new"            \* slots are used in order (symmetry breaking)
  /\ LET pw == PopWalk(idle[o]) IN
     IF cfg.nopool
     THEN \* Checkout::detached: no pool reference, no waiter, never a delayed drop; it only runs its connector
          /\ co' = [co EXCEPT ![r] = [st |-> "active", o |-> o, waiter |-> "NoPool", inner |-> "Connecting",
                                      h |-> NoH, d |-> 0, owner |-> FALSE, pure |-> FALSE, standby |-> FALSE, fin |-> "none"]]
          /\ chan' = [chan EXCEPT ![r] = [st |-> "txdropped", h |-> NoH]]
          /\ UNCHANGED <<idle, waiting, connecting>>
     ELSE IF pw.found
     THEN /\ idle' = [idle EXCEPT ![o] = IF conn[pw.h.c].h2 /\ ~Has("D5")
                                         THEN Append(pw.rest, Entry(pw.h.c))     \* the pool keeps the shared handle
                                         ELSE pw.rest]
          /\ co' = [co EXCEPT ![r] = [st |-> "active", o |-> o, waiter |-> "Idle", inner |-> "Connected",
                                      h |-> [c |-> pw.h.c, z |-> conn[pw.h.c].h2 /\ ~Has("D5")], d |-> 0, owner |-> FALSE, pure |-> FALSE, standby |-> FALSE, fin |-> "none"]]
          /\ chan' = [chan EXCEPT ![r] = [st |-> "txdropped", h |-> NoH]]        \* tx dropped when checkout() returns
          /\ UNCHANGED <<waiting, connecting>>
     ELSE /\ idle' = [idle EXCEPT ![o] = pw.rest]
          /\ waiting' = [waiting EXCEPT ![o] = Append(@, r)]
          /\ chan' = [chan EXCEPT ![r] = [st |-> "open", h |-> NoH]]
          /\ IF o \in connecting
             THEN \* waits for the attempt in flight; its own connector is only a fallback (Standby)
                  /\ co' = [co EXCEPT ![r] = [st |-> "active", o |-> o, waiter |-> "Connecting",
                                              inner |-> IF Has("D17") THEN "Waiting" ELSE IF cfg.cap THEN "DelayDrop" ELSE "Connecting",
                                              h |-> NoH, d |-> 0, owner |-> FALSE, pure |-> TRUE, standby |-> ~Has("D17"), fin |-> "none"]]
                  /\ UNCHANGED connecting
             ELSE /\ co' = [co EXCEPT ![r] = [st |-> "active", o |-> o, waiter |-> "Idle",
                                              inner |-> IF cfg.cap THEN "DelayDrop" ELSE "Connecting",
                                              h |-> NoH, d |-> 0, owner |-> h2, pure |-> FALSE, standby |-> FALSE, fin |-> "none"]]
                  /\ connecting' = IF h2 THEN connecting \cup {o} ELSE connecting
  /\ req' = [req EXCEPT ![r] = [st |-> "checkout", o |-> o, h2 |-> h2, stale |-> {c \in Dial : conn[c].st = "closed"}]]
  /\ ev' = [Ev("Issue") EXCEPT !.r = r, !.o = o, !.h2 = h2]
  /\ UNCHANGED <<cfg, gc, gh, dl, conn, held, wr, woken, polled, rxw, dw, ndial, now>>

\* The checkout resolved with handle h for request r: ExecuteRequest is handed to the inner
\* service, then the Checkout is dropped (PinnedDrop).  p = pool state so far; cn2 = connection table so far.
Handoff(r, h, p, cn2, fromWaiter) ==
  LET delayed == co[r].inner = "DelayDrop" /\ fromWaiter /\ ~co[r].standby    \* pre-empted with a started connector still there
      p2 == IF delayed THEN p ELSE CancelConnP(p, r)
  IN /\ held' = [held EXCEPT ![r] = h]
     /\ conn' = [cn2 EXCEPT ![h.c].busy = IF cn2[h.c].h2 THEN @ ELSE TRUE]
     /\ req' = [req EXCEPT ![r].st = "sending"]
     /\ co' = [co EXCEPT ![r] = IF delayed
                                 THEN [@ EXCEPT !.st = "bg", !.waiter = "NoPool", !.inner = "Delayed", !.h = NoH]
                                 ELSE [@ EXCEPT !.st = "gone", !.waiter = "NoPool", !.inner = "Done", !.h = NoH, !.owner = FALSE,
                                                !.fin = IF co[r].d = 0 THEN "none" ELSE IF h.c = co[r].d THEN "ok" ELSE "dropped"]]
     /\ Commit(p2)
     /\ woken' = Wake(p2.wk, [woken EXCEPT ![r] = FALSE])
     /\ rxw' = [rxw EXCEPT ![r] = FALSE]
     /\ ev' = [Ev("Handoff") EXCEPT !.r = r, !.c = h.c]

\* The checkout resolved with an error; the future is dropped by the caller.
FailCheckout(r, kind, p) ==
  LET p2 == CancelConnP(p, r) IN
  /\ req' = [req EXCEPT ![r].st = "error"]
  /\ co' = [co EXCEPT ![r] = [@ EXCEPT !.st = "gone", !.waiter = "NoPool", !.inner = "Done", !.h = NoH, !.owner = FALSE,
                                       !.fin = IF kind = "Unavailable" THEN "none" ELSE "failed"]]
  /\ Commit(p2)
  /\ woken' = Wake(p2.wk, [woken EXCEPT ![r] = FALSE])
  /\ rxw' = [rxw EXCEPT ![r] = FALSE]
  /\ ev' = [Ev("PollErr") EXCEPT !.r = r, !.kind = kind]
  /\ UNCHANGED <<held, conn>>

Unresolved(d) == gc[d] = "none" \/ (gc[d] = "ok" /\ gh[d] = "none")
Failed(d) == gc[d] = "fail" \/ (gc[d] = "ok" /\ gh[d] = "fail")

\* the part of Checkout::poll after the waiter said NotReady / Closed; rx = rxw so far
PollInner(r, p, rx) ==
  CASE co[r].inner = "Waiting" ->
         /\ FailCheckout(r, "Unavailable", p)
         /\ UNCHANGED <<gc, gh, dl, dw, ndial>>
    [] co[r].inner = "Connected" ->
         \* a connection popped from the idle list at checkout time; waiter.close(); register_connected
         LET c == co[r].h.c
             p1 == RxCloseP(p, r)
             p2 == IF conn[c].h2 /\ Has("D5") THEN PushP(p1, co[r].o, c, TRUE) ELSE p1
         IN /\ Handoff(r, [c |-> c, z |-> conn[c].h2], p2, conn, FALSE)
            /\ UNCHANGED <<gc, gh, dl, dw, ndial>>
    [] co[r].inner \in {"Connecting", "DelayDrop"} ->
         IF co[r].d = 0
         THEN \* first poll of the connector: Transport::connect is called
              /\ ndial < MaxDial
              /\ ndial' = ndial + 1
              /\ dl' = [dl EXCEPT ![ndial + 1] = [o |-> co[r].o, h2 |-> req[r].h2, r |-> r]]
              /\ dw' = [dw EXCEPT ![ndial + 1] = r]
              /\ co' = [co EXCEPT ![r].d = ndial + 1, ![r].waiter = IF p.ch[r].st \in {"rxclosed", "txdropped"} THEN "NoPool" ELSE @]
              /\ Commit(p) /\ rxw' = rx
              /\ woken' = Wake(p.wk, [woken EXCEPT ![r] = FALSE])
              /\ ev' = [Ev("DialStart") EXCEPT !.r = r, !.d = ndial + 1]
              /\ UNCHANGED <<gc, gh, conn, held, req>>
         ELSE LET d == co[r].d IN
              CASE Unresolved(d) ->
                     /\ co' = [co EXCEPT ![r].waiter = IF p.ch[r].st \in {"rxclosed", "txdropped"} THEN "NoPool" ELSE @]
                     /\ Commit(p) /\ rxw' = rx
                     /\ dw' = [dw EXCEPT ![d] = r]
                     /\ woken' = Wake(p.wk, [woken EXCEPT ![r] = FALSE])
                     /\ ev' = [Ev("PollPending") EXCEPT !.r = r]
                     /\ UNCHANGED <<gc, gh, dl, ndial, conn, held, req>>
                [] Failed(d) ->
                     /\ FailCheckout(r, IF gc[d] = "fail" THEN "Connecting" ELSE "Handshaking", RxCloseP(p, r))
                     /\ UNCHANGED <<gc, gh, dl, dw, ndial>>
                [] OTHER -> \* connected and handshaken: the connection comes into existence; register_connected
                     LET cn2 == [conn EXCEPT ![d] = [st |-> "open", o |-> dl[d].o, h2 |-> dl[d].h2, busy |-> FALSE, up |-> FALSE]]
                         p1 == RxCloseP(p, r)
                         p2 == IF dl[d].h2 THEN PushP(p1, co[r].o, d, TRUE) ELSE p1
                     IN /\ Handoff(r, [c |-> d, z |-> dl[d].h2], p2, cn2, FALSE)
                        /\ UNCHANGED <<gc, gh, dl, dw, ndial>>

\* a released standby checkout became independent (owner if multiplexed) and polls its connector for the first time
TookOver(r, p) ==
  /\ ndial < MaxDial
  /\ ndial' = ndial + 1
  /\ dl' = [dl EXCEPT ![ndial + 1] = [o |-> co[r].o, h2 |-> req[r].h2, r |-> r]]
  /\ dw' = [dw EXCEPT ![ndial + 1] = r]
  /\ co' = [co EXCEPT ![r].d = ndial + 1, ![r].waiter = "Idle", ![r].standby = FALSE, ![r].pure = FALSE, ![r].owner = req[r].h2]
  /\ Commit(p) /\ rxw' = [rxw EXCEPT ![r] = TRUE]
  /\ woken' = Wake(p.wk, [woken EXCEPT ![r] = FALSE])
  /\ ev' = [Ev("DialStart") EXCEPT !.r = r, !.d = ndial + 1]
  /\ UNCHANGED <<gc, gh, conn, held, req>>

\* ResponseFuture::poll while in the Checkout state
PollBody(r) ==
  /\ polled' = [polled EXCEPT ![r] = TRUE]
  /\ UNCHANGED <<cfg, now>>
  /\ CASE co[r].waiter \in {"Idle", "Connecting"} /\ chan[r].st = "sent" ->
            \* connection received from the waiter
            /\ Handoff(r, chan[r].h, [PS EXCEPT !.ch[r] = [st |-> "rxclosed", h |-> NoH]], conn, TRUE)
            /\ UNCHANGED <<gc, gh, dl, dw, ndial>>
       [] co[r].waiter = "Connecting" /\ chan[r].st = "open" ->
            /\ rxw' = [rxw EXCEPT ![r] = TRUE]
            /\ woken' = [woken EXCEPT ![r] = FALSE]
            /\ ev' = [Ev("PollPending") EXCEPT !.r = r]
            /\ UNCHANGED <<connecting, waiting, idle, chan, co, gc, gh, dl, conn, held, wr, req, dw, ndial>>
       [] co[r].waiter = "Connecting" /\ chan[r].st = "txdropped" /\ co[r].standby ->
            \* released: the attempt it waited for went away. First look for an idle connection
            \* (PoolInner::pop), else PoolInner::take_over; without a pool the checkout fails
            IF ~cfg.alive
            THEN /\ FailCheckout(r, "Unavailable", PS)
                 /\ UNCHANGED <<gc, gh, dl, dw, ndial>>
            ELSE IF PopWalk(idle[co[r].o]).found
            THEN LET pw == PopWalk(idle[co[r].o])
                     c == pw.h.c
                     p == [PS EXCEPT !.id[co[r].o] = IF conn[c].h2 THEN Append(pw.rest, Entry(c)) ELSE pw.rest]
                 IN /\ Handoff(r, [c |-> c, z |-> conn[c].h2], p, conn, FALSE)
                    /\ UNCHANGED <<gc, gh, dl, dw, ndial>>
            ELSE IF co[r].o \in connecting
            THEN \* another released checkout already replaced the attempt: wait for that one
                 /\ waiting' = [waiting EXCEPT ![co[r].o] = Append(@, r)]
                 /\ idle' = [idle EXCEPT ![co[r].o] = PopWalk(@).rest]          \* pop discarded closed / expired entries
                 /\ chan' = [chan EXCEPT ![r] = [st |-> "open", h |-> NoH]]
                 /\ rxw' = [rxw EXCEPT ![r] = TRUE]
                 /\ woken' = [woken EXCEPT ![r] = FALSE]
                 /\ ev' = [Ev("PollPending") EXCEPT !.r = r]
                 /\ UNCHANGED <<connecting, co, gc, gh, dl, conn, held, wr, req, dw, ndial>>
            ELSE \* it replaces the attempt itself: listens for returned connections and uses its connector
                 LET p == [PS EXCEPT !.cn = IF req[r].h2 THEN @ \cup {co[r].o} ELSE @,
                                     !.wt[co[r].o] = Append(@, r),
                                     !.id[co[r].o] = PopWalk(@).rest,
                                     !.ch[r] = [st |-> "open", h |-> NoH]]
                 IN TookOver(r, p)
       [] co[r].waiter = "Idle" /\ chan[r].st = "open" ->
            IF Has("D1")
            THEN PollInner(r, [PS EXCEPT !.ch[r].st = "rxclosed"], [rxw EXCEPT ![r] = FALSE])   \* receiver dropped
            ELSE PollInner(r, PS, [rxw EXCEPT ![r] = TRUE])
       [] OTHER -> PollInner(r, PS, rxw)

Poll(r) ==
  /\ req[r].st = "checkout" /\ co[r].st = "active"
  /\ (~polled[r] \/ woken[r])
  /\ PollBody(r)

SpuriousPoll(r) ==
  /\ Spurious
  /\ req[r].st = "checkout" /\ co[r].st = "active"
  /\ polled[r] /\ ~woken[r]
  /\ PollBody(r)

\* dropping the request future
Cancel(r) ==
  /\ req[r].st \in {"checkout", "sending"}
  /\ UNCHANGED <<cfg, gc, gh, dl, dw, ndial, polled, now, conn>>
  /\ req' = [req EXCEPT ![r].st = "cancelled"]
  /\ rxw' = [rxw EXCEPT ![r] = FALSE]
  /\ IF req[r].st = "sending"
     THEN /\ held' = [held EXCEPT ![r] = NoH]
          /\ Commit(DropPooled(PS, held[r]))
          /\ ev' = [Ev("Cancel") EXCEPT !.r = r, !.stage = "sending"]
          /\ UNCHANGED <<co, woken>>
     ELSE LET delayed == co[r].inner = "DelayDrop" /\ ~co[r].standby
              p1 == RxCloseP(PS, r)
              p2 == IF delayed THEN p1 ELSE CancelConnP(p1, r)
              \* a connection popped at checkout time and never used: repaired code hands it back
              p3 == IF Has("D11") THEN p2 ELSE DropPooled(p2, co[r].h)
          IN /\ co' = [co EXCEPT ![r] = IF delayed
                                        THEN [@ EXCEPT !.st = "bg", !.waiter = "NoPool", !.inner = "Delayed"]
                                        ELSE [@ EXCEPT !.st = "gone", !.waiter = "NoPool", !.inner = "Done", !.h = NoH, !.owner = FALSE,
                                                       !.fin = IF co[r].d = 0 THEN "none" ELSE "dropped"]]
             /\ Commit(p3)
             /\ woken' = Wake(p3.wk, woken)
             /\ ev' = [Ev("Cancel") EXCEPT !.r = r, !.stage = "checkout"]
             /\ UNCHANGED held

\* the inner service is done with its connection: Pooled dropped
Release(r) ==
  /\ req[r].st = "sending"
  /\ req' = [req EXCEPT ![r].st = "done"]
  /\ held' = [held EXCEPT ![r] = NoH]
  /\ Commit(DropPooled(PS, held[r]))
  /\ ev' = [Ev("Release") EXCEPT !.r = r]
  /\ UNCHANGED <<cfg, co, gc, gh, dl, conn, woken, polled, rxw, dw, ndial, now>>

\* WhenReady resolves (ready or errored) and is dropped
WhenReadyStep(h) ==
  /\ h \in wr
  /\ ~conn[h.c].busy \/ conn[h.c].st = "closed" \/ conn[h.c].up
  /\ IF IsOpen(h.c) /\ ~h.z
     THEN LET o == conn[h.c].o
              p == PushP([PS EXCEPT !.wr = @ \ {h}], o, h.c, conn[h.c].h2) IN
          /\ Commit(p)
          /\ woken' = Wake(p.wk, woken)
          /\ ev' = [Ev("HandBack") EXCEPT !.c = h.c, !.ok = PushKeeps(PS, o, conn[h.c].h2)]
     ELSE /\ wr' = wr \ {h}
          /\ ev' = [Ev("HandBackDrop") EXCEPT !.c = h.c]
          /\ UNCHANGED <<connecting, waiting, idle, chan, woken>>
  /\ UNCHANGED <<cfg, co, gc, gh, dl, conn, held, req, polled, rxw, dw, ndial, now>>

\* a delayed (background) checkout is polled by the runtime
BgPoll(r) ==
  /\ co[r].st = "bg"
  /\ UNCHANGED <<cfg, held, req, polled, rxw, now>>
  /\ IF co[r].d = 0
     THEN /\ ndial < MaxDial
          /\ ndial' = ndial + 1
          /\ dl' = [dl EXCEPT ![ndial + 1] = [o |-> co[r].o, h2 |-> req[r].h2, r |-> r]]
          /\ dw' = [dw EXCEPT ![ndial + 1] = 0]
          /\ co' = [co EXCEPT ![r].d = ndial + 1]
          /\ ev' = [Ev("BgDialStart") EXCEPT !.r = r, !.d = ndial + 1]
          /\ UNCHANGED <<gc, gh, conn, connecting, waiting, idle, chan, wr, woken>>
     ELSE LET d == co[r].d IN
          /\ ~Unresolved(d)
          /\ UNCHANGED <<gc, gh, dl, dw, ndial>>
          /\ co' = [co EXCEPT ![r] = [@ EXCEPT !.st = "gone", !.inner = "Done", !.owner = FALSE, !.fin = IF Failed(d) THEN "failed" ELSE "ok"]]
          /\ IF Failed(d)
             THEN LET p == CancelConnP(PS, r) IN
                  /\ Commit(p) /\ woken' = Wake(p.wk, woken)
                  /\ ev' = [Ev("BgFail") EXCEPT !.r = r]
                  /\ UNCHANGED conn
             ELSE /\ conn' = [conn EXCEPT ![d] = [st |-> "open", o |-> dl[d].o, h2 |-> dl[d].h2, busy |-> FALSE, up |-> FALSE]]
                  /\ LET p1 == IF dl[d].h2 THEN PushP(PS, co[r].o, d, TRUE)
                               ELSE [PS EXCEPT !.wr = @ \cup {[c |-> d, z |-> FALSE]}]   \* the task drops the returned Pooled
                         p2 == CancelConnP(p1, r)
                     IN Commit(p2) /\ woken' = Wake(p2.wk, woken)
                  /\ ev' = [Ev("BgDone") EXCEPT !.r = r, !.c = d]

-----------------------------------------------------------------------------
(* Environment                                                               *)
EnvConnect(d, ok) ==
  /\ d <= ndial /\ gc[d] = "none"
  /\ ok \/ "connect" \in Faults
  /\ gc' = [gc EXCEPT ![d] = IF ok THEN "ok" ELSE "fail"]
  /\ woken' = IF dw[d] # 0 THEN [woken EXCEPT ![dw[d]] = TRUE] ELSE woken
  /\ ev' = [Ev("EnvConnect") EXCEPT !.d = d, !.ok = ok]
  /\ UNCHANGED <<cfg, connecting, waiting, idle, chan, co, gh, dl, conn, held, wr, req, polled, rxw, dw, ndial, now>>

EnvHandshake(d, ok) ==
  /\ d <= ndial /\ gc[d] = "ok" /\ gh[d] = "none"
  /\ ok \/ "handshake" \in Faults
  /\ gh' = [gh EXCEPT ![d] = IF ok THEN "ok" ELSE "fail"]
  /\ woken' = IF dw[d] # 0 THEN [woken EXCEPT ![dw[d]] = TRUE] ELSE woken
  /\ ev' = [Ev("EnvHandshake") EXCEPT !.d = d, !.ok = ok]
  /\ UNCHANGED <<cfg, connecting, waiting, idle, chan, co, gc, dl, conn, held, wr, req, polled, rxw, dw, ndial, now>>

\* the response has been consumed: the connection reports ready again
ConnReady(c) ==
  /\ conn[c].st = "open" /\ conn[c].busy /\ ~conn[c].up
  /\ \A r \in Req : held[r].c # c
  /\ conn' = [conn EXCEPT ![c].busy = FALSE]
  /\ ev' = [Ev("ConnReady") EXCEPT !.c = c]
  /\ UNCHANGED <<cfg, connecting, waiting, idle, chan, co, gc, gh, dl, held, wr, req, woken, polled, rxw, dw, ndial, now>>

PeerClose(c) ==
  /\ "close" \in Faults
  /\ conn[c].st = "open"
  /\ conn' = [conn EXCEPT ![c].st = "closed"]
  /\ ev' = [Ev("PeerClose") EXCEPT !.c = c]
  /\ UNCHANGED <<cfg, connecting, waiting, idle, chan, co, gc, gh, dl, held, wr, req, woken, polled, rxw, dw, ndial, now>>

\* the exchange on an HTTP/1 connection ended in a protocol upgrade: the connection is gone for HTTP
Upgrade(c) ==
  /\ "upgrade" \in Faults
  /\ conn[c].st = "open" /\ ~conn[c].h2 /\ ~conn[c].up
  /\ \E r \in Req : held[r].c = c
  /\ conn' = [conn EXCEPT ![c].up = TRUE]
  /\ ev' = [Ev("Upgrade") EXCEPT !.c = c]
  /\ UNCHANGED <<cfg, connecting, waiting, idle, chan, co, gc, gh, dl, held, wr, req, woken, polled, rxw, dw, ndial, now>>

\* the last clone of the Pool is dropped: PoolInner goes away with its idle connections and its senders
DropPool ==
  /\ AllowDrop /\ cfg.alive
  /\ cfg' = [cfg EXCEPT !.alive = FALSE]
  /\ LET queued == {k \in Req : \E o \in Origins : \E i \in 1..Len(waiting[o]) : waiting[o][i] = k}
         dropped == {k \in queued : chan[k].st = "open"}
     IN /\ chan' = [k \in Req |-> IF k \in dropped THEN [st |-> "txdropped", h |-> NoH] ELSE chan[k]]
        /\ woken' = Wake({k \in dropped : rxw[k]}, woken)
  /\ connecting' = {}
  /\ waiting' = [o \in Origins |-> <<>>]
  /\ idle' = [o \in Origins |-> <<>>]
  /\ ev' = Ev("DropPool")
  /\ UNCHANGED <<co, gc, gh, dl, conn, held, wr, req, polled, rxw, dw, ndial, now>>

\* Time is counted in units of 15 ms: the small idle timeout (40 ms in the harness) has passed after 3 units; a Tick (120 ms of real
\* sleep in the harness) is 8 units, a SmallTick (15 ms) is 1 unit.  SmallTick exists only in configurations with MaxTick >= 2
\* (trace validation): it is what makes "used again and again with gaps shorter than the timeout" expressible.
TickUnits == 8
ExpireUnits == 3
Tick ==
  /\ now + TickUnits <= TickUnits * MaxTick
  /\ now' = now + TickUnits
  /\ ev' = Ev("Tick")
  /\ UNCHANGED <<cfg, connecting, waiting, idle, chan, co, gc, gh, dl, conn, held, wr, req, woken, polled, rxw, dw, ndial>>

SmallTick ==
  /\ MaxTick >= 2
  /\ now + 1 <= TickUnits * MaxTick
  /\ now' = now + 1
  /\ ev' = Ev("SmallTick")
  /\ UNCHANGED <<cfg, connecting, waiting, idle, chan, co, gc, gh, dl, conn, held, wr, req, woken, polled, rxw, dw, ndial>>

Next ==
  \/ \E r \in Req, o \in Origins, h2 \in Protos : Issue(r, o, h2)
  \/ \E r \in Req : Poll(r) \/ SpuriousPoll(r) \/ Cancel(r) \/ Release(r) \/ BgPoll(r)
  \/ \E h \in wr : WhenReadyStep(h)
  \/ \E d \in Dial, ok \in BOOLEAN : EnvConnect(d, ok) \/ EnvHandshake(d, ok)
  \/ \E c \in Dial : ConnReady(c) \/ PeerClose(c) \/ Upgrade(c)
  \/ Tick \/ SmallTick
  \/ DropPool

Spec == Init /\ [][Next]_vars

Fairness ==
  /\ \A r \in Req : WF_vars(Poll(r)) /\ WF_vars(BgPoll(r))
  /\ \A d \in Dial : WF_vars(\E ok \in BOOLEAN : EnvConnect(d, ok)) /\ WF_vars(\E ok \in BOOLEAN : EnvHandshake(d, ok))
  /\ WF_vars(\E h \in wr : WhenReadyStep(h))
  /\ \A c \in Dial : WF_vars(ConnReady(c))
FairSpec == Spec /\ Fairness

-----------------------------------------------------------------------------
(* Observable state, in the schema the harness records (harness/src/pool_world.rs, Sim::obs) *)
IdleOf(c)  == {<<o, i>> \in Origins \X (1..(MaxDial + NReq)) : i <= Len(idle[o]) /\ idle[o][i].c = c}
Live(c) == Cardinality({r \in Req : held[r].c = c}) + Cardinality({h \in wr : h.c = c})
           + Cardinality({r \in Req : chan[r].st = "sent" /\ chan[r].h.c = c})
           + Cardinality({r \in Req : co[r].h.c = c /\ co[r].st = "active"})
           + Cardinality(IdleOf(c))
ReqSt(r) == IF req[r].st = "new" THEN "new" ELSE req[r].st
DialStage(d) == LET k == dl[d].r IN IF co[k].st \in {"active", "bg"} THEN "connecting" ELSE co[k].fin
Obs == [req  |-> [r \in Req |-> [st |-> ReqSt(r), o |-> IF req[r].st = "new" THEN 0 ELSE req[r].o, h2 |-> req[r].h2,
                                 polled |-> polled[r], woken |-> (req[r].st = "checkout" /\ woken[r]), held |-> held[r].c]],
        conn |-> [c \in 1..ndial |-> [st |-> conn[c].st, o |-> dl[c].o, h2 |-> dl[c].h2, busy |-> conn[c].busy,
                                      up |-> conn[c].up, live |-> IF conn[c].st = "none" THEN 0 ELSE Live(c), by |-> dl[c].r,
                                      dial |-> DialStage(c), parked |-> (\E h \in wr : h.c = c)]],
        idle |-> [o \in Origins |-> [i \in 1..Len(idle[o]) |-> idle[o][i].c]],
        wq   |-> [o \in Origins |-> [i \in 1..Len(waiting[o]) |-> chan[waiting[o][i]].st = "rxclosed"]],
        cing |-> [o \in Origins |-> o \in connecting],
        ndial |-> ndial, ticks |-> now]

-----------------------------------------------------------------------------
(* Properties on the model.  The same properties are evaluated on real traces by PoolObs.tla. *)
TypeOK == /\ connecting \subseteq Origins
          /\ \A r \in Req : chan[r].st \in {"none", "open", "rxclosed", "txdropped", "sent"}
          /\ \A r \in Req : co[r].st \in {"none", "active", "bg", "gone"}

Holders(c) == {r \in Req : held[r].c = c}
UsableIdle(o) == PopWalk(idle[o]).found

\* C02: a non-multiplexed connection serves one request at a time
C02state == \A c \in Dial : conn[c].st # "none" /\ ~conn[c].h2 => Cardinality(Holders(c)) <= 1
C02step == [][ev'.e = "Handoff" /\ ~conn'[ev'.c].h2 =>
                 /\ Holders(ev'.c) = {}
                 /\ ~(conn[ev'.c].st # "none" /\ conn[ev'.c].busy)
                 /\ ~conn[ev'.c].up]_vars
HandleUnique == \A c \in Dial : conn[c].st # "none" /\ ~conn[c].h2 => Live(c) <= 1

\* C06: a connection is only used for the origin it was dialled for
C06step == [][ev'.e = "Handoff" => dl[ev'.c].o = req[ev'.r].o]_vars

\* C15: never more idle connections per origin than configured
C15 == \A o \in Origins : Len(idle[o]) <= cfg.maxIdle

\* C05: never hand out a connection that is closed (the pool could know) or expired
C05step == [][ev'.e = "Handoff" /\ dl[ev'.c].r # ev'.r => ev'.c \notin req[ev'.r].stale]_vars
\* at checkout time (Issue) the connection popped is open and not expired
C05pop == [][ev'.e = "Issue" /\ co'[ev'.r].h.c # 0 => IsOpen(co'[ev'.r].h.c)]_vars

\* C14 (a): a request still waiting for its own attempt does not stay Pending while a usable
\* idle connection for its origin sits in the pool
C14a == [][ev'.e \in {"PollPending", "DialStart"} /\ co[ev'.r].inner \in {"Connecting", "DelayDrop"} /\ ~co[ev'.r].standby
              => ~UsableIdle(req[ev'.r].o)]_vars

\* C04 (iv): cancelling a request that never used a connection does not destroy a pooled connection
\* (the connection the request had taken from the pool at checkout time survives; connections it never
\* touched are not affected: the idle list and other requests' handles are unchanged by Cancel)
\* (a shared connection stays in the idle list when a request takes a handle to it, so only the non-shared case
\* moves custody to the request; a shared handle whose pool entry has meanwhile expired is not pooled any more)
C04iv == [][\A c \in Dial : cfg.alive /\ ev'.e = "Cancel" /\ ev'.stage = "checkout" /\ co[ev'.r].h.c = c /\ conn[c].st = "open" /\ ~conn[c].h2
                             => Live(c)' > 0]_vars
C04ivIdle == [][ev'.e = "Cancel" => idle' = idle]_vars
\* C04 (kept): an open, ready connection that is handed back is kept if there is room or a waiter
C04rel == [][\A c \in Dial : cfg.alive /\ (ev'.e = "Release" \/ (ev'.e = "Cancel" /\ ev'.stage = "sending")) /\ held[ev'.r].c = c
                                /\ conn[c].st = "open" /\ ~conn[c].up /\ ~conn[c].h2 => Live(c)' > 0]_vars
C04kept == [][\A c \in Dial : ev'.e = "HandBack" /\ ev'.ok /\ ev'.c = c => Live(c)' > 0]_vars
\* C04 (ii)/(iii): an HTTP/2 request dials only if, when it was issued, no HTTP/2 attempt for its origin
\* was in flight and no usable connection for the origin was pooled: the request was given a connector
\* (inner in Connecting/DelayDrop) exactly in that case
AttemptInFlight(o) == \E k \in Req : co[k].owner /\ co[k].o = o /\ co[k].st \in {"active", "bg"}
C04issue == [][ev'.e = "Issue" =>
                 /\ (UsableIdle(ev'.o) => co'[ev'.r].inner = "Connected")
                 /\ (ev'.h2 /\ AttemptInFlight(ev'.o) /\ ~UsableIdle(ev'.o) => co'[ev'.r].pure)]_vars
\* ... and an HTTP/2 dial never starts while another HTTP/2 attempt for the origin is in flight
C04dial == [][ev'.e \in {"DialStart", "BgDialStart"} /\ req[ev'.r].h2 =>
                ~\E k \in Req : k # ev'.r /\ co[k].owner /\ co[k].o = req[ev'.r].o /\ co[k].st \in {"active", "bg"}]_vars
\* C01 (pool part): a request that is not cancelled fails only when its own connection attempt failed
NoSpuriousError == [][ev'.e = "PollErr" => ev'.kind \in {"Connecting", "Handshaking"} \/ (~cfg.alive /\ ~cfg.nopool)]_vars

\* C03: nobody is stranded (liveness under FairSpec) ...
C03live == \A r \in Req : (req[r].st = "checkout") ~> (req[r].st # "checkout")
\* ... and its safety form: every request in checkout is about to be polled, or waits on a gate that
\* will wake it, or is a pure waiter with a registered waker and a live owner attempt
NoOrphan == \A r \in Req : req[r].st = "checkout" /\ co[r].st = "active" =>
   \/ ~polled[r] \/ woken[r]
   \/ co[r].inner \in {"Connecting", "DelayDrop"} /\ ~co[r].standby /\ co[r].d # 0 /\ Unresolved(co[r].d) /\ dw[co[r].d] = r
   \/ /\ co[r].waiter = "Connecting" /\ chan[r].st = "open" /\ rxw[r]
      /\ \E k \in Req : k # r /\ co[k].owner /\ co[k].o = co[r].o /\ co[k].st \in {"active", "bg"}
\* a pure waiter always has a live owner
PureHasOwner == \A r \in Req : co[r].st = "active" /\ co[r].waiter = "Connecting" /\ chan[r].st = "open" =>
                   \E k \in Req : k # r /\ co[k].owner /\ co[k].o = co[r].o /\ co[k].st \in {"active", "bg"}
\* the marker is present exactly while an owner's attempt is in flight
MarkerHasOwner == \A o \in Origins : o \in connecting => AttemptInFlight(o)

View == <<cfg, connecting, waiting, idle, chan, co, gc, gh, dl, conn, held, wr, req, woken, polled, rxw, dw, ndial, now>>
=============================================================================
