---------------------------- MODULE MC_Connector ----------------------------
(* Model-checking instance of Connector.tla: constant values and the VIEW that hides the last event.  *)
(* (Generation of behaviours: MC_ConnectorGen.tla.)                                                     *)
EXTENDS Connector, Json

KSvc == {"svc"}
KFut == {"fut"}
KBoth == {"svc", "fut"}
V11 == {"h11"}
V11_2 == {"h11", "h2"}
V11_2_3 == {"h11", "h2", "h3"}
VAll == {"h09", "h10", "h11", "h2", "h3"}

\* the model-checking configs do not distinguish states by the last event
View == <<st, kind, ver, g, polled, woken, wgen, reg, res, n, seen, live, hs, ex, svc>>
\* the seeded defects only need to be followed until the defect shows
Bound == \A c \in Calls : n[c].cn <= 2 /\ n[c].hs <= 2
=============================================================================
