\* Upgrade generation (simulation): raw client with early bytes
SPECIFICATION SpecGen
CONSTANTS
  KindVecs <- VecsGenRawOK
  MaxConn = 2
  Server = "auto"
  Client = "raw"
  HL = 1
  SniffMax = 3
  MaxW = 8
  WSizes <- W13
  MaxEnv = 5
  HoldSets <- Hold012
  DHoldSets <- DHold0
  AllowShutdown = TRUE
  AllowDrop = TRUE
  Quiescent = TRUE
  Bug = "none"
INVARIANTS
  Emit
