---- MODULE MC_TcpEyeballs ----
EXTENDS TcpEyeballs
\* one time unit stands for 500 ms in the loopback runs: happy_eyeballs_timeout 6 = 3 s, stagger 3 s / n
cGrid       == {0, 1}
cHeTimeouts == {NONE, 6}
cConcs      == {NONE, 0, 1, 2, 3}
cUnused     == {NONE}
====
