----------------------------- MODULE MC_Upgrade -----------------------------
(* Model-checking / generation instance of Upgrade.tla: request vectors, hold sets, VIEW, JSON printing. *)
EXTENDS Upgrade, Json, IOUtils

K(k)     == [kind |-> k, early |-> 0]
E(k, e)  == [kind |-> k, early |-> e]

(* quick: the interesting neighbourhoods of an upgrade, two requests *)
VecsQuick == { <<K("up"), K("plain")>>, <<K("refuse"), K("up")>>, <<K("refuseclose"), K("plain")>>, <<K("h2plain"), K("up")>>, <<K("h2up"), K("h2connect")>> }
VecsQuick2 == VecsQuick \cup { <<K("connect"), K("up")>>, <<K("up"), K("h2plain")>> }
VecsCov   == { <<K("up"), K("refuse")>>, <<K("h2up"), K("h2connect")>> }
VecsDial  == { <<K("plain"), K("up")>>, <<K("up"), K("refuse")>> }
VecsDialT == VecsDial \cup { <<K("up"), K("plain")>>, <<K("refuseclose"), K("connect")>>, <<K("connect"), K("up")>> }
VecsDeep  == { <<K("up"), K("plain")>>, <<K("plain"), K("up"), K("plain")>>, <<K("refuse"), K("up")>>, <<K("refuseclose"), K("plain")>>,
               <<K("connect"), K("plain")>>, <<K("h2plain"), K("up")>>, <<K("h2up"), K("h2connect")>>, <<K("up"), K("h2plain")>> }
Vecs3     == { <<K("plain"), K("up"), K("plain")>>, <<K("up"), K("refuse"), K("plain")>> }
VecsH1    == { <<K("up"), K("plain")>>, <<K("refuse"), K("connect")>>, <<K("refuseclose"), K("up")>> }
VecsLive  == { <<K("up"), K("plain")>>, <<K("refuse"), K("up")>>, <<K("refuseclose"), K("connect")>>, <<K("h2up"), K("plain")>> }
VecsLiveQ == { <<K("up")>>, <<K("refuse")>>, <<K("connect")>> }
VecsRaw   == { <<E("up", 2)>>, <<E("connect", 1), E("up", 0)>>, <<E("up", 3), E("refuse", 0)>>, <<E("plain", 0), E("up", 1)>> }
VecsRawQ  == { <<E("up", 2)>>, <<E("connect", 3)>>, <<E("up", 1), E("plain", 0)>> }
VecsBugPool == { <<K("up"), K("plain")>>, <<K("h2up"), K("h2connect")>>, <<K("plain"), K("refuse")>> }
VecsBugRaw  == { <<E("up", 2)>>, <<E("connect", 3)>> }

(* thorough: every vector of three requests over the six HTTP/1 kinds / two of the eight kinds *)
H1Kinds == {"plain", "up", "refuse", "refuseclose", "connect"}
AllKinds == H1Kinds \cup {"h2plain", "h2up", "h2connect"}
Vecs3H1 == { <<K(a), K(b), K(c)>> : a \in H1Kinds, b \in H1Kinds, c \in H1Kinds }
Vecs2All == { <<K(a), K(b)>> : a \in AllKinds, b \in AllKinds }
Vecs3Mix == { <<K(a), K(b), K(c)>> : a \in {"h2plain", "up", "refuse"}, b \in {"up", "h2up", "connect", "plain"}, c \in {"plain", "up", "h2connect"} }
VecsRawT == { <<E(a, e)>> : a \in {"up", "connect"}, e \in 0..3 }
            \cup { <<E("up", 2), E("up", 0)>>, <<E("connect", 2), E("plain", 0)>>, <<E("up", 1), E("refuse", 0)>>, <<E("up", 3), E("up", 1)>> }
(* generation: everything the harness can do with up to four requests *)
GenKinds == AllKinds
VecsGen == { <<K(a), K(b)>> : a \in GenKinds, b \in GenKinds } \cup { <<K(a), K(b), K(c)>> : a \in GenKinds, b \in GenKinds, c \in GenKinds }
           \cup { <<K(a), K(b), K(c), K(d)>> : a \in {"up", "plain", "h2plain", "refuse"}, b \in GenKinds, c \in {"up", "connect", "plain", "refuseclose", "h2up"}, d \in {"plain", "up", "h2connect"} }
VecsGenH1 == { <<K(a), K(b)>> : a \in H1Kinds, b \in H1Kinds } \cup { <<K(a), K(b), K(c)>> : a \in H1Kinds, b \in H1Kinds, c \in H1Kinds }
           \cup { <<K(a), K(b), K(c), K(d)>> : a \in {"up", "plain", "refuse"}, b \in H1Kinds, c \in {"up", "connect", "plain", "refuseclose"}, d \in {"plain", "up"} }
VecsGenRaw == { <<E(a, e)>> : a \in {"up", "connect"}, e \in 0..4 }
              \cup { <<E(a, e), E(b, f)>> : a \in {"up", "connect", "plain", "refuse"}, b \in {"up", "connect", "plain"}, e \in {0, 2, 4}, f \in {0, 1, 3} }

NoEarly(v) == \A i \in 1..Len(v) : v[i].kind \in {"up", "connect"} \/ v[i].early = 0
RawOK(V) == { v \in V : NoEarly(v) }

VecsGenRawOK == RawOK(VecsGenRaw)

DHold0  == { {} }
DHold1  == { {}, {1} }
DHold12 == { {}, {1}, {2}, {1, 2} }
Hold0   == { {} }
Hold01  == { {}, {1} }
Hold012 == { {}, {1}, {2}, {1, 2} }
HoldAll == SUBSET (1..4)

W1  == {1}
W12 == {1, 2}
W13 == {1, 3}

(* pure model checking: the history is not part of the state *)
MCView == <<kinds, hold, req, conn, tun, shut, nenv, flags, stamp>>

(* generation: one JSON line per finished behaviour *)
Emit == hist.fin => PrintT(<<"SCN", ToJson([reqs |-> kinds, hold |-> hold.s, dhold |-> hold.d, steps |-> hist.steps, exp |-> hist.pre])>>)
\* uniform simulation would end most scenarios at once and fire the signal before anything happened: the signal comes late,
\* the end needs the tunnel operations used up or no tunnel left to operate on
AnyTunnelOpen == \E r \in Reqs : tun[r].cws = "open" \/ tun[r].sws = "open"
GenNext == \/ Sys
           \/ (Env /\ (shut' # shut => (IF N = 1 THEN req[1].st # "new" ELSE req[N - 1].st # "new")))
           \/ (Finish /\ (nenv >= MaxEnv \/ ~AnyTunnelOpen))
SpecGen == Init /\ [][GenNext]_vars
=============================================================================
