\* the comparison as written in the pinned tree (D7): TLC produces the failing chunking
CONSTANTS
    AsBuiltCompare = TRUE
    MaxCuts = 2
    Caps <- MCCaps
    Window <- MCWindow
    GenK = 0
    Tier = "quick"
SPECIFICATION Spec
VIEW viewVars
INVARIANTS TypeOK C08Decision
