CONSTANTS
  N = 3
  Grid <- cUnusedSet
  Delays <- cUnusedSet
  Timeouts <- cUnusedSet
  Concs <- cUnusedSet
  TimeoutWholeSet = FALSE
  WrongDefaultPort = FALSE
  SwallowResolverError = FALSE
  DetachedCall = FALSE
  WsDefaults = FALSE
INIT InitQuick
NEXT CallNext
INVARIANTS CallTypeOK
CHECK_DEADLOCK FALSE
