SPECIFICATION Spec
CONSTANTS
  NCalls = 1
  Kinds <- KBoth
  Vers <- V11_2_3
  Spurious = TRUE
  MaxGen = 1
  AllowDrop = TRUE
  Look = 4
  WithSvc = FALSE
  Variant = "leak_hs"
VIEW View
CONSTRAINT Bound
INVARIANTS TypeOK K4_Dropped
PROPERTIES K4_Quiet
CHECK_DEADLOCK FALSE
