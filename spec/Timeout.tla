------------------------------ MODULE Timeout ------------------------------
(***************************************************************************)
(* C19: the timeout layer of hyperdriver around the pooled client          *)
(*   src/service/timeout.rs   Timeout::call  (the Sleep is created when    *)
(*                            the request is issued),                      *)
(*                            TimeoutFuture::poll (inner future first,     *)
(*                            then the timer)                              *)
(*   src/client/builder.rs    TimeoutLayer::new(|| Error::RequestTimeout,d)*)
(* composed with the complete pool model Pool.tla (EXTENDS): the inner     *)
(* future of a TimeoutFuture is the pool's ResponseFuture, i.e. Checkout   *)
(* followed by the inner service's response future (which owns the Pooled  *)
(* handle until the response is there, like service/client.rs              *)
(* execute_request).                                                       *)
(*                                                                          *)
(* One call of TimeoutFuture::poll is the chain                            *)
(*    TPollStart(r) ; [ExecSub(r)] ; [TimerSub(r)]                         *)
(* made atomic by `pc` (no other action is enabled while pc.st # "idle"):  *)
(*    - the inner future is polled: Pool!PollBody while the request is in  *)
(*      checkout (with the Handoff to the inner service inside that poll), *)
(*      then / or the response future,                                     *)
(*    - inner Ready  => the outer future returns that value unchanged,     *)
(*    - inner Pending => the Sleep is polled: elapsed => Err(timeout) and   *)
(*      the caller drops the TimeoutFuture, which drops the inner future:  *)
(*      that is exactly Pool!Cancel(r) at whatever stage the request is in;*)
(*      not elapsed => the Sleep keeps the task's waker (armed).           *)
(*                                                                          *)
(* Virtual time: t. Advance(dt) never jumps over the deadline of an        *)
(* unresolved request and is disabled while an unresolved request has      *)
(* reached its deadline ("the executor polls a woken task before time goes *)
(* on"); the invariant TimerWakes says that this never blocks time for     *)
(* good: a request at its deadline is always pollable.                     *)
(*                                                                          *)
(* Redirect dimension: what the caller issues may be a chain of 1..3 inner  *)
(* calls (tower-http FollowRedirect sits INSIDE the timeout layer in        *)
(* client/builder.rs); the deadline counts from the original issue.  That   *)
(* dimension is independent of the pool stage of a single inner call and is *)
(* specified in TimeoutChain.tla (as-built variant TimeoutInsideRedirect).  *)
(*                                                                          *)
(* AsBuiltT selects deviations used to demonstrate that the properties     *)
(* below are not vacuous (none of them is in the current tree):            *)
(*   TimerFirst     the Sleep is polled before the inner future            *)
(*   LazyTimer      the Sleep is created at the first poll, not at call    *)
(*   KeepInner      on expiry the inner future is kept alive (polled in    *)
(*                  the background) instead of dropped                     *)
(*   ZeroNoTimeout  a zero duration means "no timeout"                     *)
(*   NoArm          the Sleep does not keep the waker of the task          *)
(***************************************************************************)
EXTENDS Pool

CONSTANTS Durs,        \* durations to explore (fixed per behaviour in Init, like the layer's configuration)
          MaxT,        \* clock bound
          RespFaults,  \* BOOLEAN: the inner service may fail the request
          PreResp,     \* BOOLEAN: the response may already be available when the request is handed to the inner service
          Probe,       \* BOOLEAN: request NReq has no deadline (duration Inf): the probe of ProbeCompletes
          AsBuiltT

VARIABLES t,      \* virtual clock
          dur,    \* configured duration
          tm,     \* [Req -> [iss, at, armed, ho]] issue time, base of the Sleep, Sleep holds the waker, handed off once
          resp,   \* [Req -> [st, at]]   response gate: "none" | "ok" | "fail", time it opened
          rw,     \* [Req -> BOOLEAN]    the response future holds the task's waker
          out,    \* [Req -> [res, kind, at]] what the TimeoutFuture returned: "none" | "ok" | "err" | "timeout"
          inn,    \* [Req -> [res, kind]] what the inner future returned at its last poll: "none" | "pending" | "ok" | "err"
          pc,     \* [r, st] position inside one TimeoutFuture::poll: "idle" | "exec" | "timer"
          tev     \* timeout-level event of the step just completed

tvars == <<t, dur, tm, resp, rw, out, inn, pc, tev>>
allvars == <<vars, tvars>>

Inf == 99
HasT(x) == x \in AsBuiltT
Idle == [r |-> 0, st |-> "idle"]
NoTev == [e |-> "Init", r |-> 0, pool |-> "", c |-> 0, d |-> 0, kind |-> "", exec |-> "", res |-> "", stage |-> "",
          o |-> 0, h2 |-> FALSE, ok |-> FALSE, dt |-> 0]

DurOf(r) == IF Probe /\ r = NReq THEN Inf ELSE dur
Deadline(r) == tm[r].iss + DurOf(r)                     \* the deadline the property speaks of
TimerDeadline(r) == tm[r].at + DurOf(r)                 \* the deadline of the Sleep as built
Elapsed(r) == /\ DurOf(r) # Inf
              /\ t >= TimerDeadline(r)
              /\ ~(HasT("ZeroNoTimeout") /\ DurOf(r) = 0)
Active(r) == req[r].st \in {"checkout", "sending"} /\ out[r].res = "none"
Pollable(r) == ~polled[r] \/ woken[r]

TInit ==
  /\ Init
  /\ t = 0
  /\ dur \in Durs
  /\ tm = [r \in Req |-> [iss |-> 0, at |-> 0, armed |-> FALSE, ho |-> FALSE]]
  /\ resp = [r \in Req |-> [st |-> "none", at |-> 0]]
  /\ rw = [r \in Req |-> FALSE]
  /\ out = [r \in Req |-> [res |-> "none", kind |-> "", at |-> 0]]
  /\ inn = [r \in Req |-> [res |-> "none", kind |-> ""]]
  /\ pc = Idle
  /\ tev = NoTev

FromEv(e) == [NoTev EXCEPT !.e = e.e, !.r = e.r, !.c = e.c, !.d = e.d, !.o = e.o, !.h2 = e.h2, !.ok = e.ok, !.kind = e.kind, !.stage = e.stage]

-----------------------------------------------------------------------------
\* Timeout::call: the inner service is called (Pool::checkout) and the Sleep is created
TIssue(r, o, h2) ==
  /\ pc = Idle
  /\ DurOf(r) = Inf \/ t + DurOf(r) <= MaxT
  /\ Issue(r, o, h2)
  /\ tm' = [tm EXCEPT ![r] = [iss |-> t, at |-> t, armed |-> FALSE, ho |-> FALSE]]
  /\ tev' = FromEv(ev')
  /\ UNCHANGED <<t, dur, resp, rw, out, inn, pc>>

\* the stage a request is in (for the event record: where the deadline fired)
Stage(r) ==
  IF req[r].st = "sending" THEN (IF tev.pool = "Handoff" THEN "sending" ELSE "awaiting")
  ELSE IF co[r].waiter = "Connecting" /\ co[r].d = 0 THEN "pure-waiter"
  ELSE IF co[r].d # 0 /\ gc[co[r].d] = "ok" THEN "own-dial-handshaking"
  ELSE IF co[r].d # 0 THEN "own-dial-connecting"
  ELSE "other"

\* the inner future resolved in this poll: TimeoutFuture::poll returns it unchanged
InnerDone(r, res, kind) ==
  /\ out' = [out EXCEPT ![r] = [res |-> res, kind |-> kind, at |-> t]]
  /\ inn' = [inn EXCEPT ![r] = [res |-> res, kind |-> kind]]
  /\ pc' = Idle

\* the inner service is done with the request: the response future resolves and drops its Pooled handle
ReleaseAs(r, st) ==
  /\ req' = [req EXCEPT ![r].st = st]
  /\ held' = [held EXCEPT ![r] = NoH]
  /\ Commit(DropPooled(PS, held[r]))
  /\ ev' = [Ev("RespDone") EXCEPT !.r = r, !.ok = (st = "done")]
  /\ woken' = [woken EXCEPT ![r] = FALSE]
  /\ UNCHANGED <<cfg, co, gc, gh, dl, conn, polled, rxw, dw, ndial, now>>

\* poll of the response future of the inner service; base = the event record so far
ExecBody(base, r) ==
  IF resp[r].st = "none"
  THEN /\ rw' = [rw EXCEPT ![r] = TRUE]
       /\ woken' = [woken EXCEPT ![r] = FALSE]
       /\ inn' = [inn EXCEPT ![r] = [res |-> "pending", kind |-> ""]]
       /\ pc' = [r |-> r, st |-> "timer"]
       /\ tev' = [base EXCEPT !.exec = "Pending"]
       /\ UNCHANGED <<cfg, connecting, waiting, idle, chan, co, gc, gh, dl, conn, held, wr, req, polled, rxw, dw, ndial, now, ev>>
       /\ UNCHANGED out
  ELSE /\ ReleaseAs(r, IF resp[r].st = "ok" THEN "done" ELSE "error")
       /\ rw' = [rw EXCEPT ![r] = FALSE]
       /\ InnerDone(r, IF resp[r].st = "ok" THEN "ok" ELSE "err", IF resp[r].st = "ok" THEN "" ELSE "Exec")
       /\ tev' = [base EXCEPT !.exec = IF resp[r].st = "ok" THEN "Ok" ELSE "Err",
                              !.res = IF resp[r].st = "ok" THEN "Ok" ELSE "Err",
                              !.kind = IF resp[r].st = "ok" THEN "" ELSE "Exec"]

\* Err(timeout): the caller drops the TimeoutFuture and with it the inner future
Expire(r) ==
  /\ out' = [out EXCEPT ![r] = [res |-> "timeout", kind |-> "", at |-> t]]
  /\ pc' = Idle
  /\ IF HasT("KeepInner")
     THEN UNCHANGED vars
     ELSE Cancel(r)

\* first part of TimeoutFuture::poll: the inner future is polled
TPollStart(r) ==
  /\ pc = Idle
  /\ Active(r)
  /\ Pollable(r) \/ Spurious
  /\ UNCHANGED <<t, dur, resp>>
  /\ LET base == [NoTev EXCEPT !.e = "TPoll", !.r = r]
         tm1 == IF HasT("LazyTimer") /\ ~polled[r] THEN [tm EXCEPT ![r].at = t] ELSE tm
     IN
     IF HasT("TimerFirst") /\ DurOf(r) # Inf /\ t >= tm1[r].at + DurOf(r)
     THEN /\ Expire(r)
          /\ tm' = [tm1 EXCEPT ![r].armed = FALSE]
          /\ tev' = [base EXCEPT !.res = "Timeout", !.stage = "timer-first"]
          /\ UNCHANGED <<rw, inn>>
     ELSE IF req[r].st = "checkout"
     THEN /\ co[r].st = "active"
          /\ PollBody(r)
          /\ tev' = [base EXCEPT !.pool = ev'.e, !.c = ev'.c, !.d = ev'.d, !.kind = ev'.kind,
                                 !.res = IF ev'.e = "PollErr" THEN "Err" ELSE ""]
          /\ tm' = [tm1 EXCEPT ![r].ho = @ \/ ev'.e = "Handoff"]
          /\ UNCHANGED rw
          /\ CASE ev'.e = "PollErr" -> InnerDone(r, "err", ev'.kind)
               [] ev'.e = "Handoff" -> pc' = [r |-> r, st |-> "exec"] /\ UNCHANGED <<out, inn>>
               [] OTHER -> /\ pc' = [r |-> r, st |-> "timer"]
                           /\ inn' = [inn EXCEPT ![r] = [res |-> "pending", kind |-> ""]]
                           /\ UNCHANGED out
     ELSE /\ tm' = tm1
          /\ ExecBody(base, r)

\* second part, after a Handoff inside this poll: the response future was just created and is polled
ExecSub(r) ==
  /\ pc = [r |-> r, st |-> "exec"]
  /\ UNCHANGED <<t, dur, resp, tm>>
  /\ ExecBody(tev, r)

\* last part: the inner future was Pending, the Sleep is polled
TimerSub(r) ==
  /\ pc = [r |-> r, st |-> "timer"]
  /\ UNCHANGED <<t, dur, resp, rw, inn>>
  /\ IF Elapsed(r)
     THEN /\ tev' = [tev EXCEPT !.res = "Timeout", !.stage = Stage(r)]
          /\ Expire(r)
          /\ tm' = [tm EXCEPT ![r].armed = FALSE]
     ELSE /\ tev' = [tev EXCEPT !.res = "Pending"]
          /\ tm' = [tm EXCEPT ![r].armed = ~HasT("NoArm")]
          /\ pc' = Idle
          /\ UNCHANGED <<vars, out>>

\* as built KeepInner: the inner future survived the expiry and is polled by somebody else
KeptPoll(r) ==
  /\ HasT("KeepInner")
  /\ pc = Idle
  /\ out[r].res = "timeout" /\ req[r].st = "checkout" /\ co[r].st = "active"
  /\ PollBody(r)
  /\ tev' = [FromEv(ev') EXCEPT !.e = "KeptPoll", !.pool = ev'.e]
  /\ UNCHANGED <<t, dur, tm, resp, rw, out, inn, pc>>

-----------------------------------------------------------------------------
(* Environment *)
\* the response of request r is there (or the inner service fails it)
ResponseReady(r, ok) ==
  /\ pc = Idle
  /\ Active(r)
  /\ resp[r].st = "none"
  /\ req[r].st = "sending" \/ PreResp
  /\ ok \/ RespFaults
  /\ resp' = [resp EXCEPT ![r] = [st |-> IF ok THEN "ok" ELSE "fail", at |-> t]]
  /\ woken' = IF rw[r] THEN [woken EXCEPT ![r] = TRUE] ELSE woken
  /\ rw' = [rw EXCEPT ![r] = FALSE]
  /\ ev' = [Ev("RespReady") EXCEPT !.r = r, !.ok = ok]
  /\ tev' = FromEv(ev')
  /\ UNCHANGED <<cfg, connecting, waiting, idle, chan, co, gc, gh, dl, conn, held, wr, req, polled, rxw, dw, ndial, now>>
  /\ UNCHANGED <<t, dur, tm, out, inn, pc>>

\* time passes: never over a deadline, never while a request at its deadline has not been polled
Advance(dt) ==
  /\ pc = Idle
  /\ dt >= 1 /\ t + dt <= MaxT
  /\ \A r \in Req : Active(r) /\ DurOf(r) # Inf => t < Deadline(r) /\ t + dt <= Deadline(r)
  /\ t' = t + dt
  /\ LET fired == {r \in Req : Active(r) /\ tm[r].armed /\ DurOf(r) # Inf /\ t + dt >= TimerDeadline(r)
                                /\ ~(HasT("ZeroNoTimeout") /\ DurOf(r) = 0)} IN
     /\ woken' = [r \in Req |-> woken[r] \/ r \in fired]
     /\ tm' = [r \in Req |-> IF r \in fired THEN [tm[r] EXCEPT !.armed = FALSE] ELSE tm[r]]
  /\ ev' = Ev("Advance")
  /\ tev' = [NoTev EXCEPT !.e = "Advance", !.dt = dt]
  /\ UNCHANGED <<cfg, connecting, waiting, idle, chan, co, gc, gh, dl, conn, held, wr, req, polled, rxw, dw, ndial, now>>
  /\ UNCHANGED <<dur, resp, rw, out, inn, pc>>

\* actions of the pool and of its environment that do not involve the timeout layer
PoolTail == tev' = FromEv(ev') /\ UNCHANGED <<t, dur, tm, resp, rw, out, inn, pc>>
TBgPoll(r) == pc = Idle /\ BgPoll(r) /\ PoolTail
TWhenReady(hd) == pc = Idle /\ WhenReadyStep(hd) /\ PoolTail
\* Pool!EnvConnect / Pool!EnvHandshake with one refinement that only matters here, where a request is still observed
\* (and polled) after its hand-off: once the checkout of dw[d] continues in the background (co.st = "bg"), the task that
\* runs it has polled the connector and the gate holds THAT task's waker, not the request's any more
GateWake(d) == IF dw[d] # 0 /\ co[dw[d]].st = "active" THEN [woken EXCEPT ![dw[d]] = TRUE] ELSE woken
TEnvConnect(d, ok) ==
  /\ pc = Idle
  /\ d <= ndial /\ gc[d] = "none"
  /\ ok \/ "connect" \in Faults
  /\ gc' = [gc EXCEPT ![d] = IF ok THEN "ok" ELSE "fail"]
  /\ woken' = GateWake(d)
  /\ ev' = [Ev("EnvConnect") EXCEPT !.d = d, !.ok = ok]
  /\ UNCHANGED <<cfg, connecting, waiting, idle, chan, co, gh, dl, conn, held, wr, req, polled, rxw, dw, ndial, now>>
  /\ PoolTail
TEnvHandshake(d, ok) ==
  /\ pc = Idle
  /\ d <= ndial /\ gc[d] = "ok" /\ gh[d] = "none"
  /\ ok \/ "handshake" \in Faults
  /\ gh' = [gh EXCEPT ![d] = IF ok THEN "ok" ELSE "fail"]
  /\ woken' = GateWake(d)
  /\ ev' = [Ev("EnvHandshake") EXCEPT !.d = d, !.ok = ok]
  /\ UNCHANGED <<cfg, connecting, waiting, idle, chan, co, gc, dl, conn, held, wr, req, polled, rxw, dw, ndial, now>>
  /\ PoolTail
TConnReady(c) == pc = Idle /\ ConnReady(c) /\ PoolTail
TPeerClose(c) == pc = Idle /\ PeerClose(c) /\ PoolTail

TNext ==
  \/ \E r \in Req, o \in Origins, h2 \in Protos : TIssue(r, o, h2)
  \/ \E r \in Req : TPollStart(r)
  \/ \E r \in Req : ExecSub(r)
  \/ \E r \in Req : TimerSub(r)
  \/ \E r \in Req : KeptPoll(r)
  \/ \E r \in Req, ok \in BOOLEAN : ResponseReady(r, ok)
  \/ \E dt \in 1..MaxT : Advance(dt)
  \/ \E r \in Req : TBgPoll(r)
  \/ \E hd \in wr : TWhenReady(hd)
  \/ \E d \in Dial, ok \in BOOLEAN : TEnvConnect(d, ok)
  \/ \E d \in Dial, ok \in BOOLEAN : TEnvHandshake(d, ok)
  \/ \E c \in Dial : TConnReady(c)
  \/ \E c \in Dial : TPeerClose(c)

TSpec == TInit /\ [][TNext]_allvars

TFairness ==
  /\ \A r \in Req : WF_allvars(TPollStart(r)) /\ WF_allvars(ExecSub(r)) /\ WF_allvars(TimerSub(r)) /\ WF_allvars(TBgPoll(r))
  /\ \A d \in Dial : WF_allvars(\E ok \in BOOLEAN : TEnvConnect(d, ok)) /\ WF_allvars(\E ok \in BOOLEAN : TEnvHandshake(d, ok))
  /\ WF_allvars(\E hd \in wr : TWhenReady(hd))
  /\ \A c \in Dial : WF_allvars(TConnReady(c))
  /\ WF_allvars(\E dt \in 1..MaxT : Advance(dt))
\* for ProbeCompletes the clock is NOT fair (the probe has no deadline and must complete by the pool alone),
\* but the response of a request that was handed to the inner service eventually arrives
ProbeFairness ==
  /\ \A r \in Req : WF_allvars(TPollStart(r)) /\ WF_allvars(ExecSub(r)) /\ WF_allvars(TimerSub(r)) /\ WF_allvars(TBgPoll(r))
  /\ \A d \in Dial : WF_allvars(\E ok \in BOOLEAN : TEnvConnect(d, ok)) /\ WF_allvars(\E ok \in BOOLEAN : TEnvHandshake(d, ok))
  /\ WF_allvars(\E hd \in wr : TWhenReady(hd))
  /\ \A c \in Dial : WF_allvars(TConnReady(c))
  /\ WF_allvars(\E ok \in BOOLEAN : ResponseReady(NReq, ok))
TFairSpec == TSpec /\ TFairness
ProbeSpec == TSpec /\ ProbeFairness

-----------------------------------------------------------------------------
(* Observable state in the schema of the harness (harness/src/bin/timeout.rs, TSim::obs) *)
TReqSt(r) == IF out[r].res = "timeout" /\ ~HasT("KeepInner") THEN "timeout" ELSE req[r].st
TObs == [req  |-> [r \in Req |-> [st |-> TReqSt(r), o |-> IF req[r].st = "new" THEN 0 ELSE req[r].o, h2 |-> req[r].h2,
                                  polled |-> polled[r], woken |-> (Active(r) /\ woken[r]), held |-> held[r].c,
                                  out |-> out[r].res, kind |-> out[r].kind, at |-> out[r].at, iss |-> tm[r].iss]],
         conn |-> Obs.conn, idle |-> Obs.idle, wq |-> Obs.wq, cing |-> Obs.cing, ndial |-> ndial, t |-> t]

-----------------------------------------------------------------------------
(* Properties.  TimeoutObs.tla evaluates the same clauses on traces of the real code. *)
TTypeOK == /\ t \in 0..MaxT
           /\ pc.st \in {"idle", "exec", "timer"}
           /\ \A r \in Req : out[r].res \in {"none", "ok", "err", "timeout"}

AtRest == pc = Idle

\* (a) never the timeout error before the configured duration has passed since the request was issued ...
C19NotEarly == \A r \in Req : out[r].res = "timeout" => out[r].at >= Deadline(r)
\* ... and never the timeout error if the inner service resolved first: a request that was handed to the inner
\*     service and whose response was there strictly before the deadline does not time out
C19InnerFirst == \A r \in Req : out[r].res = "timeout" /\ tm[r].ho /\ resp[r].st # "none" => resp[r].at >= Deadline(r)
\* (b) a poll at or after the deadline never leaves the request unresolved ...
C19Deadline == [][tev'.e = "TPoll" /\ tev'.res = "Pending" /\ pc' = Idle => t < Deadline(tev'.r)]_allvars
\* ... so with an executor that polls a woken task it resolves at its deadline at the latest
C19ByDeadline == \A r \in Req : out[r].res # "none" /\ DurOf(r) # Inf => out[r].at <= Deadline(r)
\* ... and the timer wakes the task: an unresolved request at its deadline is always pollable (time is never blocked)
TimerWakes == \A r \in Req : AtRest /\ Active(r) /\ DurOf(r) # Inf /\ t >= Deadline(r) => Pollable(r)
\* (c) the inner result is returned unchanged
C19Unchanged == \A r \in Req : out[r].res \in {"ok", "err"} => inn[r] = [res |-> out[r].res, kind |-> out[r].kind]
C19TimeoutOnlyIfPending == \A r \in Req : out[r].res = "timeout" /\ ~HasT("TimerFirst") => inn[r].res = "pending"
\* (d) at expiry the inner work is dropped: nothing of the request is left in the foreground ...
C19Dropped == \A r \in Req : AtRest /\ out[r].res = "timeout" =>
                 /\ req[r].st = "cancelled"
                 /\ held[r] = NoH
                 /\ co[r].st \in {"gone", "bg"}
                 /\ (co[r].st = "bg" => cfg.cap)
                 /\ chan[r].st # "open" /\ chan[r].st # "sent"
\* ... and it never completes later: after a request resolved, the only steps attributed to it are those of the
\*     background continuation of its connection attempt, which exists only with continue_after_preemption
C19NoLater == [][\A r \in Req : out[r].res # "none" /\ ev' # ev /\ ev'.r = r
                    => ev'.e \in {"BgDialStart", "BgDone", "BgFail"} /\ cfg.cap]_allvars
\* (e) the pool stays able to serve: Pool.tla's safety form of "nobody is stranded" holds in the composition
\*     (NoOrphan, PureHasOwner, MarkerHasOwner), and ProbeCompletes under ProbeSpec: the probe (request NReq,
\*     no deadline, the clock need not move) resolves whatever timed out before it
ProbeCompletes == (req[NReq].st \in {"checkout", "sending"}) ~> (out[NReq].res # "none")
\* every request resolves (under TFairSpec: time passes)
C19Live == \A r \in Req : (req[r].st \in {"checkout", "sending"}) ~> (out[r].res # "none")

TView == <<View, t, dur, tm, resp, rw, out, inn, pc>>
=============================================================================
