------------------------------ MODULE WireObs ------------------------------
(***************************************************************************)
(* C13 property monitor over records taken from the REAL code (harness bin *)
(* `wire`).  Every record (abstract vector v, concrete request c, real     *)
(* observation o) is one initial state; the INVARIANT ObsC13 is the C13    *)
(* formula of Wire.tla with the token sequences instantiated by the        *)
(* concrete strings of the request (I == Inst).  Run with -continue.       *)
(*                                                                         *)
(* record modes: "layers" (public layers around a stub connection),        *)
(* "sel" (protocol selection, first bytes on the wire), "e2e" (whole       *)
(* vector through the real client stack; the request is read from the      *)
(* wire; the req-clauses are evaluated for the protocol the connection     *)
(* REALLY speaks, the selection clause for (request version, ALPN)).       *)
(*                                                                         *)
(* Host values and the CONNECT authority are compared case-insensitively   *)
(* (the harness supplies lower-cased copies); path and query exactly.      *)
(* A caller-supplied Host must come out byte-for-byte (ObsPreset).         *)
(* Differences in components the text does not name are DIFF lines         *)
(* (DRIFT), never a violation.                                             *)
(***************************************************************************)
EXTENDS Wire, Json, IOUtils

Rec == ndJsonDeserialize(IOEnv.TRACE)
N == Len(Rec)

VARIABLE l
ObsHdrSets == SUBSET Hdrs
ObsMethods == {"GET", "POST", "CONNECT", "EXT"}
ObsSchemes == {"http", "https", "ws", "wss", "other"}
ObsSeqDom == [alpn |-> Alpns, method |-> ObsMethods, scheme |-> ObsSchemes, host |-> HostKinds, port |-> Ports,
              path |-> Paths, hdrs |-> SUBSET Hdrs]

Range(s) == {s[i] : i \in DOMAIN s}
Cat(s) == LET F[i \in 0..Len(s)] == IF i = 0 THEN "" ELSE F[i-1] \o s[i] IN F[Len(s)]

R == Rec[l]
\* the abstract vector of the record (JSON arrays are sequences: the header subset becomes a set again)
RV == IF R.v.kind \in {"req", "seq"} THEN [R.v EXCEPT !.hdrs = Range(@)] ELSE R.v
Mode == R.c.mode
Parts == R.c.parts
Sub(tok) == CASE tok = "HOST" -> Parts.host_lc
              [] tok = "PORT" -> Parts.port
              [] tok = "PRESET" -> Parts.preset_lc
              [] tok = "AUTHORITY" -> Parts.authority_lc
              [] tok = "PATH" -> Parts.path
              [] tok = "QUERY" -> Parts.query
              [] tok = "ABSOLUTE" -> R.c.uri
              [] OTHER -> tok
Inst(t) == Cat([i \in DOMAIN t |-> Sub(t[i])])

RealProto == R.o.proto
\* the vector the req-clauses are evaluated for: as given (layers), or with the protocol the real connection speaks (e2e)
\* modes "client1"/"client2": the two requests of a run through the real Client::builder() client.  client1 opens the
\* connection (judged like an e2e run); client2 (a "seq" vector) is served by a pooled connection: its request clauses are
\* evaluated for the protocol of the connection it REALLY went out on, and the selection clause for the request that
\* opened that connection (prv) when it was reused, for its own version if the client dialled again.
WireModes == {"e2e", "client1", "client2"}
ReqVec == IF RV.kind = "seq" THEN AsReq(RV, IF RealProto \in ConnVers THEN RealProto
                                            ELSE ExpProto([rv |-> RV.prv, alpn |-> RV.alpn]))
          ELSE IF Mode \in WireModes /\ RealProto \in ConnVers THEN [RV EXCEPT !.conn = RealProto] ELSE RV
SelVec == IF Mode = "client2" THEN [kind |-> "sel", rv |-> IF R.o.reused THEN RV.prv ELSE RV.rv, alpn |-> RV.alpn]
          ELSE IF Mode \in WireModes THEN [kind |-> "sel", rv |-> RV.rv, alpn |-> R.c.alpn] ELSE RV
ReqObs == [kind   |-> R.o.kind,
           target |-> IF RV.kind \in {"req", "seq"} /\ RV.method = "CONNECT" THEN R.o.target_lc ELSE R.o.target,
           hosts  |-> R.o.hosts_lc, ver |-> R.o.ver, hdrs |-> Range(R.o.hdrs)]
SelObs == [kind |-> IF RealProto \in ConnVers THEN "connected" ELSE R.o.kind, proto |-> RealProto]

ObsInit == /\ l \in 1..N
           /\ vec = "observed" /\ stage = "observed" /\ req = "observed"   \* the record itself stays in Rec[l]
ObsNext == UNCHANGED <<l, vars>>

WellFormed == /\ Mode \in {"layers", "sel", "e2e", "client1", "client2"}
              /\ (Mode = "client2") = (RV.kind = "seq")
              /\ (Mode = "sel") = (RV.kind = "sel")
              /\ RV \in Vectors
              /\ (Mode \in WireModes => R.c.alpn \in Alpns)
              /\ R.o.kind \in {"sent", "error", "panicked", "pending", "timeout", "answered_without_send", "error_after_send"}

\* THE PROPERTY
ObsSelect == Mode \in {"sel"} \cup WireModes => C13select(SelVec, SelObs)
ObsReq    == Mode \in {"layers"} \cup WireModes => C13(ReqVec, ReqObs, Inst)
ObsPreset == Mode \in {"layers"} \cup WireModes /\ ReqVec.conn = "h1" /\ RV.preset # "none" /\ R.o.kind = "sent"
                => R.o.hosts = <<Parts.preset>>
Holds == ObsSelect /\ ObsReq /\ ObsPreset

Clause == IF ~ObsSelect THEN "select"
          ELSE IF ~ObsReq THEN FailedClause(ReqVec, ReqObs, Inst)
          ELSE IF ~ObsPreset THEN "h1preset" ELSE "none"
\* the input class of a violation: the fields of the vector the failed clause depends on (+ what was left over)
KeyClass(cl) ==
    CASE cl = "select"    -> <<"rv=" \o SelVec.rv, "alpn=" \o SelVec.alpn, "got=" \o RealProto>>
      [] cl = "h2connect" -> <<"rv=" \o RV.rv, "got=" \o R.o.kind>>
      [] cl = "h1target"  -> <<RV.method, "path=" \o RV.path, IF RV.query THEN "query" ELSE "noquery">>
      [] cl \in {"h1host", "h1preset"} ->
              <<RV.scheme, RV.host, "port=" \o RV.port, "preset=" \o RV.preset, "rv=" \o RV.rv,
                "n=" \o ToString(Len(R.o.hosts))>>
      [] cl = "h2version" -> <<"rv=" \o RV.rv, "got=" \o R.o.ver>>
      [] cl = "h2headers" -> <<"left=" \o ToString(Range(R.o.hdrs) \cap ConnSpecific), "host=" \o ToString(Len(R.o.hosts)),
                               "preset=" \o RV.preset>>
      [] OTHER -> <<>>
ObsC13 == Holds \/ ~PrintT(<<"BAD", ToJson([i |-> l, mode |-> Mode, clause |-> Clause, class |-> KeyClass(Clause)])>>)

\* conformance with the transcription in the components the text does not name (DRIFT only)
Exp == Expected(ReqVec)
Conforms == Mode \in {"layers"} \cup WireModes /\ Holds =>
              /\ R.o.kind = Exp.kind
              /\ (Mode \in WireModes => R.o.dials = 1 /\ R.o.requests = (IF Exp.kind = "sent" THEN 1 ELSE 0))
              /\ (Mode = "client2" => R.o.reused)
              /\ Exp.kind = "sent" =>
                   /\ Len(R.o.others) = 2
                   \* (on the wire hyper itself drops some headers, e.g. transfer-encoding without a body)
                   /\ Range(R.o.hdrs) \subseteq Exp.hdrs
                   /\ (Mode = "layers" => Range(R.o.hdrs) = Exp.hdrs)
                   /\ (Mode = "layers" /\ ReqVec.conn = "h2" => R.o.target = R.c.uri_display)
                   /\ ReqVec.conn = "h1" =>
                                            /\ (Mode = "layers" => R.o.ver = Exp.ver)
                                            /\ (Mode \in WireModes => R.o.ver = "1.1")
ObsDrift == Conforms \/ PrintT(<<"DIFF", ToJson([i |-> l])>>)

Consumed == PrintT(<<"CONSUMED", TLCGet("stats").distinct, N>>) /\ TLCGet("stats").distinct = N
=============================================================================
