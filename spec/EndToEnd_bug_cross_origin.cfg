CONSTANTS
  Req <- MCReq3
  Conn <- MCConn2
  Origin <- MCOrigin2
  Versions <- MCBoth
  Buggy <- MCBugCrossOrigin
  AllowBreak = FALSE
  AllowUpgrade = FALSE
INIT Init
NEXT Next
INVARIANTS TypeOK
PROPERTIES Matched
CHECK_DEADLOCK FALSE
