\* TlsStream generation: TLC prints op sequences (SEQ lines) that the harness replays on the real streams
SPECIFICATION Spec
CONSTANTS
  MaxOps = 4
  MaxBytes = 4
  MaxRx = 2
  Bug = "none"
  Sides <- MCSides
  Certs <- MCCerts
  ReadCaps <- MCReadCaps
  WriteLens <- MCWriteLens
  SendLens <- MCSendLens
INVARIANTS
  GenPrint
