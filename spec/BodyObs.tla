------------------------------ MODULE BodyObs ------------------------------
(***************************************************************************)
(* Property monitor for the body types and body adapters (stage of C01 and *)
(* C17), evaluated by TLC over observations RECORDED FROM THE REAL CRATE   *)
(* by harness/src/bin/body.rs (IOEnv.TRACE, ndjson):                       *)
(*   Reset  a run begins: the stack, the source, the observation right     *)
(*          after construction, what the recording inner service of a      *)
(*          body adapting layer saw                                        *)
(*   Op     one consumer operation with its result and is_end_stream /     *)
(*          size_hint after it (schema: Body!Obs0)                         *)
(*   E2E    one end-to-end case: a body variant sent through the real      *)
(*          Client <-> real Server; what the other side's application read *)
(* The monitor constrains nothing: its next-state relation is "take the    *)
(* next record".  It recomputes the reference state from the records and   *)
(* evaluates the clauses of Body.tla (Failing) on every Op record, the     *)
(* layer clauses on every Reset record and the end-to-end clauses on every *)
(* E2E record.  Every falsified clause is collected with a stable key      *)
(*     body/<clause>/<stack class>                                         *)
(*     body/e2e-<clause>/<h1|h2>/<request|response>/<variant>-<known|unknown>-length *)
(* and printed once (VIOL).  In lock-step it runs the MODEL (Body!Step) on *)
(* the same operations and reports where the real observation differs from *)
(* the modelled one: DRIFT, never a violation.                             *)
(***************************************************************************)
EXTENDS Naturals, Sequences, FiniteSets, TLC, Json, IOUtils

B == INSTANCE Body WITH MaxSteps <- 0, Stacks <- {}, MaxItems <- 0, DataLens <- {}, FullLens <- {}, Bug <- "none",
                        stack <- 0, src <- 0, ms <- 0, ref <- 0, bad <- 0, ev <- 0, hist <- 0

Rec == ndJsonDeserialize(IOEnv.TRACE)
N   == Len(Rec)
MaxKept == 400      \* violations / drifts kept in full (all are counted)

VARIABLES l, h
vars == <<l, h>>

St0 == [name |-> "", var |-> "EMPTY", ctor |-> "", boxed |-> FALSE, wire |-> "none", side |-> "none", known |-> FALSE]
H0 == [run |-> 0, base |-> 0, srck |-> "", ok |-> FALSE, st |-> St0, items |-> <<>>, ref |-> B!Ref0, ms |-> B!MS0(St0, <<>>),
       dr |-> FALSE,          \* the model has drifted in this run: no further comparison
       viol |-> <<>>, nviol |-> 0, drift |-> <<>>, ndrift |-> 0, nops |-> 0, nruns |-> 0, ne2e |-> 0]

Init == l = 0 /\ h = H0

StackOf(s) == [name |-> s.name, var |-> s.var, ctor |-> s.ctor, boxed |-> s.boxed, wire |-> s.wire, side |-> s.side, known |-> s.known]
SetToSeqSorted(S) == LET RECURSIVE f(_) f(X) == IF X = {} THEN <<>> ELSE LET x == CHOOSE y \in X : TRUE IN <<x>> \o f(X \ {x}) IN f(S)

V(key, c, rec) == [key |-> key, c |-> c, l |-> l + 1]
\* at most PerKey violations of one key are kept in full (all are counted), so that no class can crowd out another
PerKey == 25
RECURSIVE AddV(_, _)
AddV(hh, vs) == IF vs = <<>> THEN hh
                ELSE LET v == Head(vs)
                         n == Cardinality({i \in 1..Len(hh.viol) : hh.viol[i].key = v.key})
                     IN AddV([hh EXCEPT !.viol = IF n < PerKey THEN Append(@, v) ELSE @, !.nviol = @ + 1], Tail(vs))
AddD(hh, ds) == [hh EXCEPT !.drift = IF Len(@) < MaxKept THEN @ \o ds ELSE @, !.ndrift = @ + Len(ds)]
If(c, v) == IF c THEN <<v>> ELSE <<>>

(* ---- an Op record (and the observation of a Reset record) as an observation ---- *)
ObsOfReset(rec) == [B!Obs0 EXCEPT !.eos = rec.obs.eos, !.lo = rec.obs.lo, !.hiS = rec.obs.hiS, !.hi = rec.obs.hi,
                                  !.gone = rec.obs.gone, !.opanic = rec.obs.opanic, !.wakes = rec.obs.wakes]
ClauseViols(st, S, r, o) == LET F == B!Failing(st, S, r, o)
                            IN [i \in 1..Cardinality(F) |-> V("body/" \o SetToSeqSorted(F)[i] \o "/" \o st.name, SetToSeqSorted(F)[i], o)]

CmpFields == {"res", "bytes", "tv", "eos", "lo", "hiS", "hi", "gone", "fed", "wakes", "cl"}
Field(o, f) == CASE f = "res" -> o.res [] f = "bytes" -> o.bytes [] f = "tv" -> o.tv [] f = "eos" -> o.eos [] f = "lo" -> o.lo
                 [] f = "hiS" -> o.hiS [] f = "hi" -> o.hi [] f = "gone" -> o.gone [] f = "fed" -> o.fed [] f = "wakes" -> o.wakes
                 [] OTHER -> o.cl
Diff(mo, o) == {f \in CmpFields : Field(mo, f) # Field(o, f)}

(* ---- the body adapting layers: what the recording inner service saw vs what the caller saw ---- *)
LayerViols(st, rec) ==
  LET y == rec.layer
      nm == "/" \o y.kind \o "/" \o st.wire
  IN IF y.kind = "none" THEN <<>>
     ELSE   If(y.outer_ready # y.inner_ready \/ ~y.ready_woken, V("body/layer-ready-not-forwarded" \o nm, "layer-ready-not-forwarded", rec))
         \o If("none" \notin DOMAIN y.inner_req /\ y.outer_req # y.inner_req, V("body/layer-request-altered" \o nm, "layer-request-altered", rec))
         \o If(y.kind = "resp" /\ y.fut_res = "Ok" /\ y.outer_resp # y.inner_resp, V("body/layer-response-altered" \o nm, "layer-response-altered", rec))
         \o If(y.fail /\ y.outer_ready # <<>> /\ y.outer_ready[Len(y.outer_ready)] = "Ready" /\ y.fut_res # "Err5", V("body/layer-error-not-forwarded" \o nm, "layer-error-not-forwarded", rec))
         \o If(y.fut_res = "Stalled" \/ \E i \in 1..Len(y.fut) : y.fut[i].res = "Pending" /\ ~y.fut[i].woken,
               V("body/layer-future-stalled" \o nm, "layer-future-stalled", rec))
         \o If(~y.fail /\ y.outer_ready # <<>> /\ y.outer_ready[Len(y.outer_ready)] = "Ready" /\ rec.built # "ok" /\ y.fut_res \notin {"Stalled"},
               V("body/layer-no-body" \o nm, "layer-no-body", rec))

DoReset(rec) ==
  LET st == StackOf(rec.stack)
      S  == rec.items
      o  == ObsOfReset(rec)
      ok == rec.built = "ok"
      h1 == [h EXCEPT !.run = rec.run, !.base = l + 1, !.srck = rec.src, !.ok = ok, !.st = st, !.items = S,
                      !.ref = IF ok THEN B!RefNext(st, S, B!Ref0, o) ELSE B!Ref0, !.ms = B!MS0(st, S), !.dr = FALSE, !.nruns = @ + 1]
      vs == (IF ok THEN ClauseViols(st, S, B!Ref0, o) ELSE <<>>)
            \o If(rec.built = "panic", V("body/panic/" \o st.name, "panic", rec))
            \o If(rec.built = "error", V("body/build-error/" \o st.name, "build-error", rec))
            \o LayerViols(st, rec)
      df == IF ok THEN Diff(B!InitObs(st, S), o) \ {"cl", "res", "bytes", "tv", "fed"} ELSE {}
      h2 == AddV(h1, vs)
  IN IF df = {} THEN h2 ELSE AddD([h2 EXCEPT !.dr = TRUE], <<[l |-> l + 1, run |-> rec.run, base |-> l + 1, stack |-> st.name, op |-> "Init", df |-> df]>>)

DoOp(rec) ==
  LET st == h.st
      S  == h.items
      vs == ClauseViols(st, S, h.ref, rec)
      h1 == AddV([h EXCEPT !.ref = B!RefNext(st, S, h.ref, rec), !.nops = @ + 1], vs)
      follow == ~h.dr /\ ~h.ms.gone /\ rec.op \in {"Feed", "Poll", "Clone", "Drop"} /\ rec.res # "NoFeed"
      s  == B!Step(st, S, h.ms, rec.op)
      \* (whether dropping a body with a registered waker wakes it is hyper's business: not compared)
      df == IF follow THEN Diff(s.o, rec) \ (IF rec.op = "Drop" THEN {"wakes"} ELSE {}) ELSE {}
  IN IF ~h.ok THEN h
     ELSE IF ~follow THEN h1
     ELSE IF df = {} THEN [h1 EXCEPT !.ms = s.m]
     ELSE AddD([h1 EXCEPT !.dr = TRUE], <<[l |-> l + 1, run |-> h.run, base |-> h.base, stack |-> st.name, op |-> rec.op, df |-> df]>>)

(* ---- end to end ---- *)
RECURSIVE SumTo(_, _)
SumTo(steps, i) == IF i = 0 THEN 0 ELSE steps[i].n + SumTo(steps, i - 1)
E2EClass(c) == c.proto \o "/" \o c.dir \o "/" \o c.variant \o (IF c.known THEN "-known-length" ELSE "-unknown-length")
DoE2E(rec) ==
  LET c   == rec.case
      S   == c.items
      Tot == B!Total(S)
      err == B!HasErr(S)
      tr  == B!HasTr(S)
      rd  == rec.read
      fr  == rec.framing
      cls == "/" \o E2EClass(c)
      pass == c.proto = "h2" \/ ~c.known               \* trailers can travel: HTTP/2, or chunked HTTP/1 on every hop
      steps == rd.steps
      K(name) == V("body/e2e-" \o name \o cls, "e2e-" \o name, rec)
      vs ==   If(rec.panicked \/ rec.sender = "panic", K("panic"))
           \o If(rec.sender = "stalled" \/ rd.end = "stalled", K("stalled"))
           \o If(~err /\ rec.sender # "stalled" /\ rd.end # "stalled" /\ ~rec.panicked
                 /\ (rec.sender # "ok" \/ rec.status # 200 \/ rd.end # "complete"), K("error-invented"))
           \o If(~err /\ rd.end = "complete" /\ rd.n < Tot, K("truncated"))
           \o If(rd.n > Tot, K("extended"))
           \o If(rd.runs # (IF rd.n = 0 THEN <<>> ELSE << <<0, rd.n>> >>), K("altered"))
           \o If(tr /\ pass /\ rd.end = "complete" /\ (rd.ntr # 1 \/ rd.tv # B!TrailerValue), K("trailers-lost"))
           \o If(rd.ntr > (IF tr THEN 1 ELSE 0), K("trailers-invented"))
           \o If(err /\ rd.end = "complete",
                 IF c.proto = "h2" /\ ~c.known /\ c.variant \in {"relay", "relay-boxed"} THEN K("error-swallowed-h2-reset") ELSE K("error-swallowed"))
           \o If(fr.cl >= 0 /\ fr.cl # B!Decl(S), K("content-length-wrong"))
           \o If(\E i \in 1..Len(steps) : steps[i].eos /\ i < Len(steps) /\ steps[i + 1].k # "None", K("false-end"))
           \o If(~err /\ \E i \in 1..Len(steps) : LET got == SumTo(steps, i)
                                                      rem == IF Tot >= got THEN Tot - got ELSE 0
                                                  IN steps[i].lo > rem \/ (steps[i].hiS /\ steps[i].hi < rem), K("hint-unsound"))
           \o If(~err /\ c.known /\ Tot > 0 /\ rd.end = "complete" /\ fr.cl # Tot, K("framing-not-content-length"))
  IN AddV([h EXCEPT !.ne2e = @ + 1, !.run = c.id, !.base = l + 1, !.srck = "e2e"], vs)

Next == /\ l < N
        /\ l' = l + 1
        /\ LET rec == Rec[l + 1] IN
           h' = CASE rec.e = "Reset" -> DoReset(rec)
                  [] rec.e = "Op"    -> DoOp(rec)
                  [] OTHER           -> DoE2E(rec)

Spec == Init /\ [][Next]_vars

Sane == l > 0 => Rec[l].e \in {"Reset", "Op", "E2E"}
Report == l = N => /\ PrintT(<<"VIOL", ToJson(h.viol)>>)
                   /\ PrintT(<<"DRIFT", ToJson(h.drift)>>)
                   /\ PrintT(<<"STATS", ToJson([nviol |-> h.nviol, ndrift |-> h.ndrift, nops |-> h.nops, nruns |-> h.nruns, ne2e |-> h.ne2e])>>)
Consumed == TLCGet("stats").diameter - 1 = N
=============================================================================
