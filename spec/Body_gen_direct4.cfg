\* Body generation (exhaustive): every op sequence of length <= 4 over every REAL empty / full stack, printed as JSON lines
SPECIFICATION Spec
CONSTANTS
  MaxSteps = 4
  Stacks <- MCRealDirect
  MaxItems = 0
  DataLens <- L02
  FullLens <- F123
  Bug = "none"
INVARIANTS
  Emit
