SPECIFICATION Spec
INVARIANTS Sane Report
POSTCONDITION Consumed
CHECK_DEADLOCK FALSE
