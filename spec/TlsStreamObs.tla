---------------------------- MODULE TlsStreamObs ----------------------------
(***************************************************************************)
(* Property monitor over observations recorded from the REAL lazily-       *)
(* handshaking TLS streams (harness bin `tlsstream`).  The trace file      *)
(* (IOEnv.TRACE) has one line per executed schedule: [id, name, src, side, *)
(* stack, cfg, ops (one observation per step), nin, drained].  Every       *)
(* schedule is one behaviour of this monitor (the initial state chooses    *)
(* the line), one step per recorded observation.                           *)
(*                                                                         *)
(* The monitor constrains NOTHING but the clauses T1..T5 of TlsStream.tla, *)
(* restated over what can be OBSERVED from outside the stream: the return  *)
(* values, the bytes the peer decrypted, the raw bytes on the wire, the     *)
(* queue of the inner transport before and after the call, the states of   *)
(* the info receivers.  `h` is the monitor's own history (what has been    *)
(* accepted, delivered, injected).  Whether the stream "is established" is *)
(* not observable directly, so two approximations are kept:                *)
(*   h.estab  some handshake-driving entry point has returned Ok           *)
(*            (under-approximation: used where a clause needs established) *)
(*   h.could  the stream has consumed input after the peer had sent what   *)
(*            completes the handshake (over-approximation: used where a    *)
(*            clause needs "handshake still pending")                      *)
(* The INVARIANTs I_<clause> decide VIOLATION (python maps clause + side   *)
(* to the property the clause belongs to; the others are DRIFT).           *)
(*                                                                         *)
(* In lock-step the MODEL (TlsStream!Step) runs on the same ops; where the *)
(* real return value differs from the modelled one a DRIFT line is printed *)
(* (never a violation).                                                    *)
(***************************************************************************)
EXTENDS TlsStream, Json, IOUtils, TLC

Rec == ndJsonDeserialize(IOEnv.TRACE)
N   == Len(Rec)

VARIABLES k,    \* the line (schedule) this behaviour replays
          l,    \* observations consumed
          h,    \* monitor history
          bad,  \* clauses falsified by the last observation
          bph,  \* what the monitor knew about the stream BEFORE the last observation (names the situation in keys)
          df    \* first drift of the schedule: [l |-> step, f |-> fields in which the real observation differs from the model]
ovars == <<vars, k, l, h, bad, bph, df>>

Ops(i)  == Rec[i].ops
Side(i) == Rec[i].side
Cert(i) == Rec[i].cfg.cert

NoDrift == [l |-> 0, f |-> {}]
H0 == [W |-> 0, R |-> 0, PG |-> 0, Wfl |-> 0, estab |-> FALSE, could |-> FALSE, failed |-> FALSE, mfailed |-> FALSE, shut |-> FALSE,
       wblock |-> FALSE, closed |-> "open", cnIn |-> FALSE, garbIn |-> FALSE, poison |-> FALSE, fed |-> FALSE,
       rfail |-> FALSE, pdead |-> FALSE, clear |-> 0, info |-> <<>>, pendW |-> 0, room |-> FALSE]

Phase(g) == IF g.failed THEN "failed" ELSE IF g.estab THEN "up" ELSE IF g.mfailed THEN "failed?"
            ELSE IF g.could THEN "hs-done?" ELSE IF g.fed THEN "hs" ELSE "silent"
Sum4(p) == p[1] + p[2] + p[3] + p[4]
AlpnName(a) == CASE a = "h2" -> "HTTP/2.0" [] a = "http/1.1" -> "HTTP/1.1" [] OTHER -> "-"
SniName(i)  == IF Rec[i].cfg.sni = "" THEN "-" ELSE Rec[i].cfg.sni

IsSut(o)   == o.op \in SutOps /\ o.res # "Skip"
IsDrive(o) == o.op \in DriveOps /\ o.res # "Skip"
Consumed(o) == o.inq > 0 /\ o.inq2 < o.inq

(* the history after observation o *)
HNext(i, g, o) ==
  LET estab2  == g.estab \/ (IsDrive(o) /\ o.res = "Ok")
      could2  == g.could \/ (IsSut(o) /\ Consumed(o) /\ (Side(i) = "client" \/ o.phs))
      \* certainly failed (the handshake cannot have completed before) / maybe failed (or established silently and
      \* the entry point's own action failed)
      failed2 == g.failed \/ (~g.could /\ ~g.estab /\ IsDrive(o) /\ o.res \in {"Err", "Panic"})
      mfailed2 == g.mfailed \/ (~g.estab /\ IsSut(o) /\ o.res \in {"Err", "Panic"})
      \* W counts every accepted byte (upper bound of what the peer may get); delivery is only demanded for what was
      \* accepted and flushed before the caller's first Shutdown (Wfl), see T1_FlushDelivers
      acc     == IF o.op = "Write" /\ o.res = "Ok" THEN o.n ELSE 0
      poison2 == \/ (g.poison /\ ~(IsSut(o) /\ o.inq2 = 0))
                 \/ o.op = "Garbage"
                 \/ (o.op = "Pump" /\ o.inq2 > o.inq /\ (o.perr # "" \/ (Side(i) = "client" /\ Cert(i) = "bad")))
  IN [g EXCEPT !.W = @ + acc,
               !.R = @ + (IF o.op = "Read" /\ o.res = "Ok" THEN o.n ELSE 0),
               !.PG = o.pgot,
               !.Wfl = IF o.op = "Flush" /\ o.res = "Ok" /\ ~g.shut /\ g.closed = "open" THEN g.W ELSE @,
               !.estab = estab2, !.could = could2, !.failed = failed2, !.mfailed = mfailed2,
               !.shut = @ \/ (o.op = "Shutdown" /\ o.res # "Skip"),
               !.wblock = IF o.op = "WBlock" /\ o.a = 0 THEN TRUE ELSE IF o.op = "WUnblock" THEN FALSE ELSE @,
               \* the transport has room for a bounded number of bytes only (WBlock a > 0) until the next WUnblock
               !.room = IF o.op = "WBlock" /\ o.a > 0 THEN TRUE ELSE IF o.op = "WUnblock" THEN FALSE ELSE @,
               \* bytes accepted while the transport refused everything: they can only be inside the TLS session; any
               \* successful write / flush / shutdown on a free transport drains the session
               !.pendW = IF g.wblock THEN @ + acc
                         ELSE IF o.op \in {"Write", "Flush", "Shutdown"} /\ o.res = "Ok" /\ ~g.room THEN 0 ELSE @ + acc,
               !.closed = IF @ = "open" /\ o.op = "PDrop" THEN "eof" ELSE IF @ = "open" /\ o.op = "PReset" THEN "reset" ELSE @,
               !.cnIn = @ \/ (o.op = "PClose" /\ o.res # "Skip"),
               !.garbIn = @ \/ o.op = "Garbage",
               !.poison = poison2,
               !.fed = @ \/ o.inq2 > 0 \/ o.inq > 0,
               !.rfail = @ \/ (o.op = "Read" /\ o.res \in {"Err", "Panic"}),
               !.pdead = @ \/ o.perr # "",
               !.clear = o.clear,
               !.info = o.info]

\* receiver j shows the info now and did not (or did not exist) before this observation
Newly(g, o, j) == o.info[j].st = "some" /\ (j > Len(g.info) \/ g.info[j].st # "some")

(* the clauses: the set of names falsified by observation o in history g (schedule i); `lastone` = o is the final
   observation of the schedule *)
Failing(i, g, o, lastone) ==
  LET g2 == HNext(i, g, o)
      srv == Side(i) = "server"
  IN
  \* ---- T1 (C18): exactly the bytes written, in order; end of stream and errors propagated
     (IF o.pnew # <<>> /\ ~(o.pnew = Run(g.PG + 1, g.PG + Len(o.pnew)) /\ g.PG + Len(o.pnew) <= g2.W /\ o.pgot = g.PG + Len(o.pnew))
        THEN {"T1_PrefixOut"} ELSE {})
  \cup (IF o.op = "Read" /\ o.res = "Ok" /\ ~(o.data = Run(g.R + 1, g.R + o.n) /\ o.n = Len(o.data) /\ o.n <= o.a /\ g.R + o.n <= o.psent)
        THEN {"T1_PrefixIn"} ELSE {})
  \cup (IF o.op = "Write" /\ o.res = "Ok" /\ o.n > o.a THEN {"T1_WriteRet"} ELSE {})
  \cup (IF o.op = "Read" /\ o.res = "Ok" /\ o.n = 0 /\ o.a > 0 /\ ~(g.cnIn /\ g.R = o.psent) THEN {"T1_EofReal"} ELSE {})
  \cup (IF o.op = "Read" /\ o.res # "Skip" /\ o.a > 0 /\ g.estab /\ g.cnIn /\ ~g.garbIn /\ ~g.rfail /\ g.R = o.psent
           /\ ~(o.res = "Ok" /\ o.n = 0) THEN {"T1_EofProp"} ELSE {})
  \* (what follows the peer's close_notify is ignored by rustls: no demand then)
  \cup (IF IsSut(o) /\ g.poison /\ ~g.cnIn /\ o.inq > 0 /\ o.inq2 = 0 /\ o.res \in {"Ok", "Pending"} THEN {"T1_ErrProp"} ELSE {})
  \cup (IF o.op = "Read" /\ o.res # "Skip" /\ g.estab /\ g.closed # "open" /\ ~g.cnIn /\ ~g.rfail /\ o.inq = 0 /\ g.R = o.psent
           /\ o.res \in {"Ok", "Pending"} THEN {"T1_LossReported"} ELSE {})
  \cup (IF o.op = "Pump" /\ o.perr = "" /\ ~g.pdead /\ g.closed = "open" /\ o.pgot < g.Wfl THEN {"T1_FlushDelivers"} ELSE {})
  \* Flush says Ok while the transport refuses every byte and accepted bytes are still inside the TLS session
  \cup (IF o.op = "Flush" /\ o.res = "Ok" /\ g.wblock /\ g.pendW > 0 /\ g.closed = "open" THEN {"T1_FlushHonest"} ELSE {})
  \cup (IF lastone /\ Rec[i].drained /\ ~(g2.PG = g2.W /\ g2.R = o.psent /\ g2.estab) THEN {"T1_AtEnd"} ELSE {})
  \cup (IF IsSut(o) /\ o.res = "Pending" /\ ~o.armed THEN {"T3_PendArmed"} ELSE {})
  \cup (IF o.res = "Panic" /\ ~g.mfailed THEN {"NoPanic"} ELSE {})
  \* ---- T2 (C12): nothing in the clear, nothing before the handshake
  \cup (IF o.clear > g.clear THEN {"T2_NoClear"} ELSE {})
  \cup (IF IsDrive(o) /\ ~g.fed /\ g.closed = "open" /\ o.res # "Pending" THEN {"T3_StallPending"} ELSE {})
  \* data accepted from / handed to the application on a stream whose handshake cannot have succeeded
  \cup (IF o.op \in {"Read", "Write"} /\ o.res = "Ok" /\ (Cert(i) = "bad" \/ g.failed) THEN {"T3_NoFalseSuccess"} ELSE {})
  \* poll_handshake / an entry point says Ok although the handshake is not over (or cannot have succeeded)
  \cup (IF IsDrive(o) /\ o.res = "Ok" /\ ((srv /\ ~o.phs) \/ (o.op = "Fin" /\ (Cert(i) = "bad" \/ g.failed))) THEN {"T5_OkMeansDone"} ELSE {})
  \* ---- T3 (C09 / C07): stalled and failed handshakes
  \cup (IF IsSut(o) /\ (Sum4(o.polls) > 24 \/ o.spin) THEN {"T3_NoSpin"} ELSE {})
  \cup (IF o.op = "Shutdown" /\ o.res = "Pending" /\ ~g.could /\ ~g.estab /\ o.inq = 0 /\ ~g.wblock THEN {"T3_ShutdownReady"} ELSE {})
  \cup (IF IsDrive(o) /\ ~g.could /\ ~g.estab /\ ~g.failed /\ o.res \in {"Ok", "Pending"}
           /\ ((g.poison /\ o.inq > 0 /\ o.inq2 = 0) \/ (g.closed # "open" /\ o.inq = 0))
        THEN {"T3_FailReported"} ELSE {})
  \cup (IF IsDrive(o) /\ ((g.failed /\ o.res # "Err") \/ (g.mfailed /\ o.res = "Panic")) THEN {"T3_FailedSticky"} ELSE {})
  \* ---- T4 (C20): the info.  Judged when something changes: a receiver resolves (Newly), a receiver is created, the
  \*      stream becomes established
  \cup (IF \E j \in 1..Len(o.info) : Newly(g, o, j) /\ srv /\ o.info[j].sni # SniName(i) THEN {"T4_SniEqual"} ELSE {})
  \cup (IF \E j \in 1..Len(o.info) : Newly(g, o, j) /\ o.info[j].alpn # AlpnName(o.palpn) THEN {"T4_AlpnEqual"} ELSE {})
  \cup (IF g2.estab /\ (~g.estab \/ o.op = "Recv") /\ (\E j \in 1..Len(o.info) : o.info[j].st # "some") THEN {"T4_Available"} ELSE {})
  \cup (IF (\E j \in 1..Len(o.info) : o.info[j].st \notin {"pending", "some", "nostream"} /\ ~(~srv /\ o.info[j].st = "none")
                                      /\ (j > Len(g.info) \/ g.info[j].st # o.info[j].st))
        THEN {"T4_Lost"} ELSE {})
  \cup (IF (\E j \in 1..Len(o.info) : j <= Len(g.info) /\ g.info[j].st = "some" /\ o.info[j] # g.info[j]) THEN {"T4_Stable"} ELSE {})
  \cup (IF (\E j \in 1..Len(o.info) : Newly(g, o, j)) /\ ~g2.could THEN {"T4_NotBeforeSuccess"} ELSE {})
  \cup (IF (\E j \in 1..Len(o.info) : Newly(g, o, j)) /\ g2.failed THEN {"T4_NeverOnFail"} ELSE {})
  \* ---- T5
  \cup (IF o.op = "Fin" /\ o.res # "Skip" /\ g.estab /\ o.res # "Ok" THEN {"T5_Idempotent"} ELSE {})

(* lock-step with the model: which fields differ (DRIFT only) *)
Diff(ml, x, o) ==
  IF o.res = "Skip" THEN {}
  \* (a re-poll after a reported failure: the as-built model says Panic, the intended one Err; clause T3_FailedSticky
  \*  reports that deviation, it is not counted as drift a second time)
  ELSE (IF ml.res # o.res /\ ~({ml.res, o.res} = {"Panic", "Err"}) THEN {"res"} ELSE {})
  \cup (IF ml.res = o.res /\ ml.n # o.n THEN {"n"} ELSE {})
  \cup (IF ml.res = o.res /\ ml.res = "Err" /\ ml.kind # o.kind /\ o.op # "Fin" THEN {"kind"} ELSE {})
  \cup (IF ml.res = o.res /\ o.op = "Read" /\ ml.data # o.data THEN {"data"} ELSE {})
  \cup (IF Len(x.pgot) # o.pgot THEN {"pgot"} ELSE {})
  \cup (IF (x.info = "neg") # (\E j \in 1..Len(o.info) : o.info[j].st = "some") /\ (x.side = "client" \/ Len(o.info) > 0) THEN {"info"} ELSE {})

ObsInit == /\ k \in 1..N
           /\ l = 0
           /\ s = S0(Rec[k].side, Rec[k].cfg.cert)
           /\ last = NoLast
           /\ hist = <<>>
           /\ h = H0
           /\ bad = {}
           /\ bph = "silent"
           /\ df = NoDrift

ObsNext == /\ l < Len(Ops(k))
           /\ LET o == Ops(k)[l + 1]
                  \* C_TRANSPORT: entry points other than the connect future do not exist before it resolves (Skip); the
                  \* model has no such stage, lock-step ends there (df.l = 999999: abandoned, nothing reported)
                  r == IF o.res = "Skip" \/ (o.op = "WBlock" /\ o.a > 0) \/ df.l # 0 THEN [x |-> s, l |-> [res |-> o.res, n |-> o.n, kind |-> o.kind, data |-> o.data]]
                       ELSE Step(s, o.op, o.a)
              IN /\ bad' = Failing(k, h, o, l + 1 = Len(Ops(k)))
                 /\ bph' = Phase(h)
                 /\ h' = HNext(k, h, o)
                 /\ s' = r.x
                 \* after the first drift of a schedule the model is no longer in step: keep reporting only that one
                 /\ df' = IF df.l # 0 THEN df
                          ELSE IF o.res = "Skip" \/ (o.op = "WBlock" /\ o.a > 0) THEN [l |-> 999999, f |-> {}]
                          ELSE LET d == Diff(r.l, r.x, o) IN IF d = {} THEN NoDrift ELSE [l |-> l + 1, f |-> d]
                 /\ last' = last
           /\ l' = l + 1
           /\ UNCHANGED <<hist, k>>

Clauses == {"T1_FlushHonest", "T1_PrefixOut", "T1_PrefixIn", "T1_WriteRet", "T1_EofReal", "T1_EofProp", "T1_ErrProp", "T1_LossReported",
            "T1_FlushDelivers", "T1_AtEnd", "T3_PendArmed", "NoPanic", "T2_NoClear", "T3_StallPending", "T3_NoFalseSuccess",
            "T5_OkMeansDone", "T3_NoSpin", "T3_ShutdownReady", "T3_FailReported", "T3_FailedSticky", "T4_SniEqual",
            "T4_AlpnEqual", "T4_Available", "T4_Lost", "T4_Stable", "T4_NotBeforeSuccess", "T4_NeverOnFail", "T5_Idempotent"}

I_T1_PrefixOut        == "T1_PrefixOut" \notin bad
I_T1_PrefixIn         == "T1_PrefixIn" \notin bad
I_T1_WriteRet         == "T1_WriteRet" \notin bad
I_T1_EofReal          == "T1_EofReal" \notin bad
I_T1_EofProp          == "T1_EofProp" \notin bad
I_T1_ErrProp          == "T1_ErrProp" \notin bad
I_T1_LossReported     == "T1_LossReported" \notin bad
I_T1_FlushDelivers    == "T1_FlushDelivers" \notin bad
I_T1_AtEnd            == "T1_AtEnd" \notin bad
I_T1_FlushHonest      == "T1_FlushHonest" \notin bad
I_T3_PendArmed        == "T3_PendArmed" \notin bad
I_NoPanic             == "NoPanic" \notin bad
I_T2_NoClear          == "T2_NoClear" \notin bad
I_T3_StallPending     == "T3_StallPending" \notin bad
I_T3_NoFalseSuccess   == "T3_NoFalseSuccess" \notin bad
I_T5_OkMeansDone      == "T5_OkMeansDone" \notin bad
I_T3_NoSpin           == "T3_NoSpin" \notin bad
I_T3_ShutdownReady    == "T3_ShutdownReady" \notin bad
I_T3_FailReported     == "T3_FailReported" \notin bad
I_T3_FailedSticky     == "T3_FailedSticky" \notin bad
I_T4_SniEqual         == "T4_SniEqual" \notin bad
I_T4_AlpnEqual        == "T4_AlpnEqual" \notin bad
I_T4_Available        == "T4_Available" \notin bad
I_T4_Lost             == "T4_Lost" \notin bad
I_T4_Stable           == "T4_Stable" \notin bad
I_T4_NotBeforeSuccess == "T4_NotBeforeSuccess" \notin bad
I_T4_NeverOnFail      == "T4_NeverOnFail" \notin bad
I_T5_Idempotent       == "T5_Idempotent" \notin bad

(* which property's text a clause belongs to (conservative: everything else is DRIFT only).  C12 speaks about the client
   transport, C09 / C07 / C20 about the server; C18 names the dispatch wrappers whose Tls arm these streams are. *)
Pids(c, side) ==
  CASE c \in {"T1_PrefixOut", "T1_PrefixIn", "T1_WriteRet", "T1_EofReal", "T1_EofProp", "T1_ErrProp", "T1_LossReported",
              "T1_FlushDelivers", "T1_FlushHonest", "T1_AtEnd", "T3_PendArmed"} -> {"C18"}
    [] c = "NoPanic" -> IF side = "server" THEN {"C18", "C09"} ELSE {"C18"}
    [] c \in {"T2_NoClear", "T3_NoFalseSuccess"} -> IF side = "client" THEN {"C12"} ELSE {}
    [] c = "T3_FailReported" -> IF side = "server" THEN {"C09"} ELSE {"C12"}
    [] c = "T3_NoSpin" -> IF side = "server" THEN {"C09"} ELSE {}
    [] c = "T3_ShutdownReady" -> IF side = "server" THEN {"C07"} ELSE {}
    [] c \in {"T4_SniEqual", "T4_Available", "T4_Lost"} -> IF side = "server" THEN {"C20"} ELSE {}
    [] OTHER -> {}
I_Pid(p) == \A c \in bad : p \notin Pids(c, Side(k))
I_C18 == I_Pid("C18")
I_C12 == I_Pid("C12")
I_C09 == I_Pid("C09")
I_C07 == I_Pid("C07")
I_C20 == I_Pid("C20")

(* tool sanity (a failure here is a harness problem, not a verdict) *)
I_Sane == l > 0 =>
            LET o == Ops(k)[l] IN
            /\ o.op \in SutOps \cup {"Recv", "Pump", "PSend", "PClose", "PDrop", "PReset", "Garbage", "WBlock", "WUnblock"}
            /\ o.res \in {"Ok", "Pending", "Err", "Panic", "Skip"}
            /\ Rec[k].side \in {"server", "client"}
            /\ o.pgot >= 0 /\ o.psent >= 0 /\ Len(o.polls) = 4

(* reporting pass: never false; one line per falsified observation / per first drift of a schedule *)
Report == /\ (bad = {} \/ PrintT(<<"BAD", ToJson([k |-> k, l |-> l, bad |-> bad, ph |-> bph])>>))
          /\ (df.l # l \/ l = 0 \/ PrintT(<<"DRIFT", ToJson([k |-> k, l |-> l, df |-> df.f])>>))

ObsView == <<k, l, bad, df>>
=============================================================================
