SPECIFICATION Spec
INVARIANT KeyMergeHolds
CHECK_DEADLOCK FALSE
CONSTANT KeyMergesWsIntoHttp = TRUE
CONSTANT SetterDropsTls = FALSE
