SPECIFICATION Spec
CONSTANT Variant <- MCAsBuilt
CONSTANT InfoVariant <- MCShared
INVARIANT TypeOK
INVARIANT InvC20Report
