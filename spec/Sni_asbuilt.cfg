SPECIFICATION Spec
CONSTANT Variant <- MCAsBuilt
INVARIANT TypeOK
INVARIANT InvC20Report
