INIT ObsInit
NEXT ObsNext
CONSTANT HdrSets <- ObsHdrSets
CONSTANT Methods <- ObsMethods
CONSTANT SeqDom <- ObsSeqDom
CONSTANT Schemes <- ObsSchemes
INVARIANT WellFormed
INVARIANT ObsC13
INVARIANT ObsDrift
POSTCONDITION Consumed
