INIT Init
NEXT Next
INVARIANTS Consumed C16Holds
CHECK_DEADLOCK FALSE
