SPECIFICATION Spec
CONSTANT NbK = 2
CONSTANT SampleN = 3000
CONSTANT InitVectors <- MCInitVectors
INVARIANT Gen
CHECK_DEADLOCK FALSE
