SPECIFICATION Spec
INVARIANT Gen
CHECK_DEADLOCK FALSE
