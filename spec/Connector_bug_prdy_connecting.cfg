SPECIFICATION Spec
CONSTANTS
  NCalls = 1
  Kinds <- KBoth
  Vers <- V11_2_3
  Spurious = TRUE
  MaxGen = 1
  AllowDrop = TRUE
  Look = 4
  WithSvc = FALSE
  Variant = "prdy_connecting"
VIEW View
CONSTRAINT Bound
INVARIANTS TypeOK 
PROPERTIES K1_Result
CHECK_DEADLOCK FALSE
