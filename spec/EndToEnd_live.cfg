CONSTANTS
  Req <- MCReq2
  Conn <- MCConn2
  Origin <- MCOrigin2
  Versions <- MCBoth
  Buggy <- MCNoBug
  AllowBreak = TRUE
  AllowUpgrade = TRUE
SPECIFICATION FairSpec
INVARIANTS TypeOK FailedOnlyIfBroken
PROPERTY Completes
CHECK_DEADLOCK FALSE
