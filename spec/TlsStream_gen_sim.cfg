\* TlsStream generation: TLC prints op sequences (SEQ lines) that the harness replays on the real streams
SPECIFICATION Spec
CONSTANTS
  MaxOps = 12
  MaxBytes = 4
  MaxRx = 2
  Bug = "none"
  Sides <- MCSides
  Certs <- MCCerts
  ReadCaps <- MCReadCapsW
  WriteLens <- MCWriteLensW
  SendLens <- MCSendLens
INVARIANTS
  GenPrintCorner
