CONSTANTS
  Req <- MCReq3
  Conn <- MCConn2
  Origin <- MCOrigin2
  Versions <- MCBoth
  Buggy <- MCNoBug
  AllowBreak = TRUE
  AllowUpgrade = FALSE
SPECIFICATION FairSpec
INVARIANTS TypeOK FailedOnlyIfBroken
PROPERTY Completes
CHECK_DEADLOCK FALSE
