\* TlsStream vacuity guard / standing demonstration: the design variant "shutdownskip" MUST violate T1_FlushDelivers
SPECIFICATION Spec
CONSTANTS
  MaxOps = 5
  MaxBytes = 3
  MaxRx = 1
  Bug = "shutdownskip"
  Sides <- MCSides
  Certs <- MCCerts
  ReadCaps <- MCReadCaps
  WriteLens <- MCWriteLens
  SendLens <- MCSendLens
VIEW MCView
INVARIANTS
  T1_FlushDelivers
