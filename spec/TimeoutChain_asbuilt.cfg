CONSTANTS
  MaxHops = 2
  Delays = {0, 1, 2}
  Durs = {0, 1, 3}
  AsBuilt = {"TimeoutInsideRedirect"}
  Gen = FALSE
SPECIFICATION Spec
INVARIANTS ChainByDeadline ChainNoStall ChainNotEarly ChainInnerFirst ChainOkIsInner
CHECK_DEADLOCK FALSE
