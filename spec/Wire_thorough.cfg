SPECIFICATION Spec
CONSTANT HdrSets <- ThoroughHdrSets
CONSTANT Methods <- AllMethods
CONSTANT SeqDom <- ThoroughSeqDom
CONSTANT Schemes <- AllSchemes
INVARIANT TypeOK
INVARIANT InvC13
INVARIANT InvExpected
INVARIANT InvSeqConn
