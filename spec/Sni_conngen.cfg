INIT ChainGenInit
NEXT ChainGenNext
CONSTANT Variant <- MCIntended
CONSTANT InfoVariant <- MCShared
