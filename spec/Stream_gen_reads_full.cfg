\* C18 generation: EVERY read-only sequence of length 2 on the Rewind stacks (exhaustive): each cap / pre-filled
\* length against each remaining prefix
SPECIFICATION SpecReads
CONSTANTS
  MaxSteps = 2
  Bug = "none"
  Stacks <- MCRewindStacks
  ReadCaps <- MCReadCaps
  ReadPres <- MCReadPres
  UBs <- MCUBs
  WriteLens <- MCWriteLens
  VecLens <- MCVecLens
  RInj <- MCRInj
  WInj <- MCWInj
  CInj <- MCCInj
INVARIANTS
  GenPrint
