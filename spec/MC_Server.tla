----------------------------- MODULE MC_Server -----------------------------
(* Model-checking instance of Server.tla: constant values and generation helpers. *)
EXTENDS Server, Json

AllProtos  == {"h1", "h2", "auto"}
H1Only     == {"h1"}
H1Auto     == {"h1", "auto"}
BothBool   == BOOLEAN
OnlyFalse  == {FALSE}
OnlyTrue   == {TRUE}
SigNever   == {0}
SigSome    == {0, 1, 2}
SigFirst   == {1}

\* generation: one JSON line per behaviour, printed when the environment budget is used up and settled
GenDone  == GenMode /\ mode = "env" /\ (nenv = GenLen \/ ~ENABLED Environment)
GenPrint == GenDone => PrintT(<<"REPLAY", ToJson([cfg |-> cfg, steps |-> hist])>>)
=============================================================================
