CONSTANTS
  NReq = 3
  NOrig = 1
  MaxDial = 2
  MaxTick = 0
  AsBuilt = {}
  Caps = {TRUE, FALSE}
  MaxIdles = {1}
  IdleTimeouts = {0}
  Protos = {TRUE, FALSE}
  Faults <- SomeFaults
  Spurious = FALSE
  AllowDrop = FALSE
INIT Init
NEXT Next
VIEW View
INVARIANTS TypeOK C02state HandleUnique C15 NoOrphan PureHasOwner MarkerHasOwner
PROPERTIES C02step C06step C05step C05pop C14a C04iv C04ivIdle C04kept C04issue C04dial NoSpuriousError
CHECK_DEADLOCK FALSE
