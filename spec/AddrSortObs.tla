---------------------------- MODULE AddrSortObs ----------------------------
(* Property monitor for C16.  Reads the ndjson file named by the environment variable TRACE: one     *)
(* record {"sid": k, "v": <vector>, "o": {"plan": [...]}} per vector pushed through the REAL          *)
(* TcpTransport (verif_plan hook; or, "layer":"order", the arrival order at a loopback listener       *)
(* behind connect_to_addrs), steps through the file (Chunk records per step) and evaluates the C16    *)
(* formulas of AddrSortProps.tla - the same operators that are invariants of AddrSort.tla - on every  *)
(* record.  Every falsified record is printed (`VIOL`) and counted; at the end of the file the         *)
(* invariant C16Holds fails if any record falsified the property.  This decides a VIOLATION.          *)
EXTENDS AddrSortProps, TLC, Json, IOUtils

Rec == ndJsonDeserialize(IOEnv.TRACE)
Chunk == 500

VARIABLES l, bad

IsFirst(r) == "layer" \in DOMAIN r /\ r.layer = "first"
Holds(r) == IF IsFirst(r) THEN C16_FirstStarted(r.v, r.o) ELSE C16(r.v, r.o)

ReportViol(k) == LET r == Rec[k] IN
  PrintT(<<"VIOL", ToJson([k |-> k, sid |-> r.sid, clauses |-> IF IsFirst(r) THEN {"C16_FirstStarted"} ELSE C16_Clauses(r.v, r.o)])>>)

Init == l = 0 /\ bad = 0
Next == /\ l < Len(Rec)
        /\ LET hi == IF l + Chunk < Len(Rec) THEN l + Chunk ELSE Len(Rec)
               F  == {k \in (l + 1)..hi : ~Holds(Rec[k])}
           IN /\ l' = hi
              /\ bad' = bad + Cardinality(F)
              /\ \A k \in F : ReportViol(k)

AtEnd    == l = Len(Rec)
Consumed == AtEnd => PrintT(<<"CONSUMED", l>>)
C16Holds == AtEnd => bad = 0
=============================================================================
