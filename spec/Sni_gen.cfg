SPECIFICATION Spec
CONSTANT Variant <- MCIntended
INVARIANT Gen
