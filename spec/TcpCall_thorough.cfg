CONSTANTS
  N = 3
  Grid <- cUnusedSet
  Delays <- cUnusedSet
  Timeouts <- cUnusedSet
  Concs <- cUnusedSet
  TimeoutWholeSet = FALSE
  WrongDefaultPort = FALSE
  SwallowResolverError = FALSE
  DetachedCall = FALSE
  WsDefaults = FALSE
INIT InitThorough
NEXT CallNext
INVARIANTS CallTypeOK CallC10Inv CallC11Inv CallC17Inv CancelInv EbC10Inv EbC11Inv CallTight
CHECK_DEADLOCK FALSE
