INIT Init
NEXT Next
INVARIANTS Consumed C11Holds
CHECK_DEADLOCK FALSE
