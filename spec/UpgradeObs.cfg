\* upgrade monitor: the clauses U1..U5 over recorded real observations (one record per executed scenario)
SPECIFICATION Spec
INVARIANTS Sane Report
POSTCONDITION Consumed
CHECK_DEADLOCK FALSE
