CONSTANTS
  NReq = 3
  Origins = {o1}
  MaxDial = 3
  AsBuilt = {"D1","D2","D3","D4","D5","D13","D11"}
  Caps = {FALSE}
  MaxIdles = {1}
  o1 = o1
  o2 = o2
INIT Init
NEXT Next
VIEW View
INVARIANTS C04iv
CHECK_DEADLOCK FALSE
