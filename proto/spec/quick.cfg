CONSTANTS
  NReq = 3
  Origins = {o1}
  MaxDial = 2
  AsBuilt = {}
  Caps = {TRUE, FALSE}
  MaxIdles = {1, 2}
  o1 = o1
  o2 = o2
INIT Init
NEXT Next
VIEW View
INVARIANTS TypeOK C02 HandleUnique C06 C15 C14a C04iv NoOrphan
CHECK_DEADLOCK FALSE
