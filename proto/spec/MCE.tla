---- MODULE MCE ----
EXTENDS Eyeballs
cDelays == {-1, 0, 1, 3}
cTimeouts == {-1, 0, 2, 3, 5}
cConcs == {-1, 0, 1, 2, 3}
====
