CONSTANTS
  NReq = 3
  Origins = {o1}
  MaxDial = 3
  AsBuilt = {"D1","D2","D3","D4","D5","D11","D13"}
  Caps = {TRUE, FALSE}
  MaxIdles = {1, 2}
  o1 = o1
  o2 = o2
INIT InitH
NEXT NextLC
INVARIANT Emit
CHECK_DEADLOCK FALSE
