----------------------------- MODULE Eyeballs -----------------------------
(* Scratch prototype: timed transcription of EyeballSet::{finish, process_all, *)
(* join_next_with_timeout, join_next} (src/happy_eyeballs.rs).                 *)
EXTENDS Integers, Sequences, FiniteSets, TLC, Json

CONSTANTS N,          \* max number of attempts
          Grid,       \* latencies
          Delays,     \* stagger delays; -1 = None
          Timeouts,   \* overall timeouts; -1 = None
          Concs       \* initial concurrency; -1 = None

Att == 1..N
NONE == -1
INF == 1000

VARIABLES n, outcome, lat, delay, tmo, conc,      \* scenario (fixed in Init)
          now, q, cur, running, fresh, start, firstErr, phase, stepDl, result, nInit

scn == <<n, outcome, lat, delay, tmo, conc>>
vars == <<n, outcome, lat, delay, tmo, conc, now, q, cur, running, fresh, start, firstErr, phase, stepDl, result, nInit>>

Init ==
  /\ n \in 0..N
  /\ outcome \in [Att -> {"ok", "err", "never"}]
  /\ lat \in [Att -> Grid]
  /\ \A i \in Att : i > n => outcome[i] = "never" /\ lat[i] = 0     \* canonical padding
  /\ \A i \in Att : outcome[i] = "never" => lat[i] = 0
  /\ delay \in Delays /\ tmo \in Timeouts /\ conc \in Concs
  /\ now = 0
  /\ q = [i \in 1..n |-> i]
  /\ cur = 0 /\ running = {} /\ fresh = <<>> /\ start = [i \in Att |-> NONE]
  /\ firstErr = 0 /\ phase = "init" /\ stepDl = NONE
  /\ result = [kind |-> "none", id |-> 0, at |-> NONE]
  /\ nInit = 0

OverallDl == IF tmo = NONE THEN INF ELSE tmo            \* finish() is first polled at t = 0
Due(i) == i \in running /\ outcome[i] # "never" /\ start[i] + lat[i] <= now
DueSet == {i \in running : Due(i)}

\* pop the next queued attempt into `cur` and arm the step timer
NextQueued(qq) ==
  IF qq = <<>> THEN /\ phase' = "drain" /\ cur' = 0 /\ q' = <<>> /\ stepDl' = NONE
  ELSE /\ phase' = "stagger" /\ cur' = Head(qq) /\ q' = Tail(qq)
       /\ stepDl' = IF delay = NONE THEN NONE ELSE now + delay

StartInitial ==
  /\ phase = "init"
  /\ LET k == IF conc = NONE THEN Len(q) ELSE IF conc < Len(q) THEN conc ELSE Len(q)
     IN /\ fresh' = SubSeq(q, 1, k)             \* tasks.push: not polled yet
        /\ nInit' = k
        /\ NextQueued(SubSeq(q, k + 1, Len(q)))
  /\ UNCHANGED <<scn, now, firstErr, result, running, start>>

StartCur(run, st) ==          \* tasks.push(future): queued behind whatever is already queued, not polled yet
  /\ running' = run
  /\ start' = st
  /\ fresh' = Append(fresh, cur)
  /\ NextQueued(q)

\* what happens when attempt i is found Ready by FuturesUnordered
Finish(i, run, st) ==
  IF outcome[i] = "ok"
  THEN /\ result' = [kind |-> "ok", id |-> i, at |-> now]
       /\ phase' = "done"
       /\ running' = run /\ start' = st
       /\ UNCHANGED <<firstErr, q, cur, stepDl, fresh>>
  ELSE /\ firstErr' = IF firstErr = 0 THEN i ELSE firstErr
       /\ IF phase = "stagger"
          THEN StartCur(run, st)
          ELSE /\ running' = run /\ start' = st
               /\ UNCHANGED <<q, cur, stepDl, phase, fresh>>
       /\ UNCHANGED result

\* a woken attempt completes (ties: any due attempt may have been woken first); woken tasks sit in
\* the ready queue ahead of futures pushed during this poll
Complete(i) ==
  /\ phase \in {"stagger", "drain"} /\ Due(i)
  /\ Finish(i, running \ {i}, start)
  /\ UNCHANGED <<scn, now, nInit>>

\* first poll of a pushed future, in push order; FuturesUnordered returns at the first Ready one
PollFresh ==
  /\ phase \in {"stagger", "drain"} /\ DueSet = {} /\ fresh # <<>>
  /\ LET i == Head(fresh)
         st == [start EXCEPT ![i] = now]
     IN IF outcome[i] # "never" /\ lat[i] = 0
        THEN \* ready on its first poll
             IF outcome[i] = "ok"
             THEN /\ result' = [kind |-> "ok", id |-> i, at |-> now] /\ phase' = "done"
                  /\ start' = st /\ fresh' = Tail(fresh)
                  /\ UNCHANGED <<running, firstErr, q, cur, stepDl>>
             ELSE /\ firstErr' = IF firstErr = 0 THEN i ELSE firstErr
                  /\ start' = st
                  /\ IF phase = "stagger"
                     THEN /\ fresh' = Append(Tail(fresh), cur) /\ NextQueued(q) /\ UNCHANGED running
                     ELSE /\ fresh' = Tail(fresh) /\ UNCHANGED <<running, q, cur, stepDl, phase>>
                  /\ UNCHANGED result
        ELSE /\ running' = running \cup {i} /\ start' = st /\ fresh' = Tail(fresh)
             /\ UNCHANGED <<firstErr, q, cur, stepDl, phase, result>>
  /\ UNCHANGED <<scn, now, nInit>>

\* FuturesUnordered is empty
Exhausted ==
  /\ phase \in {"stagger", "drain"} /\ running = {} /\ fresh = <<>>
  /\ IF phase = "stagger"
     THEN /\ StartCur(running, start) /\ UNCHANGED <<result, firstErr>>
     ELSE /\ result' = IF firstErr # 0 THEN [kind |-> "err", id |-> firstErr, at |-> now]
                       ELSE [kind |-> "noprogress", id |-> 0, at |-> now]
          /\ phase' = "done"
          /\ UNCHANGED <<running, start, q, cur, stepDl, firstErr, fresh>>
  /\ UNCHANGED <<scn, now, nInit>>

\* the per-step timeout fires (join_next was polled first and found nothing)
StepTick ==
  /\ phase = "stagger" /\ running # {} /\ DueSet = {} /\ fresh = <<>>
  /\ stepDl # NONE /\ stepDl <= now
  /\ StartCur(running, start)
  /\ UNCHANGED <<scn, now, firstErr, result, nInit>>

InnerQuiet == /\ phase \in {"stagger", "drain"} /\ DueSet = {} /\ running # {} /\ fresh = <<>>
              /\ ~(phase = "stagger" /\ stepDl # NONE /\ stepDl <= now)

\* the overall deadline fires (process_all was polled first and is pending)
Deadline ==
  /\ InnerQuiet /\ OverallDl <= now
  /\ result' = [kind |-> "timeout", id |-> 0, at |-> now]
  /\ phase' = "done"
  /\ UNCHANGED <<scn, now, q, cur, running, start, firstErr, stepDl, nInit, fresh>>

NextEvents == {start[i] + lat[i] : i \in {j \in running : outcome[j] # "never"}}
              \cup (IF phase = "stagger" /\ stepDl # NONE THEN {stepDl} ELSE {})
              \cup (IF tmo # NONE THEN {OverallDl} ELSE {})
Min(S) == CHOOSE x \in S : \A y \in S : x <= y

Advance ==
  /\ InnerQuiet /\ OverallDl > now
  /\ IF NextEvents = {}
     THEN /\ result' = [kind |-> "hang", id |-> 0, at |-> now] /\ phase' = "done" /\ now' = now
     ELSE /\ now' = Min(NextEvents) /\ UNCHANGED <<result, phase>>
  /\ UNCHANGED <<scn, q, cur, running, start, firstErr, stepDl, nInit, fresh>>

Next == StartInitial \/ (\E i \in Att : Complete(i)) \/ PollFresh \/ Exhausted \/ StepTick \/ Deadline \/ Advance
Spec == Init /\ [][Next]_vars

---------------------------------------------------------------------------
Done == phase = "done"
Started == {i \in 1..n : start[i] # NONE}
FinishOf(i) == start[i] + lat[i]

\* C10
C10 == Done =>
  /\ (result.kind = "ok" =>
        /\ outcome[result.id] = "ok" /\ result.id \in Started /\ FinishOf(result.id) = result.at
        /\ \A j \in Started : outcome[j] = "ok" => FinishOf(j) >= result.at)          \* first success wins
  /\ ((\E i \in Started : outcome[i] = "ok" /\ FinishOf(i) <= OverallDl) => result.kind = "ok")
  /\ (result.kind = "err" =>
        /\ Started = 1..n /\ \A i \in 1..n : outcome[i] = "err"
        /\ \A j \in 1..n : FinishOf(j) >= FinishOf(result.id))                        \* first failure reported
  /\ (result.kind = "timeout" => tmo # NONE /\ result.at = OverallDl)
  /\ (n = 0 => result.kind = "noprogress" /\ result.at = 0)
  /\ (result.kind = "noprogress" => n = 0)
  /\ (result.kind = "hang" => tmo = NONE)

\* C11
C11 ==
  /\ \A i, j \in Started : i < j => start[i] <= start[j]                                \* in order
  /\ \A i \in 1..n : i \notin Started => \A j \in 1..n : j > i => j \notin Started      \* no gaps
  /\ (conc # NONE => nInit <= conc)
  /\ (Done /\ tmo # NONE => result.at <= OverallDl)                                    \* meets the deadline
  /\ \A k \in Started : k > nInit =>                                                    \* pacing: never earlier
        \/ delay # NONE /\ \E p \in Started : p < k /\ start[k] >= start[p] + delay /\ p = k - 1
        \/ \E i \in Started : i # k /\ outcome[i] = "err" /\ FinishOf(i) <= start[k]
        \/ k = 1                                                                        \* nothing running (conc = 0)

Emit == Done => PrintT(<<"VEC", ToJson([n |-> n, outcome |-> outcome, lat |-> lat, delay |-> delay, tmo |-> tmo, conc |-> conc, result |-> result, start |-> start])>>)
=============================================================================
