---- MODULE MCH ----
EXTENDS Pool, Json
CONSTANTS o1, o2
VARIABLE hist
Obs == [idle |-> [i \in 1..Len(idle[o1]) |-> idle[o1][i].c],
        wq |-> [i \in 1..Len(waiting[o1]) |-> chan[waiting[o1][i]].st = "rxclosed"],
        conn |-> (o1 \in connecting),
        ndial |-> ndial,
        woken |-> woken,
        cap |-> cfg.cap, maxIdle |-> cfg.maxIdle]
InitH == Init /\ hist = <<>>
NextH == Next /\ hist' = Append(hist, [ev |-> ev', obs |-> Obs'])
NextNC == Next /\ ev'.e # "Cancel" /\ hist' = Append(hist, [ev |-> ev', obs |-> Obs'])
NextLC == Next /\ (ev'.e = "Cancel" => Len(SelectSeq(hist, LAMBDA h : h.ev.e = "Cancel")) < 1) /\ hist' = Append(hist, [ev |-> ev', obs |-> Obs'])
Depth == 36
Emit == (Len(hist) >= Depth \/ (Len(hist) > 0 /\ ~ENABLED Next)) => PrintT(<<"REPLAY", ToJson(hist)>>)
====
