CONSTANTS
  NReq = 2
  Origins = {o1}
  MaxDial = 2
  AsBuilt = {"D1","D2","D3","D4","D5","D13","D11"}
  Caps = {FALSE}
  MaxIdles = {1}
  o1 = o1
  o2 = o2
SPECIFICATION FairSpec
PROPERTY C03live
CHECK_DEADLOCK FALSE
