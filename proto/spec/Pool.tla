------------------------------- MODULE Pool -------------------------------
(* Scratch prototype of the connection-pool specification (design round).   *)
(* One action per critical section of src/client/pool/{mod,checkout}.rs.    *)
EXTENDS Naturals, Sequences, FiniteSets, TLC

CONSTANTS NReq,        \* request slots 1..NReq
          Origins,     \* set of origins (tokens)
          MaxDial,     \* bound on transport connect() calls
          AsBuilt,     \* subset of {"D1","D2","D3","D4","D5"}: as-built deviations switched on
          Caps,        \* set of values for continue_after_preemption to explore
          MaxIdles     \* set of values for max_idle_per_host to explore

Req   == 1..NReq
Dial  == 1..MaxDial          \* a connection has the id of the dial that created it
NoH   == [c |-> 0, z |-> FALSE]
Handle == [c : 0..MaxDial, z : BOOLEAN]

VARIABLES cfg,          \* [cap, maxIdle]
          connecting,   \* SUBSET Origins
          waiting,      \* [Origins -> Seq(Req)]   oneshot senders, by checkout id
          idle,         \* [Origins -> Seq(Handle)] stack, top = last
          chan,         \* [Req -> [st, h]]  st in {"none","open","rxclosed","txdropped","sent"}
          co,           \* [Req -> checkout record]
          gc, gh,       \* [Dial -> {"none","ok","fail"}] transport / handshake gates
          dl,           \* [Dial -> [o, h2, used]]
          conn,         \* [Dial -> [st, o, h2, busy]]   st in {"none","open","closed"}
          held,         \* [Req -> Handle]
          wr,           \* set of handles parked in WhenReady tasks
          req,          \* [Req -> [st, o, h2]]
          woken, polled,\* [Req -> BOOLEAN]
          rxw,          \* [Req -> BOOLEAN] receiver has a registered waker
          dw,           \* [Dial -> 0..NReq]  request to wake when a gate opens (0: background task)
          ndial,        \* number of DialStart so far
          ev            \* last event, for action properties / trace output

vars == <<cfg, connecting, waiting, idle, chan, co, gc, gh, dl, conn, held, wr, req, woken, polled, rxw, dw, ndial, ev>>

NoCo == [st |-> "none", o |-> CHOOSE o \in Origins : TRUE, waiter |-> "NoPool", inner |-> "Done", h |-> NoH, d |-> 0, owner |-> FALSE]

IsOpen(c) == conn[c].st = "open" /\ ~conn[c].busy      \* HttpConnection::is_open = is_ready

Init ==
  /\ cfg \in [cap : Caps, maxIdle : MaxIdles]
  /\ connecting = {}
  /\ waiting = [o \in Origins |-> <<>>]
  /\ idle = [o \in Origins |-> <<>>]
  /\ chan = [r \in Req |-> [st |-> "none", h |-> NoH]]
  /\ co = [r \in Req |-> NoCo]
  /\ gc = [d \in Dial |-> "none"] /\ gh = [d \in Dial |-> "none"]
  /\ dl = [d \in Dial |-> [o |-> CHOOSE o \in Origins : TRUE, h2 |-> FALSE, used |-> FALSE]]
  /\ conn = [d \in Dial |-> [st |-> "none", o |-> CHOOSE o \in Origins : TRUE, h2 |-> FALSE, busy |-> FALSE]]
  /\ held = [r \in Req |-> NoH]
  /\ wr = {}
  /\ req = [r \in Req |-> [st |-> "new", o |-> CHOOSE o \in Origins : TRUE, h2 |-> FALSE]]
  /\ woken = [r \in Req |-> FALSE] /\ polled = [r \in Req |-> FALSE] /\ rxw = [r \in Req |-> FALSE]
  /\ dw = [d \in Dial |-> 0]
  /\ ndial = 0
  /\ ev = [e |-> "Init"]

---------------------------------------------------------------------------
(* PoolInner::push as a function on (waiting, idle, chan, connecting).      *)
(* Returns a record of the new values.                                       *)
RECURSIVE PushWalk(_, _, _, _)
\* walk waiters ws of origin o with connection c; ch = channel function so far
\* returns [ch, delivered (for h1), woke (set of requests woken)]
PushWalk(ws, c, ch, woke) ==
  IF ws = <<>> THEN [ch |-> ch, delivered |-> FALSE, woke |-> woke]
  ELSE LET k == Head(ws) IN
       IF ch[k].st # "open" THEN PushWalk(Tail(ws), c, ch, woke)       \* closed receiver: skip (sender dropped)
       ELSE IF conn[c].h2
            THEN PushWalk(Tail(ws), c, [ch EXCEPT ![k] = [st |-> "sent", h |-> [c |-> c, z |-> TRUE]]],
                          IF rxw[k] THEN woke \cup {k} ELSE woke)
            ELSE [ch |-> [ch EXCEPT ![k] = [st |-> "sent", h |-> [c |-> c, z |-> FALSE]]],
                  delivered |-> TRUE, woke |-> IF rxw[k] THEN woke \cup {k} ELSE woke]

\* state after PoolInner::push(o, c) starting from given (cn, wt, id, ch)
Push(o, c, cn, wt, id, ch) ==
  LET w == PushWalk(wt[o], c, ch, {})
      room == ("D3" \in AsBuilt) \/ Len(id[o]) < cfg.maxIdle
  IN [cn |-> IF conn[c].h2 \/ "D13" \in AsBuilt THEN cn \ {o} ELSE cn,
      wt |-> [wt EXCEPT ![o] = <<>>],      \* every sender is popped (sent, skipped) ... h1 stops early:
      wtH1 |-> wt,                          \* (refined below)
      id |-> IF w.delivered THEN id
             ELSE IF room THEN [id EXCEPT ![o] = Append(@, [c |-> c, z |-> FALSE])] ELSE id,
      ch |-> w.ch,
      woke |-> w.woke,
      kept |-> w.delivered \/ room]

\* For HTTP/1 the walk stops at the first live waiter: the remaining senders stay queued.
RECURSIVE RestAfterFirstOpen(_, _)
RestAfterFirstOpen(ws, ch) ==
  IF ws = <<>> THEN <<>>
  ELSE IF ch[Head(ws)].st = "open" THEN Tail(ws) ELSE RestAfterFirstOpen(Tail(ws), ch)

PushWaiting(o, c, wt, ch) ==
  IF conn[c].h2 THEN [wt EXCEPT ![o] = <<>>]
  ELSE [wt EXCEPT ![o] = RestAfterFirstOpen(wt[o], ch)]

---------------------------------------------------------------------------
(* IdleConnections::pop + PoolInner::pop                                    *)
RECURSIVE PopWalk(_)
\* returns [found, h, rest]
PopWalk(s) ==
  IF s = <<>> THEN [found |-> FALSE, h |-> NoH, rest |-> <<>>]
  ELSE LET e == s[Len(s)] IN
       IF IsOpen(e.c) THEN [found |-> TRUE, h |-> e, rest |-> SubSeq(s, 1, Len(s) - 1)]
       ELSE PopWalk(SubSeq(s, 1, Len(s) - 1))            \* closed / busy entry is discarded

---------------------------------------------------------------------------
(* Dropping things                                                           *)
\* Pooled::drop: a non-shareable connection goes to a WhenReady task
AfterPooledDrop(h, w) == IF h.c # 0 /\ ~conn[h.c].h2 THEN w \cup {h} ELSE w

\* closing the receiver side of checkout k's channel (Waiting::close / drop of the receiver)
RxClose(k, ch) == IF ch[k].st = "open" THEN [ch EXCEPT ![k].st = "rxclosed"]
                  ELSE IF ch[k].st = "sent" THEN [ch EXCEPT ![k] = [st |-> "rxclosed", h |-> NoH]]
                  ELSE ch
RxCloseSpill(k, ch, w) == IF ch[k].st = "sent" THEN AfterPooledDrop(ch[k].h, w) ELSE w

\* Checkout PinnedDrop when no delayed continuation: cancel_connection
\* as-built (D4): unconditional removal of the marker; as-built (D2): waiters are not released
CancelConn(k, o, cn) == IF ("D4" \in AsBuilt) \/ co[k].owner THEN cn \ {o} ELSE cn
ReleasePure(k, o, wt, ch) ==
  IF ("D2" \notin AsBuilt) /\ co[k].owner
  THEN \* drop the senders of pure waiters of this origin
       [ch2 |-> [j \in Req |-> IF co[j].st = "active" /\ co[j].waiter = "Connecting" /\ co[j].o = o /\ ch[j].st = "open"
                                THEN [st |-> "txdropped", h |-> NoH] ELSE ch[j]],
        wt2 |-> [wt EXCEPT ![o] = SelectSeq(@, LAMBDA j : ~(co[j].st = "active" /\ co[j].waiter = "Connecting"))],
        woke |-> {j \in Req : co[j].st = "active" /\ co[j].waiter = "Connecting" /\ co[j].o = o /\ ch[j].st = "open" /\ rxw[j]}]
  ELSE [ch2 |-> ch, wt2 |-> wt, woke |-> {}]

Wake(S, wk) == [r \in Req |-> wk[r] \/ r \in S]

---------------------------------------------------------------------------
Issue(r, o, h2) ==
  /\ req[r].st = "new"
  /\ \A q \in 1..(r-1) : req[q].st # "new"            \* symmetry breaking: slots are used in order
  /\ LET p == PopWalk(idle[o]) IN
     IF p.found
     THEN \* connection found in pool; the sender is dropped immediately
          /\ idle' = [idle EXCEPT ![o] = IF conn[p.h.c].h2 /\ "D5" \notin AsBuilt THEN Append(p.rest, p.h) ELSE p.rest]
          /\ co' = [co EXCEPT ![r] = [st |-> "active", o |-> o, waiter |-> "Idle", inner |-> "Connected",
                                      h |-> p.h, d |-> 0, owner |-> FALSE]]
          /\ chan' = [chan EXCEPT ![r] = [st |-> "txdropped", h |-> NoH]]
          /\ UNCHANGED <<waiting, connecting>>
     ELSE /\ idle' = [idle EXCEPT ![o] = p.rest]
          /\ waiting' = [waiting EXCEPT ![o] = Append(@, r)]
          /\ chan' = [chan EXCEPT ![r] = [st |-> "open", h |-> NoH]]
          /\ IF o \in connecting
             THEN /\ co' = [co EXCEPT ![r] = [st |-> "active", o |-> o, waiter |-> "Connecting", inner |-> "Waiting",
                                              h |-> NoH, d |-> 0, owner |-> FALSE]]
                  /\ UNCHANGED connecting
             ELSE /\ co' = [co EXCEPT ![r] = [st |-> "active", o |-> o, waiter |-> "Idle",
                                              inner |-> IF cfg.cap THEN "DelayDrop" ELSE "Connecting",
                                              h |-> NoH, d |-> 0, owner |-> h2]]
                  /\ connecting' = IF h2 THEN connecting \cup {o} ELSE connecting
  /\ req' = [req EXCEPT ![r] = [st |-> "checkout", o |-> o, h2 |-> h2]]
  /\ ev' = [e |-> "Issue", r |-> r, h2 |-> h2, usable |-> PopWalk(idle[o]).found,
            h2inflight |-> (o \in connecting),
            openh2 |-> (\E c \in Dial : conn[c].st = "open" /\ conn[c].h2 /\ conn[c].o = o)]
  /\ UNCHANGED <<cfg, gc, gh, dl, conn, held, wr, woken, polled, rxw, dw, ndial>>

\* ---- the tail of a successful checkout: Handoff + drop of the Checkout ----
\* k = checkout id (= request id), h = handle given to the request,
\* cn/wt/id/ch/w = pool state after whatever happened before
Handoff(r, h, cn, wt, id, ch, w, fromWaiter, wokeSet) ==
  LET delayed == co[r].inner = "DelayDrop" /\ fromWaiter      \* pre-empted: connector still there
      rel == IF delayed THEN [ch2 |-> ch, wt2 |-> wt, woke |-> {}] ELSE ReleasePure(r, co[r].o, wt, ch)
  IN
  /\ held' = [held EXCEPT ![r] = h]
  /\ conn' = [conn EXCEPT ![h.c].busy = IF conn[h.c].h2 THEN @ ELSE TRUE]
  /\ req' = [req EXCEPT ![r].st = "sending"]
  /\ co' = [co EXCEPT ![r] = IF delayed
                              THEN [@ EXCEPT !.st = "bg", !.waiter = "NoPool", !.inner = "Delayed", !.h = NoH]
                              ELSE [@ EXCEPT !.st = "gone", !.waiter = "NoPool", !.inner = "Done", !.h = NoH]]
  /\ connecting' = IF delayed THEN cn ELSE CancelConn(r, co[r].o, cn)
  /\ waiting' = rel.wt2
  /\ idle' = id
  /\ chan' = rel.ch2
  /\ wr' = w
  /\ woken' = Wake(wokeSet \cup rel.woke, [woken EXCEPT ![r] = FALSE])
  /\ ev' = [e |-> "Handoff", r |-> r, c |-> h.c,
            othersHold |-> (\E q \in Req : q # r /\ held[q].c = h.c),
            busy |-> conn[h.c].busy, open |-> conn[h.c].st = "open",
            sameOrigin |-> conn[h.c].o = req[r].o]

\* the Checkout resolved with an error
FailCheckout(r, kind, ch, w) ==
  LET rel == ReleasePure(r, co[r].o, waiting, ch) IN
  /\ req' = [req EXCEPT ![r].st = "error"]
  /\ co' = [co EXCEPT ![r] = [@ EXCEPT !.st = "gone", !.waiter = "NoPool", !.inner = "Done"]]
  /\ connecting' = CancelConn(r, co[r].o, connecting)
  /\ waiting' = rel.wt2
  /\ chan' = rel.ch2
  /\ wr' = w
  /\ woken' = Wake(rel.woke, [woken EXCEPT ![r] = FALSE])
  /\ ev' = [e |-> "PollErr", r |-> r, kind |-> kind]
  /\ UNCHANGED <<idle, held, conn>>

\* register_connected for a fresh or idle-popped connection c, then Handoff
Register(r, c, ch, w) ==
  IF conn[c].h2
  THEN LET p == Push(co[r].o, c, connecting, waiting, idle, ch) IN
       Handoff(r, [c |-> c, z |-> TRUE], p.cn, PushWaiting(co[r].o, c, waiting, ch), p.id, p.ch, w, FALSE, p.woke)
  ELSE Handoff(r, [c |-> c, z |-> FALSE], connecting, waiting, idle, ch, w, FALSE, {})

Pending(r, name) ==
  /\ woken' = [woken EXCEPT ![r] = FALSE]
  /\ ev' = [e |-> "PollPending", r |-> r, usableIdle |-> PopWalk(idle[req[r].o]).found, own |-> (co[r].inner \in {"Connecting","DelayDrop"})]

PollInner(r, ch, w, rx) ==
  \* ch, w: channel function / whenReady set after the waiter phase; rx: new rxw
  CASE co[r].inner = "Waiting" ->
         /\ FailCheckout(r, "Unavailable", ch, w)
         /\ UNCHANGED <<gc, gh, dl, dw, ndial>> /\ rxw' = rx
    [] co[r].inner = "Connected" ->
         /\ Register(r, co[r].h.c, RxClose(r, ch), RxCloseSpill(r, ch, w))
         /\ UNCHANGED <<gc, gh, dl, dw, ndial>> /\ rxw' = [rx EXCEPT ![r] = FALSE]
    [] co[r].inner \in {"Connecting", "DelayDrop"} ->
         IF co[r].d = 0
         THEN \* first poll of the connector: Transport::connect is called
              /\ ndial < MaxDial
              /\ ndial' = ndial + 1
              /\ dl' = [dl EXCEPT ![ndial + 1] = [o |-> co[r].o, h2 |-> req[r].h2, used |-> TRUE]]
              /\ dw' = [dw EXCEPT ![ndial + 1] = r]
              /\ co' = [co EXCEPT ![r].d = ndial + 1, ![r].waiter = IF ch[r].st \in {"rxclosed","txdropped"} THEN "NoPool" ELSE @]
              /\ chan' = ch /\ wr' = w /\ rxw' = rx
              /\ woken' = [woken EXCEPT ![r] = FALSE]
              /\ ev' = [e |-> "DialStart", r |-> r, d |-> ndial + 1]
              /\ UNCHANGED <<gc, gh, conn, held, req, connecting, waiting, idle>>
         ELSE LET d == co[r].d IN
              CASE gc[d] = "none" \/ (gc[d] = "ok" /\ gh[d] = "none") ->
                     /\ Pending(r, "dial")
                     /\ co' = [co EXCEPT ![r].waiter = IF ch[r].st \in {"rxclosed","txdropped"} THEN "NoPool" ELSE @]
                     /\ chan' = ch /\ wr' = w /\ rxw' = rx
                     /\ dw' = [dw EXCEPT ![d] = r]
                     /\ UNCHANGED <<gc, gh, dl, ndial, conn, held, req, connecting, waiting, idle>>
                [] gc[d] = "fail" \/ (gc[d] = "ok" /\ gh[d] = "fail") ->
                     /\ FailCheckout(r, IF gc[d] = "fail" THEN "Connecting" ELSE "Handshaking", RxClose(r, ch), RxCloseSpill(r, ch, w))
                     /\ UNCHANGED <<gc, gh, dl, dw, ndial>> /\ rxw' = [rx EXCEPT ![r] = FALSE]
                [] OTHER -> \* connected and handshaken: the connection comes into existence
                     /\ LET cn2 == [conn EXCEPT ![d] = [st |-> "open", o |-> dl[d].o, h2 |-> dl[d].h2, busy |-> FALSE]] IN
                        \* Register reads conn[] for h2-ness: use dl[d].h2 directly
                        IF dl[d].h2
                        THEN LET ch1 == RxClose(r, ch)
                                 w1 == RxCloseSpill(r, ch, w)
                                 \* push of the clone: waiters get clones, original goes to idle
                                 walk == [k \in Req |-> IF k \in {waiting[co[r].o][i] : i \in 1..Len(waiting[co[r].o])} /\ ch1[k].st = "open"
                                                        THEN [st |-> "sent", h |-> [c |-> d, z |-> TRUE]] ELSE ch1[k]]
                                 wokeS == {k \in Req : k \in {waiting[co[r].o][i] : i \in 1..Len(waiting[co[r].o])} /\ ch1[k].st = "open" /\ rxw[k]}
                                 room == ("D3" \in AsBuilt) \/ Len(idle[co[r].o]) < cfg.maxIdle
                             IN /\ held' = [held EXCEPT ![r] = [c |-> d, z |-> TRUE]]
                                /\ conn' = cn2
                                /\ req' = [req EXCEPT ![r].st = "sending"]
                                /\ co' = [co EXCEPT ![r] = [@ EXCEPT !.st = "gone", !.waiter = "NoPool", !.inner = "Done"]]
                                /\ connecting' = connecting \ {co[r].o}
                                /\ waiting' = [waiting EXCEPT ![co[r].o] = <<>>]
                                /\ idle' = IF room THEN [idle EXCEPT ![co[r].o] = Append(@, [c |-> d, z |-> FALSE])] ELSE idle
                                /\ chan' = walk
                                /\ wr' = w1
                                /\ woken' = Wake(wokeS, [woken EXCEPT ![r] = FALSE])
                                /\ ev' = [e |-> "Handoff", r |-> r, c |-> d, othersHold |-> FALSE, busy |-> FALSE, open |-> TRUE,
                                          sameOrigin |-> dl[d].o = req[r].o]
                        ELSE /\ held' = [held EXCEPT ![r] = [c |-> d, z |-> FALSE]]
                             /\ conn' = [cn2 EXCEPT ![d].busy = TRUE]
                             /\ req' = [req EXCEPT ![r].st = "sending"]
                             /\ co' = [co EXCEPT ![r] = [@ EXCEPT !.st = "gone", !.waiter = "NoPool", !.inner = "Done"]]
                             /\ connecting' = CancelConn(r, co[r].o, connecting)
                             /\ chan' = RxClose(r, ch) /\ wr' = RxCloseSpill(r, ch, w)
                             /\ woken' = [woken EXCEPT ![r] = FALSE]
                             /\ ev' = [e |-> "Handoff", r |-> r, c |-> d, othersHold |-> FALSE, busy |-> FALSE, open |-> TRUE,
                                       sameOrigin |-> dl[d].o = req[r].o]
                             /\ UNCHANGED <<waiting, idle>>
                     /\ UNCHANGED <<gc, gh, dl, dw, ndial>> /\ rxw' = [rx EXCEPT ![r] = FALSE]

Poll(r) ==
  /\ req[r].st = "checkout" /\ co[r].st = "active"
  /\ (~polled[r] \/ woken[r])
  /\ polled' = [polled EXCEPT ![r] = TRUE]
  /\ UNCHANGED cfg
  /\ CASE co[r].waiter \in {"Idle", "Connecting"} /\ chan[r].st = "sent" ->
            \* connection received from the waiter channel
            /\ Handoff(r, chan[r].h, connecting, waiting, idle, [chan EXCEPT ![r] = [st |-> "rxclosed", h |-> NoH]], wr, TRUE, {})
            /\ rxw' = [rxw EXCEPT ![r] = FALSE]
            /\ UNCHANGED <<gc, gh, dl, dw, ndial>>
       [] co[r].waiter = "Connecting" /\ chan[r].st = "open" ->
            /\ Pending(r, "waiter")
            /\ rxw' = [rxw EXCEPT ![r] = TRUE]
            /\ UNCHANGED <<connecting, waiting, idle, chan, co, gc, gh, dl, conn, held, wr, req, dw, ndial>>
       [] co[r].waiter = "Idle" /\ chan[r].st = "open" ->
            IF "D1" \in AsBuilt
            THEN PollInner(r, [chan EXCEPT ![r].st = "rxclosed"], wr, [rxw EXCEPT ![r] = FALSE])   \* receiver dropped
            ELSE PollInner(r, chan, wr, [rxw EXCEPT ![r] = TRUE])
       [] OTHER -> PollInner(r, chan, wr, rxw)

\* dropping the request future
Cancel(r) ==
  /\ req[r].st \in {"checkout", "sending"}
  /\ UNCHANGED <<cfg, gc, gh, dl, dw, ndial, polled, idle>>
  /\ req' = [req EXCEPT ![r].st = "cancelled"]
  /\ rxw' = [rxw EXCEPT ![r] = FALSE]
  /\ IF req[r].st = "sending"
     THEN /\ held' = [held EXCEPT ![r] = NoH]
          /\ wr' = AfterPooledDrop(held[r], wr)
          /\ ev' = [e |-> "Cancel", r |-> r, stage |-> "sending"]
          /\ UNCHANGED <<connecting, waiting, chan, co, woken, conn>>
     ELSE LET delayed == co[r].inner = "DelayDrop"
              ch1 == RxClose(r, chan)
              w1 == RxCloseSpill(r, chan, wr)
              rel == IF delayed THEN [ch2 |-> ch1, wt2 |-> waiting, woke |-> {}] ELSE ReleasePure(r, co[r].o, waiting, ch1)
          IN /\ co' = [co EXCEPT ![r] = IF delayed
                                        THEN [@ EXCEPT !.st = "bg", !.waiter = "NoPool", !.inner = "Delayed"]
                                        ELSE [@ EXCEPT !.st = "gone", !.waiter = "NoPool", !.inner = "Done", !.h = NoH]]
             /\ connecting' = IF delayed THEN connecting ELSE CancelConn(r, co[r].o, connecting)
             /\ waiting' = rel.wt2
             /\ chan' = rel.ch2
             /\ wr' = IF "D11" \in AsBuilt THEN w1 ELSE AfterPooledDrop(co[r].h, w1)   \* as-built: a pre-popped idle connection is a bare C and is simply dropped
             /\ woken' = Wake(rel.woke, woken)
             /\ ev' = [e |-> "Cancel", r |-> r, stage |-> "checkout", lostIdle |-> ("D11" \in AsBuilt /\ co[r].h.c # 0 /\ ~conn[co[r].h.c].h2)]
             /\ conn' = IF "D11" \in AsBuilt /\ co[r].h.c # 0 /\ ~conn[co[r].h.c].h2 THEN [conn EXCEPT ![co[r].h.c].st = "closed"] ELSE conn
             /\ UNCHANGED held

\* the request is done with its connection (response head received): Pooled dropped
Release(r) ==
  /\ req[r].st = "sending"
  /\ req' = [req EXCEPT ![r].st = "done"]
  /\ held' = [held EXCEPT ![r] = NoH]
  /\ wr' = AfterPooledDrop(held[r], wr)
  /\ ev' = [e |-> "Release", r |-> r]
  /\ UNCHANGED <<cfg, connecting, waiting, idle, chan, co, gc, gh, dl, conn, woken, polled, rxw, dw, ndial>>

\* WhenReady resolves (ready or errored) and is dropped
WhenReadyStep(h) ==
  /\ h \in wr
  /\ ~conn[h.c].busy \/ conn[h.c].st = "closed"
  /\ wr' = wr \ {h}
  /\ IF IsOpen(h.c) /\ ~h.z
     THEN LET o == conn[h.c].o
              p == Push(o, h.c, connecting, waiting, idle, chan) IN
          /\ connecting' = p.cn
          /\ waiting' = PushWaiting(o, h.c, waiting, chan)
          /\ idle' = p.id
          /\ chan' = p.ch
          /\ woken' = Wake(p.woke, woken)
          /\ ev' = [e |-> "HandBack", c |-> h.c, kept |-> p.kept]
     ELSE /\ ev' = [e |-> "HandBackDrop", c |-> h.c]
          /\ UNCHANGED <<connecting, waiting, idle, chan, woken>>
  /\ UNCHANGED <<cfg, co, gc, gh, dl, conn, held, req, polled, rxw, dw, ndial>>

\* a delayed (background) checkout is polled by the runtime
BgPoll(r) ==
  /\ co[r].st = "bg"
  /\ UNCHANGED <<cfg, held, req, polled, rxw>>
  /\ IF co[r].d = 0
     THEN /\ ndial < MaxDial
          /\ ndial' = ndial + 1
          /\ dl' = [dl EXCEPT ![ndial + 1] = [o |-> co[r].o, h2 |-> req[r].h2, used |-> TRUE]]
          /\ dw' = [dw EXCEPT ![ndial + 1] = 0]
          /\ co' = [co EXCEPT ![r].d = ndial + 1]
          /\ ev' = [e |-> "BgDialStart", r |-> r, d |-> ndial + 1]
          /\ UNCHANGED <<gc, gh, conn, connecting, waiting, idle, chan, wr, woken>>
     ELSE LET d == co[r].d
              rel == ReleasePure(r, co[r].o, waiting, chan) IN
          /\ ~(gc[d] = "none" \/ (gc[d] = "ok" /\ gh[d] = "none"))
          /\ UNCHANGED <<gc, gh, dl, dw, ndial>>
          /\ co' = [co EXCEPT ![r] = [@ EXCEPT !.st = "gone", !.inner = "Done"]]
          /\ IF gc[d] = "fail" \/ gh[d] = "fail"
             THEN /\ connecting' = CancelConn(r, co[r].o, connecting)
                  /\ waiting' = rel.wt2 /\ chan' = rel.ch2
                  /\ woken' = Wake(rel.woke, woken)
                  /\ ev' = [e |-> "BgFail", r |-> r]
                  /\ UNCHANGED <<conn, idle, wr>>
             ELSE /\ conn' = [conn EXCEPT ![d] = [st |-> "open", o |-> dl[d].o, h2 |-> dl[d].h2, busy |-> FALSE]]
                  /\ IF dl[d].h2
                     THEN LET o == co[r].o
                              ws == {waiting[o][i] : i \in 1..Len(waiting[o])}
                              room == ("D3" \in AsBuilt) \/ Len(idle[o]) < cfg.maxIdle IN
                          /\ chan' = [k \in Req |-> IF k \in ws /\ chan[k].st = "open" THEN [st |-> "sent", h |-> [c |-> d, z |-> TRUE]] ELSE chan[k]]
                          /\ woken' = Wake({k \in ws : chan[k].st = "open" /\ rxw[k]}, woken)
                          /\ waiting' = [waiting EXCEPT ![o] = <<>>]
                          /\ idle' = IF room THEN [idle EXCEPT ![o] = Append(@, [c |-> d, z |-> FALSE])] ELSE idle
                          /\ connecting' = connecting \ {o}
                          /\ wr' = wr
                     ELSE /\ wr' = wr \cup {[c |-> d, z |-> FALSE]}     \* returned Pooled is dropped by the task
                          /\ connecting' = CancelConn(r, co[r].o, connecting)
                          /\ UNCHANGED <<waiting, idle, chan, woken>>
                  /\ ev' = [e |-> "BgDone", r |-> r, c |-> d]

---------------------------------------------------------------------------
(* Environment                                                               *)
EnvConnect(d, ok) ==
  /\ d <= ndial /\ gc[d] = "none"
  /\ gc' = [gc EXCEPT ![d] = IF ok THEN "ok" ELSE "fail"]
  /\ woken' = IF dw[d] # 0 THEN [woken EXCEPT ![dw[d]] = TRUE] ELSE woken
  /\ ev' = [e |-> "EnvConnect", d |-> d, ok |-> ok]
  /\ UNCHANGED <<cfg, connecting, waiting, idle, chan, co, gh, dl, conn, held, wr, req, polled, rxw, dw, ndial>>

EnvHandshake(d, ok) ==
  /\ d <= ndial /\ gc[d] = "ok" /\ gh[d] = "none"
  /\ gh' = [gh EXCEPT ![d] = IF ok THEN "ok" ELSE "fail"]
  /\ woken' = IF dw[d] # 0 THEN [woken EXCEPT ![dw[d]] = TRUE] ELSE woken
  /\ ev' = [e |-> "EnvHandshake", d |-> d, ok |-> ok]
  /\ UNCHANGED <<cfg, connecting, waiting, idle, chan, co, gc, dl, conn, held, wr, req, polled, rxw, dw, ndial>>

\* the response body has been consumed: the connection reports ready again
ConnReady(c) ==
  /\ conn[c].st = "open" /\ conn[c].busy
  /\ \A r \in Req : held[r].c # c          \* the holder released it first (response head received)
  /\ conn' = [conn EXCEPT ![c].busy = FALSE]
  /\ ev' = [e |-> "ConnReady", c |-> c]
  /\ UNCHANGED <<cfg, connecting, waiting, idle, chan, co, gc, gh, dl, held, wr, req, woken, polled, rxw, dw, ndial>>

PeerClose(c) ==
  /\ conn[c].st = "open"
  /\ conn' = [conn EXCEPT ![c].st = "closed"]
  /\ ev' = [e |-> "PeerClose", c |-> c]
  /\ UNCHANGED <<cfg, connecting, waiting, idle, chan, co, gc, gh, dl, held, wr, req, woken, polled, rxw, dw, ndial>>

Next ==
  \/ \E r \in Req, o \in Origins, h2 \in BOOLEAN : Issue(r, o, h2)
  \/ \E r \in Req : Poll(r) \/ Cancel(r) \/ Release(r) \/ BgPoll(r)
  \/ \E h \in wr : WhenReadyStep(h)
  \/ \E d \in Dial, ok \in BOOLEAN : EnvConnect(d, ok) \/ EnvHandshake(d, ok)
  \/ \E c \in Dial : ConnReady(c) \/ PeerClose(c)

Spec == Init /\ [][Next]_vars

Fairness ==
  /\ \A r \in Req : WF_vars(Poll(r)) /\ WF_vars(BgPoll(r))
  /\ \A d \in Dial : WF_vars(\E ok \in BOOLEAN : EnvConnect(d, ok)) /\ WF_vars(\E ok \in BOOLEAN : EnvHandshake(d, ok))
  /\ WF_vars(\E h \in wr : WhenReadyStep(h))
FairSpec == Spec /\ Fairness

---------------------------------------------------------------------------
(* Properties                                                                *)
TypeOK == /\ connecting \subseteq Origins
          /\ \A r \in Req : chan[r].st \in {"none", "open", "rxclosed", "txdropped", "sent"}

\* C02: exclusive use of non-multiplexed connections
C02 == /\ \A c \in Dial : conn[c].st # "none" /\ ~conn[c].h2 => Cardinality({r \in Req : held[r].c = c}) <= 1
       /\ (ev.e = "Handoff" /\ ~conn[ev.c].h2 => ~ev.othersHold /\ ~ev.busy)

\* a non-shareable connection never has two handles
Locs(c) == Cardinality({r \in Req : held[r].c = c}) + Cardinality({h \in wr : h.c = c})
           + Cardinality({r \in Req : chan[r].st = "sent" /\ chan[r].h.c = c})
           + Cardinality({r \in Req : co[r].h.c = c /\ co[r].st = "active"})
HandleUnique == \A c \in Dial : conn[c].st # "none" /\ ~conn[c].h2 =>
                  Locs(c) + Cardinality({<<o, i>> \in Origins \X (1..MaxDial) : i <= Len(idle[o]) /\ idle[o][i].c = c}) <= 1

C06 == ev.e = "Handoff" => ev.sameOrigin
C15 == \A o \in Origins : Len(idle[o]) <= cfg.maxIdle
C14a == ev.e = "PollPending" /\ ev.own => ~ev.usableIdle
C04i == ev.e = "DialStart" => TRUE   \* refined with history variables in the real spec
C04iv == ev.e = "Cancel" /\ ev.stage = "checkout" => ~ev.lostIdle

\* C03: nobody stranded (liveness, under FairSpec)
C03live == \A r \in Req : (req[r].st = "checkout") ~> (req[r].st # "checkout")

\* C03 as a safety property: every request in checkout is either about to be polled,
\* or waits for a gate that will wake it, or waits (with a registered waker) for a live owner's attempt
Unresolved(d) == gc[d] = "none" \/ (gc[d] = "ok" /\ gh[d] = "none")
NoOrphan == \A r \in Req : req[r].st = "checkout" /\ co[r].st = "active" =>
   \/ ~polled[r] \/ woken[r]
   \/ co[r].inner \in {"Connecting", "DelayDrop"} /\ co[r].d # 0 /\ Unresolved(co[r].d) /\ dw[co[r].d] = r
   \/ /\ co[r].waiter = "Connecting" /\ chan[r].st = "open" /\ rxw[r]
      /\ \E k \in Req : k # r /\ co[k].owner /\ co[k].o = co[r].o /\ co[k].st \in {"active", "bg"}

\* state constraint for bounded checking
Bound == ndial <= MaxDial
View == <<cfg, connecting, waiting, idle, chan, co, gc, gh, dl, conn, held, wr, req, woken, polled, rxw, dw, ndial>>
=============================================================================
