---- MODULE MC ----
EXTENDS Pool
CONSTANTS o1, o2
====
