CONSTANTS
  N = 3
  Grid = {0, 1, 2, 4}
  Delays <- cDelays
  Timeouts <- cTimeouts
  Concs <- cConcs
INIT Init
NEXT Next
INVARIANTS Emit
CHECK_DEADLOCK FALSE
