CONSTANTS
  NReq = 3
  Origins = {o1}
  MaxDial = 2
  AsBuilt = {}
  Caps = {TRUE, FALSE}
  MaxIdles = {1}
  o1 = o1
  o2 = o2
SPECIFICATION FairSpec
PROPERTY C03live
CHECK_DEADLOCK FALSE
