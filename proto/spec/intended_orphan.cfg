CONSTANTS
  NReq = 3
  Origins = {o1}
  MaxDial = 3
  AsBuilt = {}
  Caps = {TRUE, FALSE}
  MaxIdles = {1, 2}
  o1 = o1
  o2 = o2
INIT Init
NEXT Next
VIEW View
INVARIANTS NoOrphan
CHECK_DEADLOCK FALSE
