// Scratch feasibility probe: NOT part of /verif. Gated mocks driving ConnectionPoolService.
use std::future::Future;
use std::pin::Pin;
use std::sync::atomic::{AtomicUsize, Ordering};
use std::sync::{Arc, Mutex};
use std::task::{Context, Poll, Wake, Waker};

use bytes::Bytes;
use http_body_util::Empty;
use hyperdriver::client::conn::connection::ConnectionError;
use hyperdriver::client::conn::protocol::ProtocolRequest;
use hyperdriver::client::conn::Connection;
use hyperdriver::client::pool::{Config, PoolableConnection, PoolableStream, Pooled};
use hyperdriver::client::ConnectionPoolService;
use hyperdriver::info::{ConnectionInfo, HasConnectionInfo};
use hyperdriver::service::ExecuteRequest;

type B = Empty<Bytes>;

#[derive(Default)]
struct Dial {
    uri: String,
    connect: Option<bool>,   // gate: None = pending
    handshake: Option<bool>, // gate
    waker: Option<Waker>,
    started: bool,
}
#[derive(Default)]
struct ConnS {
    uri: String,
    h2: bool,
    open: bool,
    ready: bool,
    handles: usize,
    waker: Option<Waker>,
}
#[derive(Default)]
struct WorldI {
    dials: Vec<Dial>,
    conns: Vec<ConnS>,
    log: Vec<String>,
    held: Vec<(usize, Option<Pooled<VConn, B>>)>, // (req id, pooled)
}
#[derive(Clone, Default)]
struct World(Arc<Mutex<WorldI>>);
impl World {
    fn log(&self, s: String) {
        println!("    [ev] {s}");
        self.0.lock().unwrap().log.push(s);
    }
}

#[derive(Clone)]
struct VTransport(World);
#[derive(Debug, thiserror::Error)]
#[error("vtransport error")]
struct VErr;

struct VStream {
    dial: usize,
    world: World,
}
impl HasConnectionInfo for VStream {
    type Addr = String;
    fn info(&self) -> ConnectionInfo<String> {
        ConnectionInfo { local_addr: "l".into(), remote_addr: "r".into() }
    }
}
impl PoolableStream for VStream {
    fn can_share(&self) -> bool {
        false
    }
}

impl tower::Service<http::request::Parts> for VTransport {
    type Response = VStream;
    type Error = VErr;
    type Future = Pin<Box<dyn Future<Output = Result<VStream, VErr>> + Send>>;
    fn poll_ready(&mut self, _: &mut Context<'_>) -> Poll<Result<(), VErr>> {
        Poll::Ready(Ok(()))
    }
    fn call(&mut self, req: http::request::Parts) -> Self::Future {
        let world = self.0.clone();
        let id = {
            let mut w = world.0.lock().unwrap();
            w.dials.push(Dial { uri: req.uri.to_string(), started: true, ..Default::default() });
            w.dials.len() - 1
        };
        world.log(format!("DialStart d={id} uri={}", req.uri));
        Box::pin(std::future::poll_fn(move |cx| {
            let mut w = world.0.lock().unwrap();
            match w.dials[id].connect {
                None => {
                    w.dials[id].waker = Some(cx.waker().clone());
                    Poll::Pending
                }
                Some(true) => Poll::Ready(Ok(VStream { dial: id, world: world.clone() })),
                Some(false) => Poll::Ready(Err(VErr)),
            }
        }))
    }
}

#[derive(Clone)]
struct VProtocol(World);
impl tower::Service<ProtocolRequest<VStream, B>> for VProtocol {
    type Response = VConn;
    type Error = ConnectionError;
    type Future = Pin<Box<dyn Future<Output = Result<VConn, ConnectionError>> + Send>>;
    fn poll_ready(&mut self, _: &mut Context<'_>) -> Poll<Result<(), ConnectionError>> {
        Poll::Ready(Ok(()))
    }
    fn call(&mut self, req: ProtocolRequest<VStream, B>) -> Self::Future {
        let world = self.0.clone();
        let d = req.transport.dial;
        let h2 = req.version.multiplex();
        Box::pin(std::future::poll_fn(move |cx| {
            let mut w = world.0.lock().unwrap();
            match w.dials[d].handshake {
                None => {
                    w.dials[d].waker = Some(cx.waker().clone());
                    Poll::Pending
                }
                Some(false) => Poll::Ready(Err(ConnectionError::Handshake("vhandshake".into()))),
                Some(true) => {
                    let uri = w.dials[d].uri.clone();
                    w.conns.push(ConnS { uri, h2, open: true, ready: true, handles: 1, waker: None });
                    let id = w.conns.len() - 1;
                    drop(w);
                    world.log(format!("ConnCreated c={id} d={d} h2={h2}"));
                    Poll::Ready(Ok(VConn { id, world: world.clone() }))
                }
            }
        }))
    }
}

struct VConn {
    id: usize,
    world: World,
}
impl Drop for VConn {
    fn drop(&mut self) {
        let mut w = self.world.0.lock().unwrap();
        w.conns[self.id].handles -= 1;
        let h = w.conns[self.id].handles;
        drop(w);
        self.world.log(format!("HandleDrop c={} left={h}", self.id));
    }
}
#[derive(Debug, thiserror::Error)]
#[error("vconn error")]
struct VConnErr;
impl Connection<B> for VConn {
    type ResBody = B;
    type Error = VConnErr;
    type Future = Pin<Box<dyn Future<Output = Result<http::Response<B>, VConnErr>> + Send>>;
    fn send_request(&mut self, _r: http::Request<B>) -> Self::Future {
        Box::pin(async { Ok(http::Response::new(Empty::new())) })
    }
    fn poll_ready(&mut self, cx: &mut Context<'_>) -> Poll<Result<(), VConnErr>> {
        let mut w = self.world.0.lock().unwrap();
        let c = &mut w.conns[self.id];
        if !c.open {
            return Poll::Ready(Err(VConnErr));
        }
        if c.ready {
            Poll::Ready(Ok(()))
        } else {
            c.waker = Some(cx.waker().clone());
            Poll::Pending
        }
    }
    fn version(&self) -> http::Version {
        if self.world.0.lock().unwrap().conns[self.id].h2 { http::Version::HTTP_2 } else { http::Version::HTTP_11 }
    }
}
impl PoolableConnection<B> for VConn {
    fn is_open(&self) -> bool {
        let w = self.world.0.lock().unwrap();
        w.conns[self.id].open && w.conns[self.id].ready
    }
    fn can_share(&self) -> bool {
        self.world.0.lock().unwrap().conns[self.id].h2
    }
    fn reuse(&mut self) -> Option<Self> {
        let mut w = self.world.0.lock().unwrap();
        if w.conns[self.id].h2 {
            w.conns[self.id].handles += 1;
            Some(VConn { id: self.id, world: self.world.clone() })
        } else {
            None
        }
    }
}

// inner service: takes the Pooled handle and parks it in the world until released
#[derive(Clone)]
struct VExec(World);
static NEXT_REQ: AtomicUsize = AtomicUsize::new(0);
impl tower::Service<ExecuteRequest<Pooled<VConn, B>, B>> for VExec {
    type Response = http::Response<B>;
    type Error = hyperdriver::client::Error;
    type Future = Pin<Box<dyn Future<Output = Result<http::Response<B>, Self::Error>> + Send>>;
    fn poll_ready(&mut self, _: &mut Context<'_>) -> Poll<Result<(), Self::Error>> {
        Poll::Ready(Ok(()))
    }
    fn call(&mut self, req: ExecuteRequest<Pooled<VConn, B>, B>) -> Self::Future {
        let (conn, request) = req.into_parts();
        let rid: usize = request.headers().get("x-rid").unwrap().to_str().unwrap().parse().unwrap();
        let cid = conn.id;
        let reused = conn.is_reused();
        self.0.log(format!("Handoff r={rid} c={cid} reused={reused} uri={}", request.uri()));
        self.0 .0.lock().unwrap().held.push((rid, Some(conn)));
        Box::pin(async move { Ok(http::Response::new(Empty::new())) })
    }
}

struct CountWaker(AtomicUsize);
impl Wake for CountWaker {
    fn wake(self: Arc<Self>) {
        self.0.fetch_add(1, Ordering::SeqCst);
    }
}

type Svc = ConnectionPoolService<VTransport, VProtocol, VExec, B>;
type Fut = <Svc as tower::Service<http::Request<B>>>::Future;

struct Req {
    fut: Option<Pin<Box<Fut>>>,
    waker: Arc<CountWaker>,
    done: Option<bool>,
}
fn issue(svc: &mut Svc, uri: &str, h2: bool) -> Req {
    let rid = NEXT_REQ.fetch_add(1, Ordering::SeqCst);
    let req = http::Request::builder()
        .uri(uri)
        .version(if h2 { http::Version::HTTP_2 } else { http::Version::HTTP_11 })
        .header("x-rid", rid.to_string())
        .body(Empty::new())
        .unwrap();
    println!("  Issue r={rid} {uri} h2={h2}");
    Req { fut: Some(Box::pin(tower::Service::call(svc, req))), waker: Arc::new(CountWaker(AtomicUsize::new(0))), done: None }
}
fn poll(r: &mut Req, name: &str) {
    let w = Waker::from(r.waker.clone());
    let mut cx = Context::from_waker(&w);
    let before = r.waker.0.load(Ordering::SeqCst);
    match r.fut.as_mut().unwrap().as_mut().poll(&mut cx) {
        Poll::Ready(res) => {
            println!("  Poll {name} -> Ready({}) wakes_before={before}", if res.is_ok() { "Ok".to_string() } else { format!("Err {:?}", res.err().map(|e| e.to_string())) });
            r.done = Some(true);
            r.fut = None;
        }
        Poll::Pending => println!("  Poll {name} -> Pending wakes_before={before}"),
    }
}
async fn settle() {
    // paused clock: returns when every other task is idle
    tokio::time::sleep(std::time::Duration::from_millis(1)).await;
}
fn gate_connect(w: &World, d: usize, ok: bool) {
    let mut g = w.0.lock().unwrap();
    g.dials[d].connect = Some(ok);
    if let Some(wk) = g.dials[d].waker.take() {
        wk.wake()
    }
}
fn gate_handshake(w: &World, d: usize, ok: bool) {
    let mut g = w.0.lock().unwrap();
    g.dials[d].handshake = Some(ok);
    if let Some(wk) = g.dials[d].waker.take() {
        wk.wake()
    }
}
fn release(w: &World, rid: usize) {
    let p = {
        let mut g = w.0.lock().unwrap();
        let i = g.held.iter().position(|(r, _)| *r == rid).unwrap();
        g.held.remove(i).1
    };
    println!("  Release r={rid}");
    drop(p);
}

fn mk(world: &World, cfg: Config) -> Svc {
    ConnectionPoolService::new(VTransport(world.clone()), VProtocol(world.clone()), VExec(world.clone()), cfg)
}
fn cfg(cap: bool, max_idle: usize) -> Config {
    let mut c = Config::default();
    c.continue_after_preemption = cap;
    c.max_idle_per_host = max_idle;
    c
}

#[tokio::main(flavor = "current_thread", start_paused = true)]
async fn main() {
    println!("== D5: h2 idle handle popped at Issue, re-inserted at first Poll");
    {
        let world = World::default();
        let mut svc = mk(&world, cfg(false, 4));
        let mut a = issue(&mut svc, "http://a.test/", true);
        poll(&mut a, "a");
        gate_connect(&world, 0, true);
        gate_handshake(&world, 0, true);
        poll(&mut a, "a"); // h2 conn 0 established, clone in idle
        let mut b = issue(&mut svc, "http://a.test/", true); // pops idle h2 handle
        let mut c = issue(&mut svc, "http://a.test/", true); // window: idle empty
        poll(&mut c, "c"); // dials?
        poll(&mut b, "b");
        println!("  dials = {} (2 => avoidable dial while an open h2 conn exists)", world.0.lock().unwrap().dials.len());
        settle().await;
    }
}
