// scratch probe 2: server-side hypotheses (C08 split preface, C09 cancelled duplex connect)
use hyperdriver::server::conn::Acceptor;
use hyperdriver::stream::duplex;
use hyperdriver::{Body, Server};
use tokio::io::{AsyncReadExt, AsyncWriteExt};
use std::future::IntoFuture;

type BoxError = Box<dyn std::error::Error + Send + Sync + 'static>;
async fn echo(req: http::Request<Body>) -> Result<http::Response<Body>, BoxError> {
    Ok(http::Response::new(req.into_body()))
}
async fn settle() { tokio::time::sleep(std::time::Duration::from_millis(1)).await; }

#[tokio::main(flavor = "current_thread", start_paused = true)]
async fn main() {
    println!("== C08: preface split 16+8");
    for split in [24usize, 16, 1] {
        let (client, incoming) = duplex::pair();
        let server = Server::builder().with_acceptor(Acceptor::from(incoming)).with_shared_service(tower::service_fn(echo)).with_auto_http().with_tokio();
        let h = tokio::spawn(server.into_future());
        let mut s = client.connect(4096).await.unwrap();
        let preface = b"PRI * HTTP/2.0\r\n\r\nSM\r\n\r\n";
        let settings = [0u8,0,0, 4, 0, 0,0,0,0]; // empty SETTINGS frame
        let mut i = 0;
        while i < preface.len() {
            let j = (i + split).min(preface.len());
            if let Err(e) = s.write_all(&preface[i..j]).await { println!("  write error at {i}: {e}"); break; }
            settle().await;
            i = j;
        }
        let _ = s.write_all(&settings).await;
        settle().await;
        let mut buf = vec![0u8; 256];
        let n = tokio::select! { r = s.read(&mut buf) => r.unwrap_or(0), _ = tokio::time::sleep(std::time::Duration::from_secs(5)) => 0 };
        let txt = String::from_utf8_lossy(&buf[..n.min(40)]).to_string();
        println!("  split={split}: first bytes from server: {:?} (n={n})  => {}", txt, if txt.starts_with("HTTP/1") {"served as HTTP/1 (WRONG)"} else {"h2 frames"});
        h.abort();
    }
    println!("== C09: client cancels duplex connect before accept");
    {
        let (client, incoming) = duplex::pair();
        let server = Server::builder().with_acceptor(Acceptor::from(incoming)).with_shared_service(tower::service_fn(echo)).with_auto_http().with_tokio();
        // enqueue a connect request and cancel it before the server runs
        {
            let fut = client.connect(1024);
            let mut fut = std::pin::pin!(fut);
            let w = futures_util::task::noop_waker();
            let mut cx = std::task::Context::from_waker(&w);
            let _ = std::future::Future::poll(fut.as_mut(), &mut cx); // request sent into mpsc, waiting for ack
        } // dropped => oneshot receiver gone
        let h = tokio::spawn(server.into_future());
        settle().await;
        println!("  server finished after cancelled connect = {} ", h.is_finished());
        if h.is_finished() { println!("  result = {:?}", h.await.unwrap().map_err(|e| e.to_string())); }
    }
}
