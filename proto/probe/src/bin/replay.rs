// Scratch prototype of the spec -> implementation replay for Pool.tla (as-built variant).
// Reads TLC-simulated behaviours (with expected observations) and steps the real pool.
use std::collections::{HashMap, HashSet};
use std::future::Future;
use std::pin::Pin;
use std::sync::atomic::{AtomicUsize, Ordering};
use std::sync::{Arc, Mutex};
use std::task::{Context, Poll, Wake, Waker};

use bytes::Bytes;
use http_body_util::Empty;
use hyperdriver::client::conn::connection::ConnectionError;
use hyperdriver::client::conn::protocol::ProtocolRequest;
use hyperdriver::client::conn::Connection;
use hyperdriver::client::pool::{Config, PoolableConnection, PoolableStream, Pooled};
use hyperdriver::client::ConnectionPoolService;
use hyperdriver::info::{ConnectionInfo, HasConnectionInfo};
use hyperdriver::service::ExecuteRequest;
use serde_json::Value;

type B = Empty<Bytes>;

#[derive(Default)]
struct Dial {
    rid: usize,
    connect: Option<bool>,
    handshake: Option<bool>,
    waker: Option<Waker>,
    bg: bool,
    grant: bool,
}
#[derive(Default)]
struct ConnS {
    h2: bool,
    open: bool,
    busy: bool,
    grant: bool,
    waker: Option<Waker>,
}
#[derive(Default)]
struct WorldI {
    dials: Vec<Dial>, // dial id = index + 1; a connection has the id of its dial
    conns: HashMap<usize, ConnS>,
    held: HashMap<usize, Pooled<VConn, B>>,
    tclosed: HashSet<usize>,          // transport clone ids whose poll_ready is gated shut
    twaker: HashMap<usize, Waker>,
    clones: usize,
    foreground: bool,
    tgrant: HashSet<usize>,
    events: Vec<String>,
}
#[derive(Clone, Default)]
struct World(Arc<Mutex<WorldI>>);
impl World {
    fn ev(&self, s: String) {
        self.0.lock().unwrap().events.push(s);
    }
}

struct VTransport {
    world: World,
    clone_id: usize,
}
impl Clone for VTransport {
    fn clone(&self) -> Self {
        let mut w = self.world.0.lock().unwrap();
        w.clones += 1;
        VTransport { world: self.world.clone(), clone_id: w.clones }
    }
}
#[derive(Debug, thiserror::Error)]
#[error("vtransport error")]
struct VErr;
struct VStream {
    dial: usize,
}
impl HasConnectionInfo for VStream {
    type Addr = String;
    fn info(&self) -> ConnectionInfo<String> {
        ConnectionInfo { local_addr: "l".into(), remote_addr: "r".into() }
    }
}
impl PoolableStream for VStream {
    fn can_share(&self) -> bool {
        false
    }
}
impl tower::Service<http::request::Parts> for VTransport {
    type Response = VStream;
    type Error = VErr;
    type Future = Pin<Box<dyn Future<Output = Result<VStream, VErr>> + Send>>;
    fn poll_ready(&mut self, cx: &mut Context<'_>) -> Poll<Result<(), VErr>> {
        let mut w = self.world.0.lock().unwrap();
        if !w.foreground && !w.tgrant.contains(&self.clone_id) {
            w.twaker.insert(self.clone_id, cx.waker().clone());
            return Poll::Pending;
        }
        Poll::Ready(Ok(()))
    }
    fn call(&mut self, req: http::request::Parts) -> Self::Future {
        let world = self.world.clone();
        let rid: usize = req.headers.get("x-rid").unwrap().to_str().unwrap().parse().unwrap();
        let id = {
            let mut w = world.0.lock().unwrap();
            w.dials.push(Dial { rid, ..Default::default() });
            w.dials.len()
        };
        world.ev(format!("DialStart r={rid} d={id}"));
        Box::pin(std::future::poll_fn(move |cx| {
            let mut w = world.0.lock().unwrap();
            let fg = w.foreground;
            let d = &mut w.dials[id - 1];
            match d.connect {
                Some(ok) if fg || d.grant => {
                    if ok { Poll::Ready(Ok(VStream { dial: id })) } else { Poll::Ready(Err(VErr)) }
                }
                _ => {
                    d.waker = Some(cx.waker().clone());
                    Poll::Pending
                }
            }
        }))
    }
}

#[derive(Clone)]
struct VProtocol(World);
impl tower::Service<ProtocolRequest<VStream, B>> for VProtocol {
    type Response = VConn;
    type Error = ConnectionError;
    type Future = Pin<Box<dyn Future<Output = Result<VConn, ConnectionError>> + Send>>;
    fn poll_ready(&mut self, _: &mut Context<'_>) -> Poll<Result<(), ConnectionError>> {
        Poll::Ready(Ok(()))
    }
    fn call(&mut self, req: ProtocolRequest<VStream, B>) -> Self::Future {
        let world = self.0.clone();
        let id = req.transport.dial;
        let h2 = req.version.multiplex();
        Box::pin(std::future::poll_fn(move |cx| {
            let mut w = world.0.lock().unwrap();
            let fg = w.foreground;
            let d = &mut w.dials[id - 1];
            match d.handshake {
                Some(ok) if fg || d.grant => {
                    if !ok {
                        return Poll::Ready(Err(ConnectionError::Handshake("vhandshake".into())));
                    }
                    w.conns.insert(id, ConnS { h2, open: true, busy: false, grant: false, waker: None });
                    Poll::Ready(Ok(VConn { id, world: world.clone() }))
                }
                _ => {
                    d.waker = Some(cx.waker().clone());
                    Poll::Pending
                }
            }
        }))
    }
}

struct VConn {
    id: usize,
    world: World,
}
#[derive(Debug, thiserror::Error)]
#[error("vconn error")]
struct VConnErr;
impl Connection<B> for VConn {
    type ResBody = B;
    type Error = VConnErr;
    type Future = Pin<Box<dyn Future<Output = Result<http::Response<B>, VConnErr>> + Send>>;
    fn send_request(&mut self, _r: http::Request<B>) -> Self::Future {
        Box::pin(async { Ok(http::Response::new(Empty::new())) })
    }
    fn poll_ready(&mut self, cx: &mut Context<'_>) -> Poll<Result<(), VConnErr>> {
        let mut w = self.world.0.lock().unwrap();
        let c = w.conns.get_mut(&self.id).unwrap();
        if !c.grant {
            c.waker = Some(cx.waker().clone());
            return Poll::Pending;
        }
        if !c.open {
            return Poll::Ready(Err(VConnErr));
        }
        if !c.busy {
            Poll::Ready(Ok(()))
        } else {
            c.waker = Some(cx.waker().clone());
            Poll::Pending
        }
    }
    fn version(&self) -> http::Version {
        if self.world.0.lock().unwrap().conns[&self.id].h2 { http::Version::HTTP_2 } else { http::Version::HTTP_11 }
    }
}
impl PoolableConnection<B> for VConn {
    fn is_open(&self) -> bool {
        let w = self.world.0.lock().unwrap();
        w.conns[&self.id].open && !w.conns[&self.id].busy
    }
    fn can_share(&self) -> bool {
        self.world.0.lock().unwrap().conns[&self.id].h2
    }
    fn reuse(&mut self) -> Option<Self> {
        if self.world.0.lock().unwrap().conns[&self.id].h2 {
            Some(VConn { id: self.id, world: self.world.clone() })
        } else {
            None
        }
    }
}

#[derive(Clone)]
struct VExec(World);
impl tower::Service<ExecuteRequest<Pooled<VConn, B>, B>> for VExec {
    type Response = http::Response<B>;
    type Error = hyperdriver::client::Error;
    type Future = Pin<Box<dyn Future<Output = Result<http::Response<B>, Self::Error>> + Send>>;
    fn poll_ready(&mut self, _: &mut Context<'_>) -> Poll<Result<(), Self::Error>> {
        Poll::Ready(Ok(()))
    }
    fn call(&mut self, req: ExecuteRequest<Pooled<VConn, B>, B>) -> Self::Future {
        let (conn, request) = req.into_parts();
        let rid: usize = request.headers().get("x-rid").unwrap().to_str().unwrap().parse().unwrap();
        let cid = conn.id;
        {
            let mut w = self.0 .0.lock().unwrap();
            let c = w.conns.get_mut(&cid).unwrap();
            if !c.h2 {
                c.busy = true;
            }
            w.held.insert(rid, conn);
        }
        self.0.ev(format!("Handoff r={rid} c={cid}"));
        Box::pin(async move { Ok(http::Response::new(Empty::new())) })
    }
}

struct CountWaker(AtomicUsize);
impl Wake for CountWaker {
    fn wake(self: Arc<Self>) {
        self.0.fetch_add(1, Ordering::SeqCst);
    }
}
type Svc = ConnectionPoolService<VTransport, VProtocol, VExec, B>;
type Fut = <Svc as tower::Service<http::Request<B>>>::Future;
struct Req {
    fut: Option<Pin<Box<Fut>>>,
    waker: Arc<CountWaker>,
    seen: usize,
    clone_id: usize,
}

async fn settle() {
    tokio::time::sleep(std::time::Duration::from_millis(1)).await;
}

async fn run_one(hist: &[Value]) -> Result<(), String> {
    let world = World::default();
    let first = &hist[0]["obs"];
    let mut cfg = Config::default();
    cfg.continue_after_preemption = first["cap"].as_bool().unwrap();
    cfg.max_idle_per_host = first["maxIdle"].as_u64().unwrap() as usize;
    cfg.idle_timeout = None;
    let mut svc: Svc = ConnectionPoolService::new(
        VTransport { world: world.clone(), clone_id: 0 },
        VProtocol(world.clone()),
        VExec(world.clone()),
        cfg,
    );
    let mut reqs: HashMap<usize, Req> = HashMap::new();
    for (i, st) in hist.iter().enumerate() {
        let ev = &st["ev"];
        let e = ev["e"].as_str().unwrap();
        world.0.lock().unwrap().events.clear();
        let r = ev["r"].as_u64().unwrap_or(0) as usize;
        let fail = |m: String| Err(format!("step {i} {ev}: {m}"));
        match e {
            "Issue" => {
                let h2 = ev["h2"].as_bool().unwrap();
                let req = http::Request::builder()
                    .uri("http://a.test/")
                    .version(if h2 { http::Version::HTTP_2 } else { http::Version::HTTP_11 })
                    .header("x-rid", r.to_string())
                    .body(Empty::new())
                    .unwrap();
                let fut = Box::pin(tower::Service::call(&mut svc, req));
                let clone_id = world.0.lock().unwrap().clones;
                reqs.insert(r, Req { fut: Some(fut), waker: Arc::new(CountWaker(AtomicUsize::new(0))), seen: 0, clone_id });
            }
            "DialStart" | "Handoff" | "PollPending" | "PollErr" => {
                let q = reqs.get_mut(&r).unwrap();
                let w = Waker::from(q.waker.clone());
                let mut cx = Context::from_waker(&w);
                q.seen = q.waker.0.load(Ordering::SeqCst);
                world.0.lock().unwrap().foreground = true;
                let res = q.fut.as_mut().ok_or(format!("step {i}: poll of finished request"))?.as_mut().poll(&mut cx);
                world.0.lock().unwrap().foreground = false;
                let evs = world.0.lock().unwrap().events.clone();
                let got = match &res {
                    Poll::Pending => {
                        if let Some(d) = evs.iter().find(|x| x.starts_with("DialStart")) { format!("DialStart:{d}") } else { "PollPending".to_string() }
                    }
                    Poll::Ready(Ok(_)) => format!("Handoff:{}", evs.iter().find(|x| x.starts_with("Handoff")).cloned().unwrap_or_default()),
                    Poll::Ready(Err(err)) => format!("PollErr:{err}"),
                };
                if res.is_ready() {
                    q.fut = None;
                }
                let want = match e {
                    "DialStart" => format!("DialStart:DialStart r={r} d={}", ev["d"]),
                    "Handoff" => format!("Handoff:Handoff r={r} c={}", ev["c"]),
                    "PollPending" => "PollPending".to_string(),
                    _ => match ev["kind"].as_str().unwrap() {
                        "Unavailable" => "PollErr:connection: pool closed, no connection can be made".to_string(),
                        "Connecting" => "PollErr:connection: vtransport error".to_string(),
                        _ => "PollErr:transport: handshake: vhandshake".to_string(),
                    },
                };
                if got != want {
                    return fail(format!("poll result: real `{got}` model `{want}`"));
                }
            }
            "Cancel" => {
                let stage = ev["stage"].as_str().unwrap();
                if stage == "checkout" {
                    let q = reqs.get_mut(&r).unwrap();
                    q.fut = None;
                } else {
                    let p = world.0.lock().unwrap().held.remove(&r);
                    if p.is_none() { return fail("cancel(sending) but nothing held".into()); }
                    drop(p);
                }
            }
            "Release" => {
                let p = world.0.lock().unwrap().held.remove(&r);
                if p.is_none() { return fail("release but nothing held".into()); }
                drop(p);
            }
            "EnvConnect" | "EnvHandshake" => {
                let d = ev["d"].as_u64().unwrap() as usize;
                let ok = ev["ok"].as_bool().unwrap();
                let mut w = world.0.lock().unwrap();
                if d > w.dials.len() { return fail("no such dial".into()); }
                if e == "EnvConnect" { w.dials[d - 1].connect = Some(ok) } else { w.dials[d - 1].handshake = Some(ok) }
                if let Some(wk) = w.dials[d - 1].waker.take() { wk.wake() }
            }
            "ConnReady" | "PeerClose" => {
                let c = ev["c"].as_u64().unwrap() as usize;
                let mut w = world.0.lock().unwrap();
                let cs = w.conns.get_mut(&c).ok_or(format!("step {i}: no conn {c}"))?;
                if e == "ConnReady" { cs.busy = false } else { cs.open = false }
                if let Some(wk) = cs.waker.take() { wk.wake() }
            }
            "HandBack" | "HandBackDrop" => {
                let c = ev["c"].as_u64().unwrap() as usize;
                {
                    let mut w = world.0.lock().unwrap();
                    let cs = w.conns.get_mut(&c).ok_or(format!("step {i}: no conn {c}"))?;
                    cs.grant = true;
                    if let Some(wk) = cs.waker.take() { wk.wake() }
                }
                settle().await;
                world.0.lock().unwrap().conns.get_mut(&c).unwrap().grant = false;
            }
            "BgDialStart" => {
                let q = reqs.get(&r).unwrap();
                {
                    let mut w = world.0.lock().unwrap();
                    w.tgrant.insert(q.clone_id);
                    if let Some(wk) = w.twaker.remove(&q.clone_id) { wk.wake() }
                }
                settle().await;
                let mut w = world.0.lock().unwrap();
                let want = format!("DialStart r={r} d={}", ev["d"]);
                if !w.events.iter().any(|x| *x == want) {
                    let evs = w.events.clone();
                    drop(w);
                    return fail(format!("expected {want}, events {evs:?}"));
                }
                w.tgrant.remove(&q.clone_id);
            }
            "BgDone" | "BgFail" => {
                {
                    let mut w = world.0.lock().unwrap();
                    for d in w.dials.iter_mut().filter(|d| d.rid == r) {
                        d.grant = true;
                        if let Some(wk) = d.waker.take() { wk.wake() }
                    }
                }
                settle().await;
                let mut w = world.0.lock().unwrap();
                for d in w.dials.iter_mut().filter(|d| d.rid == r) { d.grant = false; }
            }
            other => return fail(format!("unknown event {other}")),
        }
        // ---- compare the observable state with the model's ----
        let obs = &st["obs"];
        let snap = svc.verif_snapshot(&|c: &VConn| c.id).unwrap();
        let idle: Vec<u64> = snap.0.iter().flatten().map(|x| *x as u64).collect();
        let wq: Vec<bool> = snap.1.iter().flatten().copied().collect();
        let m_idle: Vec<u64> = obs["idle"].as_array().unwrap().iter().map(|x| x.as_u64().unwrap()).collect();
        let m_wq: Vec<bool> = obs["wq"].as_array().unwrap().iter().map(|x| x.as_bool().unwrap()).collect();
        if idle != m_idle { return fail(format!("idle: real {idle:?} model {m_idle:?}")); }
        if wq != m_wq { return fail(format!("waiting(closed flags): real {wq:?} model {m_wq:?}")); }
        if (snap.2 > 0) != obs["conn"].as_bool().unwrap() { return fail(format!("connecting: real {} model {}", snap.2, obs["conn"])); }
        let nd = world.0.lock().unwrap().dials.len() as u64;
        if nd != obs["ndial"].as_u64().unwrap() { return fail(format!("ndial: real {nd} model {}", obs["ndial"])); }
        for (rid, q) in &reqs {
            if q.fut.is_some() {
                let woken = q.waker.0.load(Ordering::SeqCst) > q.seen;
                let m = obs["woken"][rid - 1].as_bool().unwrap();
                if woken != m { return fail(format!("woken[{rid}]: real {woken} model {m}")); }
            }
        }
    }
    Ok(())
}

#[tokio::main(flavor = "current_thread", start_paused = true)]
async fn main() {
    let text = std::fs::read_to_string("/scratch/spec/sched.txt").unwrap();
    let (mut ok, mut bad, mut steps) = (0, 0, 0usize);
    let mut kinds: HashMap<String, usize> = HashMap::new();
    for line in text.lines() {
        let inner = line.trim_start_matches("<<\"REPLAY\", ").trim_end_matches(">>");
        let js: String = serde_json::from_str(inner).unwrap();
        let hist: Vec<Value> = serde_json::from_str(&js).unwrap();
        steps += hist.len();
        match run_one(&hist).await {
            Ok(()) => ok += 1,
            Err(m) => {
                bad += 1;
                let k = m.split(':').nth(1).unwrap_or("").trim().chars().take(40).collect::<String>();
                *kinds.entry(k).or_default() += 1;
                if bad <= 6 { println!("MISMATCH {m}"); }
            }
        }
    }
    println!("behaviours ok={ok} mismatched={bad} steps={steps}");
    println!("{kinds:?}");
}
