// scratch probe: compare real EyeballSet with TLC-generated observations (exact, virtual time)
use hyperdriver::happy_eyeballs::{EyeballSet, HappyEyeballsError};
use std::collections::HashMap;
use std::future::Future;
use std::pin::Pin;
use std::sync::{Arc, Mutex};
use std::time::Duration;
use tokio::time::Instant;

const U: u64 = 10; // ms per model time unit
fn d(x: i64) -> Option<Duration> { if x < 0 { None } else { Some(Duration::from_millis(x as u64 * U)) } }

type Fut = Pin<Box<dyn Future<Output = Result<usize, usize>> + Send>>;
fn attempt(i: usize, outcome: String, lat: u64, t0: Instant, starts: Arc<Mutex<Vec<i64>>>) -> Fut {
    Box::pin(async move {
        starts.lock().unwrap()[i] = ((Instant::now() - t0).as_millis() as u64 / U) as i64;
        match outcome.as_str() {
            "never" => std::future::pending().await,
            o => {
                if lat > 0 { tokio::time::sleep(Duration::from_millis(lat * U)).await; }
                if o == "ok" { Ok(i + 1) } else { Err(i + 1) }
            }
        }
    })
}

#[tokio::main(flavor = "current_thread", start_paused = true)]
async fn main() {
    let text = std::fs::read_to_string("/scratch/spec/vec.txt").unwrap();
    let mut allowed: HashMap<String, Vec<serde_json::Value>> = HashMap::new();
    for line in text.lines() {
        let inner = line.trim_start_matches("<<\"VEC\", ").trim_end_matches(">>");
        let js: String = serde_json::from_str(inner).unwrap();
        let v: serde_json::Value = serde_json::from_str(&js).unwrap();
        let key = format!("{}|{}|{}|{}|{}|{}", v["n"], v["outcome"], v["lat"], v["delay"], v["tmo"], v["conc"]);
        allowed.entry(key).or_default().push(v);
    }
    println!("scenarios: {}", allowed.len());
    let mut bad = 0usize;
    let mut shown = 0;
    for (key, obs) in &allowed {
        let v = &obs[0];
        let n = v["n"].as_u64().unwrap() as usize;
        let starts = Arc::new(Mutex::new(vec![-1i64; 3]));
        let t0 = Instant::now();
        let conc = v["conc"].as_i64().unwrap();
        let mut set: EyeballSet<Fut, usize, usize> = EyeballSet::new(d(v["delay"].as_i64().unwrap()), d(v["tmo"].as_i64().unwrap()), if conc < 0 { None } else { Some(conc as usize) });
        for i in 0..n {
            set.push(attempt(i, v["outcome"][i].as_str().unwrap().to_string(), v["lat"][i].as_u64().unwrap(), t0, starts.clone()));
        }
        let r = tokio::time::timeout(Duration::from_millis(1000 * U), set.finish()).await;
        let at = ((Instant::now() - t0).as_millis() as u64 / U) as i64;
        let (kind, id) = match r {
            Err(_) => ("hang", 0),
            Ok(Ok(i)) => ("ok", i),
            Ok(Err(HappyEyeballsError::Error(i))) => ("err", i),
            Ok(Err(HappyEyeballsError::Timeout(_))) => ("timeout", 0),
            Ok(Err(HappyEyeballsError::NoProgress)) => ("noprogress", 0),
            Ok(Err(_)) => ("other", 0),
        };
        let st = starts.lock().unwrap().clone();
        let ok = obs.iter().any(|o| {
            o["result"]["kind"] == kind && o["result"]["id"].as_u64().unwrap() as usize == id
                && (kind == "hang" || o["result"]["at"].as_i64().unwrap() == at)
                && (0..3).all(|i| o["start"][i].as_i64().unwrap() == st[i])
        });
        if !ok {
            bad += 1;
            if shown < 8 { shown += 1; println!("MISMATCH {key}\n   real: kind={kind} id={id} at={at} start={st:?}\n   model: {}", obs.iter().map(|o| format!("{} start={}", o["result"], o["start"])).collect::<Vec<_>>().join(" | ")); }
        }
    }
    println!("mismatches: {bad}");
}
