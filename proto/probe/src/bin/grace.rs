// scratch probe: graceful shutdown positions with a raw HTTP/1 client and a gated handler
use hyperdriver::server::conn::Acceptor;
use hyperdriver::stream::duplex;
use hyperdriver::{Body, Server};
use http_body_util::BodyExt;
use std::sync::Arc;
use tokio::io::{AsyncReadExt, AsyncWriteExt};
use tokio::sync::Notify;

type BoxError = Box<dyn std::error::Error + Send + Sync + 'static>;
async fn settle() { tokio::time::sleep(std::time::Duration::from_millis(1)).await; }

async fn run(name: &str, first: &[u8], rest: &[u8], proto: &str) {
    let gate = Arc::new(Notify::new());
    let started = Arc::new(std::sync::atomic::AtomicUsize::new(0));
    let (g2, s2) = (gate.clone(), started.clone());
    let svc = tower::service_fn(move |req: http::Request<Body>| {
        let (g, s) = (g2.clone(), s2.clone());
        async move {
            s.fetch_add(1, std::sync::atomic::Ordering::SeqCst);
            g.notified().await;
            let body = req.into_body().collect().await.map_err(|e| -> BoxError { e.into() })?.to_bytes();
            Ok::<_, BoxError>(http::Response::new(Body::from(body)))
        }
    });
    let (client, incoming) = duplex::pair();
    let (tx, rx) = tokio::sync::oneshot::channel::<()>();
    let b = Server::builder().with_acceptor(Acceptor::from(incoming)).with_shared_service(svc);
    let h = if proto == "auto" {
        tokio::spawn(b.with_auto_http().with_tokio().with_graceful_shutdown(async { let _ = rx.await; }))
    } else {
        tokio::spawn(b.with_http1().with_tokio().with_graceful_shutdown(async { let _ = rx.await; }))
    };
    let mut s = client.connect(4096).await.unwrap();
    s.write_all(first).await.unwrap();
    settle().await;
    let started_before = started.load(std::sync::atomic::Ordering::SeqCst);
    tx.send(()).unwrap();
    settle().await;
    let fin = h.is_finished();
    let wr = s.write_all(rest).await;
    settle().await;
    gate.notify_waiters(); gate.notify_one();
    settle().await;
    let mut buf = Vec::new();
    let n = tokio::time::timeout(std::time::Duration::from_secs(5), s.read_to_end(&mut buf)).await;
    let txt = String::from_utf8_lossy(&buf).replace("\r\n", "\\n");
    println!("{name} [{proto}]: handler_started_before_signal={started_before} server_future_finished_after_signal={fin} late_write={:?} eof={:?}\n    response: {:?}", wr.is_ok(), n.map(|r| r.is_ok()), &txt[..txt.len().min(140)]);
    // new connection after shutdown must not be served
    let c2 = tokio::time::timeout(std::time::Duration::from_secs(1), client.connect(1024)).await;
    println!("    connect after shutdown: {:?}", c2.map(|r| r.map(|_| "CONNECTED").map_err(|e| e.to_string())));
}

#[tokio::main(flavor = "current_thread", start_paused = true)]
async fn main() {
    for proto in ["http1", "auto"] {
        run("in-handler ", b"POST /a HTTP/1.1\r\nhost: x\r\ncontent-length: 5\r\n\r\nhello", b"", proto).await;
        run("mid-body   ", b"POST /a HTTP/1.1\r\nhost: x\r\ncontent-length: 10\r\n\r\nhello", b"world", proto).await;
        run("mid-head   ", b"POST /a HTTP/1.1\r\nhost: x\r\ncontent-le", b"ngth: 5\r\n\r\nhello", proto).await;
        run("idle-conn  ", b"", b"", proto).await;
    }
}
