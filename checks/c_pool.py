"""Checks for the connection-pool properties C02 C03 C04 C05 C06 C14 C15 (spec/Pool.tla, spec/PoolObs.tla,
harness/src/bin/pool.rs).

Per run:
  1. TLC model-checks the property's slice of Pool.tla (intended design, AsBuilt = {}), with -coverage.
  2. TLC generates behaviours of the model (simulation, history variable printed as JSON).
  3. The harness replays them on the REAL pool (step-wise comparison of the observable state = conformance;
     a difference is DRIFT, never an alarm) and records the real trace; every run ends with the C03 drain + probe.
  4. The harness drives seeded random walks over the really enabled actions and records them.
  5. TLC evaluates the property clauses of PoolObs.tla on every recorded real step.  Only a clause falsified there
     is a VIOLATION.
"""
import json
import os
import time

import vlib
import pool_goals
import pool_selftest

TAGS = {"C02": "C02:", "C03": "C03:", "C04": "C04:", "C05": "C05:", "C06": "C06:", "C14": "C14:", "C15": "C15:"}

# model slices: constants of Pool.tla per property and tier
BASE = dict(NReq=3, NOrig=1, MaxDial=2, MaxTick=0, AsBuilt="{}", Caps="{TRUE, FALSE}", MaxIdles="{1, 2}",
            IdleTimeouts="{0}", Protos="{TRUE, FALSE}", Faults="SomeFaults", Spurious="FALSE", AllowDrop="FALSE")
INVS = "TypeOK C02state HandleUnique C15 NoOrphan PureHasOwner MarkerHasOwner"
PROPS = "C02step C06step C05step C05pop C14a C04iv C04ivIdle C04kept C04rel C04issue C04dial NoSpuriousError"

SLICES = {
    "quick": {
        "C02": dict(MaxIdles="{1}", Faults="AllFaults"),
        "C03": dict(MaxIdles="{1}"),
        "C04": dict(MaxIdles="{1}"),
        "C05": dict(MaxIdles="{1}", Protos="{FALSE}", MaxTick=1, IdleTimeouts="{0, 2}", Faults="CloseOnly"),
        "C06": dict(NOrig=2, MaxIdles="{1}", Protos="{FALSE}", Caps="{TRUE}", Faults="NoFaults"),
        "C14": dict(MaxIdles="{1}"),
        "C15": dict(MaxIdles="{0, 1}", Protos="{FALSE}", Faults="CloseOnly"),
    },
    "thorough": {
        "C02": dict(MaxDial=3, Faults="AllFaults"),
        "C03": dict(MaxDial=3, MaxIdles="{1}", AllowDrop="TRUE"),
        "C04": dict(MaxDial=3),
        "C05": dict(Protos="{TRUE, FALSE}", MaxTick=1, IdleTimeouts="{0, 2}", Faults="CloseOnly", MaxDial=3, MaxIdles="{1}"),
        "C06": dict(NOrig=2, MaxDial=3, MaxIdles="{1}", Faults="CloseOnly"),   # (SomeFaults x MaxIdles {1,2}: 1.6e8 states, > 55 min under load)
        "C14": dict(MaxDial=3),
        "C15": dict(MaxIdles="{0, 1, 2}", Protos="{FALSE}", MaxDial=3, Faults="CloseOnly"),
    },
}

# random walks per property: a list of argument lists for `pool walk` (each is one walk campaign)
WALKS = {
    "quick": {
        "C02": [["--runs", 300, "--steps", 45, "--origins", 2, "--maxreq", 6],
                ["--runs", 25, "--steps", 12, "--origins", 1, "--maxreq", 8, "--h2prob", "0.1", "--tick", "--busytick", "--cancelw", 1]],
        "C03": [["--runs", 350, "--steps", 40, "--origins", 1, "--maxreq", 5, "--h2prob", "0.7", "--cancelw", 3],
                ["--runs", 100, "--steps", 40, "--origins", 2, "--maxreq", 6, "--h2prob", "0.6", "--droppool", "--nopool"],
                ["--runs", 50, "--steps", 40, "--origins", 1, "--maxreq", 5, "--h2prob", "0.7", "--cancelw", 3, "--contend"]],
        "C04": [["--runs", 350, "--steps", 40, "--origins", 1, "--maxreq", 6, "--h2prob", "0.6"],
                ["--runs", 15, "--steps", 45, "--origins", 1, "--maxreq", 7, "--h2prob", "0.15", "--tick", "--cancelw", 1],
                ["--runs", 25, "--steps", 8, "--origins", 1, "--maxreq", 12, "--h2prob", "0.0", "--tick", "--aging", "--cancelw", 0],
                ["--runs", 30, "--steps", 6, "--origins", 1, "--maxreq", 12, "--h2prob", "1.0", "--tick", "--h2keep", "--cancelw", 0]],
        "C05": [["--runs", 40, "--steps", 40, "--origins", 1, "--maxreq", 6, "--h2prob", "0.2", "--tick", "--closew", 3],
                ["--runs", 25, "--steps", 8, "--origins", 1, "--maxreq", 12, "--h2prob", "0.0", "--tick", "--aging", "--cancelw", 0]],
        "C06": [["--runs", 150, "--steps", 50, "--origins", 13, "--maxreq", 14, "--cancelw", 1]],
        "C14": [["--runs", 400, "--steps", 40, "--origins", 1, "--maxreq", 6, "--h2prob", "0.4"]],
        "C15": [["--runs", 300, "--steps", 50, "--origins", 2, "--maxreq", 8, "--h2prob", "0.1", "--cancelw", 1]],
    },
}


def _scale(args, k):
    return [x * k if (i > 0 and args[i - 1] == "--runs") else x for i, x in enumerate(args)]


def _thorough(a):
    if "--tick" in a or "--contend" in a:
        return [_scale(a, 6)]
    if int(a[a.index("--origins") + 1]) > 2:
        # many-origin records are large (one observation row per origin): five campaigns of 5x instead of one of 25x,
        # so that no single trace file outgrows the monitor's JSON reader
        return [_scale(a, 5)] * 5
    return [_scale(a, 25)]


WALKS["thorough"] = {pid: [w for a in ws for w in _thorough(a)] for pid, ws in WALKS["quick"].items()}

GEN = {"quick": dict(num=1200, depth=30), "thorough": dict(num=20000, depth=36)}


def write_cfg(path, consts, invs, props, gen=None, fair=False):
    lines = ["CONSTANTS"]
    for k, v in consts.items():
        if k in ("Faults", "AsBuilt") and not str(v).startswith("{"):
            lines.append(f"  {k} <- {v}")
        else:
            lines.append(f"  {k} = {v}")
    if gen:
        lines += [f"  GenDepth = {gen['depth']}", f"  MaxCancel = {gen.get('maxcancel', 1)}", "INIT InitH", "NEXT NextH", "INVARIANT Emit"]
    elif fair:
        lines += ["SPECIFICATION FairSpec", "PROPERTY C03live"]
    else:
        lines += ["INIT Init", "NEXT Next", "VIEW View", "INVARIANTS " + invs, "PROPERTIES " + props]
    lines.append("CHECK_DEADLOCK FALSE")
    with open(path, "w") as f:
        f.write("\n".join(lines) + "\n")


def model_to_trace(behs, uris):
    """Converts behaviours printed by MC_PoolGen (model events + model observations) into the record
    schema of the harness, so that PoolObs.tla can be run over the model's own behaviours."""
    out = []
    blank = {"e": "", "r": 0, "o": 0, "h2": False, "c": 0, "d": 0, "ok": False, "res": "", "kind": "", "stage": "", "woken": False, "first": False, "ages": []}
    for n, b in enumerate(behs):
        nor = len(uris)
        empty = {"req": [], "conn": [], "idle": [[] for _ in range(nor)], "wq": [[] for _ in range(nor)], "cing": [False] * nor, "ndial": 0, "ticks": 0}
        out.append(dict(blank, e="Reset", res="model", cfg=b["cfg"], uris=uris, run=n + 1, obs=empty))
        prev = empty
        for st in b["steps"]:
            ev, obs = st["ev"], st["obs"]
            e = ev["e"]
            r = dict(blank)
            r["obs"] = obs
            if e in ("DialStart", "Handoff", "PollPending", "PollErr"):
                q = prev["req"][ev["r"] - 1] if ev["r"] - 1 < len(prev["req"]) else {"polled": False, "woken": False}
                r.update(e="Poll", r=ev["r"], res=e, c=ev["c"], d=ev["d"], kind=ev["kind"], woken=q["woken"], first=not q["polled"])
            elif e in ("HandBack", "HandBackDrop"):
                r.update(e="WhenReady", c=ev["c"])
            elif e in ("BgDialStart", "BgDone", "BgFail"):
                r.update(e="Bg", r=ev["r"], d=ev["d"] if e == "BgDialStart" else 0)
            else:
                r.update(e=e, r=ev["r"], o=ev["o"], h2=ev["h2"], c=ev["c"], d=ev["d"], ok=ev["ok"], stage=ev["stage"])
            out.append(r)
            prev = obs
    return out


def uri_desc(uris):
    res = []
    for u in uris:
        scheme, rest = u.split("://")
        host = rest.lower()
        port = 443 if scheme in ("https", "wss") else 80
        if host.startswith("["):
            h, _, p = host.partition("]")
            host = h + "]"
            if p.startswith(":"):
                port = int(p[1:])
        elif ":" in host:
            host, p = host.split(":")
            port = int(p)
        res.append({"uri": u, "scheme": scheme, "host": host, "port": port})
    return res


def monitor(pid, trace_path):
    """Runs PoolObs.tla over a recorded trace; returns the list of falsified clauses (all properties)."""
    r = vlib.tlc_trace("PoolObs.tla", "PoolObs.cfg", pid, trace_path, timeout=3000)
    if not r.finished:
        vlib.log(r.out[-3000:])
        raise vlib.ToolError("PoolObs did not consume the whole trace")
    v = r.printed("VIOL")
    if len(v) != 1:
        raise vlib.ToolError("PoolObs printed no report")
    return v[0], r


def manyorigins_stage(pid, tier, seed, verdict, prefix):
    """The many-origins scenario (PoolKeys.tla) decided for another property: registers the violations whose tag starts with
    `prefix` (C12: a secure-scheme request served on a connection dialled for an insecure origin)."""
    vlib.build_harness("pool")
    mo = os.path.join(vlib.outdir(pid), "manyorigins.ndjson")
    n = 1100 if tier == "quick" else 5000
    stats = json.loads(vlib.run_harness("pool", ["manyorigins", "--n", n, "--seed", seed, "--out", mo]))
    r = vlib.tlc_trace("PoolKeysObs.tla", "PoolKeysObs.cfg", pid, mo, timeout=3000)
    kv = r.printed("VIOL")
    if not r.finished or len(kv) != 1:
        raise vlib.ToolError("PoolKeysObs did not consume the trace")
    recs = vlib.read_ndjson(mo)
    mine = [v for v in kv[0] if v["tag"].startswith(prefix)]
    for v in mine[:3]:
        verdict.violation(v["tag"], f"request for {v['ro']} was served on a connection dialled for {v['co']} (record {v['l']} of the many-origins scenario)",
                          {"kind": "pool-manyorigins", "n": n, "seed": seed, "record": recs[v["l"] - 1]})
    return {"scenario": stats, "records": len(recs), "violations": len(mine)}


def trace_validate(pid, path, max_restarts=8, cfg="PoolTrace.cfg"):
    """Validates a recorded real trace against Pool.tla itself (PoolTrace.tla).  Returns
    (runs accepted, runs rejected, first rejections).  A rejection is DRIFT, never an alarm."""
    trace = vlib.read_ndjson(path)
    d = vlib.outdir(pid)
    accepted, rejected, rej = 0, 0, []
    rest = trace
    for _ in range(max_restarts + 1):
        if not rest:
            break
        part = os.path.join(d, "tv-part.ndjson")
        vlib.write_ndjson(part, rest)
        r = vlib.tlc_trace("PoolTrace.tla", cfg, pid, part, timeout=3000)
        rj = r.printed("REJECT") if False else None
        k = None
        for line in r.out.splitlines():
            if line.startswith('<<"REJECT", '):
                k = int(line.split(",")[1])
                break
        if k is None:
            if not r.finished:
                vlib.log(r.out[-2000:])
                raise vlib.ToolError("PoolTrace failed")
            accepted += sum(1 for x in rest if x["e"] == "Reset")
            rest = []
            break
        # records 1..k matched; record k+1 (0-based index k) did not
        accepted += sum(1 for x in rest[:k] if x["e"] == "Reset") - 1
        rejected += 1
        bad = rest[k]
        rej.append({"run": next((x.get("run") for x in reversed(rest[:k + 1]) if x["e"] == "Reset"), None),
                    "unmatched": {kk: v for kk, v in bad.items() if kk != "obs"}})
        nxt = next((i for i in range(k + 1, len(rest)) if rest[i]["e"] == "Reset"), None)
        rest = rest[nxt:] if nxt is not None else []
    else:
        rejected += sum(1 for x in rest if x["e"] == "Reset")
    return accepted, rejected, rej


def behaviour_of(trace, base):
    """The records of the run that starts at Reset index `base` (1-based)."""
    recs = [trace[base - 1]]
    for r in trace[base:]:
        if r["e"] == "Reset":
            break
        recs.append(r)
    return recs


def run(pid, tier, seed, t0, asbuilt=None):
    d = vlib.outdir(pid)
    verdict = vlib.Verdict(pid)
    prefix = TAGS[pid]
    assumptions = [
        "the pool is observed through gated doubles of Transport/Protocol/Connection/inner service at the public generic boundary "
        "(ConnectionPoolService<T,P,S,B,K>) plus the read-only verif_snapshot hook; hyper itself is not in the loop here (C01 covers it)",
        "a connection reports is_open = open && !busy && !upgraded, as HttpConnection::is_open = hyper's is_ready",
        "bounds: the model is exhaustive only within the constants of the slice; beyond that seeded simulation and random walks",
    ]
    # ---- 1. model check
    consts = dict(BASE)
    consts.update(SLICES[tier][pid])
    if asbuilt:
        consts["AsBuilt"] = asbuilt
    cfg = f"_{pid}_{tier}.cfg"
    write_cfg(os.path.join(vlib.SPEC, cfg), consts, INVS, PROPS)
    mc = vlib.tlc("MC_Pool.tla", cfg, pid, workers=8, timeout=3400, coverage=(tier == "quick"))
    os.remove(os.path.join(vlib.SPEC, cfg))
    model_ok = mc.finished and mc.violated is None
    live = None
    if pid == "C03":
        # liveness checking is far more expensive than safety: 2 requests (the dial bound must be >= the number of
        # requests, else a request blocked by the bound looks stranded); the 3-request space is covered by NoOrphan
        # pool absence (DropPool, and `without_pool` from the start) is part of the liveness slice in both tiers
        lc = dict(consts, NReq=2, MaxDial=2 if tier == "quick" else 3, MaxIdles="{1}" if tier == "quick" else "{1, 2}", AllowDrop="TRUE")
        cfgl = f"_{pid}_{tier}_live.cfg"
        write_cfg(os.path.join(vlib.SPEC, cfgl), lc, "", "", fair=True)
        live = vlib.tlc("MC_Pool.tla", cfgl, pid, workers=8, timeout=3400)
        os.remove(os.path.join(vlib.SPEC, cfgl))
        model_ok = model_ok and live.finished and live.violated is None
    if not model_ok:
        # The intended design itself violates a property within the bounds: that is a defect of the
        # specification or of the repair design, not an observation of the code.  Tool-level failure.
        vlib.log(mc.out[-4000:])
        raise vlib.ToolError(f"model check of the intended design failed: {mc.violated or (live and live.violated)}")

    # ---- 2. generate behaviours
    gconsts = dict(consts, MaxDial=max(3, consts["MaxDial"]), Faults="AllFaults" if pid in ("C02",) else consts["Faults"])
    if pid == "C03":
        gconsts["AllowDrop"] = "TRUE"     # generated behaviours include DropPool and the service without a pool
    gcfg = f"_{pid}_{tier}_gen.cfg"
    g = dict(GEN[tier])
    if consts.get("MaxTick", 0) > 0:
        # every Tick of a replayed schedule is a real 120 ms sleep (std::time::Instant cannot be paused)
        g["num"] = min(g["num"], 5000 if tier == "thorough" else 500)
    write_cfg(os.path.join(vlib.SPEC, gcfg), gconsts, "", "", gen=dict(depth=g["depth"]))
    gen = vlib.tlc("MC_PoolGen.tla", gcfg, pid, workers=1, timeout=3400, simulate=g["num"], depth=g["depth"] + 1, seed=seed)
    os.remove(os.path.join(vlib.SPEC, gcfg))
    behs = gen.printed("REPLAY")
    if not behs:
        raise vlib.ToolError("no behaviours generated")
    sched = os.path.join(d, "sched.ndjson")
    vlib.write_ndjson(sched, behs)
    uris = ["http://a.test", "https://a.test", "http://a.test:81", "http://b.test"][: max(1, consts["NOrig"])]

    # ---- 3. replay on the real pool
    rtrace = os.path.join(d, "replay-trace.ndjson")
    rep = json.loads(vlib.run_harness("pool", ["replay", "--in", sched, "--out", rtrace, "--uris", ",".join(uris)]))
    # ---- 3b. goal-directed behaviours (MC_PoolGoals.tla: TLC's shortest witnesses of 31 design corners)
    goals, ginfo = pool_goals.load_or_generate(pid)
    gsched = os.path.join(d, "goals.ndjson")
    vlib.write_ndjson(gsched, goals)
    gtrace = os.path.join(d, "goals-trace.ndjson")
    grep_ = json.loads(vlib.run_harness("pool", ["replay", "--in", gsched, "--out", gtrace, "--uris", "http://a.test"]))
    # the same behaviours again with the harsh drain (connections die instead of coming back to the pool)
    gtrace2 = os.path.join(d, "goals-trace-harsh.ndjson")
    grep2 = json.loads(vlib.run_harness("pool", ["replay", "--harsh-drain", "--in", gsched, "--out", gtrace2, "--uris", "http://a.test"]))
    # and once more under lock contention: during every step another thread holds the pool lock for a moment (hook
    # PoolLock), so work that is only done when the lock can be taken at once (try_lock) is visibly skipped
    gtrace3 = os.path.join(d, "goals-trace-contended.ndjson")
    grep3 = json.loads(vlib.run_harness("pool", ["replay", "--contend", "--in", gsched, "--out", gtrace3, "--uris", "http://a.test"]))
    grep_["steps"] += grep2["steps"] + grep3["steps"]
    grep_["drifted"] += grep2["drifted"] + grep3["drifted"]

    # ---- 4. random walks on the real pool
    wtraces = []
    wk = {"runs": 0, "steps": 0, "panics": 0, "actions": {}}
    for i, wargs in enumerate(WALKS[tier][pid]):
        wpath = os.path.join(d, f"walk-trace-{i}.ndjson")
        one = json.loads(vlib.run_harness("pool", ["walk", "--seed", seed + 1000 * i, "--out", wpath] + wargs))
        wtraces.append((wpath, "PoolTrace_small.cfg" if int(wargs[wargs.index("--origins") + 1]) <= 2 else "PoolTrace.cfg"))
        wk["runs"] += one["runs"]
        wk["steps"] += one["steps"]
        wk["panics"] += one["panics"]
        for a, n in one["actions"].items():
            wk["actions"][a] = wk["actions"].get(a, 0) + n

    # ---- 5. property monitor (TLC) on the real traces
    all_viol = []
    nrec = 0
    samples = []
    for path in [rtrace, gtrace, gtrace2, gtrace3] + [w for w, _ in wtraces]:
        viol, r = monitor(pid, path)
        trace = vlib.read_ndjson(path)
        nrec += len(trace)
        if path == rtrace:
            samples.append({"kind": "replayed model behaviour (real trace, first records)", "records": [{k: v for k, v in x.items() if k != "obs"} for x in trace[:12]]})
        elif len(samples) < 2:
            samples.append({"kind": "random walk (real trace, first records)", "records": [{k: v for k, v in x.items() if k != "obs"} for x in trace[:12]]})
        mine = [v for v in viol if v["tag"].startswith(prefix)]
        seen = set()
        for v in mine:
            key = v["tag"]
            if (key, v["run"], path) in seen:
                continue
            seen.add((key, v["run"], path))
            if len([1 for k, _, _ in verdict.violations if k == key]) >= 3:
                continue
            recs = behaviour_of(trace, v["base"])
            verdict.violation(key, f"clause {v['tag']} falsified at record {v['l'] - v['base']} of run {v['run']} ({os.path.basename(path)})",
                              {"kind": "pool-trace", "clause": v["tag"], "at": v["l"] - v["base"], "records": recs})
        all_viol += mine

    # ---- self-test of the monitors on corrupted copies of the real runs (vacuity / binding guard; tool error if it fails)
    # (on a tree that breaks a property the recorded runs themselves are abnormal and an injection may not apply:
    #  the self-test only matters for a run that would otherwise pass)
    try:
        selftest = pool_selftest.run(pid, [gtrace, rtrace])
        selftest_error = None
    except vlib.ToolError as ex:
        selftest, selftest_error = {"error": str(ex)}, ex

    # ---- C06 at the key level: PoolKeys.tla (token map) + the many-origins scenario on the real pool
    keys = None
    if pid == "C06":
        km = vlib.tlc("PoolKeys.tla", "PoolKeys_quick.cfg", pid, workers=2, timeout=600)
        kr = vlib.tlc("PoolKeys.tla", "PoolKeys_reset.cfg", pid, workers=2, timeout=600)
        if not km.finished or km.violated or kr.violated != "NoSharedToken":
            raise vlib.ToolError("PoolKeys.tla: the as-built map must satisfy NoSharedToken and the reset-on-full variant must violate it")
        mo = os.path.join(d, "manyorigins.ndjson")
        n = 1100 if tier == "quick" else 5000
        stats = json.loads(vlib.run_harness("pool", ["manyorigins", "--n", n, "--seed", seed, "--out", mo]))
        r = vlib.tlc_trace("PoolKeysObs.tla", "PoolKeysObs.cfg", pid, mo, timeout=3000)
        kv = r.printed("VIOL")
        if not r.finished or len(kv) != 1:
            raise vlib.ToolError("PoolKeysObs did not consume the trace")
        recs = vlib.read_ndjson(mo)
        nrec += len(recs)
        mine6 = [v for v in kv[0] if v["tag"].startswith("C06:")]
        for v in mine6[:3]:
            verdict.violation(v["tag"], f"request for {v['ro']} was served on a connection dialled for {v['co']} (record {v['l']} of the many-origins scenario)",
                              {"kind": "pool-manyorigins", "n": n, "seed": seed, "record": recs[v["l"] - 1]})
        all_viol += mine6
        apal = None
        if tier == "thorough":
            # unbounded counter: the inductive invariant of the key map is discharged by Apalache (spec/apalache/PoolKeysInd.tla)
            import subprocess
            adir = os.path.join(vlib.SPEC, "apalache")
            res = []
            for a in (["--init=Init", "--length=0"], ["--init=IndInit", "--length=1"]):
                pr = subprocess.run(["apalache-mc", "check", "--cinit=CInit", "--inv=IndInv", "--out-dir=" + os.path.join(d, "apalache-out")] + a + ["PoolKeysInd.tla"],
                                    cwd=adir, stdout=subprocess.PIPE, stderr=subprocess.STDOUT, text=True, timeout=1800)
                res.append("EXITCODE: OK" in pr.stdout)
            if not all(res):
                raise vlib.ToolError("Apalache did not discharge the inductive invariant of PoolKeysInd.tla")
            apal = {"base_case": res[0], "inductive_step": res[1]}
        keys = {"apalache_inductive_invariant": apal, "model_states": km.distinct, "reset_variant_violates": kr.violated, "scenario": stats, "violations": len(kv[0])}

    # ---- trace validation of the random walks against Pool.tla itself (impl -> spec; DRIFT only)
    tv = None
    for wpath, tcfg in wtraces:
        acc, rejd, rej = trace_validate(pid, wpath, cfg=tcfg)
        if tv is None:
            tv = {"runs_accepted": 0, "runs_rejected": 0, "first_rejections": []}
        tv["runs_accepted"] += acc
        tv["runs_rejected"] += rejd
        tv["first_rejections"] = (tv["first_rejections"] + rej)[:3]
        if rejd:
            vlib.log(f"DRIFT: {rejd} random-walk runs are not behaviours of Pool.tla: {rej[:2]}")

    # ---- cross-validation of the monitor on the model's own behaviours (never an alarm)
    mtrace = os.path.join(d, "model-trace.ndjson")
    vlib.write_ndjson(mtrace, model_to_trace(behs[: 400 if tier == "quick" else 4000], uri_desc(uris)))
    mviol, _ = monitor(pid, mtrace)
    model_flags = sorted({v["tag"] for v in mviol})

    # extension stage: Connector.tla (the four connector stages behind the two gates of Pool.tla; C03 clauses: stranded call, lost wake-up)
    connector = __import__("x_connector").stage(pid, tier, seed, verdict) if pid == "C03" else None
    upgrade = __import__("x_upgrade").stage(pid, tier, seed, verdict) if pid == "C02" else None   # Upgrade.tla: U1, an upgraded connection is never handed out again (real stack)
    code, unlisted = verdict.finish()
    if selftest_error is not None and not verdict.violations and not all_viol:
        raise selftest_error
    cov = mc.coverage()
    never = sorted(a for a, (dist, taken) in cov.items() if taken == 0)
    coverage = {
        "states": mc.distinct, "transitions": mc.generated, "depth": mc.depth,
        "traces_validated_against_impl": rep["behaviours"] + grep_["behaviours"] + wk["runs"],
        "goal_directed": {"behaviours": grep_["behaviours"], "conformant": grep_["conformant"], "drifted": grep_["drifted"],
                          "steps": grep_["steps"], "source": ginfo},
        "samples": samples,
        "evaluations": nrec, "distinct_nontrivial": rep["behaviours"] + wk["runs"],
        "rule": "one evaluation = one recorded real step with all clauses of the property evaluated by TLC (PoolObs.tla); "
                "distinct_nontrivial = number of distinct runs (model behaviours replayed on the real pool + seeded random walks), "
                "each at least 20 steps over >= 3 requests followed by drain and probe",
        "exhaustive": False,
        "model": {"constants": consts, "invariants": INVS.split(), "action_properties": PROPS.split(),
                  "liveness": ({"states": live.distinct, "property": "C03live under FairSpec"} if live else None)},
        "tlc_coverage": {a: {"distinct": v[0], "taken": v[1]} for a, v in sorted(cov.items())},
        "actions_never_taken": never,
        "replay": {"behaviours": rep["behaviours"], "conformant": rep["conformant"], "drifted": rep["drifted"], "steps": rep["steps"],
                   "drift_kinds": rep["drift_kinds"], "drift_samples": rep["drift_samples"]},
        "drift": rep["drifted"] + grep_["drifted"] + (tv["runs_rejected"] if tv else 0),
        "walk_trace_validation": tv,
        "key_level": keys,
        "monitor_selftest": selftest,
        "walk": wk,
        "monitor_records": nrec,
        "monitor_on_model_behaviours": {"behaviours": min(len(behs), 400 if tier == "quick" else 4000), "clauses_flagged": model_flags},
        "clauses_falsified": sorted({v["tag"] for v in all_viol}),
        "repo_tree": vlib.repo_tree_id(),
        "connector_model": connector, "upgrade_model": upgrade,
    }
    if rep["drifted"]:
        vlib.log(f"DRIFT: {rep['drifted']} of {rep['behaviours']} replayed behaviours differ from Pool.tla: {rep['drift_kinds']}")
    if model_flags:
        vlib.log(f"NOTE: the monitor flags clauses on the model's own behaviours: {model_flags}")
    vlib.write_evidence(pid, tier, seed, "model_checking", coverage, assumptions, time.time() - t0, unlisted)
    return code


def replay(pid, path):
    """Re-validates the recorded real trace of a violation and re-executes its action sequence on the current tree."""
    obj = json.load(open(path))
    _rk = obj.get("replay", {}).get("kind") if isinstance(obj.get("replay"), dict) else None
    if _rk == "connector-trace":
        return __import__("x_connector").replay(pid, obj)
    if _rk == "upgrade-scenario":
        return __import__("x_upgrade").replay(pid, obj)
    if _rk == "body-ops":
        return __import__("x_body").replay(pid, obj)
    if _rk == "tcpcall-row":
        _c = __import__("x_tcpcall").replay(pid, obj)
        if _c:
            print("VIOLATION property=%s replay=%s" % (pid, path), flush=True)
        return _c
    if obj["replay"].get("kind") == "pool-manyorigins":
        d = vlib.outdir(pid)
        mo = os.path.join(d, "manyorigins-replay.ndjson")
        vlib.run_harness("pool", ["manyorigins", "--n", obj["replay"]["n"], "--seed", obj["replay"]["seed"], "--out", mo])
        r = vlib.tlc_trace("PoolKeysObs.tla", "PoolKeysObs.cfg", pid, mo, timeout=3000)
        kv = r.printed("VIOL")
        if kv and [v for v in kv[0] if v["tag"].startswith(pid + ":")]:
            print(f"VIOLATION property={pid} replay={path}")
            return 1
        print(f"not reproduced on the current tree: {obj['key']}")
        return 0
    recs = obj["replay"]["records"]
    d = vlib.outdir(pid)
    # re-execute: turn the recorded actions into a schedule without expectations
    steps = []
    for r in recs[1:]:
        e = r["e"]
        if e in ("Drain", "ProbeDone"):
            break
        ev = {"e": e, "r": r["r"], "o": r["o"], "h2": r["h2"], "c": r["c"], "d": r["d"], "ok": r["ok"], "kind": r["kind"], "stage": r["stage"]}
        if e == "Poll":
            ev["e"] = "PollPending"
        elif e == "WhenReady":
            ev["e"] = "HandBack"
        elif e == "Bg":
            ev["e"] = "BgDone"
        steps.append({"ev": ev, "obs": {}})
    sched = os.path.join(d, "replay-sched.ndjson")
    vlib.write_ndjson(sched, [{"cfg": recs[0]["cfg"], "steps": steps}])
    uris = [u["uri"] for u in recs[0]["uris"]]
    rtrace = os.path.join(d, "replay-again.ndjson")
    vlib.run_harness("pool", ["replay", "--lenient", "--in", sched, "--out", rtrace, "--uris", ",".join(uris)])
    viol, _ = monitor(pid, rtrace)
    mine = [v for v in viol if v["tag"].startswith(TAGS[pid])]
    if mine:
        print(f"VIOLATION property={pid} replay={path}")
        vlib.log("reproduced: " + ", ".join(sorted({v['tag'] for v in mine})))
        return 1
    print(f"not reproduced on the current tree: {obj['key']}")
    return 0
