"""In-process duplex transport (spec/Duplex.tla): a stage of C09 and C18.

`stage(pid, tier, seed, verdict)` is called by the host check (checks/c_server.py for C09, checks/c_stream.py for
C18) and returns a dict of measured numbers that the host embeds in its evidence under "duplex_transport".

Pipeline of one call:
  1. TLC model-checks Duplex.tla (connect-level and data-level configurations of the tier, the first with
     -coverage 1; the liveness property P5 in its own configuration), and five seeded-defect variants of the model,
     each of which MUST be refuted (vacuity guard).  A failing model check of the intended design is a tool error.
  2. TLC generates behaviours (simulation; Cap = 32 as in the code, with and without a fill phase that takes the
     channel to its capacity); harness bin `duplex` replays them step by step on the REAL types and compares
     result and observable state after every step: a mismatch is DRIFT (reported, never a verdict).
  3. The harness adds seeded random walks over the really enabled actions (more clients, larger buffers, floods of
     more than 32 pending connects).
  4. spec/DuplexObs.tla (TLC) evaluates the clauses P1..P4 on every recorded step of every trace: its findings
     decide.  Only keys of the calling property are reported (C09: duplex-accept-error-after-cancel,
     duplex-connect-error, duplex-probe-not-accepted, duplex-connect-stranded; C18: duplex-pairing, duplex-bytes,
     duplex-fifo).
  5. spec/DuplexTrace.tla (TLC) validates recorded walks against Duplex.tla itself; a rejected run is DRIFT.
  6. Self-test: a corrupted copy of a real recorded run must be flagged by the monitor (and rejected by the
     trace validation); otherwise the machinery is broken: tool error.
`replay(pid, obj)` re-executes a replay object of kind "duplex-trace" on the current tree through the same monitor.
"""
import collections
import concurrent.futures
import json
import os
import time

import vlib

BUGS = {
    "ackerr": ("a connect request whose client went away is returned as the accept error (the D8 behaviour)", {"P3_AcceptErr"}),
    "srvbuf": ("the pipe is sized by the listener's max_buf_size alone, ignoring a smaller client request", {"P2_BufRule"}),
    "crosshalf": ("the client half made for a cancelled request is handed to the next client", {"P1"}),
    "lifo": ("the listener serves the newest live request first", {"P4_Fifo"}),
    "dropnext": ("skipping a cancelled request also discards the live request behind it", {"P4_SkipOnlyCancelled", "P3_ConnectErr", "P5_NoLostWake"}),
}
ACTIONS = ["CloneHandle", "DropHandle", "Start", "Poll", "Cancel", "Accept", "DropListener", "Write", "Read", "Shutdown", "DropEnd"]
MODEL_PROPS = ["TypeOK", "ChanOK", "P1", "P2_Prefix", "P2_BufRule", "P2_NoLostWake", "P2_Step", "P3_AcceptErr", "P3_ConnectErr",
               "P4_Fifo", "P4_SkipOnlyCancelled", "P5_NoLostWake", "P5 (temporal, Duplex_live.cfg)"]
ASSUMPTIONS = [
    "duplex: tokio 1.44's mpsc channel (FIFO semaphore, permits handed to parked senders), oneshot and io::duplex are "
    "modelled as read from their source; they are trusted, the replay and the trace validation measure the agreement.",
    "duplex: every future is polled by hand on one thread (no spawned task, no timer): wake-ups are observed as flags of "
    "per-party wakers; behaviours that need two threads inside one poll are out of reach.",
    "duplex: max_buf_size >= 1 (tokio's pipe with size 0 never accepts a byte); at most 15 writing client ends and 16 "
    "writing server ends per run (byte = 8*tag + index mod 8).",
    "duplex: the FIFO clause (P4) is evaluated on real traces only among requests that entered the channel for certain "
    "at their first poll: fewer than cap_lb = 8 requests outstanding (the code's capacity is 32).",
]


def _tier(tier, pid):
    """(cfg, TLC workers, -coverage) ...  The quick tier keeps the number of JVM starts small: the connect-level
    configurations and defects for C09, the data-level ones for C18; thorough runs everything for both."""
    if tier == "quick":
        if pid == "C09":
            models = [("Duplex_quick.cfg", 2, True), ("Duplex_data_min.cfg", 2, True), ("Duplex_quick3.cfg", 3, False)]
        else:
            models = [("Duplex_quick.cfg", 2, True), ("Duplex_data.cfg", 3, True)]
        return dict(models=models, live=("Duplex_live.cfg", 2),
                    bugs=["ackerr", "dropnext"] if pid == "C09" else ["crosshalf", "srvbuf", "lifo"],
                    gen=[("Duplex_gen.cfg", 16, 70)], maxbeh=(60,),
                    walk=dict(runs=40, steps=50, flood=0.12), tv_runs=20, mc_timeout=600, pool=5)
    return dict(models=[("Duplex_quick.cfg", 2, True), ("Duplex_data.cfg", 3, True), ("Duplex_quick3.cfg", 3, False),
                        ("Duplex_thorough.cfg", 4, False), ("Duplex_thorough3.cfg", 4, False), ("Duplex_thorough4.cfg", 4, False),
                        ("Duplex_thorough_mix.cfg", 4, False), ("Duplex_thorough_data.cfg", 4, False)],
                live=("Duplex_live3.cfg", 3), bugs=list(BUGS),
                gen=[("Duplex_gen.cfg", 250, 70), ("Duplex_gen_fill.cfg", 12, 120)], maxbeh=(900, 60),
                walk=dict(runs=1500, steps=80, flood=0.1), tv_runs=400, mc_timeout=1500, pool=5)


def _d(pid):
    d = os.path.join(vlib.outdir(pid), "duplex")
    os.makedirs(d, exist_ok=True)
    return d


# ------------------------------------------------------------------------------------------------
def _model(pid, cfg, workers, cov, timeout):
    r = vlib.tlc("MC_Duplex", cfg, pid, workers=workers, timeout=timeout, coverage=cov, xmx="4g")
    if r.violated or not r.finished:
        vlib.log(r.out[-3000:])
        raise vlib.ToolError(f"Duplex.tla ({cfg}) does not satisfy {r.violated}: the specification needs attention "
                             "(a model counterexample is not a verdict on the crate)")
    return r


def _bug(pid, b):
    r = vlib.tlc("MC_Duplex", f"Duplex_bug_{b}.cfg", pid, workers=1, timeout=300, xmx="2g")
    if r.violated not in BUGS[b][1]:
        vlib.log(r.out[-2000:])
        raise vlib.ToolError(f"vacuity guard: the model with seeded defect '{b}' is not refuted as expected (TLC: {r.violated})")
    return r


def _gen(pid, cfg, num, depth, seed):
    # one worker: the simulation is then a function of the seed
    r = vlib.tlc("MC_DuplexGen", cfg, pid, workers=1, simulate=num, depth=depth, seed=seed, timeout=900, xmx="3g")
    beh = r.printed("REPLAY")
    if r.violated or not beh:
        vlib.log(r.out[-3000:])
        raise vlib.ToolError(f"generation config {cfg} produced no behaviours")
    return beh


def _harness(pid, args, timeout=1500):
    so = vlib.run_harness("duplex", args, timeout=timeout)
    return json.loads(so.strip().splitlines()[-1])


# ------------------------------------------------------------------------------------------------
def _runs_of(recs):
    """[(base (1-based index of the Reset record), [records of the run])]"""
    runs = []
    for i, r in enumerate(recs):
        if r["e"] == "Reset":
            runs.append((i + 1, [r]))
        elif runs:
            runs[-1][1].append(r)
    return runs


def _replay_obj(run, key):
    reset = run[0]
    steps = [{"ev": {k: r[k] for k in ("e", "c", "k", "s", "a", "api")}} for r in run[1:] if r["ph"] == "run" and r["e"] not in ("Skip",)]
    return {"kind": "duplex-trace", "key": key, "src": reset.get("src"),
            "cfg": {"lbuf": reset["cfg"]["lbuf"], "ncli": reset["cfg"]["ncli"]}, "via": reset["cfg"]["via"], "lmode": reset["cfg"]["lmode"],
            "steps": steps}


def _summ(run, upto=None):
    out = []
    for r in run[1:]:
        x = r["e"]
        if r["e"] in ("Start", "Poll", "Cancel"):
            x += f"({r['c']})"
        elif r["e"] in ("Write", "Read", "Shutdown", "DropEnd"):
            x += f"({r['s']}{r['c'] or r['k']},{r['a']})"
        if r.get("res"):
            x += "=" + r["res"] + (f":{r['m']}" if r["e"] in ("Write", "Read") and r["res"] == "ok" else "")
        if r["ph"] != "run":
            x = r["ph"] + ":" + x
        out.append(x)
    return " ".join(out[:upto] if upto else out)


def _monitor(pid, trace, nrecs, tag):
    # (vlib names TLC's metadir after the cfg: runs that may overlap in time use differently named copies)
    r = vlib.tlc_trace("DuplexObs", "DuplexObs.cfg", pid, trace, timeout=2400, xmx="6g")
    if r.violated == "Sane":
        raise vlib.ToolError("monitor: malformed trace record")
    if not r.finished or r.distinct != nrecs + 1:
        vlib.log(r.out[-3000:])
        raise vlib.ToolError(f"monitor ({tag}) looked at {r.distinct - 1} of {nrecs} records")
    v = r.printed("VIOL")
    if len(v) != 1:
        raise vlib.ToolError(f"monitor ({tag}) printed {len(v)} reports")
    return v[0], r


def _trace_validate(pid, recs, st_run, tag, max_rejected=3):
    """impl -> spec.  `st_run` (the self-test run: a corrupted copy of a real run) is appended to every pass and must be
    rejected.  Returns (runs looked at, records, rejected real runs [{run, src, record, event, ...}], record index at
    which the self-test run was rejected or None, stopped early)."""
    d = _d(pid)
    runs = [r for _, r in _runs_of(recs)]
    rejected = []
    total_runs, total_recs = len(runs), sum(len(r) for r in runs)
    st_at = None
    it = 0
    while True:
        it += 1
        stopped = len(rejected) >= max_rejected
        if stopped:
            runs = []                       # enough drift seen: only the self-test run is left to do
        p = os.path.join(d, f"tv-{tag}-{it}.ndjson")
        vlib.write_ndjson(p, [x for r in runs for x in r] + st_run)
        r = vlib.tlc_trace("DuplexTrace", "DuplexTrace.cfg", pid, p, timeout=2400, xmx="6g")
        rej = [l for l in r.out.splitlines() if l.startswith('<<"REJECT"')]
        if not rej:
            if not r.finished:
                vlib.log(r.out[-3000:])
                raise vlib.ToolError("trace validation did not finish")
            return total_runs, total_recs, rejected, None, stopped
        k = int(rej[0].split(",")[1])          # records accepted before the rejected one
        n = 0
        hit = None
        for j, rr in enumerate(runs):
            if n + len(rr) > k:
                hit = j
                break
            n += len(rr)
        if hit is None:
            return total_runs, total_recs, rejected, k - n, stopped          # the self-test run: as it must be
        rr = runs[hit]
        bad = rr[k - n]
        rejected.append({"run": rr[0].get("run"), "src": rr[0].get("src"), "record": k - n, "event": bad["e"], "res": bad.get("res"),
                         "history": _summ(rr, k - n)[-400:]})
        runs = runs[hit + 1:]


def _corrupt(run, pid, level):
    """A corrupted copy of a real run that the monitor must flag for this property (several kinds of corruption, tried in
    order, so that the self-test does not depend on what the runs happen to contain)."""
    run = json.loads(json.dumps(run))
    for r in run:
        if pid == "C18":
            if level == 0 and r["e"] == "Read" and r["res"] == "ok" and r["bytes"]:
                b = r["bytes"][-1]
                r["bytes"][-1] = (b // 8) * 8 + ((b % 8) + 1) % 8      # the last byte delivered is not the next one written
                return run, "C18:duplex-bytes/out-of-order", "the last byte of a Read is not the next one written"
            if level == 1 and r["e"] == "Write" and r["res"] == "ok":
                r["m"] = r["a"] + 1                                     # more bytes accepted than offered
                r["bytes"] = r["bytes"] + [0] * (r["m"] - len(r["bytes"]))
                return run, "C18:duplex-bytes/write-count", "a Write reports more bytes than were offered"
            if level == 2 and r["e"] == "Read" and r["res"] in ("eof", "pending"):
                r["res"] = "err"
                r["kind"] = "Other"
                return run, "C18:duplex-bytes/read-err", "a Read is recorded as an error"
        else:
            if level == 0 and r["e"] == "Accept" and r["res"] == "pending" and r["obs"]["handles"] > 0:
                r["res"] = "err"                                        # accept fails although client handles exist
                r["kind"] = "ConnectionReset"
                r["k"] = len(r["obs"]["srv"]) + 1
                return run, "C09:duplex-accept-error-after-cancel/", "an Accept that returned Pending is recorded as an error"
            if level == 1 and r["e"] == "Poll" and r["res"] == "pending" and r["obs"]["lst"] == "open":
                r["res"] = "err"
                r["kind"] = "ConnectionReset"
                return run, "C09:duplex-connect-error/listener-alive", "a pending connect is recorded as failed while the listener lives"
    return None, None, None


def _self_test_run(pid, recs):
    """A corrupted copy of a real recorded run (src "self-test") and the key the monitor must report for it.  It is
    appended to the trace the monitor judges and to the trace the validation reads: both must single it out."""
    for level in (0, 1, 2):
        for _, run in _runs_of(recs):
            bad, want, what = _corrupt(run, pid, level)
            if bad is not None:
                bad[0]["src"] = "self-test"
                return bad, want, what
    raise vlib.ToolError("self-test: no recorded run is suitable for corruption")


# ------------------------------------------------------------------------------------------------
def _report(pid, viol, recs, verdict):
    """Violations of this property's clauses -> verdict; returns ({key: count} for all keys, keys reported)."""
    by_key = collections.OrderedDict()
    for v in viol:
        by_key.setdefault(v["key"], []).append(v)
    runs = {b: r for b, r in _runs_of(recs)}
    mine = []
    for key, lst in by_key.items():
        if not key.startswith(pid + ":"):
            continue
        v = min(lst, key=lambda v: (len(runs[v["base"]]), v["base"]))       # the shortest failing run of the class
        run = runs[v["base"]]
        at = v["l"] - v["base"]
        bad = run[at] if at < len(run) else {}
        desc = (f"duplex transport: clause {key} false at record {at} of run {run[0].get('run')} [{run[0].get('src')}; lbuf={run[0]['cfg']['lbuf']}, "
                f"via={run[0]['cfg']['via']}, listener={run[0]['cfg']['lmode']}] ({v['s']} {v['i']}); {len(lst)} violating step(s) in this class; "
                f"event: {json.dumps({k: bad.get(k) for k in ('e', 'c', 'k', 's', 'a', 'res', 'kind', 'm', 'bytes', 'api', 'ph')})}; "
                f"history: {_summ(run, at)[-600:]}")
        obj = _replay_obj(run, key)
        obj["failing_record"] = at
        obj["observed"] = [{k: r.get(k) for k in ("e", "c", "k", "s", "a", "res", "kind", "m", "bytes", "api", "ph")} for r in run[1:at + 1]][-60:]
        verdict.violation(key, desc, obj)
        mine.append(key)
    return {k: len(v) for k, v in by_key.items()}, mine


def stage(pid, tier, seed, verdict):
    t0 = time.time()
    if pid not in ("C09", "C18"):
        raise vlib.ToolError("x_duplex.stage: pid must be C09 or C18")
    cfg = _tier(tier, pid)
    nomodel = bool(os.environ.get("VERIF_DUPLEX_DEV_NOMODEL"))      # development only (mutant trials): skip the pure model runs
    if nomodel:
        cfg.update(models=[], bugs=[])
    d = _d(pid)
    vlib.build_harness("duplex")
    t_build = time.time() - t0
    ex = concurrent.futures.ThreadPoolExecutor(max_workers=cfg["pool"])
    f_gen = [ex.submit(_gen, pid, c, n, depth, seed) for c, n, depth in cfg["gen"]]
    f_models = [(c, ex.submit(_model, pid, c, w, cov, cfg["mc_timeout"])) for c, w, cov in cfg["models"]]
    f_live = ex.submit(_model, pid, cfg["live"][0], cfg["live"][1], False, cfg["mc_timeout"])
    f_bugs = {b: ex.submit(_bug, pid, b) for b in cfg["bugs"]}
    try:
        # 2. behaviours from the model -> the real types
        behs = []
        gen_counts = {}
        for (c, _, _), f, cap in zip(cfg["gen"], f_gen, cfg["maxbeh"]):
            got = sorted(f.result(), key=lambda o: json.dumps(o, sort_keys=True))      # (print order is not deterministic)
            seen, uniq = set(), []
            for b in got:
                s = json.dumps([b["cfg"], [st["ev"] for st in b["steps"]]], sort_keys=True)
                if s not in seen and b["steps"]:
                    seen.add(s)
                    uniq.append(b)
            # a deterministic sample, longest first
            uniq.sort(key=lambda b: -len(b["steps"]))
            uniq = uniq[:cap]
            for b in uniq:
                b["src"] = "model" if "fill" not in c else "model-fill"
            gen_counts[c] = {"generated": len(got), "distinct_used": len(uniq)}
            behs += uniq
        if len(behs) < 10:
            raise vlib.ToolError(f"TLC generated only {len(behs)} behaviours")
        beh_in = os.path.join(d, "behaviours.ndjson")
        vlib.write_ndjson(beh_in, behs)
        tr_replay = os.path.join(d, "trace_replay.ndjson")
        s_replay = _harness(pid, ["replay", "--in", beh_in, "--out", tr_replay])
        # 3. random walks
        tr_walk = os.path.join(d, "trace_walk.ndjson")
        w = cfg["walk"]
        s_walk = _harness(pid, ["walk", "--seed", seed, "--runs", w["runs"], "--steps", w["steps"], "--flood", w["flood"], "--out", tr_walk])
        # 4. the monitor decides (6. self-test: a corrupted copy of a real run rides along as the last run of both traces)
        recs_replay = vlib.read_ndjson(tr_replay)
        recs_walk = vlib.read_ndjson(tr_walk)
        recs = recs_replay + recs_walk
        st_run, st_want, st_what = _self_test_run(pid, recs_walk)
        tr_all = os.path.join(d, "trace_all.ndjson")
        vlib.write_ndjson(tr_all, recs + st_run)
        f_mon = ex.submit(_monitor, pid, tr_all, len(recs) + len(st_run), "all")
        # 5. trace validation (walks: first tv_runs runs)
        walk_runs = _runs_of(recs_walk)
        tv_recs = [x for _, r in walk_runs[:cfg["tv_runs"]] for x in r]
        f_tv = ex.submit(_trace_validate, pid, tv_recs, st_run, "walk")
        viol_all, mon = f_mon.result()
        st_viol = sorted({v["key"] for v in viol_all if v["src"] == "self-test"})
        viol = [v for v in viol_all if v["src"] != "self-test"]
        if not any(k.startswith(st_want) for k in st_viol):
            raise vlib.ToolError(f"self-test: the monitor does not flag a corrupted trace (expected {st_want}, got {st_viol})")
        counts, mine = _report(pid, viol, recs, verdict)
        tv_runs, tv_n, tv_rej, st_at, tv_stopped = f_tv.result()
        if st_at is None:
            raise vlib.ToolError("self-test: the trace validation accepts a corrupted trace")
        selft = {"corruption": st_what,
                 "expected_key": st_want, "monitor_flagged": st_viol, "trace_validation_rejected_at_record": st_at}
        # 1. model results
        models = {}
        tot_s = tot_t = 0
        cov = collections.Counter()
        cov_d = collections.Counter()
        cov_cfgs = []
        for (c, _, with_cov), (_, f) in zip(cfg["models"], f_models):
            r = f.result()
            models[c] = {"states": r.distinct, "transitions": r.generated, "depth": r.depth, "wall_s": round(r.wall, 1)}
            tot_s += r.distinct
            tot_t += r.generated
            if with_cov:
                cov_cfgs.append(c)
                for a, (dd, tt) in r.coverage().items():
                    cov[a] += tt
                    cov_d[a] += dd
        live = f_live.result()
        models[cfg["live"][0]] = {"states": live.distinct, "transitions": live.generated, "depth": live.depth, "wall_s": round(live.wall, 1),
                                  "temporal": ["P5"]}
        bugs = {b: {"defect": BUGS[b][0], "refuted_by": f.result().violated, "states": f.result().distinct} for b, f in f_bugs.items()}
    finally:
        ex.shutdown(wait=True, cancel_futures=True)
    # what the real types were put through: distinct runs, and those with a per-client fault followed by an accepted connect
    all_runs = _runs_of(recs)
    distinct_runs = {json.dumps([r[0]["cfg"]["lbuf"]] + [[x["e"], x["c"], x["k"], x["s"], x["a"], x["res"], x["m"]] for x in r[1:]]) for _, r in all_runs}
    fault_then_accept = 0
    for _, r in all_runs:
        fault = False
        for x in r[1:]:
            if x["ph"] != "run":
                break
            if x["e"] in ("Cancel", "DropEnd"):
                fault = True
            elif fault and x["e"] == "Accept" and x["res"] == "ok":
                fault_then_accept += 1
                break
    samples = []
    for want in ("model", "model-fill", "walk", "walk-flood"):
        for _, r in all_runs:
            if r[0].get("src") == want and len(r) > 12:
                samples.append({"src": want, "cfg": r[0]["cfg"], "history": _summ(r)[:700]})
                break
    actions = {a: {"distinct": cov_d[a], "taken": cov[a]} for a in ACTIONS if a in cov}
    never = [a for a in ACTIONS if actions.get(a, {}).get("taken", 0) == 0]
    if never and not nomodel:
        raise vlib.ToolError(f"model actions never taken in {cov_cfgs}: {never}")
    if s_replay["drift"]:
        vlib.log(f"DRIFT property={pid} (duplex replay): {s_replay['drift']} mismatch(es) in {s_replay['behaviours_with_drift']} of "
                 f"{s_replay['behaviours']} behaviours, e.g. {s_replay['drift_samples'][:3]}")
    if tv_rej:
        vlib.log(f"DRIFT property={pid} (duplex trace validation): {len(tv_rej)} recorded run(s) are not behaviours of Duplex.tla, e.g. {tv_rej[:2]}")
    if s_replay["panics"] or s_walk["panics"]:
        vlib.log(f"[{pid}] duplex: {s_replay['panics'] + s_walk['panics']} panic(s) of the code under test were recorded")
    res = {
        "spec": "spec/Duplex.tla", "properties_model_checked": MODEL_PROPS,
        "states": tot_s, "transitions": tot_t, "model_configs": models,
        "tlc_coverage": {"configs": cov_cfgs, "actions": actions, "actions_never_taken": never,
                         "note": "per-action counts (-coverage 1) summed over the connect-level and the data-level configuration"},
        "refuted_variants": bugs,
        "generation": gen_counts,
        "behaviours_replayed": s_replay["behaviours"], "replay_records": s_replay["records"], "replay_steps_compared": s_replay["compared"],
        "replay_actions": s_replay["actions"],
        "drift": {"replay_mismatches": s_replay["drift"], "behaviours_with_drift": s_replay["behaviours_with_drift"],
                  "samples": s_replay["drift_samples"][:6], "trace_validation_rejected_runs": tv_rej[:6],
                  "trace_validation_rejected": len(tv_rej)},
        "walk_runs": s_walk["runs"], "walk_flood_runs": s_walk["flood_runs"], "walk_records": s_walk["records"], "walk_actions": s_walk["actions"],
        "runs_on_real_types": len(all_runs), "distinct_runs": len(distinct_runs), "runs_with_fault_then_accepted_connect": fault_then_accept,
        "samples": samples,
        "monitor": {"spec": "spec/DuplexObs.tla", "records_judged": len(recs), "runs": len(all_runs),
                    "falsified_clauses": counts, "reported_for_this_property": mine, "wall_s": round(mon.wall, 1)},
        "trace_validation": {"spec": "spec/DuplexTrace.tla", "runs": tv_runs, "records": tv_n, "rejected": len(tv_rej),
                             "stopped_after_repeated_rejections": tv_stopped},
        "self_test": selft,
        "panics": s_replay["panics"] + s_walk["panics"],
        "assumptions": ASSUMPTIONS,
        "wall_s": round(time.time() - t0, 1), "harness_build_s": round(t_build, 1),
    }
    with open(os.path.join(d, "stage.json"), "w") as f:
        json.dump(res, f, indent=1)
    vlib.log(f"[{pid}] duplex stage: model {tot_s} states / {tot_t} transitions; {s_replay['behaviours']} behaviours replayed "
             f"({s_replay['compared']} steps compared, drift {s_replay['drift']}); walks {s_walk['runs']} runs / {s_walk['records']} records; "
             f"monitor {len(recs)} records, falsified {counts or 'nothing'}; trace validation {tv_runs} runs, {len(tv_rej)} rejected; "
             f"{len(bugs)} variants refuted; {time.time() - t0:.0f}s")
    return res


def replay(pid, obj):
    """Re-executes a replay object of kind "duplex-trace" on the current tree; exit code as a check (0 / 1)."""
    rp = obj.get("replay", obj)
    if rp.get("kind") != "duplex-trace":
        raise vlib.ToolError("x_duplex.replay: not a duplex-trace replay object")
    d = _d(pid)
    inp = os.path.join(d, "replay_in.ndjson")
    vlib.write_ndjson(inp, [{"cfg": rp["cfg"], "via": rp["via"], "lmode": rp["lmode"], "src": "replay", "steps": rp["steps"]}])
    tr = os.path.join(d, "replay_trace.ndjson")
    _harness(pid, ["replay", "--in", inp, "--out", tr], timeout=600)
    recs = vlib.read_ndjson(tr)
    viol, _ = _monitor(pid, tr, len(recs), "replay")
    verdict = vlib.Verdict(pid)
    counts, mine = _report(pid, viol, recs, verdict)
    code, _ = verdict.finish()
    if code == 0:
        print(f"replay: the duplex clauses of {pid} hold on this schedule on the current tree ({len(recs)} records; other keys: {counts})", flush=True)
    return code


if __name__ == "__main__":
    # development entry point: python3 checks/x_duplex.py C09|C18 quick|thorough [seed]
    import sys
    sys.path.insert(0, os.path.join(vlib.ROOT, "lib"))
    pid, tier = sys.argv[1], sys.argv[2]
    seed = int(sys.argv[3]) if len(sys.argv) > 3 else vlib.seed_from_env()
    vd = vlib.Verdict(pid + "-duplexdev") if False else vlib.Verdict(pid)
    out = stage(pid, tier, seed, vd)
    code, _ = vd.finish()
    print(json.dumps({k: out[k] for k in ("states", "transitions", "behaviours_replayed", "replay_steps_compared", "walk_records", "wall_s")}))
    print(json.dumps(out["monitor"]))
    print(json.dumps(out["drift"])[:1500])
    sys.exit(code)
