"""Check for C19 - a request with a timeout resolves by its deadline and cleans up
(spec/Timeout.tla + MC_Timeout.tla, spec/TimeoutObs.tla, harness/src/bin/timeout.rs).

Per run:
  1. TLC model-checks Timeout.tla (TimeoutFuture::poll composed with the complete pool model Pool.tla, virtual
     clock) for the intended design, with -coverage; the probe liveness (ProbeCompletes) on a small instance;
     in the thorough tier also C19Live, the larger instance and the as-built variants (vacuity guard).
  2. TLC generates behaviours of the model (simulation, history printed as JSON), schedules with Advance steps.
  3. The harness replays them on the REAL hyperdriver::service::Timeout<ConnectionPoolService<..>> under paused
     tokio time (step-wise comparison of poll results and observable state = conformance; a difference is DRIFT,
     never an alarm) and records the real trace; every run ends with drain + probe.
  4. The harness drives seeded random walks over the really enabled actions (incl. Advance) and records them; and
     it runs clients built by client/builder.rs (with_timeout, default, ...) against a silent / answering duplex peer.
  5. TLC evaluates the C19 clauses of TimeoutObs.tla on every recorded real step.  Only a clause falsified there
     is a VIOLATION.
"""
import json
import os
import time

import vlib

PREFIX = "C19:"
WORKERS = 6
CHUNK = 60000
TICK_MS = 100000

MC = {"quick": "Timeout_quick.cfg", "thorough": "Timeout_thorough.cfg"}
GEN = {"quick": [("Timeout_gen.cfg", 500, 24), ("Timeout_gen_deep.cfg", 250, 30)],
       "thorough": [("Timeout_gen.cfg", 4000, 24), ("Timeout_gen_deep.cfg", 2000, 30)]}
WALK = {"quick": ["--runs", 500, "--steps", 40, "--maxreq", 4],
        "thorough": ["--runs", 6000, "--steps", 45, "--maxreq", 5]}
ASBUILT = [("TimerFirst", "Timeout_asbuilt_TimerFirst.cfg"), ("LazyTimer", "Timeout_asbuilt_LazyTimer.cfg"),
           ("KeepInner", "Timeout_asbuilt_KeepInner.cfg"), ("ZeroNoTimeout", "Timeout_asbuilt_ZeroNoTimeout.cfg"),
           ("NoArm", "Timeout_asbuilt_NoArm.cfg"), ("Pool:D2", "Timeout_asbuilt_D2.cfg")]

STAGES = ["own-dial-connecting", "own-dial-handshaking", "pure-waiter", "sending", "awaiting"]


def cfg_constants(cfg):
    out = {}
    for line in open(os.path.join(vlib.SPEC, cfg)):
        line = line.strip()
        for sep in (" <- ", " = "):
            if sep in line and not line.startswith(("INIT", "NEXT", "VIEW", "INVARIANT", "PROPERT", "SPEC", "CHECK")):
                k, v = line.split(sep, 1)
                out[k.strip()] = v.strip()
                break
    return out


def cfg_props(cfg):
    inv, prop = [], []
    for line in open(os.path.join(vlib.SPEC, cfg)):
        w = line.split()
        if w and w[0].startswith("INVARIANT"):
            inv += w[1:]
        if w and w[0].startswith("PROPERT"):
            prop += w[1:]
    return inv, prop


def action_coverage(out):
    """Per-action counts of a -coverage run: {action: (distinct, taken)}.  The disjunct `\\E hd \\in wr : TWhenReady(hd)`
    cannot be split by TLC (non-constant set) and is reported as a located part of TNext."""
    import re
    cov = {}
    for m in re.finditer(r"<(\w+) line \d+, col \d+ to line \d+, col \d+ of module Timeout(?: \([\d ]+\))?>: (\d+):(\d+)", out):
        name = "TWhenReady" if m.group(1) == "TNext" else m.group(1)
        cov[name] = (int(m.group(2)), int(m.group(3)))
    return cov


def monitor(pid, trace_path):
    """Runs TimeoutObs.tla over a recorded trace; returns the list of falsified clauses."""
    r = vlib.tlc_trace("TimeoutObs.tla", "TimeoutObs.cfg", pid, trace_path, timeout=3000)
    if not r.finished:
        vlib.log(r.out[-3000:])
        raise vlib.ToolError("TimeoutObs did not consume the whole trace")
    v = r.printed("VIOL")
    if len(v) != 1:
        raise vlib.ToolError("TimeoutObs printed no report")
    return v[0], r


def chunks(path, size):
    """The trace file in pieces of about `size` records, cut at Reset records."""
    cur = []
    with open(path) as f:
        for line in f:
            if not line.strip():
                continue
            rec = json.loads(line)
            if rec["e"] == "Reset" and len(cur) >= size:
                yield cur
                cur = []
            cur.append(rec)
    if cur:
        yield cur


def behaviour_of(trace, base):
    """The records of the run that starts at Reset index `base` (1-based)."""
    recs = [trace[base - 1]]
    for r in trace[base:]:
        if r["e"] == "Reset":
            break
        recs.append(r)
    return recs


def stage_of(obs, r):
    """Where request r is in the observation `obs` (same classes as the harness / the model)."""
    if r < 1 or r > len(obs["req"]):
        return "none"
    q = obs["req"][r - 1]
    if q["out"] != "none":
        return "resolved"
    if q["held"]:
        return "awaiting"
    own = [c for c in obs["conn"] if c["by"] == r and c["dial"] in ("connecting", "handshaking")]
    if own:
        return "own-dial-" + own[-1]["dial"]
    if any(c["by"] == r for c in obs["conn"]):
        return "other"
    return "waiting" if q["polled"] else "unpolled"


def violation_key(v, recs):
    """Stable key of the failing history class: clause @ stage of the request : protocol : cap : duration."""
    reset = recs[0]
    i = v["l"] - v["base"]          # index into recs of the record at which the clause failed
    rec = recs[i] if 0 <= i < len(recs) else {}
    pre = recs[i - 1]["obs"] if i >= 1 else reset["obs"]
    if rec.get("e") == "Chain":
        return f"{v['tag'][len(PREFIX):]}@chain:{rec['pool']}"
    if rec.get("e") == "Wiring":
        return f"{v['tag'][len(PREFIX):]}@wiring:{rec['pool']}:{rec['stage']}"
    r = v.get("r", 0)
    stage = rec.get("stage") or stage_of(pre, r)
    proto = "-"
    if r and r <= len(rec.get("obs", {}).get("req", [])):
        proto = "h2" if rec["obs"]["req"][r - 1]["h2"] else "h1"
    return f"{v['tag'][len(PREFIX):]}@{stage}:{proto}:{'cap' if reset['cfg']['cap'] else 'nocap'}:dur{reset['cfg']['dur']}"


def strip(rec):
    return {k: v for k, v in rec.items() if k != "obs"}


def class_table(*summaries):
    """Expiry classes (stage x protocol x cap x duration) seen on the REAL code."""
    seen = {}
    for s in summaries:
        for k, n in s.get("expiry_classes", {}).items():
            seen[k] = seen.get(k, 0) + n
    by_stage = {st: sum(n for k, n in seen.items() if k.startswith(st + ":")) for st in STAGES}
    cells = [f"{st}:{p}:{c}:dur{d}" for st in STAGES for p in ("h1", "h2") for c in ("cap", "nocap") for d in (0, 1, 3)]
    # with a zero duration a request resolves at its first poll: it cannot be awaiting a response it was handed
    # off for in an earlier poll, and its own dial cannot have got past connecting; without continue_after_preemption
    # no connection ever comes into existence then (the dial is dropped with the request), so nothing can be handed off
    impossible = {c for c in cells if c.endswith("dur0") and (c.startswith("awaiting") or c.startswith("own-dial-handshaking")
                                                               or (c.startswith("sending") and ":nocap:" in c))}
    missing = sorted(c for c in cells if c not in seen and c not in impossible)
    return seen, by_stage, missing


def run(pid, tier, seed, t0):
    d = vlib.outdir(pid)
    verdict = vlib.Verdict(pid)
    assumptions = [
        "the timeout layer is the real hyperdriver::service::TimeoutLayer built as client/builder.rs builds it "
        "(TimeoutLayer::new(|| Error::RequestTimeout, d)) around the real ConnectionPoolService; transport, protocol, "
        "connection and the innermost request executor are gated doubles at the public generic boundary; the executor "
        "double owns the Pooled handle until the response is there, like service/client.rs execute_request",
        "virtual time is tokio's paused clock: one model tick = 100 s of it, every harness step settles background tasks "
        "with a 1 ms sleep, so a run drifts by < 1 s and a settle never reaches a deadline; deadlines are checked in ms",
        "'no later than the duration' is decided under an executor that polls a woken task before time goes on: schedules "
        "never advance the clock past the deadline of an unresolved request; what is checked on the real code is that the "
        "timer wakes the task at the deadline and that a poll at/after the deadline never returns Pending",
        "'the inner service resolved first' is decided where it is observable without ambiguity: the request was in the "
        "hands of the inner service and its response was available strictly before the deadline (ties go either way)",
        "redirects: the caller's request is a chain of 1-3 hops answered by an in-memory HTTP/1 peer after virtual delays; the "
        "deadline counts from the original issue; an arrival and the expiry on the same instant may resolve either way",
        "bounds: the model is exhaustive only within the constants of the configuration; beyond that seeded simulation "
        "and random walks; one origin",
    ]
    # ---- 1. model check (intended design); per-action coverage on the small instance (coverage slows TLC 6x)
    mc = vlib.tlc("MC_Timeout.tla", MC[tier], pid, workers=WORKERS, timeout=3400)
    if not (mc.finished and mc.violated is None):
        vlib.log(mc.out[-4000:])
        raise vlib.ToolError(f"model check of the intended design failed: {mc.violated}")
    cv = vlib.tlc("MC_Timeout.tla", "Timeout_cov.cfg", pid, workers=WORKERS, timeout=3400, coverage=True)
    if not (cv.finished and cv.violated is None):
        vlib.log(cv.out[-4000:])
        raise vlib.ToolError(f"model check (coverage instance) of the intended design failed: {cv.violated}")
    extra = []
    if tier == "thorough":
        # 3 requests / 3 dials / all faults do not finish exhaustively (> 25 min): random simulation with the same
        # invariants and action properties
        import re
        m3 = vlib.tlc("MC_Timeout.tla", "Timeout_sim3.cfg", pid, workers=WORKERS, timeout=3400, simulate=150000, depth=100, seed=seed)
        if m3.violated is not None:
            vlib.log(m3.out[-4000:])
            raise vlib.ToolError(f"simulation (3 requests) of the intended design violates {m3.violated}")
        pm = re.findall(r"Progress: (\d+) states checked, (\d+) traces generated", m3.out)
        extra.append({"cfg": "Timeout_sim3.cfg", "mode": "simulation", "constants": cfg_constants("Timeout_sim3.cfg"),
                      "states_checked": int(pm[-1][0]) if pm else 0, "traces": int(pm[-1][1]) if pm else 0})
    live = {}
    for name, cfg in ([("ProbeCompletes", "Timeout_probe.cfg")] if tier == "quick" else
                      [("ProbeCompletes", "Timeout_probe_thorough.cfg"), ("C19Live", "Timeout_live.cfg")]):
        lr = vlib.tlc("MC_Timeout.tla", cfg, pid, workers=WORKERS, timeout=3400)
        if not (lr.finished and lr.violated is None):
            vlib.log(lr.out[-4000:])
            raise vlib.ToolError(f"liveness {name} failed on the intended design: {lr.violated}")
        live[name] = {"cfg": cfg, "states": lr.distinct, "transitions": lr.generated}
    asbuilt = {}
    if tier == "thorough":
        # each deviation must be caught by the model properties (the properties are not vacuous)
        for name, cfg in ASBUILT:
            ar = vlib.tlc("MC_Timeout.tla", cfg, pid, workers=WORKERS, timeout=3400)
            asbuilt[name] = ar.violated or ("<temporal>" if ar.rc == 13 else None)   # rc 13: liveness violation
            if asbuilt[name] is None:
                raise vlib.ToolError(f"as-built variant {name} is not caught by the model properties")

    # ---- 1b. the redirect dimension (TimeoutChain.tla): exhaustive over the vectors, prints (vector, outcome) pairs
    ch = vlib.tlc("TimeoutChain.tla", "TimeoutChain_quick.cfg", pid, workers=1, timeout=600, coverage=True)
    if not (ch.finished and ch.violated is None):
        vlib.log(ch.out[-3000:])
        raise vlib.ToolError(f"model check of the redirect chain failed: {ch.violated}")
    allowed = {}
    for p in ch.printed("VECTOR"):
        allowed.setdefault(json.dumps(p["v"], sort_keys=True), set()).add((p["res"], p["at"]))
    vecs = [json.loads(k) for k in allowed]
    chains = os.path.join(d, "chains.ndjson")
    vlib.write_ndjson(chains, vecs)
    chain_asbuilt = None
    if tier == "thorough":
        ca = vlib.tlc("TimeoutChain.tla", "TimeoutChain_asbuilt.cfg", pid, workers=1, timeout=600)
        chain_asbuilt = ca.violated
        if chain_asbuilt is None:
            raise vlib.ToolError("as-built variant TimeoutInsideRedirect is not refuted by the chain properties")

    # ---- 2. generate behaviours
    behs = []
    gen_info = []
    for i, (cfg, num, depth) in enumerate(GEN[tier]):
        g = vlib.tlc("MC_TimeoutGen.tla", cfg, pid, workers=1, timeout=3400, simulate=num, depth=4 * depth, seed=seed + i)
        b = g.printed("REPLAY")
        gen_info.append({"cfg": cfg, "simulated": num, "behaviours": len(b)})
        behs += b
    if not behs:
        raise vlib.ToolError("no behaviours generated")
    sched = os.path.join(d, "sched.ndjson")
    vlib.write_ndjson(sched, behs)

    # ---- 3. replay on the real code, 4. random walks on the real code
    rtrace = os.path.join(d, "replay-trace.ndjson")
    rep = json.loads(vlib.run_harness("timeout", ["replay", "--in", sched, "--out", rtrace]))
    wtrace = os.path.join(d, "walk-trace.ndjson")
    wk = json.loads(vlib.run_harness("timeout", ["walk", "--seed", seed, "--out", wtrace] + WALK[tier]))
    # the wiring of the layer in client/builder.rs (clients built by the Builder over a duplex transport); its
    # records are appended to the walk trace (one monitor run)
    wiring = os.path.join(d, "wiring-trace.ndjson")
    wi = json.loads(vlib.run_harness("timeout", ["wiring", "--out", wiring, "--vectors", chains]))
    # conformance of the redirect chains: the real (result, tick) must be one of the model's outcomes for that vector
    crecs = [x for x in vlib.read_ndjson(wiring) if x["e"] == "Chain"]
    chain_drift = []
    for vec, x in zip(vecs, crecs):
        got = ({"Ok": "ok", "Timeout": "timeout"}.get(x["res"], x["res"]), x["ms"] // TICK_MS)
        if got not in allowed[json.dumps(vec, sort_keys=True)] or x["ms"] % TICK_MS > 5:
            chain_drift.append({"vector": x["pool"], "real": [x["res"], x["ms"]], "model": sorted(allowed[json.dumps(vec, sort_keys=True)])})
    if len(crecs) != len(vecs):
        raise vlib.ToolError("the harness did not run every chain vector")
    if chain_drift:
        vlib.log(f"DRIFT: {len(chain_drift)} of {len(vecs)} redirect chains resolve differently from TimeoutChain.tla: {chain_drift[:3]}")
    with open(wtrace, "a") as f:
        f.write(open(wiring).read())

    # ---- 5. property monitor (TLC) on the real traces (in chunks of whole runs: the JSON of a thorough trace is large)
    all_viol = []
    nrec = 0
    samples = []
    per_key = {}
    for path, kind in ((rtrace, "replayed model behaviour"), (wtrace, "random walk")):
        first = True
        for trace in chunks(path, CHUNK):
            part = os.path.join(d, "monitor-part.ndjson")
            vlib.write_ndjson(part, trace)
            viol, _ = monitor(pid, part)
            nrec += len(trace)
            if first:
                samples.append({"kind": kind + " (real trace, first records)", "records": [strip(x) for x in trace[:14]]})
                first = False
            for v in viol:
                if not v["tag"].startswith(PREFIX):
                    continue
                recs = behaviour_of(trace, v["base"])
                key = violation_key(v, recs)
                per_key[key] = per_key.get(key, 0) + 1
                if per_key[key] > 2 or len(verdict.violations) >= 40:
                    continue
                at = v["l"] - v["base"]
                verdict.violation(key, f"clause {v['tag']} falsified at record {at} of run {v['run']} ({os.path.basename(path)}): "
                                       f"{strip(recs[at]) if at < len(recs) else ''}",
                                  {"kind": "timeout-trace", "clause": v["tag"], "at": at, "request": v.get("r", 0), "records": recs})
            all_viol += [v for v in viol if v["tag"].startswith(PREFIX)]
            os.remove(part)

    connector = __import__("x_connector").stage(pid, tier, seed, verdict)   # Connector.tla: after a drop nothing is polled, everything is released
    code, unlisted = verdict.finish()
    cov = action_coverage(cv.out)
    never = sorted(a for a, (dist, taken) in cov.items() if taken == 0)
    seen, by_stage, missing = class_table(rep, wk)
    inv, prop = cfg_props(MC[tier])
    coverage = {
        "connector_model": connector,
        "states": mc.distinct, "transitions": mc.generated, "depth": mc.depth,
        "traces_validated_against_impl": rep["behaviours"] + wk["runs"],
        "samples": samples,
        "evaluations": nrec, "distinct_nontrivial": rep["behaviours"] + wk["runs"],
        "rule": "one evaluation = one recorded real step (one TimeoutFuture::poll, one clock advance, one gate, ...) with all C19 "
                "clauses evaluated by TLC (TimeoutObs.tla); distinct_nontrivial = number of distinct runs (model behaviours "
                "replayed on the real code + seeded random walks), each with 2-5 requests through the real timeout layer, "
                "followed by drain (every outstanding request driven to its deadline or completion) and a probe",
        "exhaustive": False,
        "model": {"module": "MC_Timeout.tla (Timeout.tla EXTENDS Pool.tla)", "cfg": MC[tier], "constants": cfg_constants(MC[tier]),
                  "invariants": inv, "action_properties": prop, "further_instances": extra,
                  "coverage_instance": {"cfg": "Timeout_cov.cfg", "constants": cfg_constants("Timeout_cov.cfg"), "states": cv.distinct,
                                        "transitions": cv.generated},
                  "liveness": live, "asbuilt_variants_caught_by": asbuilt},
        "tlc_coverage": {a: {"distinct": v[0], "taken": v[1]} for a, v in sorted(cov.items())},
        "actions_never_taken": never,
        "generation": gen_info,
        "replay": {k: rep[k] for k in ("behaviours", "conformant", "drifted", "steps", "panics", "drift_kinds", "drift_samples", "outcomes")},
        "drift": rep["drifted"] + len(chain_drift),
        "walk": {k: wk[k] for k in ("runs", "steps", "panics", "actions", "outcomes")},
        "builder_wiring_cases": wi["cases"],
        "redirect_chains": {"model": "TimeoutChain.tla / TimeoutChain_quick.cfg", "states": ch.distinct, "transitions": ch.generated,
                            "vectors": len(vecs), "vector_outcome_pairs": sum(len(a) for a in allowed.values()),
                            "tlc_coverage": {a: {"distinct": v[0], "taken": v[1]} for a, v in sorted(ch.coverage().items())},
                            "real_outcomes": {k: sum(1 for x in crecs if x["res"] == k) for k in sorted({x["res"] for x in crecs})},
                            "drift": len(chain_drift), "drift_samples": chain_drift[:5],
                            "asbuilt_TimeoutInsideRedirect_refuted_by": chain_asbuilt},
        "expiry_classes_on_real_code": {"by_stage": by_stage, "cells_seen": len(seen), "cells_missing": missing},
        "monitor_records": nrec,
        "clauses_falsified": sorted({v["tag"] for v in all_viol}),
        "repo_tree": vlib.repo_tree_id(),
    }
    if rep["drifted"]:
        vlib.log(f"DRIFT: {rep['drifted']} of {rep['behaviours']} replayed behaviours differ from Timeout.tla: {rep['drift_kinds']}")
    if any(by_stage[s] == 0 for s in STAGES):
        vlib.log(f"NOTE: expiry stages not reached on the real code in this run: {[s for s in STAGES if by_stage[s] == 0]}")
    vlib.write_evidence(pid, tier, seed, "model_checking", coverage, assumptions, time.time() - t0, unlisted)
    return code


def replay(pid, path):
    """Re-executes the recorded action sequence of a violation on the current tree and re-runs the monitor."""
    obj = json.load(open(path))
    _rk = obj.get("replay", {}).get("kind") if isinstance(obj.get("replay"), dict) else None
    if _rk == "connector-trace":
        return __import__("x_connector").replay(pid, obj)
    if _rk == "body-ops":
        return __import__("x_body").replay(pid, obj)
    if _rk == "tcpcall-row":
        _c = __import__("x_tcpcall").replay(pid, obj)
        if _c:
            print("VIOLATION property=%s replay=%s" % (pid, path), flush=True)
        return _c
    recs = obj["replay"]["records"]
    d = vlib.outdir(pid)
    at = obj["replay"].get("at", 0)
    bad = recs[at] if 0 <= at < len(recs) else {}
    if bad.get("e") in ("Chain", "Wiring"):
        # a builder-wiring scenario / one redirect chain: run it again (the chain vector is named in the record)
        args = ["wiring", "--out", os.path.join(d, "replay-again.ndjson")]
        if bad["e"] == "Chain":
            dur, delays = bad["pool"][3:].split(":")
            vec = {"n": bad["c"], "delay": [99 if x == "never" else int(x) for x in delays.split(",")], "dur": int(dur)}
            vlib.write_ndjson(os.path.join(d, "replay-chain.ndjson"), [vec])
            args += ["--vectors", os.path.join(d, "replay-chain.ndjson")]
        vlib.run_harness("timeout", args)
        viol, _ = monitor(pid, os.path.join(d, "replay-again.ndjson"))
        mine = [v for v in viol if v["tag"] == obj["replay"]["clause"]]
        if mine:
            print(f"VIOLATION property={pid} replay={path}")
            vlib.log("reproduced: " + ", ".join(sorted({v['tag'] for v in mine})))
            return 1
        print(f"not reproduced on the current tree: {obj['key']}")
        return 0
    # the recorded actions up to the drain are re-executed (leniently: on different code an action may not be
    # enabled any more); then the harness drains and probes the way the recorded run was drained
    steps = []
    drain = None
    for r in recs[1:]:
        if r["e"] == "Drain":
            drain = r
            break
        ev = {k: r[k] for k in ("e", "r", "h2", "c", "d", "ok", "dt")}
        steps.append({"ev": ev, "obs": {}})
    sched = os.path.join(d, "replay-sched.ndjson")
    c = recs[0]["cfg"]
    cfg = {"cap": c["cap"], "maxIdle": c["maxIdle"], "idleTimeout": 0, "dur": c["dur"]}
    if drain is not None:
        cfg.update(expire_first=drain["ok"], probe_h2=drain["h2"])
    vlib.write_ndjson(sched, [{"cfg": cfg, "steps": steps}])
    rtrace = os.path.join(d, "replay-again.ndjson")
    vlib.run_harness("timeout", ["replay", "--lenient", "--in", sched, "--out", rtrace])
    viol, _ = monitor(pid, rtrace)
    mine = [v for v in viol if v["tag"].startswith(PREFIX)]
    if mine:
        print(f"VIOLATION property={pid} replay={path}")
        vlib.log("reproduced: " + ", ".join(sorted({v['tag'] for v in mine})))
        return 1
    print(f"not reproduced on the current tree: {obj['key']}")
    return 0
