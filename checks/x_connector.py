"""The connector state machine and the pool-less client path (spec/Connector.tla): a stage of C03, C17, C13, C19.

`stage(pid, tier, seed, verdict)` is called by the host check (checks/c_pool.py for C03, checks/c_pipeline.py for C17,
checks/c_wire.py for C13, checks/c_timeout.py for C19) and returns a dict of measured numbers that the host embeds in
its evidence under "connector_model".

Pipeline of one call:
  1. TLC model-checks Connector.tla (the configurations of the tier, -coverage 1 on the small ones; the liveness half of
     K1 in its own configuration under fairness) and seeded-defect variants of the model, each of which MUST be refuted
     (vacuity guard).  A failing model check of the intended design is a tool error, not a verdict on the crate.
  2. TLC generates behaviours (simulation of MC_ConnectorGen); harness bin `connector` replays them step by step on the
     REAL ConnectorService / ConnectorLayer / Connector::into_future() over gated doubles and compares the caller-visible
     result and the observable state after every step: a mismatch is DRIFT (reported, never a verdict).
  3. The harness adds seeded random walks over the really enabled actions (up to 8 calls in flight, spurious polls,
     changing wakers, cancellations, all five request versions).
  4. spec/ConnectorObs.tla (TLC) evaluates the clauses K1..K5 on every recorded step of every trace: its findings decide.
     Only keys that belong to the text of the calling property are reported as violations (OWN below); every other
     falsified key is DRIFT.
  5. Self-test: a corrupted copy of a real recorded run rides along and must be flagged with the expected key;
     otherwise the machinery is broken: tool error.
`replay(pid, obj)` re-executes a replay object of kind "connector-trace" on the current tree through the same monitor.
"""
import collections
import concurrent.futures
import json
import os
import time

import vlib

# which monitor keys (prefixes) belong to the text of which property -- conservative; the rest is DRIFT
OWN = {
    # "every state change that lets a request proceed wakes it", "eventually obtains a connection or an error",
    # "cancelling any request ... never prevents later requests ... from completing"
    "C03": ("connector/K1-stranded/", "connector/K3-lost-wakeup/", "connector/K5-probe-failed/"),
    # "returns a response or an error ... never panics ... through ... the plain connector service"
    "C17": ("connector/K1-panic/",),
    # "a connection speaks HTTP/2 exactly when the request asked for HTTP/2 ...": the protocol the handshake is asked for is
    # derived from the request version.  (That the connector hands the request on untouched, K2-request-altered, is how the
    # code is built, not what C13 says -- a connector that rewrote the target itself could still put the right request on
    # the wire -- so it is DRIFT.)
    "C13": ("connector/K2-handshake-version/",),
    # "at expiry the inner work is dropped, so a timed-out request neither completes later nor leaves [the client] unable
    # to serve subsequent requests"
    # to serve subsequent requests" (the last part is about the pool: the connector has no state shared between calls, K5)
    "C19": ("connector/K4-resource-leak/", "connector/K4-polled-after-drop/", "connector/K4-waker-kept/"),
}
BUGS = {
    "prdy_connecting": ("an error of Protocol::poll_ready is reported with the class of a transport error", "K1_Result"),
    "connect_twice": ("the state is not advanced after Transport::connect: the next poll connects again", "K2_Once"),
    "hs_early": ("the handshake is started without waiting for Protocol::poll_ready", "K2_Order"),
    "ver_fixed": ("the handshake is always asked for HTTP/1, whatever the request version", "K2_Args"),
    "no_rereg": ("a poll with a new waker at an unchanged stage does not register the new waker", "K3_NoLostWake"),
    "no_rereg_live": ("the same, refuted as a liveness failure under fairness", "K1_Live"),
    "leak_hs": ("dropping the call during the handshake leaves the handshake future (and the stream) alive", "K4_Dropped"),
}
QUICK_BUGS = {
    "C03": ["no_rereg", "no_rereg_live", "connect_twice"],
    "C17": ["prdy_connecting", "connect_twice", "hs_early"],
    "C13": ["ver_fixed", "hs_early", "connect_twice"],
    "C19": ["leak_hs", "no_rereg", "connect_twice"],
}
ACTIONS = ["Start", "Env", "Poll", "Cancel", "EnvSvc", "SvcReady"]
MODEL_PROPS = ["TypeOK", "K1_Result", "K1_Live (temporal, Connector_live.cfg, fairness of executor and environment)", "K2_Once", "K2_Order",
               "K2_Args", "K3_NoLostWake", "K4_Dropped", "K4_Quiet", "K5_Indep"]
ASSUMPTIONS = [
    "connector: transport, protocol, connection and inner service are gated doubles (a thing answers Pending until the schedule "
    "decides its gate, keeps the waker of the poll, wakes it when the gate is decided); what real transports/protocols do inside "
    "those futures is the subject of other stages.",
    "connector: every future is polled by hand on one thread of a paused current-thread runtime (settle after every step so that "
    "anything spawned would show up as a poll outside a step); two threads inside one poll are out of reach.",
    "connector: a resolved future is dropped by the caller at once (as `.await` does); what a second poll after completion does is "
    "reported as information only (the Future contract allows a panic there).",
    "connector: the fairness assumption of the liveness half of K1 is the property's own premise (every gate is eventually decided, "
    "a new or woken call is eventually polled).",
]


def _tier(tier, pid):
    if tier == "quick":
        return dict(models=[("Connector_quick.cfg", 1, True), ("Connector_svc.cfg", 1, True), ("Connector_quick2.cfg", 2, False)],
                    live=("Connector_live.cfg", 1), bugs=QUICK_BUGS[pid], gen=("Connector_gen.cfg", 60, 32), maxbeh=60,
                    walk=dict(runs=40, steps=50, maxcalls=8), mc_timeout=300, pool=3)
    # (at most ~4 TLC workers at a time: three JVMs, the two large configurations with two workers each)
    return dict(models=[("Connector_thorough.cfg", 2, False), ("Connector_thorough3.cfg", 2, False), ("Connector_quick.cfg", 1, True),
                        ("Connector_svc.cfg", 1, True), ("Connector_quick2.cfg", 1, False)],
                live=("Connector_live.cfg", 1), bugs=list(BUGS), gen=("Connector_gen.cfg", 1500, 32), maxbeh=1200,
                walk=dict(runs=1500, steps=60, maxcalls=8), mc_timeout=1500, pool=3)


def _d(pid):
    d = os.path.join(vlib.outdir(pid), "connector")
    os.makedirs(d, exist_ok=True)
    return d


# ------------------------------------------------------------------------------------------------
def _model(pid, cfg, workers, cov, timeout):
    r = vlib.tlc("MC_Connector", cfg, pid, workers=workers, timeout=timeout, coverage=cov, xmx="4g")
    if r.violated or not r.finished:
        vlib.log(r.out[-3000:])
        raise vlib.ToolError(f"Connector.tla ({cfg}) does not satisfy {r.violated}: the specification needs attention "
                             "(a model counterexample is not a verdict on the crate)")
    return r


def _bug(pid, b):
    r = vlib.tlc("MC_Connector", f"Connector_bug_{b}.cfg", pid, workers=1, timeout=300, xmx="2g")
    want = BUGS[b][1]
    got = r.violated
    if want == "K1_Live":
        got = "K1_Live" if ("Temporal property K1_Live was violated" in r.out or "Temporal properties were violated" in r.out) else got
    if got != want:
        vlib.log(r.out[-2000:])
        raise vlib.ToolError(f"vacuity guard: the model with seeded defect '{b}' is not refuted by {want} (TLC: {got})")
    return r


def _gen(pid, cfg, num, depth, seed):
    # one worker: the simulation is then a function of the seed
    r = vlib.tlc("MC_ConnectorGen", cfg, pid, workers=1, simulate=num, depth=depth, seed=seed, timeout=900, xmx="3g")
    beh = r.printed("REPLAY")
    if r.violated or not beh:
        vlib.log(r.out[-3000:])
        raise vlib.ToolError(f"generation config {cfg} produced no behaviours")
    return beh


def _harness(args, timeout=1500):
    so = vlib.run_harness("connector", args, timeout=timeout)
    return json.loads(so.strip().splitlines()[-1])


# ------------------------------------------------------------------------------------------------
def _runs_of(recs):
    """[(base (1-based index of the Reset record), [records of the run])]"""
    runs = []
    for i, r in enumerate(recs):
        if r["e"] == "Reset":
            runs.append((i + 1, [r]))
        elif runs:
            runs[-1][1].append(r)
    return runs


EVK = {"e": "a", "c": "c", "k": "k", "v": "v", "x": "x", "ok": "ok", "nw": "nw"}


def _replay_obj(run, key):
    reset = run[0]
    steps = [{"ev": {EVK[k]: r[k] for k in EVK}} for r in run[1:] if r["ph"] == "run"]
    return {"kind": "connector-trace", "key": key, "src": reset.get("src"), "cfg": {"ncalls": reset["cfg"]["ncalls"]},
            "via": reset["cfg"]["via"], "clone_per_call": reset["cfg"]["clone_per_call"], "steps": steps}


def _summ(run, upto=None):
    out = []
    for r in run[1:]:
        x = r["e"]
        if r["e"] == "Start":
            x += f"({r['c']},{r['k']},{r['v']})"
        elif r["e"] == "Env":
            x += f"({r['c']},{r['x']},{'ok' if r['ok'] else 'err'})"
        elif r["e"] in ("Poll", "Cancel"):
            x += f"({r['c']}{',new-waker' if r['nw'] else ''})"
        elif r["e"] == "EnvSvc":
            x += f"({'ok' if r['ok'] else 'err'})"
        if r.get("res"):
            x += "=" + r["res"]
        if r["ph"] != "run":
            x = r["ph"] + ":" + x
        out.append(x)
    return " ".join(out[:upto] if upto else out)


def _monitor(pid, trace, nrecs, tag):
    r = vlib.tlc_trace("ConnectorObs", "ConnectorObs.cfg", pid, trace, timeout=2400, xmx="6g")
    if r.violated == "Sane":
        raise vlib.ToolError("monitor: malformed trace record")
    if not r.finished or r.distinct != nrecs + 1:
        vlib.log(r.out[-3000:])
        raise vlib.ToolError(f"monitor ({tag}) looked at {r.distinct - 1} of {nrecs} records")
    v = r.printed("VIOL")
    if len(v) != 1:
        raise vlib.ToolError(f"monitor ({tag}) printed {len(v)} reports")
    return v[0], r


def _corrupt(run, pid):
    """A corrupted copy of a real run that the monitor must flag for this property."""
    run = json.loads(json.dumps(run))
    for i, r in enumerate(run):
        if i == 0:
            continue
        c = r["c"]
        if pid == "C03" and r["e"] == "Poll" and r["res"] == "pending":
            r["obs"]["calls"][c - 1]["reg"] = []
            return run, "connector/K3-lost-wakeup/", "a Pending poll after which nothing holds the call's waker"
        if pid == "C17" and r["e"] == "Poll" and r["res"] not in ("pending", "panic"):
            r["res"] = "panic"
            return run, "connector/K1-panic/", "a resolved poll recorded as a panic"
        if pid == "C13" and r["e"] == "Poll" and r["obs"]["calls"][c - 1]["n"]["hs"] > run[i - 1]["obs"]["calls"][c - 1]["n"]["hs"] \
                and r["obs"]["calls"][c - 1]["ver"] == "h2":
            for x in run[i:]:
                x["obs"]["calls"][c - 1]["hs"]["ver"] = "Http1"
            return run, "connector/K2-handshake-version/", "the handshake of an HTTP/2 request recorded as asked for HTTP/1"
        if pid == "C19" and r["e"] == "Cancel":
            for x in run[i:]:
                x["obs"]["calls"][c - 1]["live"] = ["hf"]
            return run, "connector/K4-resource-leak/", "a handshake future recorded as alive after the drop of its call"
    return None, None, None


def _self_test_run(pid, recs):
    for _, run in _runs_of(recs):
        bad, want, what = _corrupt(run, pid)
        if bad is not None:
            bad[0]["src"] = "self-test"
            return bad, want, what
    raise vlib.ToolError("self-test: no recorded run is suitable for corruption")


def _owned(pid, key):
    return any(key.startswith(p) for p in OWN[pid])


def _report(pid, viol, recs, verdict):
    """Violations of this property's clauses -> verdict; returns ({key: count} for all keys, keys reported, unowned keys)."""
    by_key = collections.OrderedDict()
    for v in viol:
        by_key.setdefault(v["key"], []).append(v)
    runs = {b: r for b, r in _runs_of(recs)}
    mine, other = [], []
    for key, lst in by_key.items():
        if not _owned(pid, key):
            other.append(key)
            continue
        v = min(lst, key=lambda v: (len(runs[v["base"]]), v["base"]))       # the shortest failing run of the class
        run = runs[v["base"]]
        at = v["l"] - v["base"]
        bad = run[at] if at < len(run) else {}
        show = {k: bad.get(k) for k in ("e", "c", "k", "v", "x", "ok", "nw", "res", "thing", "ecall", "evs", "detail", "ph", "forced")}
        desc = (f"connector: clause {key} false at record {at} of run {run[0].get('run')} [{run[0].get('src')}; via={run[0]['cfg']['via']}, "
                f"clone_per_call={run[0]['cfg']['clone_per_call']}] (call {v['c']}); {len(lst)} violating step(s) in this class; "
                f"event: {json.dumps(show)}; call after it: {json.dumps(bad.get('obs', {}).get('calls', [{}] * v['c'])[v['c'] - 1] if v['c'] else {})}; "
                f"history: {_summ(run, at)[-700:]}")
        obj = _replay_obj(run, key)
        obj["failing_record"] = at
        obj["observed"] = [{k: r.get(k) for k in ("e", "c", "k", "v", "x", "ok", "nw", "res", "thing", "ecall", "evs", "ph")} for r in run[1:at + 1]][-60:]
        verdict.violation(key, desc, obj)
        mine.append(key)
    return {k: len(v) for k, v in by_key.items()}, mine, other


def stage(pid, tier, seed, verdict):
    t0 = time.time()
    if pid not in OWN:
        raise vlib.ToolError("x_connector.stage: pid must be one of " + ", ".join(sorted(OWN)))
    cfg = _tier(tier, pid)
    nomodel = bool(os.environ.get("VERIF_CONNECTOR_DEV_NOMODEL"))      # development only (mutant trials): skip the pure model runs
    if nomodel:
        cfg.update(models=[], bugs=[], live=None)
    d = _d(pid)
    vlib.build_harness("connector")
    t_build = time.time() - t0
    ex = concurrent.futures.ThreadPoolExecutor(max_workers=cfg["pool"])
    gcfg, gnum, gdepth = cfg["gen"]
    f_gen = ex.submit(_gen, pid, gcfg, gnum, gdepth, seed)
    f_models = [(c, ex.submit(_model, pid, c, w, cov, cfg["mc_timeout"])) for c, w, cov in cfg["models"]]
    f_live = ex.submit(_model, pid, cfg["live"][0], cfg["live"][1], False, cfg["mc_timeout"]) if cfg["live"] else None
    f_bugs = {b: ex.submit(_bug, pid, b) for b in cfg["bugs"]}
    try:
        # 3. random walks (do not depend on TLC: start at once)
        tr_walk = os.path.join(d, "trace_walk.ndjson")
        w = cfg["walk"]
        s_walk = _harness(["walk", "--seed", seed, "--runs", w["runs"], "--steps", w["steps"], "--maxcalls", w["maxcalls"], "--out", tr_walk])
        # 2. behaviours from the model -> the real code
        got = sorted(f_gen.result(), key=lambda o: json.dumps(o, sort_keys=True))      # (print order is not deterministic)
        seen, uniq = set(), []
        for b in got:
            s = json.dumps([st["ev"] for st in b["steps"]], sort_keys=True)
            if s not in seen and b["steps"]:
                seen.add(s)
                uniq.append(b)
        uniq.sort(key=lambda b: (-len(b["steps"]), json.dumps(b, sort_keys=True)))      # a deterministic sample, longest first
        uniq = uniq[:cfg["maxbeh"]]
        for b in uniq:
            b["src"] = "model"
        if len(uniq) < 10:
            raise vlib.ToolError(f"TLC generated only {len(uniq)} behaviours")
        beh_in = os.path.join(d, "behaviours.ndjson")
        vlib.write_ndjson(beh_in, uniq)
        tr_replay = os.path.join(d, "trace_replay.ndjson")
        s_replay = _harness(["replay", "--in", beh_in, "--out", tr_replay])
        # 4. the monitor decides (5. self-test: a corrupted copy of a real run rides along as the last run)
        recs_replay = vlib.read_ndjson(tr_replay)
        recs_walk = vlib.read_ndjson(tr_walk)
        recs = recs_replay + recs_walk
        st_run, st_want, st_what = _self_test_run(pid, recs_walk)
        tr_all = os.path.join(d, "trace_all.ndjson")
        vlib.write_ndjson(tr_all, recs + st_run)
        viol_all, mon = _monitor(pid, tr_all, len(recs) + len(st_run), "all")
        st_viol = sorted({v["key"] for v in viol_all if v["src"] == "self-test"})
        viol = [v for v in viol_all if v["src"] != "self-test"]
        if not any(k.startswith(st_want) for k in st_viol):
            raise vlib.ToolError(f"self-test: the monitor does not flag a corrupted trace (expected {st_want}, got {st_viol})")
        counts, mine, other = _report(pid, viol, recs, verdict)
        selft = {"corruption": st_what, "expected_key": st_want, "monitor_flagged": st_viol}
        # 1. model results
        models = {}
        tot_s = tot_t = 0
        cov = collections.Counter()
        cov_d = collections.Counter()
        cov_cfgs = []
        for (c, _, with_cov), (_, f) in zip(cfg["models"], f_models):
            r = f.result()
            models[c] = {"states": r.distinct, "transitions": r.generated, "depth": r.depth, "wall_s": round(r.wall, 1)}
            tot_s += r.distinct
            tot_t += r.generated
            if with_cov:
                cov_cfgs.append(c)
                for a, (dd, tt) in r.coverage().items():
                    cov[a] += tt
                    cov_d[a] += dd
        if f_live:
            live = f_live.result()
            models[cfg["live"][0]] = {"states": live.distinct, "transitions": live.generated, "depth": live.depth, "wall_s": round(live.wall, 1),
                                      "temporal": ["K1_Live"]}
        bugs = {b: {"defect": BUGS[b][0], "refuted_by": BUGS[b][1], "states": f.result().distinct} for b, f in f_bugs.items()}
    finally:
        ex.shutdown(wait=True, cancel_futures=True)
    all_runs = _runs_of(recs)
    distinct_runs = {json.dumps([[x["e"], x["c"], x["k"], x["v"], x["x"], x["ok"], x["nw"], x["res"]] for x in r[1:]]) for _, r in all_runs}
    samples = []
    for want in ("model", "walk"):
        for _, r in all_runs:
            if r[0].get("src") == want and len(r) > 14:
                samples.append({"src": want, "cfg": r[0]["cfg"], "history": _summ(r)[:800]})
                break
    actions = {a: {"distinct": cov_d[a], "taken": cov[a]} for a in ACTIONS if a in cov}
    never = [a for a in ACTIONS if actions.get(a, {}).get("taken", 0) == 0]
    if never and not nomodel:
        raise vlib.ToolError(f"model actions never taken in {cov_cfgs}: {never}")
    if s_replay["drift"]:
        vlib.log(f"DRIFT property={pid} (connector replay): {s_replay['drift']} mismatch(es) in {s_replay['behaviours_with_drift']} of "
                 f"{s_replay['behaviours']} behaviours, e.g. {s_replay['drift_samples'][:3]}")
    if other:
        vlib.log(f"DRIFT property={pid} (connector monitor): clauses outside the text of {pid} are false on the real traces: "
                 f"{ {k: counts[k] for k in other} }")
    panics = s_replay["panics"] + s_walk["panics"]
    if panics:
        vlib.log(f"[{pid}] connector: {panics} panic(s) of the code under test were recorded")
    outcomes = collections.Counter(s_replay["outcomes"])
    outcomes.update(s_walk["outcomes"])
    res = {
        "spec": "spec/Connector.tla", "properties_model_checked": MODEL_PROPS,
        "states": tot_s, "transitions": tot_t, "model_configs": models,
        "tlc_coverage": {"configs": cov_cfgs, "actions": actions, "actions_never_taken": never,
                         "note": "per-action counts (-coverage 1) summed over the listed configurations"},
        "refuted_variants": bugs,
        "generation": {"config": gcfg, "generated": len(got), "distinct_used": len(uniq)},
        "behaviours_replayed": s_replay["behaviours"], "replay_records": s_replay["records"], "replay_steps_compared": s_replay["compared"],
        "replay_actions": s_replay["actions"],
        "drift": {"replay_mismatches": s_replay["drift"], "behaviours_with_drift": s_replay["behaviours_with_drift"],
                  "samples": s_replay["drift_samples"][:6], "falsified_clauses_outside_this_property": {k: counts[k] for k in other}},
        "walk_runs": s_walk["runs"], "walk_records": s_walk["records"], "walk_actions": s_walk["actions"],
        "walk_max_concurrent_calls": s_walk["max_concurrent_calls"],
        "runs_on_real_code": len(all_runs), "distinct_runs": len(distinct_runs), "call_outcomes": dict(outcomes),
        "samples": samples,
        "monitor": {"spec": "spec/ConnectorObs.tla", "records_judged": len(recs), "runs": len(all_runs),
                    "falsified_clauses": counts, "reported_for_this_property": mine, "keys_of_this_property": list(OWN[pid]),
                    "wall_s": round(mon.wall, 1)},
        "self_test": selft,
        "repoll_after_completion": s_walk.get("repoll_after_completion"),
        "panics": panics,
        "assumptions": ASSUMPTIONS,
        "wall_s": round(time.time() - t0, 1), "harness_build_s": round(t_build, 1),
    }
    with open(os.path.join(d, "stage.json"), "w") as f:
        json.dump(res, f, indent=1)
    vlib.log(f"[{pid}] connector stage: model {tot_s} states / {tot_t} transitions; {s_replay['behaviours']} behaviours replayed "
             f"({s_replay['compared']} steps compared, drift {s_replay['drift']}); walks {s_walk['runs']} runs / {s_walk['records']} records; "
             f"monitor {len(recs)} records, falsified {counts or 'nothing'}; {len(bugs)} variants refuted; {time.time() - t0:.0f}s")
    return res


def replay(pid, obj):
    """Re-executes a replay object of kind "connector-trace" on the current tree; exit code as a check (0 / 1)."""
    rp = obj.get("replay", obj)
    if rp.get("kind") != "connector-trace":
        raise vlib.ToolError("x_connector.replay: not a connector-trace replay object")
    d = _d(pid)
    inp = os.path.join(d, "replay_in.ndjson")
    vlib.write_ndjson(inp, [{"cfg": rp["cfg"], "via": rp["via"], "clone_per_call": rp["clone_per_call"], "src": "replay", "steps": rp["steps"]}])
    tr = os.path.join(d, "replay_trace.ndjson")
    _harness(["replay", "--in", inp, "--out", tr], timeout=600)
    recs = vlib.read_ndjson(tr)
    viol, _ = _monitor(pid, tr, len(recs), "replay")
    verdict = vlib.Verdict(pid)
    counts, mine, other = _report(pid, viol, recs, verdict)
    code, _ = verdict.finish()
    if code == 0:
        print(f"replay: the connector clauses of {pid} hold on this schedule on the current tree ({len(recs)} records; other keys: {counts})", flush=True)
    return code


if __name__ == "__main__":
    # development entry point: python3 checks/x_connector.py C03|C17|C13|C19 quick|thorough [seed]   (or: replay <pid> <file>)
    import sys
    sys.path.insert(0, os.path.join(vlib.ROOT, "lib"))
    if sys.argv[1] == "replay":
        sys.exit(replay(sys.argv[2], json.load(open(sys.argv[3]))))
    pid, tier = sys.argv[1], sys.argv[2]
    seed = int(sys.argv[3]) if len(sys.argv) > 3 else vlib.seed_from_env()
    vd = vlib.Verdict(pid)
    out = stage(pid, tier, seed, vd)
    code, _ = vd.finish()
    print(json.dumps({k: out[k] for k in ("states", "transitions", "behaviours_replayed", "replay_steps_compared", "walk_records", "wall_s")}))
    print(json.dumps(out["monitor"]))
    print(json.dumps(out["drift"])[:1500])
    sys.exit(code)
