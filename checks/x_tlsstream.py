"""Lazily-handshaking TLS streams, both sides (spec/TlsStream.tla) - a stage for the host checks of
C18, C12, C09, C07 and C20.

    stage(pid, tier, seed, verdict) -> dict      (raises vlib.ToolError on tool failures)
    replay(pid, obj) -> int                      (obj["kind"] == "tlsstream-ops")

Pipeline of one stage run:
  1. TLC model-checks the clauses T1..T5 on the explicit two-sided state machine (every behaviour up to the tier's
     length, -coverage), and on seven design variants each of which MUST violate its clause (the as-built re-poll
     panic and six seeded defects).
  2. TLC generates op sequences (exhaustive short ones, simulated long ones that reach a corner); directed, named
     schedules and the harness' seeded random walks (longer than the model bounds) are added.
  3. harness bin `tlsstream` replays them on the REAL streams (server TlsStream from the real TlsAcceptor, server
     Stream, client TlsStream, client Stream, TlsTransportWrapper) over an instrumented in-memory pipe against a
     scripted real-rustls peer; one entry-point call per step, polled by hand.
  4. TLC (spec/TlsStreamObs.tla) evaluates the clauses on every recorded observation: its INVARIANTs decide.
     Each property gets ONLY the clauses that belong to its text (CLAUSES below); every other falsified clause,
     and every difference from the lock-step model, is DRIFT (stderr + returned dict), never an alarm.
  5. self-test: three corrupted records must be flagged by the monitor.
"""
import collections
import concurrent.futures
import copy
import json
import os
import random
import subprocess
import time

import vlib

PIDS = ("C18", "C12", "C09", "C07", "C20")

# clause -> {side: properties whose text the clause belongs to}.  Conservative: when in doubt a clause is listed
# for no property (DRIFT only).
CLAUSES = {
    # C18: every adapter between application and socket delivers exactly the bytes written, in order; EOF and
    # errors propagated (the TLS-or-plain dispatch wrappers are named; the TLS stream is what sits in their Tls arm)
    "T1_PrefixOut": {"server": {"C18"}, "client": {"C18"}},
    "T1_PrefixIn": {"server": {"C18"}, "client": {"C18"}},
    "T1_WriteRet": {"server": {"C18"}, "client": {"C18"}},
    "T1_EofReal": {"server": {"C18"}, "client": {"C18"}},
    "T1_EofProp": {"server": {"C18"}, "client": {"C18"}},
    "T1_ErrProp": {"server": {"C18"}, "client": {"C18"}},
    "T1_LossReported": {"server": {"C18"}, "client": {"C18"}},
    "T1_FlushDelivers": {"server": {"C18"}, "client": {"C18"}},
    "T1_FlushHonest": {"server": {"C18"}, "client": {"C18"}},
    "T1_AtEnd": {"server": {"C18"}, "client": {"C18"}},
    "T3_PendArmed": {"server": {"C18"}, "client": {"C18"}},
    # a panic that is not the (known, as-built) re-poll after a reported failure
    "NoPanic": {"server": {"C18", "C09"}, "client": {"C18"}},
    # C12: nothing in the clear once TLS is configured; a handshake / verification failure is reported as an error
    # and never falls back (client side only: C12 speaks about the client transport)
    "T2_NoClear": {"server": set(), "client": {"C12"}},
    "T3_NoFalseSuccess": {"server": set(), "client": {"C12"}},
    # C09: a failed or stalled handshake is confined to its connection (server side): it is reported to the
    # connection's own task, the task is not kept spinning
    "T3_FailReported": {"server": {"C09"}, "client": {"C12"}},
    "T3_NoSpin": {"server": {"C09"}, "client": set()},
    # C07: graceful shutdown closes open connections, including ones whose handshake is pending (C07-n2)
    "T3_ShutdownReady": {"server": {"C07"}, "client": set()},
    # C20: the TLS info available to the SNI validation is the server name of THIS handshake, for every receiver
    "T4_SniEqual": {"server": {"C20"}, "client": set()},
    "T4_Available": {"server": {"C20"}, "client": set()},
    "T4_Lost": {"server": {"C20"}, "client": set()},
    # DRIFT only
    "T3_StallPending": {"server": set(), "client": set()},
    "T5_OkMeansDone": {"server": set(), "client": set()},
    "T3_FailedSticky": {"server": set(), "client": set()},
    "T4_AlpnEqual": {"server": set(), "client": set()},
    "T4_Stable": {"server": set(), "client": set()},
    "T4_NotBeforeSuccess": {"server": set(), "client": set()},
    "T4_NeverOnFail": {"server": set(), "client": set()},
    "T5_Idempotent": {"server": set(), "client": set()},
}

BUGS = {
    "asbuilt": ("T3_FailedSticky", "AS BUILT: after a failed handshake the completed accept/connect future is polled again (tokio-rustls panics)"),
    "writethrough": ("T2_NoClear", "poll_write hands the bytes to the inner stream while the state is still Handshake"),
    "earlyinfo": ("T4_AfterSuccess", "the info is sent before the result of the handshake is known"),
    "shutdownskip": ("T1_FlushDelivers", "writes are buffered during the handshake; flush/shutdown in state Handshake report Ok and forget them"),
    "errconsumed": ("T3_FailedSticky", "the handshake error is consumed by the first entry point; the second sees Pending for ever"),
    "shutdownhs": ("T3_ShutdownReady", "poll_shutdown goes through the handshake (seeded change C07-n2)"),
    "lazynoinfo": ("T4_Available", "only finish_handshake publishes the info, the lazy path does not"),
    "flushinner": ("T1_FlushDelivers", "poll_flush flushes the inner transport instead of the TLS session (seeded change C18-p2)"),
}

STACKS = {"server": ["S_TLS", "S_STREAM"], "client": ["C_TLS", "C_STREAM", "C_TRANSPORT"]}
SNIS = ["a.verif.test", "b.verif.test", "verif.test", ""]
ALPNS = ["h2", "h1", "none"]
ABBR = {"Read": "R", "Write": "W", "Flush": "Fl", "Shutdown": "Sh", "Fin": "Fi", "Recv": "Rx", "Pump": "Pu", "PSend": "Ps",
        "PClose": "Pc", "PDrop": "Pd", "PReset": "Pr", "Garbage": "Gb", "WBlock": "Wb", "WUnblock": "Wu"}
MODEL_ACTIONS = ["Read", "Write", "Flush", "Shutdown", "FinishHandshake", "Recv", "Pump", "PSend", "PClose", "PDrop", "PReset",
                 "Garbage", "WBlock", "WUnblock"]

MKCERTS = r'''
set -e
cd "$1"
gen() { openssl genpkey -algorithm EC -pkeyopt ec_paramgen_curve:P-256 -out "$1" 2>/dev/null; }
ca() { gen $1.key; openssl req -x509 -new -key $1.key -sha256 -days 30 -subj "/CN=$2" \
  -addext "basicConstraints=critical,CA:TRUE" -addext "keyUsage=critical,keyCertSign,cRLSign" -out $1.pem; }
leaf() { gen $1.key; openssl req -new -key $1.key -subj "/CN=$1 leaf" -out $1.csr
  printf "basicConstraints=CA:FALSE\nkeyUsage=critical,digitalSignature\nextendedKeyUsage=serverAuth\nsubjectAltName=$3\n" > $1.ext
  openssl x509 -req -in $1.csr -CA $2.pem -CAkey $2.key -CAcreateserial -days 30 -sha256 -extfile $1.ext -out $1.pem 2>/dev/null; }
ca ca "verif test CA"
ca rogue "rogue CA"
GOOD="DNS:verif.test,DNS:*.verif.test,DNS:localhost,IP:127.0.0.1"
leaf match ca "$GOOD"
leaf untrusted rogue "$GOOD"
'''


def _tier(tier):
    if tier == "quick":
        return dict(mc="TlsStream_quick.cfg", cov="TlsStream_quick.cfg", gen="TlsStream_gen3.cfg", gen_keep=700, sim=700, sim_keep=260, happy_keep=260,
                    walks=160, maxlen=30, mc_timeout=600)
    return dict(mc="TlsStream_thorough.cfg", cov="TlsStream_cov.cfg", gen="TlsStream_gen4.cfg", gen_keep=80000, sim=30000, sim_keep=10000,
                happy_keep=10000, walks=6000, maxlen=40, mc_timeout=2400)


# ------------------------------------------------------------------------------------------------
def _certs(pid):
    d = os.path.join(vlib.outdir(pid), "tlsstream-certs")
    os.makedirs(d, exist_ok=True)
    for f in os.listdir(d):
        os.unlink(os.path.join(d, f))
    p = subprocess.run(["bash", "-c", MKCERTS, "mkcerts", d], stdout=subprocess.PIPE, stderr=subprocess.STDOUT, text=True, timeout=120)
    if p.returncode != 0 or not os.path.exists(os.path.join(d, "untrusted.pem")):
        vlib.log(p.stdout[-2000:])
        raise vlib.ToolError("openssl could not generate the test certificates")
    return d


def _model(pid, cfg):
    """Model verdict + per-action counts. TLC's -coverage pre-pass does not terminate on this module (semantic graph walk
    exponential in the nesting of operators), so the vacuity guard is the invariant CovPrint of the coverage config: one
    COV line per distinct state naming the action that produced it, its result and the wrapper state it was called in."""
    def run(c):
        r = vlib.tlc("MC_TlsStream", c, pid, workers=4, timeout=cfg["mc_timeout"], coverage=False, xmx="6g")
        if r.violated or not r.finished:
            vlib.log(r.out[-3000:])
            raise vlib.ToolError(f"TlsStream.tla ({c}): the intended design violates its own clause ({r.violated}): the model is "
                                 f"wrong, no verdict")
        return r
    if cfg["cov"] == cfg["mc"]:
        mc = cv = run(cfg["mc"])
    else:
        with concurrent.futures.ThreadPoolExecutor(max_workers=2) as ex:
            f1, f2 = ex.submit(run, cfg["mc"]), ex.submit(run, cfg["cov"])
            mc, cv = f1.result(), f2.result()
    per = collections.Counter(cv.printed("COV"))
    mc.out = ""        # tens of thousands of COV lines: not needed any more
    actions = {a: {"distinct_states": 0, "results": {}} for a in MODEL_ACTIONS}
    for key, n in per.items():
        op, res, pre = key.split("/")
        if op == "Init":
            continue
        a = "FinishHandshake" if op == "Fin" else op
        actions[a]["distinct_states"] += n
        if op in ("Read", "Write", "Flush", "Shutdown", "Fin"):
            actions[a]["results"][f"{res}@{pre}"] = actions[a]["results"].get(f"{res}@{pre}", 0) + n
    never = [a for a in MODEL_ACTIONS if actions[a]["distinct_states"] == 0]
    if never:
        raise vlib.ToolError(f"TlsStream.tla: model actions never taken: {never}")
    return mc, {"config": cfg["cov"], "states": cv.distinct, "actions": actions, "actions_never_taken": never}


def _bugs(pid):
    out = {}

    def one(b):
        return b, vlib.tlc("MC_TlsStream", f"TlsStream_bug_{b}.cfg", pid, workers=1, timeout=300, xmx="1g")

    with concurrent.futures.ThreadPoolExecutor(max_workers=4) as ex:
        for b, r in ex.map(one, BUGS):
            if r.violated != BUGS[b][0]:
                vlib.log(r.out[-2000:])
                raise vlib.ToolError(f"vacuity guard: design variant '{b}' must violate {BUGS[b][0]}, TLC reports {r.violated}")
            out[b] = {"variant": BUGS[b][1], "clause_violated_on_model": r.violated, "states": r.distinct}
    return out


def _name(ops):
    return ".".join(ABBR[o["op"]] + (str(o["a"]) if o["op"] in ("Read", "Write", "PSend") else "") for o in ops)


def _generate(pid, cfg, seed):
    """TLC-generated op sequences: exhaustive short ones, simulated long ones (faults; fault-free)."""
    def ex(_):
        r = vlib.tlc("MC_TlsStream", cfg["gen"], pid, workers=2, timeout=900, xmx="4g")
        if r.violated or not r.finished:
            raise vlib.ToolError(f"generation config {cfg['gen']} failed")
        return "exh", r.printed("SEQ")

    def sim(_):
        r = vlib.tlc("MC_TlsStream", "TlsStream_gen_sim.cfg", pid, workers=2, timeout=900, xmx="2g", simulate=cfg["sim"], depth=13,
                     seed=seed)
        return "sim", r.printed("SEQ")

    def happy(_):
        r = vlib.tlc("MC_TlsStream", "TlsStream_gen_happy.cfg", pid, workers=2, timeout=900, xmx="2g", simulate=cfg["sim"] * 4, depth=15,
                     seed=seed + 1)
        return "happy", r.printed("SEQ")

    res = {}
    with concurrent.futures.ThreadPoolExecutor(max_workers=3) as pool:
        futs = [pool.submit(f, 0) for f in (ex, sim, happy)]
        for f in futs:
            tag, lines = f.result()
            # TLC's workers print in a nondeterministic order: sort, then sample with the seed
            lines = sorted({json.dumps(o, sort_keys=True) for o in lines})
            res[tag] = [json.loads(x) for x in lines]
    if not res["exh"]:
        raise vlib.ToolError("TLC generated no op sequences")
    return res


D_HS = "Pump Fin Pump Fin"


def _directed():
    """Hand-named schedules: the orders of entry points and the peer behaviours the clauses name."""
    both = [
        ("stall-all", "Read:2 Write:2 Fin Flush Shutdown Read:1 Fin:1"),
        ("stall-shutdown", "Shutdown"),
        ("stall-recv-shutdown", "Recv Fin Shutdown Flush"),
        ("hello-then-silent-shutdown", "Pump Fin Shutdown Fin"),
        ("write-first", "Write:2 Pump Write:2 Pump Write:2 Flush Pump"),
        ("read-first", "Read:2 Pump Read:2 Pump Read:2 PSend:2 Read:2"),
        ("flush-first", "Flush Pump Fin Pump Fin Write:1 Flush Pump"),
        ("shutdown-first", "Shutdown Pump Fin Pump Fin Write:1 Flush Pump"),
        ("fin-idem", D_HS + " Fin Fin:1 Fin Write:1 Fin Flush Pump"),
        ("lazy-vs-fin", "Recv Pump Read:1 Pump Read:1 Recv Fin"),
        ("lazy-write-info", "Recv Pump Write:1 Pump Write:1 Recv Flush Pump"),
        ("recv-early-late", "Recv " + D_HS + " Recv"),
        ("data-both-ways", D_HS + " Pump Write:3 Flush Pump PSend:2 PSend:3 Read:8 Read:1 Read:8 Write:2 Flush Pump"),
        ("close-notify", D_HS + " Pump PSend:3 PClose Read:2 Read:2 Read:2 Read:2 Write:1 Flush Pump"),
        ("close-notify-cap0", D_HS + " Pump PSend:1 PClose Read:0 Read:1 Read:0 Read:1"),
        ("sut-shutdown", D_HS + " Pump Write:2 Shutdown Pump Shutdown Read:1"),
        ("garbage-hs", "Garbage Fin Fin Read:1 Write:1 Flush Shutdown"),
        ("garbage-mid-hs", "Pump Fin Garbage Read:1 Fin"),
        ("garbage-str", D_HS + " Garbage Read:2 Read:2 Write:1 Flush"),
        ("drop-silent", "PDrop Fin Fin"),
        ("drop-mid-hs", "Pump Read:1 PDrop Read:1 Write:1"),
        ("drop-str", D_HS + " Pump PSend:2 PDrop Read:8 Read:8 Write:1 Flush"),
        ("reset-mid-hs", "Recv Pump Fin PReset Fin Flush Shutdown Recv"),
        ("reset-str", D_HS + " Pump PSend:1 PReset Read:2 Read:2 Write:1"),
        ("backpressure-hs", "WBlock Pump Fin Fin WUnblock Fin Pump WBlock Fin Write:2 Flush WUnblock Fin Write:2 Flush Pump"),
        ("backpressure-str", D_HS + " Pump WBlock Write:2 Write:1 Flush Shutdown WUnblock Flush Pump"),
        ("backpressure-shutdown-hs", "WBlock Pump Fin Shutdown Flush"),
        # a write that the transport cannot take (fully blocked / room for 30 bytes only), then flush, then the writer waits
        ("flush-blocked", D_HS + " Pump WBlock Write:3 Flush Flush WUnblock Pump Flush Pump"),
        ("flush-blocked-2", D_HS + " Pump Write:1 Flush WBlock Write:2 Write:3 Flush WUnblock Pump Read:1 Pump Flush Pump"),
        ("flush-room", D_HS + " Pump WBlock:30 Write:3 Write:3 Flush WUnblock Pump Flush Pump"),
        ("flush-room-1", D_HS + " Pump WBlock:1 Write:4 Flush Flush WUnblock Pump Flush Pump"),
        ("shutdown-room", D_HS + " Pump WBlock:10 Write:3 Shutdown WUnblock Pump Shutdown Pump"),
    ]
    out = []
    for side in ("server", "client"):
        for si, stack in enumerate(STACKS[side]):
            for di, (nm, s) in enumerate(both):
                ops = []
                for t in s.split():
                    o, _, a = t.partition(":")
                    ops.append({"op": o, "a": int(a or 0)})
                out.append({"name": f"d-{nm}", "src": "directed", "side": side, "stack": stack,
                            "cfg": {"cert": "ok", "sni": SNIS[(di + si) % len(SNIS)], "alpn": ALPNS[(di + si) % len(ALPNS)]}, "ops": ops})
            for nm, s in (("badcert", "Recv Fin Pump Fin Pump Fin Fin Write:1 Read:1 Flush Shutdown Recv"),
                          ("badcert-lazy-write", "Write:1 Pump Write:1 Pump Write:1 Write:1"),
                          ("badcert-lazy-read", "Read:1 Pump Read:1 Pump Read:1 Read:1")):
                ops = []
                for t in s.split():
                    o, _, a = t.partition(":")
                    ops.append({"op": o, "a": int(a or 0)})
                out.append({"name": f"d-{nm}", "src": "directed", "side": side, "stack": stack,
                            "cfg": {"cert": "bad", "sni": "a.verif.test", "alpn": "h2"}, "ops": ops})
    return out


def _assemble(gen, cfg, seed):
    rng = random.Random(seed * 7919 + 11)
    seqs = []

    def take(lines, keep, src):
        if len(lines) > keep:
            lines = rng.sample(lines, keep)
        for i, o in enumerate(lines):
            side = o["side"]
            stack = STACKS[side][rng.randrange(len(STACKS[side]))]
            seqs.append({"name": "m-" + _name(o["ops"]), "src": src, "side": side, "stack": stack,
                         "cfg": {"cert": o["cert"], "sni": SNIS[rng.randrange(len(SNIS))], "alpn": ALPNS[rng.randrange(len(ALPNS))]},
                         "ops": o["ops"]})

    take(gen["exh"], cfg["gen_keep"], "tlc-exhaustive")
    take(gen["sim"], cfg["sim_keep"], "tlc-sim")
    take(gen["happy"], cfg["happy_keep"], "tlc-sim-happy")
    seqs += _directed()
    for i, s in enumerate(seqs):
        s["id"] = f"q{i + 1}"
    return seqs


def _execute(pid, seqs, certs, walks, maxlen, seed, label):
    d = vlib.outdir(pid)
    inp = os.path.join(d, f"tlsstream-{label}-in.ndjson")
    outp = os.path.join(d, f"tlsstream-{label}-obs.ndjson")
    vlib.write_ndjson(inp, seqs)
    args = ["run", inp if seqs else "-", outp, "--certs", certs, "--seed", seed]
    if walks:
        args += ["--rand", walks, "--maxlen", maxlen]
    so = vlib.run_harness("tlsstream", args, timeout=1800)
    summ = json.loads(so.strip().splitlines()[-1])
    return outp, summ


def _situation(rec, l, ph):
    if 1 <= l <= len(rec["ops"]):
        return f"{rec['ops'][l - 1]['op']}@{ph}"
    return f"end@{ph}"


def _monitor(pid, trace, label):
    """Strict monitor run; on a violation a reporting pass lists every falsified observation.
    Returns (violated_invariant_or_None, bads, drifts, states)."""
    env = {"TRACE": os.path.abspath(trace)}
    r = vlib.tlc("TlsStreamObs", f"TlsStreamObs_{pid}.cfg", pid, workers=4, timeout=2400, env=env, xmx="6g")
    if r.violated == "I_Sane":
        vlib.log(r.out[-3000:])
        raise vlib.ToolError("harness sanity invariant I_Sane failed: the recorded trace is malformed")
    if r.violated is None:
        if not r.finished:
            vlib.log(r.out[-3000:])
            raise vlib.ToolError("monitor run did not finish")
        return None, r.printed("BAD"), r.printed("DRIFT"), r.distinct
    vlib.log(f"[tlsstream] monitor {label}: TLC reports {r.violated} violated; listing every falsified observation")
    s = vlib.tlc("TlsStreamObs", "TlsStreamObs_report.cfg", pid, workers=4, timeout=2400, env=env, xmx="6g")
    if not s.finished:
        raise vlib.ToolError("monitor reporting pass did not finish")
    bads = s.printed("BAD")
    if not bads:
        raise vlib.ToolError("monitor violated but the reporting pass lists nothing")
    return r.violated, bads, s.printed("DRIFT"), s.distinct


def _inputs(rec):
    return [{"op": o["op"], "a": o["a"]} for o in rec["ops"][:rec["nin"]]]


def _judge(pid, trace, verdict, label, confirm=True):
    """Runs the monitor over `trace`; registers violations of `pid`'s clauses with `verdict`.
    Returns dict(counts...)."""
    recs = vlib.read_ndjson(trace)
    nrec = sum(len(r["ops"]) for r in recs)
    violated, bads, drifts, states = _monitor(pid, trace, label)
    if states != len(recs) + nrec:
        raise vlib.ToolError(f"monitor consumed {states} states, expected {len(recs) + nrec}: trace not fully evaluated")
    mine = collections.OrderedDict()     # key -> list of (rec, l, clauses)
    other = collections.Counter()        # DRIFT-only clause hits (key -> count)
    for b in sorted(bads, key=lambda b: (b["k"], b["l"])):
        rec = recs[b["k"] - 1]
        for cl in sorted(b["bad"]):
            key = f"tlsstream/{cl}/{rec['side']}/{_situation(rec, b['l'], b['ph'])}"
            if pid in CLAUSES.get(cl, {}).get(rec["side"], set()):
                mine.setdefault(key, []).append((rec, b["l"], sorted(b["bad"])))
            else:
                other[key] += 1
    # the invariant I_<pid> (TlsStreamObs!Pids) decides; the table CLAUSES above must agree with it
    if mine and violated is None:
        raise vlib.ToolError(f"clause table mismatch: falsified clauses of {pid} are listed but TLC found I_{pid} to hold")
    if violated is not None and not mine:
        raise vlib.ToolError(f"clause table mismatch: TLC reports {violated} violated but no listed clause belongs to {pid}")
    for key, lst in list(mine.items())[:40]:
        rec, l, clauses = min(lst, key=lambda x: (x[1], len(x[0]["ops"]), x[0]["id"]))
        o = rec["ops"][l - 1]
        desc = (f"clause {key.split('/')[1]} false at step {l} ({o['op']} {o['a']} -> {o['res']}"
                f"{' ' + o['kind'] if o['kind'] else ''}{' n=' + str(o['n']) if o['op'] in ('Read', 'Write') else ''}) of schedule "
                f"{rec['name']} [{rec['src']}] on {rec['stack']} (cert={rec['cfg']['cert']}, sni={rec['cfg']['sni']!r}, alpn={rec['cfg']['alpn']}); "
                f"all clauses false there: {clauses}; schedule so far: {_name(rec['ops'][:l])}; {len(lst)} falsified observation(s) in this class"
                + (f"; panic: {o['panic']}" if o.get("panic") else ""))
        verdict.violation(key, desc, {"kind": "tlsstream-ops", "side": rec["side"], "stack": rec["stack"], "cfg": rec["cfg"],
                                      "name": rec["name"], "ops": _inputs(rec), "failing_step": l, "clauses": clauses,
                                      "invariant": violated, "observed": rec["ops"][:l]})
    dr = []
    for x in sorted(drifts, key=lambda x: (x["k"], x["l"])):
        rec = recs[x["k"] - 1]
        dr.append({"schedule": rec["name"], "stack": rec["stack"], "step": x["l"], "op": rec["ops"][x["l"] - 1]["op"], "fields": sorted(x["df"]),
                   "so_far": _name(rec["ops"][:x["l"]])})
    return {"sequences": len(recs), "records": nrec, "violated": violated, "mine": {k: len(v) for k, v in mine.items()},
            "other": dict(other), "drift": dr}


def _selftest(pid, trace):
    """Three corrupted copies of real records must be flagged (monitor sensitivity)."""
    recs = vlib.read_ndjson(trace)
    picks = []
    # (a) a byte read by the application is altered
    for r in recs:
        j = next((i for i, o in enumerate(r["ops"]) if o["op"] == "Read" and o["res"] == "Ok" and o["n"] > 0), None)
        if j is not None:
            c = copy.deepcopy(r)
            c["ops"][j]["data"][0] += 1
            picks.append((c, "T1_PrefixIn"))
            break
    # (b) three clear bytes appear on the wire during a client handshake
    for r in recs:
        if r["side"] == "client" and len(r["ops"]) > 2:
            c = copy.deepcopy(r)
            for o in c["ops"][1:]:
                o["clear"] += 3
            picks.append((c, "T2_NoClear"))
            break
    # (c) a receiver sees another server name
    for r in recs:
        j = next((i for i, o in enumerate(r["ops"]) if r["side"] == "server" and any(x["st"] == "some" for x in o["info"])), None)
        if j is not None and r["cfg"]["sni"]:
            c = copy.deepcopy(r)
            for x in c["ops"][j]["info"]:
                if x["st"] == "some":
                    x["sni"] = "evil.test"
            picks.append((c, "T4_SniEqual"))
            break
    if len(picks) != 3:
        raise vlib.ToolError("self-test: the trace has no record to corrupt (no successful read / client handshake / published info)")
    p = os.path.join(vlib.outdir(pid), "tlsstream-selftest.ndjson")
    vlib.write_ndjson(p, [c for c, _ in picks])
    # one run of the strict configuration (every clause an INVARIANT) with -continue: it must fail, and the report
    # lines must name the corrupted clause for every line
    s = vlib.tlc("TlsStreamObs", "TlsStreamObs.cfg", pid, workers=1, timeout=300, env={"TRACE": p}, xmx="1g", extra=["-continue"])
    if s.violated is None or s.violated == "I_Sane":
        raise vlib.ToolError("self-test: the strict monitor does not fail on the corrupted records")
    flagged = collections.defaultdict(set)
    for b in s.printed("BAD"):
        flagged[b["k"]] |= set(b["bad"])
    for i, (_, cl) in enumerate(picks):
        if cl not in flagged.get(i + 1, set()):
            raise vlib.ToolError(f"self-test: corrupted record {i + 1} not flagged with {cl} (flagged: {sorted(flagged.get(i + 1, []))})")
    r = s
    return {"corrupted": [cl for _, cl in picks], "flagged": True, "strict_invariant": r.violated}


def _stats(trace):
    per_src, per_stack, res = collections.Counter(), collections.Counter(), collections.Counter()
    maxlen = 0
    samples = []
    for rec in vlib.read_ndjson(trace):
        per_src[rec["src"]] += 1
        per_stack[rec["stack"]] += 1
        maxlen = max(maxlen, rec["nin"])
        for o in rec["ops"]:
            res[o["op"] + ":" + o["res"]] += 1
        if len(samples) < 3 and rec["src"] != (samples[-1]["src"] if samples else None) and rec["nin"] >= 4:
            samples.append({"src": rec["src"], "name": rec["name"], "stack": rec["stack"], "cfg": rec["cfg"],
                            "ops": [f"{o['op']}:{o['a']}->{o['res']}" + (f"/{o['n']}" if o["op"] in ("Read", "Write") else "") for o in rec["ops"]]})
    return dict(per_src=dict(per_src), per_stack=dict(per_stack), op_results=dict(res), longest=maxlen, samples=samples)


def stage(pid, tier, seed, verdict):
    """Runs the TLS-stream stage for property `pid`; violations of the clauses that belong to `pid` are registered
    with `verdict` (keys tlsstream/<clause>/<side>/<op>@<situation>). Returns the numbers for the evidence file
    (embed under coverage["tls_stream_model"])."""
    if pid not in PIDS:
        raise vlib.ToolError(f"x_tlsstream: no clause belongs to {pid}")
    t0 = time.time()
    cfg = _tier(tier)
    vlib.build_harness("tlsstream")
    certs = _certs(pid)
    with concurrent.futures.ThreadPoolExecutor(max_workers=3) as ex:
        f_model = ex.submit(_model, pid, cfg)
        f_bugs = ex.submit(_bugs, pid)
        gen = _generate(pid, cfg, seed)
        seqs = _assemble(gen, cfg, seed)
        trace, summ = _execute(pid, seqs, certs, cfg["walks"], cfg["maxlen"], seed, "run")
        j = _judge(pid, trace, verdict, "run")
        st = _selftest(pid, trace)
        mc, cov = f_model.result()
        bugs = f_bugs.result()
    stats = _stats(trace)
    if j["other"]:
        top = sorted(j["other"].items(), key=lambda kv: -kv[1])[:8]
        vlib.log(f"DRIFT property={pid} tlsstream: clauses that do not belong to {pid}'s text (or are DRIFT-only) were false on "
                 f"{sum(j['other'].values())} observation(s): {top}")
    if j["drift"]:
        vlib.log(f"DRIFT property={pid} tlsstream: {len(j['drift'])} schedule(s) where the real stream differs from the lock-step model "
                 f"without falsifying a clause of {pid}, e.g. {j['drift'][:3]}")
    mine = sorted(k for k, v in CLAUSES.items() for side, ps in v.items() if pid in ps)
    out = {
        "spec": "spec/TlsStream.tla (+ TlsStreamObs.tla)", "model_config": cfg["mc"],
        "states": mc.distinct, "transitions": mc.generated, "model_depth": mc.depth, "model_wall_s": round(mc.wall, 1),
        "tlc_coverage": cov,
        "design_variants_refuted": bugs,
        "clauses_deciding_for_this_property": {cl: sorted(s for s, ps in CLAUSES[cl].items() if pid in ps) for cl in mine},
        "generated": {k: len(v) for k, v in gen.items()},
        "sequences_on_real_streams": j["sequences"], "sequences_by_source": stats["per_src"], "sequences_by_stack": stats["per_stack"],
        "longest_input_sequence": stats["longest"],
        "observations_judged_by_tlc": j["records"], "op_results": stats["op_results"],
        "violated_invariant": j["violated"] if j["mine"] else None,
        "violating_observations_of_this_property": j["mine"],
        "clause_hits_not_deciding_here": j["other"],
        "drift_count": len(j["drift"]), "drift": j["drift"][:12],
        "panics_recorded": summ.get("panics", 0),
        "selftest": st, "samples": stats["samples"],
        "wall_s": round(time.time() - t0, 1),
    }
    vlib.log(f"[{pid}] tlsstream: model {mc.distinct} states / {mc.generated} transitions; {j['sequences']} schedules, {j['records']} "
             f"observations on the real streams; {sum(j['mine'].values())} violating observation(s) of {pid}; "
             f"{sum(j['other'].values())} other clause hits; drift {len(j['drift'])}; {time.time() - t0:.0f}s")
    return out


def replay(pid, obj):
    """Re-executes a recorded schedule (kind "tlsstream-ops") on the current tree through the same monitor."""
    rp = obj.get("replay", obj)
    if rp.get("kind") != "tlsstream-ops":
        raise vlib.ToolError("x_tlsstream.replay: not a tlsstream-ops object")
    verdict = vlib.Verdict(pid)
    certs = _certs(pid)
    seq = {"id": "replay", "name": rp.get("name", "replay"), "src": "replay", "side": rp["side"], "stack": rp["stack"],
           "cfg": rp["cfg"], "ops": rp["ops"]}
    trace, _ = _execute(pid, [seq], certs, 0, 0, vlib.seed_from_env(), "replay")
    j = _judge(pid, trace, verdict, "replay")
    code, _ = verdict.finish()
    if code == 0 and not verdict.violations:
        print(f"replay (tlsstream {seq['name']}): property holds on the current tree ({j['records']} observations)", flush=True)
    return code
