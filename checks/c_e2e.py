"""C01 -- requests and responses arrive intact and correctly matched end to end.

Pipeline (DESIGN.md 4 C01):
  1. TLC checks the model EndToEnd.tla (per-request life cycle, HTTP/1 FIFO / HTTP/2 stream matching,
     pool safeguards) against the C01 formulas of EndToEndProps.tla, with coverage; a liveness
     configuration (fair spec: a request that is not cancelled and whose peer does not break the
     connection reaches done); and the buggy variants (one safeguard removed each) on which TLC MUST
     find the violation (vacuity guard).  A failure here is a spec/tool error (exit 2), never a verdict.
  2. harness bin `e2e`: the real hyperdriver Client / ConnectionPoolService against real hyperdriver
     Servers on a multi-thread runtime; seeded random runs; one ndjson trace.
  3. TLC (EndToEndTrace.tla, -continue) evaluates the SAME formulas on every recorded event.
     Only a formula that TLC evaluates to FALSE on a recorded event produces a VIOLATION.
"""
import concurrent.futures as cf
import json
import os
import re
import time

import vlib

PID = "C01"

TIERS = {
    #            runs  max_req  chunk
    "quick":    (40,   24,      40),
    "thorough": (2000, 64,      250),
}

# clock-free deterministic scenarios of the harness, run in both tiers (notes/e2e.md section 4)
SCENARIOS = ["waiter-owner-cancelled", "waiter-owner-preempted"]

# buggy variants of the model: cfg -> the formula TLC must report as violated
VACUITY = {
    "EndToEnd_bug_cross_origin.cfg": "Matched",
    "EndToEnd_bug_no_poison.cfg": "Matched",
    "EndToEnd_bug_reuse.cfg": "H1Exclusive",
    "EndToEnd_bug_reuse_spurious.cfg": "NoSpuriousFailure",
    "EndToEnd_bug_upgrade.cfg": "NoReuseAfterUpgrade",
}
# one half of the readiness safeguard removed: still safe (defence in depth) -- must pass
HALF = ["EndToEnd_half_return.cfg", "EndToEnd_half_pop.cfg"]


_COV = re.compile(r"<(\w+) line \d+, col \d+ to line \d+, col \d+ of module EndToEnd(?: \([\d ]+\))?>: (\d+):(\d+)")


def _coverage(out):
    """per-action (distinct, taken) of the last coverage dump (vlib's parser misses actions whose body is a LET)."""
    cov = {}
    for m in _COV.finditer(out):
        cov[m.group(1)] = (int(m.group(2)), int(m.group(3)))
    return cov


# ------------------------------------------------------------------------------------------------
# 1. the model
def _model(pid, tier, seed):
    res = {}
    with cf.ThreadPoolExecutor(max_workers=4) as ex:
        main_cfg = "EndToEnd_quick.cfg" if tier == "quick" else "EndToEnd_thorough.cfg"
        f_main = ex.submit(vlib.tlc, "MC_EndToEnd", main_cfg, pid, workers=8 if tier == "quick" else 6,
                           timeout=1500, coverage=True)
        f_live = ex.submit(vlib.tlc, "MC_EndToEnd", "EndToEnd_live.cfg" if tier == "quick" else "EndToEnd_live3.cfg",
                           pid, workers=2, timeout=1700, coverage=True)
        f_bugs = {c: ex.submit(vlib.tlc, "MC_EndToEnd", c, pid, workers=1, timeout=600) for c in VACUITY}
        f_half = {c: ex.submit(vlib.tlc, "MC_EndToEnd", c, pid, workers=1, timeout=600) for c in HALF}
        f_sim = None
        if tier == "thorough":
            # 4 requests: random behaviours of the full model (the exhaustive run stays at 3 requests)
            f_sim = ex.submit(vlib.tlc, "MC_EndToEnd", "EndToEnd_sim4.cfg", pid, workers=4, timeout=1500,
                              simulate=60000, depth=60, seed=seed)
        m = f_main.result()
        if not m.finished or m.violated:
            vlib.log(m.out[-4000:])
            raise vlib.ToolError("EndToEnd.tla (%s): the model violates %s (spec error)" % (main_cfg, m.violated))
        lv = f_live.result()
        if not lv.finished or lv.violated:
            vlib.log(lv.out[-4000:])
            raise vlib.ToolError("EndToEnd.tla: liveness configuration failed (%s)" % lv.violated)
        bugs = {}
        for c, f in f_bugs.items():
            r = f.result()
            bugs[c] = r.violated
            if r.violated != VACUITY[c]:
                vlib.log(r.out[-3000:])
                raise vlib.ToolError("vacuity guard: %s should violate %s, TLC reported %s" % (c, VACUITY[c], r.violated))
        for c, f in f_half.items():
            r = f.result()
            if not r.finished or r.violated:
                raise vlib.ToolError("EndToEnd.tla: %s should hold (one half of the readiness safeguard suffices)" % c)
        sim = None
        if f_sim is not None:
            s = f_sim.result()
            if s.violated:
                vlib.log(s.out[-4000:])
                raise vlib.ToolError("EndToEnd.tla (4 requests, simulation): %s violated (spec error)" % s.violated)
            mg = re.findall(r"The number of states generated: (\d+)", s.out)
            mt = re.findall(r"(\d+) states checked, (\d+) traces generated \(trace length: mean=(\d+)", s.out)
            sim = {"cfg": "EndToEnd_sim4.cfg", "max_depth": 60, "states_checked": int(mg[-1]) if mg else 0,
                   "behaviours": int(mt[-1][1]) if mt else 0, "mean_length": int(mt[-1][2]) if mt else 0}
            if not sim["states_checked"]:
                raise vlib.ToolError("EndToEnd.tla (4 requests, simulation) produced no states")
    cov = _coverage(m.out)
    lcov = _coverage(lv.out)
    res["cfg"] = main_cfg
    res["states"] = m.distinct
    res["transitions"] = m.generated
    res["depth"] = m.depth
    res["tlc_coverage"] = {a: {"distinct": d, "taken": t} for a, (d, t) in sorted(cov.items())}
    res["tlc_coverage_liveness_cfg"] = {a: {"distinct": d, "taken": t} for a, (d, t) in sorted(lcov.items())}
    res["actions_never_taken_main_cfg"] = sorted(a for a, (d, t) in cov.items() if t == 0)
    # (the quick main cfg has AllowBreak = FALSE: PeerBreak / Fail are exercised by the liveness cfg)
    res["actions_never_taken"] = sorted(a for a, (d, t) in cov.items() if t == 0 and lcov.get(a, (0, 0))[1] == 0)
    res["liveness"] = {"cfg": "EndToEnd_live.cfg" if tier == "quick" else "EndToEnd_live3.cfg",
                       "states": lv.distinct, "property": "Completes under FairSpec"}
    res["vacuity_guard"] = bugs
    res["simulation"] = sim
    res["wall_s"] = round(m.wall, 1)
    return res


# ------------------------------------------------------------------------------------------------
# 2 + 3. real runs and the monitor
def _harness(tier, seed, first, runs, max_req, out, repeat=1, timeout=3000):
    args = ["run", "--seed", seed, "--first", first, "--runs", runs, "--repeat", repeat, "--max-req", max_req,
            "--tier", tier, "--out", out, "--sockdir", os.path.join(vlib.outdir(PID), "s")]
    alt = os.environ.get("VERIF_E2E_BIN")
    if alt:
        # self-test only (notes/e2e.md): a harness binary built from a scratch copy of /verif/harness against a
        # scratch worktree of /repo (mutants, candidate repairs). Never set by ./check's normal callers.
        import subprocess
        p = subprocess.run([alt] + [str(a) for a in args], stdout=subprocess.PIPE, stderr=subprocess.PIPE, text=True,
                           timeout=timeout)
        if p.returncode != 0:
            vlib.log(p.stderr[-3000:])
            raise vlib.ToolError("harness %s exited %d" % (alt, p.returncode))
        txt = p.stdout
    else:
        txt = vlib.run_harness("e2e", args, timeout=timeout)
    return json.loads(txt.strip().splitlines()[-1])


def _scenario(name, out):
    args = ["scenario", name, "--out", out, "--sockdir", os.path.join(vlib.outdir(PID), "s")]
    alt = os.environ.get("VERIF_E2E_BIN")
    if alt:
        import subprocess
        p = subprocess.run([alt] + args, stdout=subprocess.PIPE, stderr=subprocess.PIPE, text=True, timeout=120)
        if p.returncode != 0:
            raise vlib.ToolError("harness %s scenario exited %d" % (alt, p.returncode))
        txt = p.stdout
    else:
        txt = vlib.run_harness("e2e", args, timeout=120)
    return json.loads(txt.strip().splitlines()[-1])


def _monitor(pid, trace_path, n_events, timeout=1500):
    r = vlib.tlc("EndToEndTrace", "EndToEndTrace.cfg", pid, workers=1, timeout=timeout, xmx="6g",
                 env={"TRACE": os.path.abspath(trace_path)}, extra=["-continue"],
                 java_opts=["-Dtlc2.tool.queue.IStateQueue=StateDeque"])
    cons = [l for l in r.out.splitlines() if l.startswith('<<"CONSUMED"')]
    if not r.finished or not cons:
        vlib.log(r.out[-3000:])
        raise vlib.ToolError("EndToEndTrace did not complete on %s" % trace_path)
    if r.distinct != n_events:
        raise vlib.ToolError("EndToEndTrace consumed %d of %d records of %s" % (r.distinct, n_events, trace_path))
    bad = r.printed("BAD")
    reported = set(re.findall(r"Invariant (\w+) is violated", r.out))
    if "WellFormed" in reported or any(b["inv"] == "WellFormed" for b in bad):
        vlib.log(r.out[-3000:])
        raise vlib.ToolError("EndToEndTrace: malformed trace (harness bug), record(s) %s"
                             % [b["i"] for b in bad if b["inv"] == "WellFormed"][:5])
    if bool(bad) != bool(reported):
        raise vlib.ToolError("EndToEndTrace: BAD lines and TLC's invariant report disagree")
    return bad


def _norm_kind(kind):
    k = re.sub(r"\d+", "N", kind or "")
    k = re.sub(r"[^A-Za-z: ]+", " ", k)
    return "-".join(k.split())[:70]


def _classify(events, idx, inv):
    """Stable key of a violation: the class of the failing history, not the random instance.
    events: the records of the trace file; idx: 0-based index of the violating record."""
    ev = events[idx]
    start = idx
    while events[start]["e"] != "Reset":
        start -= 1
    reset = events[start]
    cfg = reset["cfg"]
    end = idx
    while events[end]["e"] != "EndRun":
        end += 1
    run_events = events[start:end + 1]
    oinfo = {o["o"]: o for o in cfg["origins"]}
    r = ev.get("r", ev.get("idPath"))
    mine = [e for e in run_events if e.get("r") == r and e["e"] != "Handle"]
    handles = [e for e in run_events if e["e"] == "Handle" and e.get("idPath") == r]
    issue = next((e for e in mine if e["e"] == "Issue"), None)
    dials = [e for e in mine if e["e"] == "Dial"]
    sends = [e for e in mine if e["e"] == "Send"]
    o = oinfo.get(issue["origin"]) if issue else None
    where = "%s@%s-%s/%s" % (issue["ver"] if issue else "?", o["proto"] if o else "?", o["tr"] if o else "?",
                             cfg["stack"])
    if inv == "NoSpuriousFailure":
        split = [d for d in dials if d["sproto"] == "Auto" and d["ver"] == "h2" and d["tr"] == "Duplex"
                 and 0 <= d["buf"] < 24]
        if ev["e"] == "Error" and split and not sends and "handshake" in ev.get("kind", ""):
            key = "NoSpuriousFailure:h2-preface-split@auto-server(duplex-buf<24)"
        elif ev["e"] == "Stuck" and not dials and not sends:
            key = "NoSpuriousFailure:stuck-pure-waiter"
        elif ev["e"] == "Error" and not dials and not sends and "pool closed" in ev.get("kind", ""):
            # a request that was told to wait for another request's HTTP/2 connection attempt
            owners = {}
            for e in run_events:
                r0 = e.get("r")
                if r0 is None or r0 == r or e["e"] == "Handle":
                    continue
                o0 = owners.setdefault(r0, {"origin": None, "h2dial": False, "term": None, "dialled": set(), "sent": set()})
                if e["e"] == "Issue":
                    o0["origin"] = e["origin"]
                elif e["e"] == "Dial" and e["ver"] == "h2":
                    o0["h2dial"] = True
                    o0["dialled"].add(e["c"])
                elif e["e"] == "Send":
                    o0["sent"].add(e["c"])
                elif e["e"] in ("Cancel", "Error", "Stuck", "Response"):
                    o0["term"] = e["e"]
            mine_o = issue["origin"] if issue else None
            cands = [o0 for o0 in owners.values() if o0["origin"] == mine_o and o0["h2dial"]]
            if cfg.get("cap") is False and any(o0["term"] == "Cancel" for o0 in cands):
                # the owner of the HTTP/2 attempt was cancelled by its caller
                key = "NoSpuriousFailure:pure-waiter-failed(pool-closed)"
            elif cfg.get("cap") is False and any(o0["sent"] - o0["dialled"] for o0 in cands):
                # the owner was served by ANOTHER connection (pre-empted by a returned one) and abandoned its dial
                key = "NoSpuriousFailure:pure-waiter-failed(pool-closed,owner-preempted)"
            elif any(o0["term"] == "Error" for o0 in cands):
                key = "NoSpuriousFailure:pure-waiter-failed(owner-dial-failed)/%s" % where
            else:
                key = "NoSpuriousFailure:pure-waiter-failed(unexplained)/%s" % where
        elif ev["e"] == "Stuck":
            key = "NoSpuriousFailure:stuck/%s/%s" % ("sent" if sends else "dialling", where)
        else:
            key = "NoSpuriousFailure:error/%s/%s" % (where, _norm_kind(ev.get("kind")))
    elif inv in ("H1Exclusive", "NoSendAfterUpgrade", "NoCrossOrigin"):
        key = "%s:%s" % (inv, where)
    elif inv == "RequestIntact":
        why = _norm_kind(re.sub(r"[\"'].*?[\"']", "", ev.get("why", "ids-disagree")).split(";")[0])
        key = "RequestIntact:%s/%s" % (where, why)
    else:  # Matched, ResponseIntact
        why = _norm_kind(re.sub(r"[\"'].*?[\"']", "", ev.get("why", "")).split(";")[0])
        key = "%s:%s%s" % (inv, where, ("/" + why) if why else "")
    desc = "%s is false on record %d of run %d (seed %s): %s | request events: %s" % (
        inv, idx - start, reset["run"], reset["seed"], json.dumps(ev, sort_keys=True)[:400],
        json.dumps(mine + handles, sort_keys=True)[:1200])
    replay = {"scenario": reset.get("scenario"),
              "seed": reset["seed"], "tier": reset["tier"], "max_req": reset["maxReq"], "run": reset["run"],
              "inv": inv, "key": key, "record": ev, "request_events": mine + handles, "cfg": cfg, "repeat": 25}
    return key, desc, replay


def _validate(pid, trace_path, summary, verdict, keys_seen):
    bad = _monitor(pid, trace_path, summary["events"])
    if not bad:
        return 0
    events = vlib.read_ndjson(trace_path)
    for b in bad:
        key, desc, replay = _classify(events, b["i"] - 1, b["inv"])
        keys_seen[key] = keys_seen.get(key, 0) + 1
        if keys_seen[key] <= 3:        # a few instances per class are enough as replay files
            verdict.violation(key, desc, replay)
    return len(bad)


def run(pid, tier, seed, t0):
    d = vlib.outdir(pid)
    runs, max_req, chunk = TIERS[tier]
    verdict = vlib.Verdict(pid)
    keys_seen = {}
    counts = {}
    samples, suspects, server_errors = [], [], []
    totals = {"events": 0, "shapes": 0, "nontrivial": 0, "runs_validated": 0, "bad": 0, "harness_wall_s": 0.0}
    with cf.ThreadPoolExecutor(max_workers=1) as mex, cf.ThreadPoolExecutor(max_workers=1) as vex:
        # (one monitor at a time: vlib's TLC metadir is per cfg name)
        f_model = mex.submit(_model, pid, tier, seed)
        if not os.environ.get("VERIF_E2E_BIN"):
            vlib.build_harness("e2e")
        pending = []
        for first in range(0, runs, chunk):
            n = min(chunk, runs - first)
            path = os.path.join(d, "trace-%s-%d.ndjson" % (tier, first))
            s = _harness(tier, seed, first, n, max_req, path)
            for k, v in s["counts"].items():
                counts[k] = counts.get(k, 0) + v
            totals["events"] += s["events"]
            totals["shapes"] = max(totals["shapes"], s["distinct_shapes"])
            totals["nontrivial"] += s["nontrivial_requests"]
            totals["harness_wall_s"] += s["harness_wall_s"]
            if len(samples) < 6:
                samples += s["samples"][:2]
            suspects += s["suspects"][:5]
            server_errors += s["server_errors"][:5]
            pending.append((path, s, vex.submit(_validate, pid, path, s, verdict, keys_seen)))
        # deterministic scenarios (no clocks): the owner of an HTTP/2 dial is cancelled / pre-empted, cap=false
        for name in SCENARIOS:
            spath = os.path.join(d, "scenario-%s.ndjson" % name)
            sc = _scenario(name, spath)
            pending.append((spath, sc, vex.submit(_validate, pid, spath, sc, verdict, keys_seen)))
        for path, s, f in pending:
            totals["bad"] += f.result()
            totals["runs_validated"] += s["runs"] * s["repeat"]
            if tier == "thorough" and not keys_seen:
                try:
                    os.remove(path)
                except OSError:
                    pass
        model = f_model.result()
    if server_errors:
        vlib.log("server errors (informative): %s" % server_errors[:5])
    conn_info = __import__("x_conninfo").stage(pid, tier, seed, verdict)   # ConnInfo.tla: every request carries its own connection's info
    upgrade = __import__("x_upgrade").stage(pid, tier, seed, verdict)   # Upgrade.tla: U3/U5, matching around upgrades, upgrade futures resolve
    body = __import__("x_body").stage(pid, tier, seed, verdict)   # Body.tla: frames, end-of-stream, size hints, end-to-end framing
    code, unlisted = verdict.finish()
    coverage = {"body_model": body, "upgrade_model": upgrade, "conn_info_model": conn_info,
        "evaluations": counts.get("requests", 0),
        "distinct_nontrivial": totals["nontrivial"],
        "rule": ("seeded random runs of the real client/server: per run 2-6 origins (own server each: auto/http1/http2 over "
                 "duplex/tcp/unix), client stack alternating full Client::builder / bare ConnectionPoolService, warm-up "
                 "waves that leave pooled connections (server-side connection kills in between), then N concurrent "
                 "requests with random method/path/query/headers/bodies(0..64KiB, chunked with delays)/version/"
                 "origin spelling, handler delays, streamed responses, cancellations at 5 kinds of points, upgrades. "
                 "Every request has a unique seeded payload, so all are distinct; a request counts as NON-TRIVIAL when "
                 "it was sent on a connection that had already carried another request, shared an HTTP/2 connection "
                 "with an in-flight stream, was cancelled, or completed an upgrade (counted by the harness)."),
        "samples": samples[:6],
        "states": model["states"],
        "transitions": model["transitions"],
        "traces_validated_against_impl": totals["runs_validated"],
        "exhaustive": False,
        "model": model,
        "tlc_coverage": model["tlc_coverage"],
        "events_checked_by_tlc": totals["events"],
        "distinct_request_shapes": totals["shapes"],
        "counts": counts,
        "violating_records": totals["bad"],
        "violation_keys": keys_seen,
        "server_errors": server_errors[:10],
        "drift": [],
        "repo_tree": vlib.repo_tree_id(),
        "harness_wall_s": round(totals["harness_wall_s"], 1),
    }
    assumptions = [
        "byte-level fidelity is computed by the harness (full body comparison + FNV digest) and consumed by the "
        "monitor as booleans; hyper's framing is trusted",
        "the duplex connect is completed in its own task (a connect abandoned half-way is C09/D8's subject)",
        "HTTP/2 dials use a transport buffer >= 24 bytes except towards auto-detecting servers in the designated "
        "zoneD7 runs (h2's own handshake deadlocks below 24 bytes against an HTTP/2-only hyper server)",
        "GET bodies always have a known length (hyper's HTTP/1 client drops unknown-length GET bodies by design)",
        "a request is declared Stuck only after 8 s without ANY progress in the whole process",
        "server-side connection kills happen only between warm-up waves; every client connection that could be "
        "affected is flagged and requests sent on it are excused",
    ]
    vlib.write_evidence(pid, tier, seed, "exploration", coverage, assumptions, time.time() - t0, unlisted)
    vlib.log("[C01] %s: %d runs, %d requests, %d events validated by TLC, %d violating records, keys=%s, model %d states"
             % (tier, totals["runs_validated"], counts.get("requests", 0), totals["events"], totals["bad"],
                keys_seen, model["states"]))
    return code


def replay(pid, path):
    """Re-executes the recorded run configuration (same seed / run index / tier) `repeat` times on the
    current tree and lets the monitor decide again. Real multi-thread runs are not bit-reproducible;
    the scenario (servers, plans, payloads, cancellation points) is."""
    obj = json.load(open(path))
    if isinstance(obj.get("replay"), dict) and obj["replay"].get("kind") == "conninfo-trace":
        return __import__("x_conninfo").replay(pid, obj)
    if isinstance(obj.get("replay"), dict) and obj["replay"].get("kind") == "upgrade-scenario":
        return __import__("x_upgrade").replay(pid, obj)
    if isinstance(obj.get("replay"), dict) and obj["replay"].get("kind") == "body-ops":
        return __import__("x_body").replay(pid, obj)
    rp = obj["replay"]
    d = vlib.outdir(pid)
    out = os.path.join(d, "replay-trace.ndjson")
    if rp.get("scenario"):
        s = _scenario(rp["scenario"], out)
    else:
        s = _harness(rp["tier"], rp["seed"], rp["run"], 1, rp["max_req"], out, repeat=rp.get("repeat", 25))
    bad = _monitor(pid, out, s["events"])
    if not bad:
        vlib.log("[C01] replay: %s, property held" % (("scenario " + rp["scenario"]) if rp.get("scenario") else
                                                      "%d repetitions of run %d" % (s["repeat"], rp["run"])))
        return 0
    events = vlib.read_ndjson(out)
    verdict = vlib.Verdict(pid)
    seen = {}
    for b in bad:
        key, desc, replay_obj = _classify(events, b["i"] - 1, b["inv"])
        seen[key] = seen.get(key, 0) + 1
        if seen[key] <= 1:
            verdict.violation(key, desc, replay_obj)
    vlib.log("[C01] replay: violation keys %s (recorded key: %s)" % (seen, rp.get("key")))
    code, _ = verdict.finish()
    return code
