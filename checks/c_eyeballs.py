"""C10 / C11 - happy eyeballs (src/happy_eyeballs.rs, TcpConnecting::connect).

Pipeline of one run (the same for C10 and C11, only the deciding invariant differs):
  1. TLC checks the model spec/Eyeballs.tla (C10Inv, C11Inv, Tight, TypeOK; -coverage 1) on the tier's grid and, in the
     same run, prints every terminal (scenario, allowed observation) pair (Emit -> -userFile).
  2. harness bin `eyeballs run` executes EVERY scenario on the real hyperdriver::verif::EyeballSet under paused tokio
     time and records (result, completion instant, first-poll instant/rank and drop instant of every attempt).
     It also compares with the model's allowed observations (DRIFT, never a verdict) and screens with a Rust mirror of
     the property formulas (never a verdict).
  3. TLC evaluates the property formulas of spec/EyeballsProps.tla over the REAL observations (spec/EyeballsObs.tla):
     quick - every record; thorough - every record the mirror flagged or that drifted plus a seeded sample, and the
     records of the TCP layer test (`eyeballs tcp`: TcpTransport::connect_to_addrs against loopback ports).
     Only a record falsified there is a VIOLATION.
  TCP wiring layer (both tiers): TLC checks spec/TcpEyeballs.tla (candidates with a local set-up outcome and a connect
  outcome, stagger = timeout / original number of addresses, error mapping), refutes the as-built-style variants EagerSetup
  and DelayFromDrainedList (standing demonstrations), and prints every TCP-level vector; `eyeballs tcp` realizes every
  realizable vector without silent candidates plus a few named rows (set-up error of one family, black-holed first
  candidates) through TcpTransport::connect_to_addrs / Service::call on loopback; the monitor evaluates the outcome-level
  clauses Tcp_C10 / Tcp_C11 on them.  quick additionally runs a directed family with four attempts (Eyeballs_gen_quick4.cfg).
"""
import json
import os
import re
import time

import vlib

KNOWN_CAP = 25          # violation files written per run for findings not listed in known_findings.json
TIERS = {
    "quick": dict(cfg="Eyeballs_gen_quick.cfg", cfg4="Eyeballs_gen_quick4.cfg", all=True, sample=0, tlc_timeout=600, threads=4),
    "thorough": dict(cfg="Eyeballs_gen_thorough.cfg", cfg4=None, all=False, sample=250000, tlc_timeout=2400, threads=8),
}
MODEL_INVS = ("TypeOK", "C10Inv", "C11Inv", "Tight")
ASSUMPTIONS = [
    "time is tokio's paused virtual clock (current_thread runtime); one model time unit = 10 ms",
    "an attempt is a scripted future: 'started' = first polled; it accepts/fails lat units after its first poll or never",
    "a still pending operation is recorded as 'hang' after 1000 time units",
    "bounds: the tier's grid (N attempts, latency grid, delay/timeout/concurrency sets of spec/MC_Eyeballs.tla); beyond them nothing is claimed",
    "initial concurrency 0 is read as 'one attempt may start initially' (nothing would ever run otherwise), see notes/eyeballs.md",
    "TCP layer: loopback ports, outcome-level observations (kind, connected candidate, class of the error) and one-sided time bounds; "
    "a candidate's local set-up error is a bind to a documentation address the host does not own; a silent candidate is a listener with "
    "backlog 1 and a full accept queue; loopback answers take far less than one stagger interval (>= 1 s in the slow rows)",
]


def _viol_lines(out):
    """VIOL records printed by the monitor, de-duplicated by record index (TLC re-evaluates when it prints a trace)."""
    seen = {}
    consumed = None
    for line in out.splitlines():
        if line.startswith('<<"VIOL", ') and line.endswith(">>"):
            try:
                d = json.loads(json.loads(line[len('<<"VIOL", '):-2]))
            except Exception:
                continue
            seen.setdefault(d["k"], d)
        m = re.match(r'<<"CONSUMED", (\d+)>>', line)
        if m:
            consumed = int(m.group(1))
    return [seen[k] for k in sorted(seen)], consumed


def scenario_key(rec):
    v = rec["v"]
    if rec.get("layer") == "tcp":
        return rec.get("name") or (",".join(v["oc"]) + f":t{v['tmoMs']}:c{v['conc']}")
    n = v["n"]
    atts = ",".join(f"{v['oc'][i]}{v['lat'][i]}" if v["oc"][i] != "never" else "never" for i in range(n))
    return f"n{n}:{atts}:d{v['delay']}:t{v['tmo']}:c{v['conc']}"


def monitor(pid, obs_path, nrecords):
    """TLC over real observations. Returns (list of falsified (record, clauses), TlcResult)."""
    r = vlib.tlc_trace("EyeballsObs", f"EyeballsObs_{pid}.cfg", pid, obs_path, timeout=1800, xmx="8g")
    viols, consumed = _viol_lines(r.out)
    if consumed != nrecords:
        vlib.log(r.out[-3000:])
        raise vlib.ToolError(f"monitor consumed {consumed} of {nrecords} records")
    flag = "c10" if pid == "C10" else "c11"
    mine = [d for d in viols if d[flag] is False]
    if (r.violated == f"{pid}Holds") != bool(mine):
        vlib.log(r.out[-3000:])
        raise vlib.ToolError(f"monitor verdict inconsistent: violated={r.violated}, {len(mine)} falsified records")
    if r.violated is None and not r.finished:
        raise vlib.ToolError("monitor did not finish")
    recs = vlib.read_ndjson(obs_path) if mine else []
    out = []
    for d in mine:
        rec = recs[d["k"] - 1]
        clauses = sorted(c for c in d["clauses"] if c.startswith(pid))
        out.append((rec, clauses))
    return out, r


def report(pid, falsified, extra=None):
    """Applies known_findings.json and writes violation files. Returns (exit_code, n_unlisted, result of the extension stage)."""
    verdict = vlib.Verdict(pid)
    known = [k for k in vlib.load_known().get("findings", []) if k.get("property") == pid]
    n_unknown = 0
    known_seen = set()
    for rec, clauses in falsified:
        key = ("tcp/" if rec.get("layer") == "tcp" else "eb/") + "+".join(clauses) + "/" + scenario_key(rec)
        hit = next((k for k in known if re.fullmatch(k["match"], key)), None)
        if hit is not None:
            if hit["id"] in known_seen:
                continue
            known_seen.add(hit["id"])
        else:
            n_unknown += 1
            if n_unknown > KNOWN_CAP:
                continue
        layer = rec.get("layer", "set")
        what = "real TcpTransport on loopback" if layer == "tcp" else "real EyeballSet"
        desc = f"{pid} falsified on the {what}: clauses {clauses}; scenario {json.dumps(rec['v'])}; observed {json.dumps(rec['o'])}"
        if layer == "tcp":
            desc += f"; row {rec.get('name')} api {rec.get('api')} local binding {rec.get('bind')} families {rec.get('families')}; {rec.get('msg', '')}"
        verdict.violation(key, desc, {"kind": "eyeballs", "layer": layer, "clauses": clauses,
                                      "records": [{"sid": rec["sid"], "name": rec.get("name"), "v": rec["v"], "o_recorded": rec["o"]}]})
    call = extra(verdict) if extra else None      # extension stage (own spec, same verdict)
    code, n_all = verdict.finish()
    if n_unknown > KNOWN_CAP:
        vlib.log(f"  ... {n_unknown} falsified records in total; the first {KNOWN_CAP} were written")
    return code, max(n_unknown, n_all), call


def run(pid, tier, seed, t0):
    T = TIERS[tier]
    od = vlib.outdir(pid)
    vec = os.path.join(od, f"vec-{tier}.txt")
    if os.path.exists(vec):
        os.remove(vec)

    # 1. model check + generation ------------------------------------------------------------------------------------
    m = vlib.tlc("MC_Eyeballs", T["cfg"], pid, workers=8, timeout=T["tlc_timeout"], coverage=True,
                 extra=["-userFile", vec])
    if m.violated in MODEL_INVS:
        # the model is fixed: a failing model invariant is a defect of the spec, not of /repo
        vlib.log(m.out[-4000:])
        raise vlib.ToolError(f"model invariant {m.violated} fails on spec/Eyeballs.tla")
    if not m.finished:
        vlib.log(m.out[-3000:])
        raise vlib.ToolError("TLC did not finish the model")
    cov = m.coverage()
    actions = ["StartInitial", "Complete", "PollFresh", "Exhausted", "StepTick", "Deadline", "Advance"]
    never = [a for a in actions if cov.get(a, (0, 0))[1] == 0]
    n_init = cov.get("Init", (0, 0))[0]

    # 1b. quick: a directed family with four attempts (same invariants, same generation)
    vecs = [vec]
    m4 = None
    if T["cfg4"]:
        vec4 = os.path.join(od, f"vec-{tier}-n4.txt")
        if os.path.exists(vec4):
            os.remove(vec4)
        m4 = vlib.tlc("MC_Eyeballs", T["cfg4"], pid, workers=4, timeout=600, coverage=True, extra=["-userFile", vec4])
        if m4.violated in MODEL_INVS or not m4.finished:
            vlib.log(m4.out[-4000:])
            raise vlib.ToolError(f"directed N=4 model: violated={m4.violated} finished={m4.finished}")
        vecs.append(vec4)

    # 1c. the TCP wiring layer: intended model (+ TCP-level vectors) and the two refuted variants
    tcpvec = os.path.join(od, "tcpvec.txt")
    if os.path.exists(tcpvec):
        os.remove(tcpvec)
    mt = vlib.tlc("MC_TcpEyeballs", "TcpEyeballs_quick.cfg", pid, workers=4, timeout=600, coverage=True, extra=["-userFile", tcpvec])
    if mt.violated is not None or not mt.finished:
        vlib.log(mt.out[-4000:])
        raise vlib.ToolError(f"TCP layer model spec/TcpEyeballs.tla: violated={mt.violated} finished={mt.finished}")
    variants = {}
    for name, cfg in (("EagerSetup", "TcpEyeballs_eager.cfg"), ("DelayFromDrainedList", "TcpEyeballs_drained.cfg")):
        rv = vlib.tlc("MC_TcpEyeballs", cfg, pid, workers=2, timeout=600)
        variants[name] = {"cfg": cfg, "tlc_refutes": rv.violated}
        if rv.violated is None:
            vlib.log(f"note: TLC no longer refutes the variant {name} (spec/TcpEyeballs.tla changed?)")

    # 2. every scenario on the real EyeballSet --------------------------------------------------------------------------
    args = ["run", "--out", od, "--seed", seed, "--sample", T["sample"], "--threads", T["threads"]]
    for vp in vecs:
        args += ["--vec", vp]
    if T["all"]:
        args.append("--all")
    summ = json.loads(vlib.run_harness("eyeballs", args, timeout=1800))
    obs = os.path.join(od, "obs.ndjson")
    if tier == "thorough":
        os.remove(vec)          # ~0.8 GB
    if summ["inexact_time"]:
        raise vlib.ToolError(f"{summ['inexact_time']} scenarios observed instants that are not multiples of the time unit")
    nrec = summ["selected"]
    # 2b. the TCP layer on loopback (both tiers)
    tcp_path = os.path.join(od, "tcp.ndjson")
    tcp = json.loads(vlib.run_harness("eyeballs", ["tcp", "--out", tcp_path, "--vec", tcpvec, "--tier", tier], timeout=600))
    with open(obs, "a") as f, open(tcp_path) as g:
        for line in g:
            f.write(line)
            nrec += 1
    if tcp["drift"]:
        vlib.log(f"DRIFT property={pid}: {tcp['drift']} loopback outcomes are not among the outcomes spec/TcpEyeballs.tla allows "
                 f"(no verdict); first: {json.dumps(tcp['drift_examples'][:1])}")
    if summ["drift"]:
        vlib.log(f"DRIFT property={pid}: {summ['drift']} of {summ['scenarios']} real observations are not among the "
                 f"observations spec/Eyeballs.tla allows (no verdict); first: {json.dumps(summ['drift_examples'][:1])}")

    # 3. the property formulas over the real observations, by TLC ---------------------------------------------------------
    falsified, mon = monitor(pid, obs, nrec)
    # TcpCall.tla: the whole transport call (URI -> host/port -> resolver -> sort -> eyeballs with per-attempt connect_timeout)
    import x_tcpcall
    code, n_unknown, call = report(pid, falsified, lambda v: x_tcpcall.stage(pid, tier, seed, v))

    mirror_flag = summ["mirror_flag_c10"] if pid == "C10" else summ["mirror_flag_c11"]
    n_init4 = m4.coverage().get("Init4", (0, 0))[0] if m4 else 0
    exhaustive = (summ["drift"] == 0 and n_init + n_init4 == summ["scenarios"] and not falsified)
    coverage = {
        "states": m.distinct + (m4.distinct if m4 else 0) + mt.distinct,
        "transitions": m.generated + (m4.generated if m4 else 0) + mt.generated, "depth": m.depth,
        "traces_validated_against_impl": nrec,
        "evaluations": summ["scenarios"],
        "distinct_nontrivial": summ["nontrivial"],
        "rule": "every scenario TLC enumerates in Init of spec/Eyeballs.tla on the tier's grid (attempt outcomes x latencies x "
                "delay x timeout x concurrency) is executed once on the real EyeballSet; distinct by construction; non-trivial = at "
                "least two attempts and at least one positive latency, delay or timeout",
        "exhaustive": exhaustive,
        "samples": summ["samples"],
        "model": {"module": "MC_Eyeballs", "cfg": T["cfg"], "invariants": list(MODEL_INVS), "initial_states": n_init,
                  "states": m.distinct, "terminal_observations": summ["pairs"], "tlc_wall_s": round(m.wall, 1)},
        "directed_n4_model": ({"cfg": T["cfg4"], "states": m4.distinct, "initial_states": n_init4,
                               "scenarios_with_4_attempts_run": summ["scenarios_with_4_attempts"]} if m4 else None),
        "tcp_call_model": call,
        "tcp_layer_model": {"module": "MC_TcpEyeballs", "cfg": "TcpEyeballs_quick.cfg", "states": mt.distinct,
                            "initial_states": mt.coverage().get("TcpInit", (0, 0))[0],
                            "invariants": ["TypeOK", "TcpC10Inv", "TcpC11Inv", "TcpDelayInv"], "refuted_variants": variants},
        "tlc_coverage": {a: list(cov.get(a, (0, 0))) for a in ["Init"] + actions},
        "actions_never_taken": never,
        "real_results": summ["kinds"],
        "conformant": summ["conform"],
        "drift": {"count": summ["drift"], "examples": summ["drift_examples"][:3],
                  "meaning": "real observation (result, completion instant, start instant+rank and drop instant of every attempt) not among "
                             "the model's terminal observations for that scenario"},
        "monitor": {"module": "EyeballsObs", "cfg": f"EyeballsObs_{pid}.cfg", "records": nrec,
                    "selection": ("all scenarios" if T["all"] else f"mirror-flagged + drifted + seeded sample of {T['sample']}") + " + all TCP-layer loopback records",
                    "falsified": len(falsified), "mirror_flagged": mirror_flag, "tlc_wall_s": round(mon.wall, 1)},
        "conc0_scenarios_using_the_max1_reading": summ["conc0_scenarios"],
        "tcp_layer": tcp,
        "repo_tree": vlib.repo_tree_id(),
    }
    vlib.write_evidence(pid, tier, seed, "model_checking", coverage, ASSUMPTIONS, time.time() - t0, n_unknown if code else 0)
    vlib.log(f"[{pid}] {tier}: model {m.distinct} states; {summ['scenarios']} scenarios on the real code, drift {summ['drift']}; "
             f"TLC monitor {nrec} records, falsified {len(falsified)}; exit {code}; {time.time()-t0:.0f}s")
    return code


def replay(pid, path):
    od = vlib.outdir(pid)
    doc = json.load(open(path))
    rp = doc.get("replay", doc)
    if rp.get("kind") == "tcpcall-row":
        import x_tcpcall
        code = x_tcpcall.replay(pid, doc)
        if code:
            print(f"VIOLATION property={pid} replay={path}", flush=True)
        return code
    out = os.path.join(od, "replay.ndjson")
    if rp.get("layer") == "tcp":
        tcpvec = os.path.join(od, "tcpvec-replay.txt")
        if os.path.exists(tcpvec):
            os.remove(tcpvec)
        vlib.tlc("MC_TcpEyeballs", "TcpEyeballs_quick.cfg", pid, workers=2, timeout=600, extra=["-userFile", tcpvec])
        vlib.run_harness("eyeballs", ["tcp", "--out", out, "--vec", tcpvec, "--tier", "thorough", "--only", os.path.abspath(path)], timeout=600)
    else:
        vlib.run_harness("eyeballs", ["one", "--in", os.path.abspath(path), "--out", out], timeout=300)
    n = len(vlib.read_ndjson(out))
    falsified, _ = monitor(pid, out, n)
    for rec, clauses in falsified:
        vlib.log(f"  still falsified: {clauses} scenario {json.dumps(rec['v'])} observed {json.dumps(rec['o'])}")
    if falsified:
        print(f"VIOLATION property={pid} replay={path}", flush=True)
        return 1
    vlib.log(f"[{pid}] replay: the property holds on the recorded scenario(s) on the current tree")
    return 0
