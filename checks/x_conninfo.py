"""Per-connection information and the make-service step (spec/ConnInfo.tla): a stage of C01, C09, C20, C07.

`stage(pid, tier, seed, verdict)` is called by the host check (checks/c_e2e.py for C01, checks/c_server.py for C09 and
C07, checks/c_sni.py for C20) and returns a dict of measured numbers that the host embeds in its evidence under
"conn_info_model".

Pipeline of one call:
  1. TLC model-checks ConnInfo.tla (the configurations of the tier, -coverage 1 on the small ones; the liveness clause
     I4_AcceptLive under fairness of the gates in its own configuration; the same formula WITHOUT that premise must fail:
     the stall of the accept loop behind a make future that stays Pending is real and by design) and seeded-defect
     variants of the model, each of which MUST be refuted (vacuity guard).  A failing model check of the intended
     design is a tool error, not a verdict on the crate.  ConnInfoAddr.tla (I5 vector part) is enumerated.
  2. TLC generates behaviours (simulation of MC_ConnInfoGen: environment steps at quiescent points only); harness bin
     `conninfo` replays their environment steps on the REAL hyperdriver::Server built through the public builder
     (with_connection_info / with_tls_connection_info in both orders, with_make_service / with_shared_service,
     ValidateSNI) over real duplex pairs with per-connection identities, TLS with a distinct server name per client;
     the observation after every settled step is compared with the model's: a mismatch is DRIFT (never a verdict).
  3. The harness adds directed schedules, seeded random walks over the really enabled actions with more connections
     and requests than the model bounds (deterministic: `id` and stock `duplex` acceptors), and a few runs over REAL
     TCP (IPv4 and dual-stack), and Unix listeners on per-process addresses (eventual outcomes only).
  4. spec/ConnInfoObs.tla (TLC) evaluates the clauses I1..I5 on every recorded observation: its findings decide.
     Only keys that belong to the text of the calling property are reported as violations (OWN below); every other
     falsified key is DRIFT.
  5. Self-test: a corrupted copy of a real recorded run rides along and must be flagged with the expected key;
     otherwise the machinery is broken: tool error.
`replay(pid, obj)` re-executes a replay object of kind "conninfo-trace" on the current tree through the same monitor.
"""
import collections
import concurrent.futures
import json
import os
import re
import subprocess
import time

import vlib

# which monitor keys (prefixes) belong to the text of which property -- conservative; the rest is DRIFT
OWN = {
    # "every request the server handles carries the ... the caller sent", "every response a caller receives is the one the
    # server produced for that caller's own request": what a request carries about its connection is that connection's, it
    # is handled by the service of its own connection, and the answer goes back to the asking client
    "C01": ("conninfo/I1-cross-info/addr-", "conninfo/I1-cross-info/service", "conninfo/I1-response-mismatch/"),
    # "passed to the application only if that host equals the server name THE CLIENT SENT in the TLS handshake ... and is then
    # marked as validated ... a request whose host does equal the server name is never rejected": behind the info layers,
    # with several connections, the name must be this connection's
    "C20": ("conninfo/I1-cross-info/tls-sni", "conninfo/I1-wrong-info/tls-sni", "conninfo/I1-sni-validation/"),
    # "neither stops the server from accepting new connections nor disturbs requests on other connections. The serving
    # future ends only on shutdown, on loss of the listener itself, or on a make-service failure."
    "C09": ("conninfo/I4-ended/", "conninfo/I4-disturbed/", "conninfo/I4-accept-blocked/", "conninfo/I4-not-served/running",
            "conninfo/I4-started-request-unanswered/running", "conninfo/I4-started-request-unanswered/errmake"),
    # "Once the shutdown signal resolves the server accepts and serves no further connections ... Every request the server
    # had already started to handle still receives its complete response"
    "C07": ("conninfo/I3-make-after-signal", "conninfo/I4-started-request-unanswered/ok"),
}
BUGS = {
    "start": ("the connection info is captured once (first accepted stream) and reused for every connection", {"I1_NoCrossInfo"}),
    "slot": ("the connection info is read at request time from a slot overwritten by every accept", {"I1_NoCrossInfo"}),
    "tlsslot": ("the TLS-info receiver is taken from a slot overwritten by every accept", {"I1_NoCrossInfo", "I2_Presence"}),
    "tlsearly": ("the TLS info is published at accept time, before the ClientHello was read", {"I1_NoCrossInfo"}),
    "perreq": ("the make-service is called again for every request", {"I3_MakeOnce"}),
    "hsfatal": ("a failed TLS handshake ends the serving future", {"I4_EndsOnlyOnAllowed", "I4_Confined"}),
    "sigblind": ("the signal is not looked at before every step of the accept loop", {"I3_NoMakeAfterSignal"}),
}
QUICK_BUGS = {
    "C01": ["start", "slot", "perreq"],
    "C20": ["tlsslot", "tlsearly", "slot"],
    "C09": ["hsfatal", "perreq", "start"],
    "C07": ["sigblind", "perreq", "slot"],
}
ACTIONS = ["Connect", "Hs", "HsFail", "Send", "Gate", "Close", "EnvReady", "EnvMake", "Signal",
           "LoopSignal", "Prepare", "Accept", "MakeDone", "MakeFail", "HsDone", "HsBroken", "Arrive", "TlsGot"]
MODEL_PROPS = ["TypeOK", "I1_NoCrossInfo", "I1_Stable", "I1_SniOfThisConn", "I2_Presence", "I3_MakeOnce", "I3_MakeArg",
               "I3_NoMakeAfterSignal", "I3_NotShared", "I3_HandledByOwn", "I4_EndsOnlyOnAllowed", "I4_Confined (action)",
               "I4_ServedOn (action)", "I4_AcceptLive (temporal, ConnInfo_live.cfg, fairness of the loop and of the gates)",
               "ConnInfoAddr: Idempotent, NoMappedLeft, RoundTrip"]
ASSUMPTIONS = [
    "conninfo: the application, the make-service double (poll_ready gate, gated future), the executor, the signal future and the "
    "acceptor wrapper are harness code at public trait boundaries; hyper's HTTP/1 and HTTP/2 connection machinery runs for real "
    "behind the crate's auto protocol (wrapped once in a boxing Protocol, so the per-connection service reaches hyper as a "
    "BoxCloneService: the per-request `clone()` of bridge/service.rs is the real one).",
    "conninfo: deterministic runs use a paused current-thread runtime and settle (1 ms of paused time) after every step; "
    "behaviours that need two threads inside one poll are out of reach.  TCP / Unix runs use real sockets and a quiescence "
    "heuristic; only eventual-outcome clauses apply there.",
    "conninfo: identities: one real stream::duplex pair per client behind a core acceptor that labels the accepted stream "
    "(IdAddr::Peer(k)); a distinct server name per client; client and request ids in headers.  The TLS-info channel itself "
    "(info/tls.rs, requests that wait for the handshake, cancellation) is the subject of Sni.tla ConnSpec, not redone here: on "
    "the server path a request can only arrive after the handshake.",
    "conninfo: the typemap of request extensions cannot hold two values of one type, so 'exactly once' is observed as 'present, and "
    "the application ran once per request'.",
]


def _tier(tier, pid):
    if tier == "quick":
        return dict(models=[("ConnInfo_quick.cfg", 1, True), ("ConnInfo_quick2.cfg", 1, False), ("ConnInfo_ready.cfg", 1, True)],
                    live="ConnInfo_live.cfg", stall="ConnInfo_stall.cfg", bugs=QUICK_BUGS[pid],
                    gen=[("ConnInfo_gen.cfg", 60, 300)], maxbeh=60,
                    walk=dict(runs=48, steps=40, maxconn=8), sock=dict(runs=3, steps=14, maxconn=4), mc_timeout=300, pool=4)
    return dict(models=[("ConnInfo_quick.cfg", 1, True), ("ConnInfo_quick2.cfg", 1, False), ("ConnInfo_ready.cfg", 1, True),
                        ("ConnInfo_shared.cfg", 1, True), ("ConnInfo_mid.cfg", 1, False), ("ConnInfo_thorough.cfg", 2, False),
                        ("ConnInfo_thorough2.cfg", 2, False)],
                live="ConnInfo_live.cfg", stall="ConnInfo_stall.cfg", bugs=list(BUGS),
                gen=[("ConnInfo_gen.cfg", 1400, 300), ("ConnInfo_gen_ready.cfg", 300, 300)], maxbeh=1600,
                walk=dict(runs=1500, steps=60, maxconn=8), sock=dict(runs=60, steps=30, maxconn=6), mc_timeout=2400, pool=3, chunk=20000)


def _d(pid):
    d = os.path.join(vlib.outdir(pid), "conninfo")
    os.makedirs(d, exist_ok=True)
    return d


def _certs(pid):
    """A throw-away self-signed server certificate (the harness clients accept any certificate)."""
    d = os.path.join(_d(pid), "certs")
    os.makedirs(d, exist_ok=True)
    cert = os.path.join(d, "cert.pem")
    if os.path.exists(cert) and os.path.exists(os.path.join(d, "key.pem")) and time.time() - os.path.getmtime(cert) < 86400:
        return d
    p = subprocess.run(["openssl", "req", "-x509", "-newkey", "ec", "-pkeyopt", "ec_paramgen_curve:P-256", "-nodes",
                        "-keyout", os.path.join(d, "key.pem"), "-out", cert, "-days", "30",
                        "-subj", "/CN=verif conninfo", "-addext", "subjectAltName=DNS:example.com"],
                       stdout=subprocess.PIPE, stderr=subprocess.STDOUT, text=True, timeout=120)
    if p.returncode != 0 or not os.path.exists(cert):
        vlib.log(p.stdout[-2000:])
        raise vlib.ToolError("openssl could not generate the test certificate")
    return d


# ------------------------------------------------------------------------------------------------
def _model(pid, cfg, workers, cov, timeout):
    r = vlib.tlc("MC_ConnInfo", cfg, pid, workers=workers, timeout=timeout, coverage=cov, xmx="4g")
    if r.violated or not r.finished:
        vlib.log(r.out[-3000:])
        raise vlib.ToolError(f"ConnInfo.tla ({cfg}) does not satisfy {r.violated}: the specification needs attention "
                             "(a model counterexample is not a verdict on the crate)")
    return r


def _live(pid, cfg, timeout):
    r = vlib.tlc("MC_ConnInfo", cfg, pid, workers=1, timeout=timeout, xmx="2g")
    if r.violated or not r.finished or "Temporal properties were violated" in r.out or "was violated" in r.out:
        vlib.log(r.out[-3000:])
        raise vlib.ToolError(f"ConnInfo.tla ({cfg}): I4_AcceptLive fails although the make-service always answers")
    return r


def _stall(pid, cfg, timeout):
    """The same liveness formula without the premise: it MUST fail (the accept loop stalls behind a Pending make-service)."""
    r = vlib.tlc("MC_ConnInfo", cfg, pid, workers=1, timeout=timeout, xmx="2g")
    if "Temporal property I4_AcceptLive was violated" not in r.out and "Temporal properties were violated" not in r.out:
        vlib.log(r.out[-3000:])
        raise vlib.ToolError(f"ConnInfo.tla ({cfg}): the stall behind a pending make-service is not reproduced by the model")
    return r


def _bug(pid, b):
    r = vlib.tlc("MC_ConnInfo", f"ConnInfo_bug_{b}.cfg", pid, workers=1, timeout=300, xmx="2g")
    if r.violated not in BUGS[b][1]:
        vlib.log(r.out[-2000:])
        raise vlib.ToolError(f"vacuity guard: the model with seeded defect '{b}' is not refuted by one of {sorted(BUGS[b][1])} (TLC: {r.violated})")
    return r


def _gen(pid, cfg, num, depth, seed):
    # one worker: the simulation is then a function of the seed
    r = vlib.tlc("MC_ConnInfoGen", cfg, pid, workers=1, simulate=num, depth=depth, seed=seed, timeout=900, xmx="3g")
    beh = r.printed("REPLAY")
    if r.violated or not beh:
        vlib.log(r.out[-3000:])
        raise vlib.ToolError(f"generation config {cfg} produced no behaviours")
    return beh


def _addr(pid):
    r = vlib.tlc("ConnInfoAddr", "ConnInfoAddr_gen.cfg", pid, workers=1, timeout=300, xmx="1g")
    v = r.printed("ADDRVEC")
    if r.violated or not r.finished or not v:
        vlib.log(r.out[-3000:])
        raise vlib.ToolError(f"ConnInfoAddr.tla: the vector spec violates its own properties ({r.violated}) or printed nothing")
    return sorted(v, key=lambda o: json.dumps(o, sort_keys=True)), r


def _harness(args, timeout=1800):
    so = vlib.run_harness("conninfo", args, timeout=timeout)
    return json.loads(so.strip().splitlines()[-1])


# ------------------------------------------------------------------------------------------------
# model behaviours -> harness schedules
ENVMAP = {"Connect": "Connect", "Hs": "Hs", "HsFail": "HsFail", "Send": "Send", "Gate": "Gate", "Close": "Close",
          "Ready": "Ready", "Make": "Make", "Signal": "Signal"}


def convert(beh, n, src="model"):
    """One generated behaviour -> (harness schedule, [expected model observation after each environment step])."""
    cfg = beh["cfg"]
    kinds = beh["kind"]
    steps, exp = [], []
    hist = beh["steps"]
    for i, s in enumerate(hist):
        if not s["env"]:
            continue
        e = s["ev"]
        # the observation the real server is compared with: the next quiescent point
        j = i
        while j + 1 < len(hist) and not hist[j + 1]["env"]:
            j += 1
        steps.append({"a": ENVMAP[e["a"]], "c": e["c"], "k": e["k"], "x": e["x"]})
        exp.append(hist[j]["obs"] if hist[j]["q"] else None)
    sched = {"id": f"m-{n}", "src": src, "acc": "id", "tls": bool(kinds[0]["tls"]), "ci": cfg["ci"], "ti": cfg["ti"],
             "order": "ci-tls" if n % 2 == 0 else "tls-ci", "shared": cfg["shared"], "sni": cfg["sni"], "graceful": True,
             "ready_gated": beh["gates"]["ready"], "make_gated": beh["gates"]["make"], "app_gated": beh["gates"]["app"],
             "clients": [{"sni": k["sni"], "alpn": k["alpn"], "proto": k["proto"]} for k in kinds],
             "nreq": len(beh["host"][0]), "steps": steps}
    return sched, exp


def _peer(s):
    m = re.fullmatch(r"id:peer:(\d+)", s or "")
    return int(m.group(1)) if m else 0


def _label(sni):
    m = re.fullmatch(r"([a-z]+)\d+\.test", sni or "")
    return m.group(1) if m else "none"


def compare(exp, obs, reset):
    """Model observation vs the real one after the same environment step; returns a list of differing fields."""
    diff = []
    if exp is None:
        return diff
    if exp["srv"] != obs["srv"]:
        diff.append(f"srv {exp['srv']}!={obs['srv']}")
    shared = reset["cfg"]["shared"]
    n = len(reset["clients"])
    accepted = {_peer(a["remote"]) for a in obs["accepts"]}
    for c in range(1, n + 1):
        cst = exp["cst"][c - 1]
        if (cst not in ("idle", "queued")) != (c in accepted):
            diff.append(f"accepted[{c}] model={cst}")
        if not shared:
            real = sum(1 for m in obs["makes"] if _peer(m["remote"]) == c)
            if real != exp["nmk"][c - 1]:
                diff.append(f"nmk[{c}] {exp['nmk'][c - 1]}!={real}")
        cn = obs["conns"][c - 1]
        if (exp["hs"][c - 1] == "done") != (cn["tlsc"] == "ok"):
            diff.append(f"hs[{c}] model={exp['hs'][c - 1]} real={cn['tlsc']}")
        byk = {q["k"]: q for q in cn["reqs"]}
        for k, mst in enumerate(exp["rq"][c - 1], start=1):
            q = byk.get(k)
            if q is None:
                real = "none"
            elif q["rej"]:
                real = "rejected"
            elif q["app"] == 0:
                real = "sent"
            elif not q["appDone"]:
                real = "app"
            else:
                real = "done"
            if real != mst:
                diff.append(f"rq[{c}][{k}] {mst}!={real}")
                continue
            if q is not None and q["app"] > 0:
                mx = exp["ext"][c - 1][k - 1]
                if mx["ci"] != _peer(q["ciRemote"]):
                    diff.append(f"ext.ci[{c}][{k}] {mx['ci']}!={q['ciRemote']}")
                msni = mx["tls"]["sni"] if mx["tls"]["of"] else ""
                rsni = (_label(q["tlsSni"]) if q["tlsHasSni"] else "none") if q["hasTls"] else ""
                if msni != rsni:
                    diff.append(f"ext.tls.sni[{c}][{k}] {msni!r}!={rsni!r}")
                malpn = mx["tls"]["alpn"] if mx["tls"]["of"] else ""
                if malpn != (q["tlsAlpn"] if q["hasTls"] else ""):
                    diff.append(f"ext.tls.alpn[{c}][{k}] {malpn!r}!={q['tlsAlpn']!r}")
                rsvc = 0 if shared else (_peer(obs["makes"][q["tag"] - 1]["remote"]) if 0 < q["tag"] <= len(obs["makes"]) else -1)
                if mx["svc"] != rsvc:
                    diff.append(f"ext.svc[{c}][{k}] {mx['svc']}!={rsvc}")
    return diff


# ------------------------------------------------------------------------------------------------
# directed schedules (positions the simulation reaches rarely)
def directed():
    def st(a, c=0, k=0, x=""):
        return {"a": a, "c": c, "k": k, "x": x}
    tls3 = [{"sni": "a", "alpn": "h1", "proto": "h1"}, {"sni": "b", "alpn": "h2", "proto": "h2"}, {"sni": "none", "alpn": "none", "proto": "h1"}]
    plain3 = [{"proto": "h1"}, {"proto": "h2"}, {"proto": "h1"}]
    base = dict(src="directed", acc="id", tls=True, ci=True, ti=True, order="ci-tls", shared=False, sni=True, graceful=True, nreq=2)
    out = []
    # a burst of connects queued behind a gated make-service: accepts, handshakes and requests interleaved
    burst = [st("Connect", 1), st("Connect", 2), st("Connect", 3), st("Hs", 3), st("Hs", 1), st("Make", x="ok"), st("Send", 1, 1, "own"),
             st("Hs", 2), st("Make", x="ok"), st("Send", 2, 1, "own"), st("Send", 2, 2, "own"), st("Make", x="ok"), st("Send", 3, 1, "own"),
             st("Send", 1, 2, "other"), st("Send", 3, 2, "own")]
    for order in ("ci-tls", "tls-ci"):
        out.append(dict(base, id=f"d-burst-{order}", order=order, make_gated=True, clients=tls3, steps=burst))
    out.append(dict(base, id="d-burst-appgated", make_gated=True, app_gated=True, clients=tls3,
                    steps=burst + [st("Gate", 2, 2), st("Gate", 1, 1), st("Gate", 3, 1), st("Gate", 2, 1)]))
    # a stalled / failed handshake with the info layers configured: the next client is accepted and served
    out.append(dict(base, id="d-hs-stalled", clients=tls3,
                    steps=[st("Connect", 1), st("Connect", 2), st("Hs", 2), st("Send", 2, 1, "own"), st("Connect", 3), st("HsFail", 3),
                           st("Send", 2, 2, "own"), st("Hs", 1), st("Send", 1, 1, "own")]))
    # the signal while a connection sits in State::Making; a make error with a request of another connection in flight
    out.append(dict(base, id="d-signal-making", make_gated=True, app_gated=True, clients=tls3,
                    steps=[st("Connect", 1), st("Make", x="ok"), st("Hs", 1), st("Send", 1, 1, "own"), st("Connect", 2), st("Signal"), st("Gate", 1, 1)]))
    out.append(dict(base, id="d-make-err-inflight", make_gated=True, app_gated=True, clients=tls3,
                    steps=[st("Connect", 1), st("Make", x="ok"), st("Hs", 1), st("Send", 1, 1, "own"), st("Connect", 2), st("Make", x="err"), st("Gate", 1, 1)]))
    out.append(dict(base, id="d-make-err-plain-serving", graceful=False, make_gated=True, app_gated=True, clients=tls3,
                    steps=[st("Connect", 1), st("Make", x="ok"), st("Hs", 1), st("Send", 1, 1, "own"), st("Connect", 2), st("Make", x="err"), st("Gate", 1, 1),
                           st("Send", 1, 2, "own"), st("Gate", 1, 2)]))
    # a client that connects after the signal: nobody accepts it, no service is made for it
    out.append(dict(base, id="d-connect-after-signal", clients=tls3,
                    steps=[st("Connect", 1), st("Hs", 1), st("Send", 1, 1, "own"), st("Signal"), st("Connect", 2), st("Hs", 2), st("Send", 2, 1, "own"), st("Connect", 3)]))
    out.append(dict(base, id="d-connect-after-signal-plain", tls=False, sni=False, make_gated=True, clients=plain3,
                    steps=[st("Connect", 1), st("Make", x="ok"), st("Send", 1, 1, "own"), st("Signal"), st("Connect", 2), st("Send", 2, 1, "own"), st("Connect", 3)]))
    # poll_ready: pending, then an error
    out.append(dict(base, id="d-ready", ready_gated=True, clients=tls3,
                    steps=[st("Connect", 1), st("Ready", x="ok"), st("Hs", 1), st("Send", 1, 1, "own"), st("Connect", 2), st("Ready", x="ok"), st("Hs", 2),
                           st("Send", 2, 1, "own"), st("Ready", x="err")]))
    # plain listeners: stock duplex acceptor (anonymous addresses), shared service, no layers
    for i, (ci, ti, shared) in enumerate([(True, True, True), (True, False, False), (False, False, True), (False, True, False)]):
        out.append(dict(base, id=f"d-plain-{i}", acc="duplex" if i % 2 == 0 else "id", tls=False, ci=ci, ti=ti, shared=shared, sni=bool(i % 2), clients=plain3,
                        steps=[st("Connect", 1), st("Connect", 2), st("Send", 2, 1, "own"), st("Send", 1, 1, "own"), st("Connect", 3), st("Send", 3, 1, "own"),
                               st("Send", 2, 2, "own"), st("Send", 1, 2, "own"), st("Close", 2), st("Send", 3, 2, "own")]))
    return out


# ------------------------------------------------------------------------------------------------
def _runs_of(recs):
    """[(base (1-based index of the Reset record), [records of the run])]"""
    runs = []
    for i, r in enumerate(recs):
        if r["e"] == "Reset":
            runs.append((i + 1, [r]))
        elif runs:
            runs[-1][1].append(r)
    return runs


def _replay_obj(run, key):
    return {"kind": "conninfo-trace", "key": key, "schedule": run[0].get("sched")}


def _summ(run, upto=None):
    out = []
    for r in run[1:]:
        s = r["step"]
        x = s["a"]
        if s["c"] or s["k"] or s["x"]:
            x += "(" + ",".join(str(v) for v in (s["c"], s["k"], s["x"]) if v) + ")"
        if not s["applied"]:
            x = "skip:" + x
        out.append(x)
    return " ".join(out[:upto] if upto else out)


def _monitor(pid, trace, nrecs, tag):
    r = vlib.tlc_trace("ConnInfoObs", "ConnInfoObs.cfg", pid, trace, timeout=2400, xmx="6g")
    if r.violated == "Sane":
        raise vlib.ToolError("monitor: malformed trace record")
    if not r.finished or r.distinct != nrecs + 1:
        vlib.log(r.out[-3000:])
        raise vlib.ToolError(f"monitor ({tag}) looked at {r.distinct - 1} of {nrecs} records")
    v = r.printed("VIOL")
    info = r.printed("INFO")
    if len(v) != 1 or len(info) != 1:
        raise vlib.ToolError(f"monitor ({tag}) printed {len(v)} reports")
    return v[0], info[0], r


def _monitor_chunked(pid, d, recs, chunk):
    """The monitor over all records, in pieces of whole runs (TLC's JSON reader and a 6 GB heap set the size of a piece);
    record numbers in the findings are made global again."""
    pieces, cur, start = [], [], 0
    for i, r in enumerate(recs):
        if r["e"] == "Reset" and len(cur) >= chunk:
            pieces.append((start, cur))
            cur, start = [], i
        cur.append(r)
    pieces.append((start, cur))
    viol, info, wall = [], {"judged": 0, "stall_observations": 0}, 0.0
    for n, (off, part) in enumerate(pieces):
        path = os.path.join(d, "trace_all.ndjson" if len(pieces) == 1 else f"trace_all_{n}.ndjson")
        vlib.write_ndjson(path, part)
        v, inf, r = _monitor(pid, path, len(part), f"piece {n + 1}/{len(pieces)}")
        for e in v:
            e["l"] += off
        viol += v
        for k in info:
            info[k] += inf.get(k, 0)
        wall += r.wall
        if len(pieces) > 1:
            os.remove(path)
    return viol, info, wall


def _corrupt(run, pid):
    """A corrupted copy of a real run that the monitor must flag for this property."""
    run = json.loads(json.dumps(run))
    reset = run[0]
    cfg = reset.get("cfg", {})
    ncl = len(reset.get("clients", []))
    for i, r in enumerate(run[1:], start=1):
        for cn in r["conns"]:
            for q in cn["reqs"]:
                if pid == "C01" and cfg.get("ci") and cfg.get("acc") == "id" and ncl >= 2 and q["app"] > 0 and q["hasCi"]:
                    other = reset["clients"][cn["c"] % ncl]["expRemote"]
                    if other and other != q["ciRemote"]:
                        for x in run[i:]:
                            for qq in x["conns"][cn["c"] - 1]["reqs"]:
                                if qq["k"] == q["k"]:
                                    qq["ciRemote"] = other
                                    qq["respCiRemote"] = other
                        return run, "conninfo/I1-cross-info/addr-remote", "a request recorded with the remote address of another connection"
                if pid == "C20" and cfg.get("ti") and cfg.get("tls") and ncl >= 2 and q["app"] > 0 and q["hasTls"]:
                    oc = reset["clients"][cn["c"] % ncl]
                    if oc["hasSni"] and oc["sni"] != q["tlsSni"]:
                        for x in run[i:]:
                            for qq in x["conns"][cn["c"] - 1]["reqs"]:
                                if qq["k"] == q["k"]:
                                    qq["tlsSni"], qq["tlsHasSni"], qq["respTlsSni"] = oc["sni"], True, oc["sni"]
                        return run, "conninfo/I1-cross-info/tls-sni", "a request recorded with the server name another connection sent"
        if pid == "C09" and r["srv"] == "running" and not r["sigFired"] and r["kind"] == "step" and i > 2:
            for x in run[i:]:
                x["srv"] = "errmake"
                x["decidedErr"] = False
            return run, "conninfo/I4-ended/errmake-without-cause", "the serving future recorded as ended with a make-service error nobody injected"
        if pid == "C07" and r["sigFired"] and r["makes"]:
            for x in run[i:]:
                x["makes"][-1]["seq"] = x["sigFireSeq"] + 1
            return run, "conninfo/I3-make-after-signal", "a make-service call recorded after the signal"
    return None, None, None


def _self_test_run(pid, recs):
    for _, run in _runs_of(recs):
        if len(run) < 4 or "cfg" not in run[0]:
            continue
        bad, want, what = _corrupt(run, pid)
        if bad is not None:
            bad[0]["src"] = "self-test"
            return bad, want, what
    # nothing recorded lends itself to the corruption (e.g. no request got through at all): a synthetic run
    bad, want, what = _corrupt(_synthetic(), pid)
    if bad is None:
        raise vlib.ToolError("self-test: no run is suitable for corruption")
    bad[0]["src"] = "self-test"
    return bad, want, what + " (synthetic run)"


def _synthetic():
    """A hand-made, well-behaved run (two TLS clients, one answered request each, then the signal)."""
    cl = [{"c": c, "sni": f"{l}{c}.test", "hasSni": True, "sniLabel": l, "alpn": "h1", "proto": "h1", "named": True,
           "expLocal": "id:listener", "expRemote": f"id:peer:{c}", "expRemoteMapped": ""} for c, l in ((1, "a"), (2, "b"))]
    reset = {"e": "Reset", "run": 0, "id": "synthetic", "src": "self-test", "det": True, "listen": "id:listener", "listenMapped": "",
             "cfg": {"acc": "id", "tls": True, "ci": True, "ti": True, "order": "ci-tls", "shared": False, "sni": True, "graceful": True,
                     "readyGated": False, "makeGated": False, "appGated": False, "nreq": 1}, "clients": cl, "sched": {}}

    def req(c, sni):
        return {"k": 1, "own": True, "app": 1, "appSeq": 10 + c, "tag": c, "appDone": True, "rej": False, "hasCi": True, "ciLocal": "id:listener",
                "ciRemote": f"id:peer:{c}", "hasTls": True, "tlsHasSni": True, "tlsSni": sni, "tlsAlpn": "h1", "tlsValid": True, "resp": True, "status": 200,
                "respErr": False, "respC": c, "respK": 1, "respTag": c, "respHasCi": True, "respCiRemote": f"id:peer:{c}", "respCiLocal": "id:listener",
                "respHasTls": True, "respTlsSni": sni}

    def obs(i, a, sig):
        return {"e": "Obs", "i": i, "kind": "step", "det": True, "step": {"a": a, "c": 0, "k": 0, "x": "", "applied": True},
                "srv": "ok" if sig else "running", "srvErr": "", "sigFired": sig, "sigFireSeq": 50 if sig else 0, "sigSeq": 51 if sig else 0, "decidedErr": False,
                "readyPolls": 3, "readyOks": 3, "readyErrs": 0, "readyWaiting": False,
                "accepts": [{"seq": 1, "local": "id:listener", "remote": "id:peer:1"}, {"seq": 5, "local": "id:listener", "remote": "id:peer:2"}], "acceptErrs": 0,
                "makes": [{"seq": 2, "local": "id:listener", "remote": "id:peer:1", "decided": True, "done": "ok", "doneSeq": 3, "afterSig": False},
                          {"seq": 6, "local": "id:listener", "remote": "id:peer:2", "decided": True, "done": "ok", "doneSeq": 7, "afterSig": False}],
                "serves": 2, "spawned": 2, "finished": 0, "odd": 0, "panics": 0, "events": [],
                "conns": [{"c": c, "st": "open", "hs": "go", "tlsc": "ok", "alpnc": "h1", "eof": False, "h2ready": False, "extra": 0, "reqs": [req(c, cl[c - 1]["sni"])]}
                          for c in (1, 2)]}
    return [reset, obs(1, "Send", False), obs(2, "Send", False), obs(3, "Send", False), obs(4, "Signal", True)]


def _owned(pid, key):
    return any(key.startswith(p) for p in OWN[pid])


def _report(pid, viol, recs, verdict):
    """Violations of this property's clauses -> verdict; returns ({key: count} for all keys, keys reported, unowned keys)."""
    by_key = collections.OrderedDict()
    for v in viol:
        by_key.setdefault(v["key"], []).append(v)
    runs = _runs_of(recs)
    bases = [b for b, _ in runs]

    def run_of(lno):
        idx = max(i for i, b in enumerate(bases) if b <= lno)
        return runs[idx]
    mine, other = [], []
    for key, lst in by_key.items():
        if not _owned(pid, key):
            other.append(key)
            continue
        cands = [(run_of(v["l"]), v) for v in lst]
        (base, run), v = min(cands, key=lambda t: (len(t[0][1]), t[0][0]))       # the shortest failing run of the class
        at = v["l"] - base
        bad = run[at] if at < len(run) else {}
        show = {k: bad.get(k) for k in ("step", "srv", "srvErr", "sigFired", "decidedErr", "accepts", "makes", "events")}
        conn = bad.get("conns", [{}] * max(v["c"], 1))[v["c"] - 1] if v["c"] else {}
        desc = (f"conninfo: clause {key} false at record {at} of run {run[0].get('id')} [{run[0].get('src')}; {json.dumps(run[0].get('cfg'))}] "
                f"(connection {v['c']}, request {v['k']}); {len(lst)} violating run(s) in this class; observation: {json.dumps(show)[:1500]}; "
                f"connection: {json.dumps(conn)[:1200]}; clients: {json.dumps(run[0].get('clients'))[:800]}; history: {_summ(run, at)[-700:]}")
        obj = _replay_obj(run, key)
        obj["failing_record"] = at
        verdict.violation(key, desc, obj)
        mine.append(key)
    return {k: len(v) for k, v in by_key.items()}, mine, other


def stage(pid, tier, seed, verdict):
    t0 = time.time()
    if pid not in OWN:
        raise vlib.ToolError("x_conninfo.stage: pid must be one of " + ", ".join(sorted(OWN)))
    cfg = _tier(tier, pid)
    nomodel = bool(os.environ.get("VERIF_CONNINFO_DEV_NOMODEL"))      # development only (mutant trials): skip the pure model runs
    if nomodel:
        cfg.update(models=[], bugs=[], live=None, stall=None)
    d = _d(pid)
    vlib.build_harness("conninfo")
    t_build = time.time() - t0
    certs = _certs(pid)
    ex = concurrent.futures.ThreadPoolExecutor(max_workers=cfg["pool"])
    f_gen = [ex.submit(_gen, pid, g, num, depth, seed) for g, num, depth in cfg["gen"]]
    f_addr = ex.submit(_addr, pid)
    f_models = [(c, ex.submit(_model, pid, c, w, cov, cfg["mc_timeout"])) for c, w, cov in cfg["models"]]
    f_live = ex.submit(_live, pid, cfg["live"], cfg["mc_timeout"]) if cfg["live"] else None
    f_stall = ex.submit(_stall, pid, cfg["stall"], cfg["mc_timeout"]) if cfg["stall"] else None
    f_bugs = {b: ex.submit(_bug, pid, b) for b in cfg["bugs"]}
    try:
        # 3. walks and directed schedules (do not depend on TLC: start at once)
        w, sk = cfg["walk"], cfg["sock"]
        tr_walk = os.path.join(d, "trace_walk.ndjson")
        s_walk = _harness(["walk", "--seed", seed, "--runs", w["runs"], "--steps", w["steps"], "--maxconn", w["maxconn"], "--acc", "id,id,duplex",
                           "--out", tr_walk, "--certdir", certs, "--scratch", d])
        tr_sock = os.path.join(d, "trace_sock.ndjson")
        s_sock = _harness(["walk", "--seed", seed + 7, "--runs", sk["runs"], "--steps", sk["steps"], "--maxconn", sk["maxconn"], "--acc", "tcp,unix,tcp6",
                           "--out", tr_sock, "--certdir", certs, "--scratch", d])
        dir_in = os.path.join(d, "directed.ndjson")
        dsched = directed()
        vlib.write_ndjson(dir_in, dsched)
        tr_dir = os.path.join(d, "trace_directed.ndjson")
        s_dir = _harness(["replay", "--in", dir_in, "--out", tr_dir, "--certdir", certs, "--scratch", d])
        # 2. behaviours from the model -> the real code
        got = []
        for f in f_gen:
            got += f.result()
        seen, uniq = set(), []
        for b in sorted(got, key=lambda o: json.dumps(o, sort_keys=True)):      # (print order is not deterministic)
            env = [st["ev"] for st in b["steps"] if st["env"]]
            s = json.dumps([b["cfg"], b["kind"], b["host"], env], sort_keys=True)
            if s not in seen and env:
                seen.add(s)
                uniq.append(b)
        uniq.sort(key=lambda b: (-len(b["steps"]), json.dumps(b, sort_keys=True)))      # a deterministic sample, longest first
        uniq = uniq[:cfg["maxbeh"]]
        if len(uniq) < 10:
            raise vlib.ToolError(f"TLC generated only {len(uniq)} behaviours")
        conv = [convert(b, n) for n, b in enumerate(uniq)]
        beh_in = os.path.join(d, "behaviours.ndjson")
        vlib.write_ndjson(beh_in, [c[0] for c in conv])
        tr_replay = os.path.join(d, "trace_replay.ndjson")
        s_replay = _harness(["replay", "--in", beh_in, "--out", tr_replay, "--certdir", certs, "--scratch", d])
        recs_replay = vlib.read_ndjson(tr_replay)
        # step-wise comparison with the model (DRIFT only)
        drift, drift_beh, compared, samples_drift, skipped_steps = 0, 0, 0, [], 0
        rr = _runs_of(recs_replay)
        if len(rr) != len(conv):
            raise vlib.ToolError(f"harness replayed {len(rr)} of {len(conv)} behaviours")
        for (_, run), (sched, exp) in zip(rr, conv):
            if "cfg" not in run[0]:
                drift_beh += 1
                samples_drift.append({"run": run[0].get("id"), "what": "the run did not complete", "reset": {k: run[0].get(k) for k in ("hang", "harnessPanic", "wedged")}})
                continue
            bad = 0
            for n, e in enumerate(exp):
                o = run[1 + n]
                if not o["step"]["applied"]:
                    skipped_steps += 1
                    bad += 1
                    if len(samples_drift) < 12:
                        samples_drift.append({"run": run[0]["id"], "step": n + 1, "what": "step not applicable in the real state", "ev": o["step"]})
                    break
                df = compare(e, o, run[0])
                compared += 1
                if df:
                    bad += len(df)
                    if len(samples_drift) < 12:
                        samples_drift.append({"run": run[0]["id"], "step": n + 1, "ev": o["step"], "diff": df[:6], "history": _summ(run, n + 1)[-300:]})
                    break         # what follows a first mismatch is a consequence
            drift += bad
            drift_beh += 1 if bad else 0
        # I5 vectors on the real conversions
        vecs, r_addr = f_addr.result()
        vec_in = os.path.join(d, "vectors.ndjson")
        vlib.write_ndjson(vec_in, vecs)
        tr_vec = os.path.join(d, "trace_vectors.ndjson")
        s_vec = _harness(["vectors", "--in", vec_in, "--out", tr_vec])
        if s_vec["vectors"] != len(vecs):
            raise vlib.ToolError(f"harness executed {s_vec['vectors']} of {len(vecs)} address vectors")
        # 4. the monitor decides (5. self-test: a corrupted copy of a real run rides along as the last run)
        recs_walk = vlib.read_ndjson(tr_walk)
        recs_sock = vlib.read_ndjson(tr_sock)
        recs_dir = vlib.read_ndjson(tr_dir)
        recs_vec = vlib.read_ndjson(tr_vec)
        recs = recs_replay + recs_dir + recs_walk + recs_sock + [{"e": "Reset", "run": 0, "id": "vectors", "src": "vectors"}] + recs_vec
        st_run, st_want, st_what = _self_test_run(pid, recs_dir + recs_walk + recs_replay)
        viol_all, info, mon_wall = _monitor_chunked(pid, d, recs + st_run, cfg.get("chunk", 30000))
        st_viol = sorted({v["key"] for v in viol_all if v["src"] == "self-test"})
        viol = [v for v in viol_all if v["src"] != "self-test"]
        if st_want not in st_viol:
            raise vlib.ToolError(f"self-test: the monitor does not flag a corrupted trace (expected {st_want}, got {st_viol})")
        counts, mine, other = _report(pid, viol, recs, verdict)
        selft = {"corruption": st_what, "expected_key": st_want, "monitor_flagged": st_viol}
        # 1. model results
        models = {}
        tot_s = tot_t = 0
        cov = collections.Counter()
        cov_d = collections.Counter()
        cov_cfgs = []
        for (c, _, with_cov), (_, f) in zip(cfg["models"], f_models):
            r = f.result()
            models[c] = {"states": r.distinct, "transitions": r.generated, "depth": r.depth, "wall_s": round(r.wall, 1)}
            tot_s += r.distinct
            tot_t += r.generated
            if with_cov:
                cov_cfgs.append(c)
                for a, (dd, tt) in r.coverage().items():
                    cov[a] += tt
                    cov_d[a] += dd
        if f_live:
            live = f_live.result()
            models[cfg["live"]] = {"states": live.distinct, "transitions": live.generated, "depth": live.depth, "wall_s": round(live.wall, 1),
                                   "temporal": ["I4_AcceptLive"]}
        stall = None
        if f_stall:
            sr = f_stall.result()
            stall = {"config": cfg["stall"], "states": sr.distinct,
                     "result": "I4_AcceptLive violated as expected: without the premise that the make-service answers, a queued connection waits forever"}
        bugs = {b: {"defect": BUGS[b][0], "refuted_by": f.result().violated, "states": f.result().distinct} for b, f in f_bugs.items()}
    finally:
        ex.shutdown(wait=True, cancel_futures=True)
    all_runs = _runs_of([r for r in recs if r["e"] != "Vec"])
    all_runs = [(b, r) for b, r in all_runs if "cfg" in r[0]]
    incomplete = [r[0].get("id") for _, r in _runs_of(recs) if "cfg" not in r[0] and r[0].get("src") != "vectors"]
    if incomplete:
        vlib.log(f"DRIFT property={pid} (conninfo): {len(incomplete)} run(s) did not complete (hang / wedged / harness panic): {incomplete[:5]}")
    distinct_runs = {json.dumps([r[0]["cfg"], [x["step"] for x in r[1:]]], sort_keys=True) for _, r in all_runs}
    stacks = collections.Counter()
    accs = collections.Counter()
    nconn_max = 0
    reqs = served = rejected = 0
    srv_end = collections.Counter()
    for _, r in all_runs:
        c = r[0]["cfg"]
        stacks["%s%s%s%s%s" % ("shared" if c["shared"] else "make", "+ci" if c["ci"] else "", "+tls" if c["ti"] else "",
                               "+sni" if c["sni"] else "", "/tls-listener" if c["tls"] else "/plain")] += 1
        accs[c["acc"]] += 1
        last = r[-1]
        nconn_max = max(nconn_max, sum(1 for cn in last["conns"] if cn["st"] != "none"))
        srv_end[last["srv"]] += 1
        for cn in last["conns"]:
            for q in cn["reqs"]:
                reqs += 1
                served += 1 if q["resp"] else 0
                rejected += 1 if q["rej"] else 0
    samples = []
    for want in ("model", "directed", "walk"):
        for _, r in all_runs:
            if r[0].get("src") == want and len(r) > 10:
                samples.append({"src": want, "cfg": r[0]["cfg"], "clients": [{k: c[k] for k in ("sni", "alpn", "proto", "expRemote")} for c in r[0]["clients"]],
                                "history": _summ(r)[:600]})
                break
    actions = {a: {"distinct": cov_d[a], "taken": cov[a]} for a in ACTIONS if a in cov}
    never = [a for a in ACTIONS if actions.get(a, {}).get("taken", 0) == 0]
    if never and not nomodel:
        raise vlib.ToolError(f"model actions never taken in {cov_cfgs}: {never}")
    if drift or drift_beh:
        vlib.log(f"DRIFT property={pid} (conninfo replay): {drift} mismatch(es) in {drift_beh} of {len(conv)} behaviours, e.g. {samples_drift[:3]}")
    if other:
        vlib.log(f"DRIFT property={pid} (conninfo monitor): clauses outside the text of {pid} are false on the real traces: "
                 f"{ {k: counts[k] for k in other} }")
    panics = s_replay["panics"] + s_walk["panics"] + s_sock["panics"] + s_dir["panics"]
    if panics:
        vlib.log(f"[{pid}] conninfo: {panics} panic(s) were recorded: {(s_replay['panic_samples'] + s_walk['panic_samples'] + s_sock['panic_samples'])[:3]}")
    res = {
        "spec": "spec/ConnInfo.tla (+ spec/ConnInfoAddr.tla)", "properties_model_checked": MODEL_PROPS,
        "states": tot_s, "transitions": tot_t, "model_configs": models,
        "tlc_coverage": {"configs": cov_cfgs, "actions": actions, "actions_never_taken": never,
                         "note": "per-action counts (-coverage 1) summed over the listed configurations"},
        "refuted_variants": bugs, "stall_demonstration": stall,
        "address_vectors": {"spec": "spec/ConnInfoAddr.tla", "vectors": len(vecs), "states": r_addr.distinct},
        "generation": {"configs": [g[0] for g in cfg["gen"]], "generated": len(got), "distinct_used": len(uniq)},
        "behaviours_replayed": len(conv), "replay_records": len(recs_replay), "replay_steps_compared": compared,
        "directed_runs": len(dsched), "walk_runs": s_walk["runs"], "walk_records": s_walk["records"],
        "socket_runs": s_sock["runs"], "socket_records": s_sock["records"],
        "drift": {"replay_mismatches": drift, "behaviours_with_drift": drift_beh, "steps_not_applicable": skipped_steps,
                  "samples": samples_drift[:6], "incomplete_runs": incomplete[:10],
                  "falsified_clauses_outside_this_property": {k: counts[k] for k in other}},
        "runs_on_real_code": len(all_runs), "distinct_runs": len(distinct_runs), "stacks": dict(stacks), "acceptors": dict(accs),
        "max_connections_in_a_run": nconn_max, "requests_sent": reqs, "requests_answered": served, "requests_rejected_by_sni": rejected,
        "serving_future_at_end": dict(srv_end),
        "samples": samples,
        "monitor": {"spec": "spec/ConnInfoObs.tla", "records_judged": len(recs), "runs": len(all_runs),
                    "falsified_clauses": counts, "reported_for_this_property": mine, "keys_of_this_property": list(OWN[pid]),
                    "stall_observations": info.get("stall_observations"), "wall_s": round(mon_wall, 1)},
        "self_test": selft,
        "panics": panics,
        "assumptions": ASSUMPTIONS,
        "wall_s": round(time.time() - t0, 1), "harness_build_s": round(t_build, 1),
    }
    with open(os.path.join(d, "stage.json"), "w") as f:
        json.dump(res, f, indent=1)
    vlib.log(f"[{pid}] conninfo stage: model {tot_s} states / {tot_t} transitions; {len(conv)} behaviours replayed "
             f"({compared} steps compared, drift {drift}); {len(dsched)} directed, {s_walk['runs']} + {s_sock['runs']} walk runs; "
             f"monitor {len(recs)} records, falsified {counts or 'nothing'}; {len(bugs)} variants refuted; {time.time() - t0:.0f}s")
    return res


def replay(pid, obj):
    """Re-executes a replay object of kind "conninfo-trace" on the current tree; exit code as a check (0 / 1)."""
    rp = obj.get("replay", obj)
    if rp.get("kind") != "conninfo-trace" or not rp.get("schedule"):
        raise vlib.ToolError("x_conninfo.replay: not a conninfo-trace replay object")
    d = _d(pid)
    certs = _certs(pid)
    inp = os.path.join(d, "replay_in.ndjson")
    sched = dict(rp["schedule"], src="replay")
    vlib.write_ndjson(inp, [sched])
    tr = os.path.join(d, "replay_trace.ndjson")
    _harness(["replay", "--in", inp, "--out", tr, "--certdir", certs, "--scratch", d], timeout=600)
    recs = vlib.read_ndjson(tr)
    viol, _, _ = _monitor(pid, tr, len(recs), "replay")
    verdict = vlib.Verdict(pid)
    counts, mine, other = _report(pid, viol, recs, verdict)
    code, _ = verdict.finish()
    if code == 0:
        print(f"replay: the conninfo clauses of {pid} hold on this schedule on the current tree ({len(recs)} records; other keys: {counts})", flush=True)
    return code


if __name__ == "__main__":
    # development entry point: python3 checks/x_conninfo.py C01|C09|C20|C07 quick|thorough [seed]   (or: replay <pid> <file>)
    import sys
    sys.path.insert(0, os.path.join(vlib.ROOT, "lib"))
    if sys.argv[1] == "replay":
        sys.exit(replay(sys.argv[2], json.load(open(sys.argv[3]))))
    pid, tier = sys.argv[1], sys.argv[2]
    seed = int(sys.argv[3]) if len(sys.argv) > 3 else vlib.seed_from_env()
    vd = vlib.Verdict(pid)
    out = stage(pid, tier, seed, vd)
    code, _ = vd.finish()
    print(json.dumps({k: out[k] for k in ("states", "transitions", "behaviours_replayed", "replay_steps_compared", "walk_records", "socket_records", "wall_s")}))
    print(json.dumps(out["monitor"]))
    print(json.dumps(out["drift"])[:2500])
    sys.exit(code)
