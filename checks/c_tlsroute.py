"""C12 -- with TLS configured, https/wss traffic is never sent in the clear.

Pipeline (DESIGN.md 3.5 / 4 C12):
  1. TLC checks TlsRoute.tla (the intended transcription of TlsTransport::call / TlsTransportWrapper::call /
     TlsConnectionFuture / TlsStream::new / handshake) against the six clauses of C12, with coverage.
  2. TLC (TlsRoute_asbuilt.cfg) evaluates the same clauses on the as-built transcription: the vectors on which
     the pinned code is predicted to break a clause (informative; compared with what the monitor finds).
  3. TLC (TlsRoute_gen.cfg) prints every abstract vector with the outcome both transcriptions compute.
  4. certificates are generated with the openssl CLI under out/<pid>/certs (CA, matching leaf with DNS and IP
     SANs, mismatching leaf, leaf of an untrusted CA); harness bin `tlsroute` instantiates every vector with K
     seeded spellings on the REAL TlsTransport / Client over an in-memory transport against a raw peer that
     records first bytes, raw bytes, SNI, handshake completion; a recording ServerCertVerifier (delegating to
     WebPKI) records the name checked.
  5. TLC (TlsRouteObs.tla) evaluates the clauses P_xxx of TlsRoute.tla on every real record. Only a clause TLC
     evaluates to FALSE produces a VIOLATION. Differences from the modelled outcome that keep the clauses are
     DRIFT (stderr + evidence), exit 0.
"""
import collections
import json
import os
import subprocess
import time

import vlib

SPELLINGS = {"quick": 2, "thorough": 20}

MKCERTS = r'''
set -e
cd "$1"
gen() { openssl genpkey -algorithm EC -pkeyopt ec_paramgen_curve:P-256 -out "$1" 2>/dev/null; }
ca() { gen $1.key; openssl req -x509 -new -key $1.key -sha256 -days 30 -subj "/CN=$2" \
  -addext "basicConstraints=critical,CA:TRUE" -addext "keyUsage=critical,keyCertSign,cRLSign" -out $1.pem; }
leaf() { gen $1.key; openssl req -new -key $1.key -subj "/CN=$1 leaf" -out $1.csr
  printf "basicConstraints=CA:FALSE\nkeyUsage=critical,digitalSignature\nextendedKeyUsage=serverAuth\nsubjectAltName=$3\n" > $1.ext
  openssl x509 -req -in $1.csr -CA $2.pem -CAkey $2.key -CAcreateserial -days 30 -sha256 -extfile $1.ext -out $1.pem 2>/dev/null; }
ca ca "verif test CA"
ca rogue "rogue CA"
GOOD="DNS:verif.test,DNS:*.verif.test,DNS:decoy.test,DNS:localhost,IP:127.0.0.1,IP:10.0.0.7,IP:::1,IP:2001:db8::7,IP:::ffff:127.0.0.1"
leaf match ca "$GOOD"
leaf mismatch ca "DNS:other.test,DNS:*.other.test,IP:10.9.9.9,IP:2001:db8::9"
leaf untrusted rogue "$GOOD"
'''


def make_certs(pid):
    """CA + leaves under out/<pid>/certs, generated at run time (the repository fixture is expired)."""
    d = os.path.join(vlib.outdir(pid), "certs")
    os.makedirs(d, exist_ok=True)
    for f in os.listdir(d):
        os.unlink(os.path.join(d, f))
    p = subprocess.run(["bash", "-c", MKCERTS, "mkcerts", d], stdout=subprocess.PIPE, stderr=subprocess.STDOUT,
                       text=True, timeout=120)
    if p.returncode != 0 or not os.path.exists(os.path.join(d, "untrusted.pem")):
        vlib.log(p.stdout[-2000:])
        raise vlib.ToolError("openssl could not generate the test certificates")
    return d


VEC_FIELDS = ("via", "wrapper", "scheme", "scase", "host", "port", "cert", "calpn", "salpn", "fault", "prev", "hist", "wiring")


def vkey(v):
    return "/".join(v[f] for f in VEC_FIELDS)


def _model(pid, tier):
    m = vlib.tlc("MC_TlsRoute", "TlsRoute_%s.cfg" % tier, pid, workers=4, timeout=600, coverage=True)
    if not m.finished or m.violated:
        vlib.log(m.out[-3000:])
        raise vlib.ToolError("TlsRoute.tla: the intended transcription does not satisfy the C12 clauses (spec error)")
    return m


def _vectors(pid):
    g = vlib.tlc("MC_TlsRoute", "TlsRoute_gen.cfg", pid, workers=1, timeout=600)
    lines = g.printed("VEC")
    if not g.finished or not lines:
        raise vlib.ToolError("TlsRoute_gen produced no vectors")
    by = {}
    for x in lines:
        e = by.setdefault(vkey(x["v"]), {"v": x["v"]})
        e["expAsBuilt" if x["asBuilt"] else "exp"] = x["exp"]
    vecs = []
    for i, k in enumerate(sorted(by)):
        e = by[k]
        if "exp" not in e or "expAsBuilt" not in e:
            raise vlib.ToolError("TlsRoute_gen: vector %s lacks an outcome" % k)
        v = dict(e["v"])
        v.update(id=i + 1, exp=e["exp"], expAsBuilt=e["expAsBuilt"])
        vecs.append(v)
    return vecs


def _obs(pid, records_path, cfg="TlsRouteObs.cfg", timeout=1700):
    r = vlib.tlc("TlsRouteObs", cfg, pid, workers=1, timeout=timeout, xmx="8g",
                 env={"TRACE": os.path.abspath(records_path)})
    if "Invariant WellFormed is violated" in r.out:
        vlib.log(r.out[-3000:])
        raise vlib.ToolError("TlsRouteObs: a record is outside the domain of the spec (harness/spec mismatch)")
    return r


def _violation_key(rec, clause):
    """Stable key of the failing input class: the clause plus the projection of the vector that clause depends on."""
    v, o = rec["v"], rec["obs"]
    host = {"v6": "[v6]"}.get(v["host"], v["host"])
    if v["prev"] != "none" and clause in ("NoClear", "OtherNotWrapped", "PoolClass", "Established"):
        # HISTORY vectors: the class is (what went wrong, how the pool was involved, previous scheme, scheme)
        what = {"NoClear": "cleartext", "OtherNotWrapped": "wrapped", "PoolClass": "shared", "Established": "established"}[clause]
        how = ("pooled-reuse" if v["hist"] == "idle" else "pooled-inflight") if o["sharedPrev"] else "own-connection"
        return "%s:%s:prev=%s;scheme=%s%s" % (what, how, v["prev"], v["scheme"], "" if v["scase"] == "lower" else ";case=upper")
    if v["wiring"] not in ("direct", "transport-then-tls") and clause in ("NoClear", "OtherNotWrapped", "Established", "FailIsError"):
        # WIRING vectors: the class is (what went wrong, the builder call order, scheme)
        what = {"NoClear": "cleartext", "OtherNotWrapped": "wrapped", "Established": "established", "FailIsError": "fallback"}[clause]
        return "%s:wiring=%s;wrapper=%s;scheme=%s%s" % (what, v["wiring"], v["wrapper"], v["scheme"],
                                                        "" if v["scase"] == "lower" else ";case=upper")
    if clause == "Outcome":
        if o["result"] == "panic" or o.get("taskPanics", 0):
            loc = o.get("panicLoc", "?").rsplit(":", 1)[0]
            where = "task" if o["result"] != "panic" else "caller"
            return "panic@%s(%s):tls-host=%s" % (loc, where, host)
        return "unresolved:%s:scheme=%s;host=%s;fault=%s" % (o["result"], v["scheme"], host, v["fault"])
    if clause == "NoClear":
        return "cleartext:wrapper=%s;scheme=%s;case=%s" % (v["wrapper"], v["scheme"], v["scase"])
    if clause == "OtherNotWrapped":
        return "wrapped:wrapper=%s;scheme=%s;case=%s" % (v["wrapper"], v["scheme"], v["scase"])
    if clause == "Name":
        return "name:host=%s;hostHeader=%s" % (host, "decoy" if rec["sp"]["hostHeader"] == "decoy.test" else "other")
    if clause == "FailIsError":
        return "fallback:cert=%s;fault=%s;result=%s;carrier=%s" % (v["cert"], v["fault"], o["result"], o["carrier"])
    if clause == "Established":
        return "established:scheme=%s;host=%s;carrier=%s;peerHs=%s" % (v["scheme"], host, o["carrier"], o["peerHs"])
    return clause


def _describe(rec, clauses):
    v, o, sp = rec["v"], rec["obs"], rec["sp"]
    what = "result=%s" % o["result"]
    if o["result"] == "panic" or o.get("taskPanics"):
        what += " (%s at %s)" % (o.get("panicMsg", "?"), o.get("panicLoc", "?"))
    if o["result"] == "error":
        what += " (%s)" % o.get("errMsg", "")[:100]
    hist = ""
    if v["prev"] != "none":
        hist = " after %s://%s/ on the same pooled client (%s; that request travelled over %s; same connection: %s)" % (
            v["prev"], sp.get("authority", "?"), "completed, connection idle" if v["hist"] == "idle" else "still in flight, HTTP/2",
            o.get("prevCarrier"), o.get("sharedPrev"))
    if v["wiring"] not in ("direct", "transport-then-tls"):
        hist += " [client::Builder call order: %s]" % v["wiring"]
    return ("clauses %s fail: %s %s via %s%s (wrapper=%s cert=%s alpn=%s/%s fault=%s): %s; peer saw first=%s raw-marker=%s "
            "carrier=%s sni=%s verified=%s handshake=%s" % (
                "+".join(clauses), "GET", sp["uri"], v["via"], hist, v["wrapper"], v["cert"], v["calpn"], v["salpn"], v["fault"],
                what, o["first"], o["markerRaw"], o["carrier"], o["snis"], o["verified"], o["peerHs"]))


def run(pid, tier, seed, t0):
    d = vlib.outdir(pid)
    vlib.build_harness("tlsroute")
    # 1. the model
    m = _model(pid, tier)
    cov = m.coverage()
    never = sorted(a for a, (dist, taken) in cov.items() if taken == 0)
    # 2. as-built prediction
    ab = vlib.tlc("MC_TlsRoute", "TlsRoute_asbuilt.cfg", pid, workers=1, timeout=600)
    predicted = collections.Counter()
    pred_keys = set()
    for b in ab.printed("ABBAD"):
        predicted[b["clause"]] += 1
        pred_keys.add(vkey(b["v"]))
    demo = None
    if tier == "thorough":
        # standing demonstration (DESIGN 2.4): with the clauses as genuine invariants TLC must refute the as-built
        # transcription
        st = vlib.tlc("MC_TlsRoute", "TlsRoute_asbuilt_strict.cfg", pid, workers=1, timeout=600)
        demo = st.violated
        if st.violated != "AsBuiltHolds":
            raise vlib.ToolError("TlsRoute_asbuilt_strict: TLC did not refute the as-built transcription")
    if tier == "thorough":
        # a pool key that files ws/wss under http must be refuted by TLC (seeded-change style variant)
        km = vlib.tlc("MC_TlsRoute", "TlsRoute_keymerge.cfg", pid, workers=1, timeout=600)
        if km.violated != "KeyMergeHolds":
            raise vlib.ToolError("TlsRoute_keymerge: TLC did not refute the merged pool key")
        # a builder whose reconstructing setters forget the TLS configuration must be refuted by TLC
        sd = vlib.tlc("MC_TlsRoute", "TlsRoute_setterdrops.cfg", pid, workers=1, timeout=600)
        if sd.violated != "SetterDropsHolds":
            raise vlib.ToolError("TlsRoute_setterdrops: TLC did not refute the TLS-dropping builder")
    # 3. vectors
    vecs = _vectors(pid)
    vpath = os.path.join(d, "vectors.json")
    json.dump(vecs, open(vpath, "w"))
    # 4. the real code
    certs = make_certs(pid)
    rpath = os.path.join(d, "records.ndjson")
    k = SPELLINGS[tier]
    out = vlib.run_harness("tlsroute", ["run", vpath, certs, rpath, seed, k], timeout=1500)
    hsum = json.loads(out.strip().splitlines()[-1])
    nrec = hsum["records"]
    if hsum.get("skippedDefaultBuilder"):
        vlib.log("[C12] %d default-builder vectors skipped: no platform root certificates on this machine" % hsum["skippedDefaultBuilder"])
    recs = vlib.read_ndjson(rpath)
    if nrec != len(recs) or nrec < len(vecs) - 2 * hsum.get("skippedDefaultBuilder", 0):
        raise vlib.ToolError("harness executed %d records for %d vectors" % (nrec, len(vecs)))
    # 5. the monitor
    o = _obs(pid, rpath)
    cons = [l for l in o.out.splitlines() if l.startswith('<<"CONSUMED"')]
    if not o.finished or not cons or o.distinct != nrec:
        vlib.log(o.out[-3000:])
        raise vlib.ToolError("TlsRouteObs did not consume the %d records (distinct=%d)" % (nrec, o.distinct))
    bad = collections.OrderedDict()
    for b in o.printed("BAD"):
        bad.setdefault(b["i"], []).append(b["clause"])
    diffi = {x["i"] for x in o.printed("DIFFI")}
    diffa = {x["i"] for x in o.printed("DIFFA")}

    verdict = vlib.Verdict(pid)
    groups = collections.OrderedDict()
    # one key per bad record: its first failed clause in a fixed priority order, so that one root cause (which
    # usually falsifies several clauses on the same record) is one class
    prio = ["Outcome", "NoClear", "OtherNotWrapped", "PoolClass", "Name", "FailIsError", "Established"]
    for i, clauses in bad.items():
        rec = recs[i - 1]
        c = min(clauses, key=prio.index)
        groups.setdefault(_violation_key(rec, c), []).append((i, clauses))
    for key, members in groups.items():
        i, clauses = members[0]
        rec = recs[i - 1]
        vec = dict(rec["v"], id=rec["id"], spx=rec["spx"], exp=rec["exp"], expAsBuilt=rec["expAsBuilt"])
        verdict.violation(key, _describe(rec, clauses) + " [%d records in this class]" % len(members),
                          {"seed": seed, "vector": vec, "record": rec, "clauses": clauses, "records_in_class": len(members)})
    import x_tlsstream
    tls_stage = x_tlsstream.stage(pid, tier, seed, verdict)      # TlsStream.tla: the C12 clauses (T2) on the real TLS streams
    import c_pool
    many = c_pool.manyorigins_stage(pid, tier, seed, verdict, "C12:")   # P_PoolClass beyond a thousand pool keys (PoolKeys.tla)
    code, unlisted = verdict.finish()

    # drift: real outcome differs from the intended model without falsifying a clause
    drift_only = sorted(i for i in diffi if i not in bad)
    for i in drift_only[:8]:
        r = recs[i - 1]
        vlib.log("DRIFT C12 record %d %s %s: model %s, real class=%s firsts=%s/%s carrier=%s snis=%s verified=%s" % (
            i, vkey(r["v"]), r["sp"]["uri"], r["exp"], r["obs"]["class"], r["obs"]["tlsFirst"], r["obs"]["plainFirst"],
            r["obs"]["carrier"], r["obs"]["snis"], r["obs"]["verified"]))
    bad_vecs = {vkey(recs[i - 1]["v"]) for i in bad}
    classes = collections.Counter(r["obs"]["class"] for r in recs)
    nontrivial = len({(vkey(r["v"]), r["sp"]["uri"], r["sp"]["hostHeader"], r["sp"]["wiring"], r["sp"]["trunc"]) for r in recs
                      if r["v"]["wrapper"] == "tls" and r["v"]["scheme"] in ("https", "wss")})
    sample_ids = [1, len(recs) // 3, (2 * len(recs)) // 3, len(recs)]
    samples = [{"v": recs[i - 1]["v"], "uri": recs[i - 1]["sp"]["uri"], "hostHeader": recs[i - 1]["sp"]["hostHeader"],
                "obs": {f: recs[i - 1]["obs"].get(f) for f in ("result", "errKind", "first", "markerRaw", "carrier", "snis",
                                                               "verified", "peerHs", "clientTls", "panicLoc")}}
               for i in sample_ids if 1 <= i <= len(recs)]
    coverage = {
        "tls_stream_model": tls_stage, "pool_class_many_keys": many,
        "states": m.distinct, "transitions": m.generated, "depth": m.depth,
        "traces_validated_against_impl": nrec,
        "samples": samples,
        "evaluations": nrec,
        "distinct_nontrivial": nontrivial,
        "rule": "every vector of the cross product via x wrapper x scheme x scheme-case x host form x port x certificate x "
                "client ALPN x server ALPN x handshake fault (certificate/ALPN/fault pinned where no handshake is attempted), plus "
                "the HISTORY vectors: on one pooled Client with a TLS configuration a previous request with scheme "
                "http/ws/https/wss to the same authority has completed (HTTP/1.1 connection idle in the pool) or is still in "
                "flight (HTTP/2), then the request under test; plus the WIRING vectors: ten call orders on client::Builder (TLS state "
                "set before / after with_transport, with_protocol, with_tcp, redirect setters, with_body+layer, mutating setters, "
                "the default builder, reset, accessor) x wrapper x scheme x case x host x port against a cooperative peer; "
                "%d seeded spelling(s) each, executed on the real TlsTransport / Client; non-trivial = distinct concrete "
                "(vector, URI, Host header, wiring, truncation point) with a TLS configuration and an https/wss scheme" % k,
        "exhaustive": len(drift_only) == 0 and not bad,
        "wiring_vectors": dict(collections.Counter(x["wiring"] for x in vecs)),
        "default_builder_vectors_skipped": hsum.get("skippedDefaultBuilder", 0),
        "vectors": len(vecs), "history_vectors": sum(1 for x in vecs if x["prev"] != "none"),
        "history_records_sharing_the_previous_connection": sum(1 for r in recs if r["obs"].get("sharedPrev")), "spellings": k,
        "tlc_coverage": {a: {"distinct": c[0], "taken": c[1]} for a, c in sorted(cov.items())},
        "actions_never_taken": never,
        "monitor": {"records": nrec, "states": o.distinct, "bad_records": len(bad), "violation_classes": len(groups),
                    "clauses": dict(collections.Counter(c for cl in bad.values() for c in cl))},
        "as_built_prediction": {"vectors": len(pred_keys), "by_clause": dict(predicted), "tlc_refutes_as_built_model": demo,
                                "predicted_and_observed": len(pred_keys & bad_vecs),
                                "predicted_not_observed": len(pred_keys - bad_vecs),
                                "observed_not_predicted": len(bad_vecs - pred_keys)},
        "drift": {"records_differing_from_intended_model": len(diffi), "of_which_not_violations": len(drift_only),
                  "records_differing_from_as_built_model": len(diffa),
                  "examples": [{"vector": vkey(recs[i - 1]["v"]), "uri": recs[i - 1]["sp"]["uri"], "model": recs[i - 1]["exp"],
                                "real": recs[i - 1]["obs"]["class"]} for i in drift_only[:5]]},
        "outcome_classes": dict(classes),
        "repo_tree": vlib.repo_tree_id(),
    }
    assumptions = [
        "rustls / tokio-rustls / webpki cryptography and certificate path building are trusted",
        "the peer end of the in-memory pipe is the wire: first bytes, raw bytes and the ClientHello are inspected there",
        "IP-literal hosts: RFC 6066 forbids IP literals in server_name, so 'the server name offered is the URI host' is read as "
        "'no other name is offered' and the verified name must be the URI's IP address",
        "history: one previous request on the same client, same authority text; 'Requests with other schemes are not wrapped' "
        "is read literally also for pooled connections (an http/ws request must not travel on a TLS connection left by https/wss)",
        "only the enumerated grammar of schemes, host forms, ports, certificates, ALPN offers and faults",
    ]
    vlib.write_evidence(pid, tier, seed, "model_checking", coverage, assumptions, time.time() - t0, unlisted)
    vlib.log("[C12] %d vectors x %d spellings = %d records; %d bad records in %d classes (%d unlisted); drift %d; %s" % (
        len(vecs), k, nrec, len(bad), len(groups), unlisted, len(drift_only), dict(classes)))
    return code


def replay(pid, path):
    obj = json.load(open(path))
    _k = obj.get("replay", obj).get("kind") if isinstance(obj.get("replay", obj), dict) else None
    if _k == "tlsstream-ops":
        import x_tlsstream
        return x_tlsstream.replay(pid, obj)
    if _k == "duplex-trace":
        import x_duplex
        return x_duplex.replay(pid, obj)
    if _k == "pool-manyorigins":
        import c_pool
        return c_pool.replay(pid, path)
    rep = obj["replay"]
    d = vlib.outdir(pid)
    vpath = os.path.join(d, "replay-vector.json")
    json.dump([rep["vector"]], open(vpath, "w"))
    certs = make_certs(pid)
    rpath = os.path.join(d, "replay-records.ndjson")
    vlib.run_harness("tlsroute", ["run", vpath, certs, rpath, rep.get("seed", 1), 1], timeout=300)
    recs = vlib.read_ndjson(rpath)
    o = _obs(pid, rpath, cfg="TlsRouteObs_strict.cfg", timeout=300)
    vlib.log(json.dumps(recs[0]["obs"]))
    if o.violated:
        print("VIOLATION property=%s replay=%s" % (pid, path), flush=True)
        vlib.log("  %s: TLC: invariant %s is violated on the replayed record" % (obj.get("key"), o.violated))
        return 1
    if not o.finished:
        raise vlib.ToolError("TlsRouteObs_strict did not complete")
    vlib.log("replay: all C12 clauses hold on the replayed record")
    return 0
