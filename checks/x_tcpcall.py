"""C10 / C11 / C17 lifted to ONE WHOLE TRANSPORT CALL (TcpTransport / SimpleTcpTransport as Service<Parts>) - a stage that the
host checks (c_eyeballs.py for C10 / C11, c_pipeline.py for C17) call and whose result they embed in their evidence.

    stage(pid, tier, seed, verdict) -> dict      pid in {"C10", "C11", "C17"}; `verdict` is the host's vlib.Verdict
    replay(pid, obj) -> int                       for replay objects of kind "tcpcall-row"

One stage run:
  1. TLC checks spec/TcpCall.tla (URI class -> host/port -> resolver -> set_port -> preference sort (AddrSort.tla's function,
     instantiated) -> the happy-eyeballs set (Eyeballs.tla, extended) with per-attempt connect_timeout -> error mapping; the
     simple transport as a second machine; the caller's drop) with the lifted clauses of spec/TcpCallProps.tla as invariants
     and prints every (vector, allowed observation) pair; in parallel a -coverage run (per-action counts) and the four
     as-built-style variants, each of which TLC must refute (C10 / C11; C17 runs the URI family only).
  2. harness bin `tcpcall` runs every realizable vector on the REAL transports on loopback (Service::call; lists of length one
     also through connect_to_addrs; two rows through the real GaiResolver) and records what happened.  Differences to the model's
     allowed observations are DRIFT (never a verdict).
  3. TLC (spec/TcpCallObs.tla) evaluates the clause operators on every real record.  Only a clause of `pid` that TLC evaluates
     to FALSE is a violation: key `tcpcall/<falsified clauses of pid>/<row name>`.  The cancellation clause is not part of a
     fixed property text: it is reported as drift (CANCEL_IS_VERDICT).
  A self-test runs next to step 3: three deliberately corrupted copies of real records must be flagged by the monitor.
"""
import concurrent.futures
import json
import os
import re
import sys
import time

if __name__ == "__main__":
    sys.path.insert(0, os.path.join(os.path.dirname(os.path.dirname(os.path.abspath(__file__))), "lib"))
import vlib

CANCEL_IS_VERDICT = False
KNOWN_CAP = 25
PIDS = ("C10", "C11", "C17")
MODEL_INVS = ("CallTypeOK", "CallC10Inv", "CallC11Inv", "CallC17Inv", "CancelInv", "EbC10Inv", "EbC11Inv", "CallTight")
VARIANTS = (("TimeoutWholeSet", "TcpCall_wholeset.cfg"), ("WrongDefaultPort", "TcpCall_wrongport.cfg"),
            ("SwallowResolverError", "TcpCall_swallow.cfg"), ("DetachedCall", "TcpCall_detached.cfg"))
ACTIONS = ("Extract", "ResolveStart", "ResolveDone", "SetPortStep", "SortStep", "ConnectStep", "EyeballsStep", "Finish", "Drop")
# quick: unit 300 ms (connect_timeout 2 = 600 ms, happy_eyeballs_timeout 6 = 1.8 s), "surely" margin 450 ms
TIERS = {
    "quick": dict(gen="TcpCall_gen_quick.cfg", cov="TcpCall_cov.cfg", unit=300, margin=450, conc=700, max_slow=None, tlc_timeout=300, workers=4),
    "thorough": dict(gen="TcpCall_gen_thorough.cfg", cov="TcpCall_cov.cfg", unit=400, margin=600, conc=900, max_slow=30000, tlc_timeout=1500, workers=4),
}
ASSUMPTIONS = [
    "whole-call layer: candidates are loopback ports (listener = accepts, bound but not listening = refuses, listener with a full accept "
    "queue = does not answer); accepting candidates answer at once (a late accept is model-only); one IPv6 loopback address",
    "whole-call layer: real time; one model time unit = `unit_ms`; only lower bounds on instants are asserted, 'must' clauses only when "
    "the decisive instants are further apart than `margin_ms`; 'hang' = still pending at a horizon beyond every configured bound, "
    "decided by a tokio timer of the same runtime",
    "whole-call layer: the overall deadline (happy_eyeballs_timeout) is read as counting from the end of the resolution (the clock "
    "starts when the candidates are known); the resolution and each attempt are bounded by connect_timeout",
    "whole-call layer: ws / wss URIs without a port are neither required to work nor to fail (as built: 'missing port')",
]


def _printed_viol(out):
    seen, consumed = {}, None
    for line in out.splitlines():
        if line.startswith('<<"VIOL", ') and line.endswith(">>"):
            try:
                d = json.loads(json.loads(line[len('<<"VIOL", '):-2]))
            except Exception:
                continue
            seen.setdefault(d["k"], d)
        m = re.match(r'<<"CONSUMED", (\d+)>>', line)
        if m:
            consumed = int(m.group(1))
    return [seen[k] for k in sorted(seen)], consumed


def _monitor(pid, path, nrec, cfg=None):
    """TLC over real records -> (list of VIOL dicts, TlcResult). Raises ToolError when the file was not consumed."""
    r = vlib.tlc_trace("TcpCallObs", cfg or f"TcpCallObs_{pid}.cfg", pid, path, timeout=1200, xmx="4g")
    viols, consumed = _printed_viol(r.out)
    if consumed != nrec:
        vlib.log(r.out[-3000:])
        raise vlib.ToolError(f"TcpCallObs consumed {consumed} of {nrec} records")
    if r.violated is None and not r.finished:
        vlib.log(r.out[-3000:])
        raise vlib.ToolError("TcpCallObs did not finish")
    return viols, r


def _mine(pid, d):
    return sorted(c for c in d["clauses"] if c.startswith(pid + "_"))


def _corrupt(recs):
    """Three corrupted copies of real records: each must be flagged by the monitor (self-test)."""
    out = []
    ok = next((r for r in recs if r["o"]["kind"] == "ok" and r["v"]["dropT"] == -1), None)
    if ok:
        a = json.loads(json.dumps(ok))
        a["o"]["kind"], a["o"]["id"], a["o"]["errclass"] = "err", 0, "refused"       # a success turned into a failure
        a["name"] = "selftest/ok-reported-as-err"
        b = json.loads(json.dumps(ok))
        b["o"]["acc"][b["o"]["id"] - 1] = 2                                          # the candidate reached twice
        b["name"] = "selftest/candidate-reached-twice"
        c = json.loads(json.dumps(ok))
        c["o"]["kind"], c["o"]["id"] = "panic", 0
        c["name"] = "selftest/panic"
        out += [a, b, c]
    return out


def _selftest(pid, od, recs):
    bad = _corrupt(recs)
    if not bad:
        return {"ran": False}
    p = os.path.join(od, f"tcpcall-selftest-{os.getpid()}.ndjson")
    vlib.write_ndjson(p, [dict(r, sid=i + 1) for i, r in enumerate(bad)])
    viols, r = _monitor(pid, p, len(bad), cfg="TcpCallObs.cfg")
    flagged = {d["name"]: d["clauses"] for d in viols}
    want = {"selftest/ok-reported-as-err": "C10_", "selftest/candidate-reached-twice": "C11_AtMostOnce", "selftest/panic": "C17_NoPanic"}
    for name, clause in want.items():
        if not any(c.startswith(clause) for c in flagged.get(name, [])):
            raise vlib.ToolError(f"tcpcall self-test: the monitor did not flag the corrupted record {name} ({flagged.get(name)})")
    return {"ran": True, "corrupted_records": len(bad), "flagged": len(flagged), "tlc_violated": r.violated}


def _gen(pid, tier, od):
    T = TIERS[tier]
    cfg = "TcpCall_gen_uri.cfg" if pid == "C17" else T["gen"]
    vec = os.path.join(od, f"tcpcall-vec-{tier}-{os.getpid()}.txt")
    if os.path.exists(vec):
        os.remove(vec)
    m = vlib.tlc("MC_TcpCall", cfg, pid, workers=T["workers"], timeout=T["tlc_timeout"], extra=["-userFile", vec])
    if m.violated is not None or not m.finished:
        vlib.log(m.out[-4000:])
        raise vlib.ToolError(f"whole-call model spec/TcpCall.tla ({cfg}): violated={m.violated} finished={m.finished}")
    return m, vec, cfg


def _cov(pid, tier):
    m = vlib.tlc("MC_TcpCall", TIERS[tier]["cov"], pid, workers=2, timeout=600, coverage=True)
    if not m.finished:
        raise vlib.ToolError("whole-call model: the coverage run did not finish")
    cov = m.coverage()
    return {a: list(cov.get(a, (0, 0))) for a in ("InitQuick",) + ACTIONS}


def _variant(pid, name, cfg):
    r = vlib.tlc("MC_TcpCall", cfg, pid, workers=1, timeout=600)
    if r.violated is None:
        vlib.log(f"note: TLC no longer refutes the whole-call variant {name} (spec/TcpCall.tla changed?)")
    return name, {"cfg": cfg, "tlc_refutes": r.violated}


def _run_rows(pid, tier, seed, vec, od, only=None):
    T = TIERS[tier]
    rec = os.path.join(od, f"tcpcall-replay-{os.getpid()}.ndjson" if only else f"tcpcall-rec-{os.getpid()}.ndjson")
    args = ["run", "--vec", vec, "--out", rec, "--unit", T["unit"], "--margin", T["margin"], "--conc", T["conc"], "--seed", seed]
    if T["max_slow"]:
        args += ["--max-slow", T["max_slow"]]
    if only:
        args += ["--only", only]
    summ = json.loads(vlib.run_harness("tcpcall", args, timeout=1500).strip().splitlines()[-1])
    return summ, rec


def stage(pid, tier, seed, verdict):
    """Runs the whole-call stage for `pid`; files violations of `pid`'s own clauses with `verdict`; returns measured numbers."""
    if pid not in PIDS:
        raise vlib.ToolError(f"x_tcpcall: no stage for {pid}")
    t0 = time.time()
    od = vlib.outdir(pid)
    with concurrent.futures.ThreadPoolExecutor(max_workers=8) as ex:
        f_build = ex.submit(vlib.build_harness, "tcpcall")
        f_gen = ex.submit(_gen, pid, tier, od)
        f_cov = ex.submit(_cov, pid, tier) if pid != "C17" else None
        f_var = [ex.submit(_variant, pid, n, c) for n, c in VARIANTS] if pid != "C17" else []
        m, vec, gen_cfg = f_gen.result()
        f_build.result()
        t_model = time.time() - t0
        # 2. the real transports
        t1 = time.time()
        summ, rec_path = _run_rows(pid, tier, seed, vec, od)
        t_rows = time.time() - t1
        recs = vlib.read_ndjson(rec_path)
        if len(recs) != summ["records"] or not recs:
            raise vlib.ToolError(f"tcpcall wrote {len(recs)} records, reported {summ['records']}")
        # 3. the monitor (+ self-test in parallel)
        t2 = time.time()
        f_self = ex.submit(_selftest, pid, od, recs)
        viols, mon = _monitor(pid, rec_path, len(recs))
        selftest = f_self.result()
        t_mon = time.time() - t2
        variants = dict(f.result() for f in f_var)
        cov = f_cov.result() if f_cov else None
    mine = [(d, _mine(pid, d)) for d in viols]
    mine = [(d, cl) for d, cl in mine if cl]
    flag = {"C10": "c10", "C11": "c11", "C17": "c17"}[pid]
    if (mon.violated == f"{pid}Holds") != bool(mine) or any(d[flag] for d, _ in mine):
        vlib.log(mon.out[-3000:])
        raise vlib.ToolError(f"TcpCallObs verdict inconsistent: violated={mon.violated}, {len(mine)} falsified records")
    cancel = [d for d in viols if "Cancel" in d["clauses"]]
    n_files = 0
    keys = []
    for d, clauses in mine:
        r = recs[d["k"] - 1]
        key = "tcpcall/" + "+".join(clauses) + "/" + r["name"]
        keys.append(key)
        n_files += 1
        if n_files > KNOWN_CAP:
            continue
        desc = (f"{pid} falsified on the real {'TcpTransport' if r['v']['transport'] == 'tcp' else 'SimpleTcpTransport'} "
                f"(whole call, {r['v'].get('api', 'call')}, request {r.get('uri')}): clauses {clauses}; scenario {json.dumps(r['v'])}; "
                f"observed {json.dumps(r['o'])}; {r.get('msg', '')}")
        verdict.violation(key, desc, {"kind": "tcpcall-row", "tier": tier, "clauses": clauses,
                                      "records": [{"name": r["name"], "v": r["v"], "o_recorded": r["o"]}]})
    for d in cancel[:5]:
        r = recs[d["k"] - 1]
        line = f"whole call, cancellation: after the caller's drop something kept running: row {r['name']} observed {json.dumps(r['o'])}"
        if CANCEL_IS_VERDICT and pid == "C11":
            verdict.violation("tcpcall/Cancel/" + r["name"], line, {"kind": "tcpcall-row", "tier": tier, "clauses": ["Cancel"],
                                                                    "records": [{"name": r["name"], "v": r["v"], "o_recorded": r["o"]}]})
        else:
            vlib.log(f"DRIFT property={pid}: {line} (not part of a fixed property text; no verdict)")
    if summ["drift"]:
        vlib.log(f"DRIFT property={pid}: whole call: {summ['drift']} of {summ['records']} loopback outcomes are not among the outcomes "
                 f"spec/TcpCall.tla allows (no verdict); first: {json.dumps(summ['drift_examples'][:1])}")
    never = [a for a in ACTIONS if cov and cov.get(a, [0, 0])[1] == 0]
    res = {
        "module": "MC_TcpCall", "cfg": gen_cfg, "invariants": list(MODEL_INVS),
        "states": m.distinct, "transitions": m.generated, "depth": m.depth, "tlc_wall_s": round(m.wall, 1),
        "vectors_printed": summ["rows"], "tlc_coverage": cov, "actions_never_taken": never,
        "refuted_variants": variants,
        "rows": {k: summ[k] for k in ("rows", "records", "slow_rows_total", "slow_rows_run", "skipped", "kinds", "unit_ms", "margin_ms",
                                      "concurrency", "ipv6_loopback", "privileged_ports", "silent_port_trick", "panics_seen", "wall_ms")},
        "samples": summ["samples"],
        "drift": {"count": summ["drift"], "in_rows_with_a_caller_drop": summ["drift_in_rows_with_a_caller_drop"], "examples": summ["drift_examples"][:3],
                  "meaning": "(kind, connected candidate, error class) of a loopback row not among the model's terminal observations for that vector"},
        "monitor": {"module": "TcpCallObs", "cfg": f"TcpCallObs_{pid}.cfg", "records": len(recs), "falsified": len(mine),
                    "keys": keys[:10], "tlc_wall_s": round(mon.wall, 1)},
        "cancellation_clause": {"falsified": len(cancel), "verdict": CANCEL_IS_VERDICT},
        "selftest": selftest,
        "wall_s": {"model_and_build": round(t_model, 1), "rows": round(t_rows, 1), "monitor": round(t_mon, 1), "total": round(time.time() - t0, 1)},
    }
    for f in (vec, os.path.join(od, f"tcpcall-selftest-{os.getpid()}.ndjson")):
        if os.path.exists(f):
            os.remove(f)
    if not mine and not cancel:
        os.remove(rec_path)
    vlib.log(f"[{pid}] whole call ({tier}): model {m.distinct} states; {summ['records']} loopback rows (skipped {sum(summ['skipped'].values())}), "
             f"drift {summ['drift']}; monitor falsified {len(mine)}; {res['wall_s']['total']}s")
    return res


def replay(pid, obj):
    """Re-executes the rows of a replay object of kind 'tcpcall-row' on the current tree; 1 = still falsified, 0 = holds."""
    rp = obj.get("replay", obj)
    if rp.get("kind") != "tcpcall-row":
        raise vlib.ToolError("x_tcpcall.replay: not a tcpcall-row replay object")
    tier = rp.get("tier", "quick")
    od = vlib.outdir(pid)
    _, vec, _ = _gen(pid, tier, od)
    only = os.path.join(od, f"tcpcall-only-{os.getpid()}.json")
    json.dump({"records": rp["records"]}, open(only, "w"))
    summ, rec_path = _run_rows(pid, tier, vlib.seed_from_env(), vec, od, only=only)
    recs = vlib.read_ndjson(rec_path)
    if not recs:
        raise vlib.ToolError(f"tcpcall replay: none of the rows {[r['name'] for r in rp['records']]} could be realized ({summ['skipped']})")
    viols, _ = _monitor(pid, rec_path, len(recs))
    still = [(d, _mine(pid, d)) for d in viols if _mine(pid, d) or (CANCEL_IS_VERDICT and "Cancel" in d["clauses"])]
    os.remove(vec)
    for d, cl in still:
        vlib.log(f"  still falsified: {cl} row {d['name']} observed {json.dumps(recs[d['k'] - 1]['o'])}")
    return 1 if still else 0


if __name__ == "__main__":
    # python3 checks/x_tcpcall.py stage <pid> [tier] [seed]   |   selftest
    cmd = sys.argv[1] if len(sys.argv) > 1 else "stage"
    pid = sys.argv[2] if len(sys.argv) > 2 else "C10"
    tier = sys.argv[3] if len(sys.argv) > 3 else "quick"
    seed = int(sys.argv[4]) if len(sys.argv) > 4 else vlib.seed_from_env()
    try:
        if cmd == "selftest":
            od = vlib.outdir("C10")
            _, vec, _ = _gen("C17", "quick", od)
            summ, rp = _run_rows("C10", "quick", 1, vec, od)
            print(json.dumps(_selftest("C10", od, vlib.read_ndjson(rp))))
            sys.exit(0)
        v = vlib.Verdict(pid + "-tcpcall-dev")
        res = stage(pid, tier, seed, v)
        code, n = v.finish()
        print(json.dumps({k: res[k] for k in ("states", "rows", "drift", "monitor", "refuted_variants", "cancellation_clause", "selftest", "wall_s", "actions_never_taken")}, indent=1))
        sys.exit(code)
    except vlib.ToolError as e:
        print(f"TOOL-ERROR: {e}", file=sys.stderr)
        sys.exit(2)
