"""Body types and body adapters (spec/Body.tla): a stage of C01 and C17.

`stage(pid, tier, seed, verdict)` is called by the host check (checks/c_e2e.py for C01, checks/c_pipeline.py for C17) and
returns a dict of measured numbers that the host embeds in its evidence under "body_model".

Pipeline of one call:
  1. TLC model-checks Body.tla (Body_quick.cfg, Body_cov.cfg with -coverage 1; thorough: + Body_thorough.cfg, Body_real.cfg, Body_deep.cfg) and the
     seeded-defect variants of the model, each of which MUST be refuted (vacuity guard).  A failing model check of the
     intended design is a tool error.
  2. TLC generates (stack, source, op sequence) vectors: simulation over every real stack + the exhaustive short sequences
     over the empty / full stacks; harness bin `body` replays them on the REAL types (`Body::empty/full/From impls`,
     `try_clone`, `as_boxed`, `Body::from(hyper::body::Incoming)` from a real in-memory hyper connection, the same through
     `IncomingRequestService` / `IncomingResponseService` around a recording inner service).
  3. The harness adds seeded random longer sequences (walk) and the END-TO-END part: every (body variant, frame pattern)
     as request body and as response body through the real Client <-> real Server over the duplex transport, HTTP/1.1
     and HTTP/2.
  4. spec/BodyObs.tla (TLC) evaluates the clauses B1..B5, the layer clauses and the end-to-end clauses on every recorded
     observation: its findings decide.  C01 gets B1, B2, B3-soundness, the intactness clauses of the layers and the
     end-to-end clauses; C17 gets the panics; everything else (exactness / monotonicity of size_hint, B4, B5, readiness
     forwarding, framing choice, model-vs-real differences) is DRIFT: reported, never a verdict.
  5. Self-test: a corrupted copy of a real recorded run rides along and must be flagged; otherwise tool error.
`replay(pid, obj)` re-executes a replay object of kind "body-ops" on the current tree through the same monitor.
"""
import collections
import concurrent.futures
import json
import os
import time

import vlib

BUGS = {
    "fullend": ("is_end_stream() of a full body is true before its frame was taken", {"I_B2_FalseEnd"}),
    "hintstale": ("size_hint() of a full body is not updated when the frame is taken (lower bound above what remains)", {"I_B3_Unsound"}),
    "hintdrop": ("as_boxed does not forward size_hint: (0, None) - sound but not exact", {"I_B3_Inexact"}),
    "droptrailers": ("the incoming variant drops the trailers frame (reports the end instead)", {"I_B1_TrailersLost", "I_B1_EarlyEnd"}),
    "pendnone": ("a Pending of the inner body is turned into the end of the stream", {"I_B1_EarlyEnd", "I_B1_Truncated"}),
    "errswallow": ("an error of the inner body is turned into the end of the stream", {"I_B1_EarlyEnd", "I_B1_ErrorSwallowed"}),
    "clonempty": ("try_clone of a full body yields an empty body", {"I_B5_CloneDiffers"}),
    "dupframe": ("a full body does not take its data: the frame is delivered again", {"I_B1_DataOrder", "I_B1_AfterEnd", "I_B1_FrameBoundary"}),
}
ACTIONS = ["Feed", "Poll", "Clone", "Drop"]
MODEL_PROPS = ["B1-data-order", "B1-data-invented", "B1-frame-boundary", "B1-after-end", "B1-trailers", "B1-error-invented", "B1-early-end",
               "B1-truncated", "B1-trailers-lost", "B1-error-swallowed", "B1-kind", "B2-false-end", "B2-revoked", "B3-unsound", "B3-not-monotone",
               "B3-inexact", "B4-pending-invented", "B4-lost-wakeup", "B5-clonable", "B5-clone-differs", "B5-original-affected", "panic",
               "I_ModelRef", "I_NoStall", "I_Prefix"]
# which clauses belong to which property (everything else the monitor can falsify is DRIFT)
C01_CLAUSES = {"B1-data-order", "B1-data-invented", "B1-frame-boundary", "B1-after-end", "B1-trailers", "B1-error-invented", "B1-early-end",
               "B1-truncated", "B1-trailers-lost", "B1-error-swallowed", "B1-kind", "B1-stalled", "B2-false-end", "B2-revoked", "B3-unsound",
               "layer-request-altered", "layer-response-altered",
               "e2e-stalled", "e2e-error-invented", "e2e-truncated", "e2e-extended", "e2e-altered", "e2e-trailers-lost", "e2e-trailers-invented",
               "e2e-error-swallowed", "e2e-content-length-wrong", "e2e-false-end", "e2e-hint-unsound"}
C17_CLAUSES = {"panic", "e2e-panic"}
ASSUMPTIONS = [
    "body: hyper 1.6 / h2 0.4 / http-body-util 0.1 are trusted: `hyper::body::Incoming`, `Full`, `Empty`, `UnsyncBoxBody` are what they are; the "
    "incoming variant is driven through a real in-memory hyper connection whose peer sends a scripted, gated body, everything is polled by hand "
    "on a paused current-thread runtime and the connection tasks settle (1 ms of virtual time) after every operation; schedules that need the "
    "connection task to run in the middle of a consumer operation are out of reach.",
    "body: the axum conversions are not compiled (feature `axum` is off in the harness); at this HEAD `Body` has no boxed variant, so a scripted "
    "custom http_body source reaches `Body` only through a hyper connection (as `Incoming`) or as the BIn/BOut type of Client/Server.",
    "body: data bytes are numbered (ops part: < 250 bytes per source; end to end: position mod 251, a loss of an exact multiple of 251 bytes is "
    "seen only in the byte count); HTTP/1 relay cases with trailers are kept below the transport buffer (plain hyper 1.6 fails there on its own, "
    "see notes/body.md U2); an error of the source relayed over HTTP/2 without a declared length ends cleanly at the far side (h2's "
    "is_end_stream is true for a reset stream, notes/body.md U1): reported as drift, not as a violation of the crate.",
]


def _tier(tier, pid):
    if tier == "quick":
        bugs = ["fullend", "hintstale", "droptrailers", "pendnone", "dupframe"] if pid == "C01" else ["errswallow", "clonempty", "hintdrop"]
        return dict(models=[("Body_quick.cfg", 2, False), ("Body_cov.cfg", 1, True)], bugs=bugs, sim=600, sim_depth=10, direct_cfg="Body_gen_direct.cfg",
                    walk=300, e2e_random=3, pool=4, mc_timeout=600)
    return dict(models=[("Body_quick.cfg", 2, False), ("Body_cov.cfg", 1, True), ("Body_thorough.cfg", 2, False), ("Body_real.cfg", 2, False),
                        ("Body_deep.cfg", 4, False)], bugs=list(BUGS),
                sim=25000, sim_depth=10, direct_cfg="Body_gen_direct4.cfg", walk=40000, e2e_random=150, pool=3, mc_timeout=1500)


def _d(pid):
    d = os.path.join(vlib.outdir(pid), "body")
    os.makedirs(d, exist_ok=True)
    return d


# ------------------------------------------------------------------------------------------------
def _model(pid, cfg, workers, cov, timeout):
    r = vlib.tlc("MC_Body", cfg, pid, workers=workers, timeout=timeout, coverage=cov, xmx="4g")
    if r.violated or not r.finished:
        vlib.log(r.out[-3000:])
        raise vlib.ToolError(f"Body.tla ({cfg}) does not satisfy {r.violated}: the specification needs attention "
                             "(a model counterexample is not a verdict on the crate)")
    return r


def _bug(pid, b):
    r = vlib.tlc("MC_Body", f"Body_bug_{b}.cfg", pid, workers=1, timeout=300, xmx="2g")
    if r.violated not in BUGS[b][1]:
        vlib.log(r.out[-2000:])
        raise vlib.ToolError(f"vacuity guard: the model with seeded defect '{b}' is not refuted as expected (TLC: {r.violated})")
    return r


def _gen_sim(pid, num, depth, seed):
    # one worker: the simulation is then a function of the seed
    r = vlib.tlc("MC_Body", "Body_gen.cfg", pid, workers=1, simulate=num, depth=depth, seed=seed, timeout=900, xmx="3g")
    vec = r.printed("VEC")
    if r.violated or not vec:
        vlib.log(r.out[-3000:])
        raise vlib.ToolError("generation config Body_gen.cfg produced no vectors")
    return vec, r


def _gen_direct(pid, cfg):
    r = vlib.tlc("MC_Body", cfg, pid, workers=1, timeout=900, xmx="3g")
    vec = r.printed("VEC")
    if r.violated or not r.finished or not vec:
        vlib.log(r.out[-3000:])
        raise vlib.ToolError(f"generation config {cfg} produced no vectors")
    return vec, r


def _harness(pid, args, timeout=1500):
    so = vlib.run_harness("body", args, timeout=timeout)
    return json.loads(so.strip().splitlines()[-1])


# ------------------------------------------------------------------------------------------------
def _runs_of(recs):
    """[(base (1-based index of the first record of the run), [records])]; an E2E record is a run of its own"""
    runs = []
    for i, r in enumerate(recs):
        if r["e"] in ("Reset", "E2E"):
            runs.append((i + 1, [r]))
        elif runs:
            runs[-1][1].append(r)
    return runs


def _vector_of(run):
    reset = run[0]
    ops = [{"op": r["op"]} for r in run[1:] if r["ph"] == "run"]
    lay = reset.get("layer", {})
    return {"stack": reset["stack"], "items": reset["items"], "ops": ops, "rscript": lay.get("script", "R"), "fail": bool(lay.get("fail", False)),
            "src": "replay"}


def _summ(run, upto=None):
    if run[0]["e"] == "E2E":
        r = run[0]
        return (f"e2e case {json.dumps(r['case'])}: sender={r['sender']} status={r['status']} read n={r['read']['n']} runs={r['read']['runs'][:4]} "
                f"trailers={r['read']['ntr']} end={r['read']['end']} framing={r['framing']} steps={[(s['k'], s['n'], s['eos'], s['lo'], s['hi'] if s['hiS'] else None) for s in r['read']['steps'][:8]]}")
    out = []
    for r in run[1:]:
        x = r["op"]
        if r["op"] == "Poll":
            x += "=" + r["res"] + (str(r["bytes"]) if r["res"] == "Data" else "")
        elif r["res"] not in ("Ok",):
            x += "=" + r["res"]
        x += f"[eos={int(r['eos'])},hint={r['lo']}..{r['hi'] if r['hiS'] else ''}]"
        if r["ph"] != "run":
            x = r["ph"] + ":" + x
        out.append(x)
    return " ".join(out[:upto] if upto else out)


def _src_text(items):
    return "[" + ",".join(("d%d" % i["n"]) if i["k"] == "d" else i["k"].upper() for i in items) + "]"


def _monitor(pid, trace, nrecs, tag):
    r = vlib.tlc_trace("BodyObs", "BodyObs.cfg", pid, trace, timeout=2400, xmx="6g")
    if r.violated == "Sane":
        raise vlib.ToolError("monitor: malformed trace record")
    if not r.finished or r.distinct != nrecs + 1:
        vlib.log(r.out[-3000:])
        raise vlib.ToolError(f"monitor ({tag}) looked at {r.distinct - 1} of {nrecs} records")
    v, d, s = r.printed("VIOL"), r.printed("DRIFT"), r.printed("STATS")
    if len(v) != 1 or len(d) != 1 or len(s) != 1:
        raise vlib.ToolError(f"monitor ({tag}) printed {len(v)}/{len(d)}/{len(s)} reports")
    return v[0], d[0], s[0], r


def _corrupt(run, pid, level):
    """A corrupted copy of a real run that the monitor must flag for this property."""
    run = json.loads(json.dumps(run))
    name = run[0]["stack"]["name"]
    for r in run[1:]:
        if pid == "C17":
            if level == 0 and r["op"] == "Poll" and r["res"] in ("None", "Pending"):
                r["res"] = "Panic"
                return run, "body/panic/" + name, "a poll_frame is recorded as a panic"
        else:
            if level == 0 and r["op"] == "Poll" and r["res"] == "Data" and r["bytes"]:
                r["bytes"][-1] += 1                      # the last byte delivered is not the next one of the source
                return run, "body/B1-data-order/" + name, "the last byte of a data frame is not the next one of the source"
            if level == 1 and r["op"] == "Poll" and r["res"] == "None" and not r["eos"]:
                idx = run.index(r)
                if idx > 1 and not run[idx - 1]["gone"]:
                    run[idx - 1]["eos"] = True           # is_end_stream was true although a frame followed ... here: before the end; make the
                    r["res"] = "Data"                    # following poll deliver (invented) data
                    r["bytes"] = [250]
                    return run, "body/B2-false-end/" + name, "is_end_stream is recorded true before a poll that delivers data"
    return None, None, None


def _self_test_run(pid, recs):
    for level in (0, 1):
        for _, run in _runs_of(recs):
            if run[0]["e"] != "Reset" or run[0]["built"] != "ok":
                continue
            bad, want, what = _corrupt(run, pid, level)
            if bad is not None:
                bad[0]["src"] = "self-test"
                return bad, want, what
    raise vlib.ToolError("self-test: no recorded run is suitable for corruption")


# ------------------------------------------------------------------------------------------------
def _classify(pid, viol, recs):
    """-> (mine {key: [v]}, other-property {key: n}, drift-class {key: n}); every v gets its run"""
    bases = [b for b, _ in _runs_of(recs)]
    runs = dict(_runs_of(recs))
    import bisect
    mine, other, drift = collections.OrderedDict(), collections.Counter(), collections.Counter()
    own = C01_CLAUSES if pid == "C01" else C17_CLAUSES
    oth = C17_CLAUSES if pid == "C01" else C01_CLAUSES
    for v in viol:
        b = bases[bisect.bisect_right(bases, v["l"]) - 1]
        v["base"] = b
        if runs[b][0].get("src") == "self-test":
            v["selftest"] = True
            continue
        if v["c"] in own:
            mine.setdefault(v["key"], []).append(v)
        elif v["c"] in oth:
            other[v["key"]] += 1
        else:
            drift[v["key"]] += 1
    return mine, other, drift, runs


def _report(pid, viol, recs, verdict):
    mine, other, drift, runs = _classify(pid, viol, recs)
    for key, lst in mine.items():
        v = min(lst, key=lambda v: (len(runs[v["base"]]), v["base"]))          # the shortest failing run of the class
        run = runs[v["base"]]
        at = v["l"] - v["base"]
        if run[0]["e"] == "E2E":
            desc = f"body end to end: clause {key} false; {len(lst)} case(s) in this class; {_summ(run)[:900]}"
            obj = {"kind": "body-ops", "sub": "e2e", "key": key, "case": run[0]["case"], "observed": {k: run[0][k] for k in ("sender", "status", "read", "framing")}}
            obj["observed"]["read"] = dict(obj["observed"]["read"], steps=obj["observed"]["read"]["steps"][:20])
        else:
            reset = run[0]
            bad = run[at] if 0 < at < len(run) else dict(reset.get("obs", {}), op="Init", built=reset.get("built"), err=reset.get("err"))
            desc = (f"body: clause {key} false at record {at} of run {reset.get('run')} [{reset.get('src')}; stack {reset['stack']['name']} via "
                    f"{reset['stack']['ctor']}, source {_src_text(reset['items'])}]; {'at least ' if len(lst) >= 25 else ''}{len(lst)} violating step(s) in this class; "
                    f"event: {json.dumps({k: bad.get(k) for k in ('op', 'ph', 'res', 'bytes', 'tv', 'eos', 'lo', 'hiS', 'hi', 'wakes', 'fed', 'err') if k in bad})}; "
                    f"layer: {json.dumps(reset.get('layer'))[:400]}; history: {_summ(run, max(at, 1))[-700:]}")
            obj = {"kind": "body-ops", "sub": "ops", "key": key, "vector": _vector_of(run), "failing_record": at,
                   "observed": [{k: r.get(k) for k in ("op", "ph", "res", "bytes", "tv", "eos", "lo", "hiS", "hi", "wakes", "fed")} for r in run[1:at + 1]][-40:]}
        verdict.violation(key, desc, obj)
    return {k: len(v) for k, v in mine.items()}, dict(other), dict(drift)


def _vec_key(v):
    return json.dumps([v["stack"], v["items"], v["ops"]], sort_keys=True)


def stage(pid, tier, seed, verdict):
    t0 = time.time()
    if pid not in ("C01", "C17"):
        raise vlib.ToolError("x_body.stage: pid must be C01 or C17")
    cfg = _tier(tier, pid)
    nomodel = bool(os.environ.get("VERIF_BODY_DEV_NOMODEL"))       # development only (mutant trials): skip the pure model runs
    if nomodel:
        cfg.update(models=[], bugs=[])
    d = _d(pid)
    vlib.build_harness("body")
    t_build = time.time() - t0
    ex = concurrent.futures.ThreadPoolExecutor(max_workers=cfg["pool"])
    f_sim = ex.submit(_gen_sim, pid, cfg["sim"], cfg["sim_depth"], seed)
    f_dir = ex.submit(_gen_direct, pid, cfg["direct_cfg"])
    f_models = [(c, ex.submit(_model, pid, c, w, cov, cfg["mc_timeout"])) for c, w, cov in cfg["models"]]
    f_bugs = {b: ex.submit(_bug, pid, b) for b in cfg["bugs"]}
    try:
        # 3a. walk and end to end do not depend on TLC: run them while TLC generates
        tr_walk = os.path.join(d, "trace_walk.ndjson")
        s_walk = _harness(pid, ["walk", "--seed", seed, "--runs", cfg["walk"], "--out", tr_walk])
        tr_e2e = os.path.join(d, "trace_e2e.ndjson")
        s_e2e = _harness(pid, ["e2e", "--seed", seed, "--random", cfg["e2e_random"], "--out", tr_e2e])
        # 2. vectors from the model -> the real types
        sim, r_sim = f_sim.result()
        direct, r_dir = f_dir.result()
        seen, vecs = set(), []
        for src, lst in (("model-exhaustive", direct), ("model", sim)):
            for v in sorted(lst, key=_vec_key):                      # (print order is not deterministic)
                k = _vec_key(v)
                if k not in seen:
                    seen.add(k)
                    v["src"] = src
                    vecs.append(v)
        if len(vecs) < 50:
            raise vlib.ToolError(f"TLC generated only {len(vecs)} vectors")
        vec_in = os.path.join(d, "vectors.ndjson")
        vlib.write_ndjson(vec_in, vecs)
        tr_replay = os.path.join(d, "trace_replay.ndjson")
        s_replay = _harness(pid, ["replay", "--in", vec_in, "--out", tr_replay])
        # 4. the monitor decides (5. self-test: a corrupted copy of a real run rides along as the last run)
        recs = vlib.read_ndjson(tr_replay) + vlib.read_ndjson(tr_walk) + vlib.read_ndjson(tr_e2e)
        st_run, st_want, st_what = _self_test_run(pid, recs)
        tr_all = os.path.join(d, "trace_all.ndjson")
        vlib.write_ndjson(tr_all, recs + st_run)
        viol_all, drift_all, stats, mon = _monitor(pid, tr_all, len(recs) + len(st_run), "all")
        all_recs = recs + st_run
        counts, other, drift_keys = _report(pid, viol_all, all_recs, verdict)
        st_viol = sorted({v["key"] for v in viol_all if v.get("selftest")})
        if st_want not in st_viol:
            raise vlib.ToolError(f"self-test: the monitor does not flag a corrupted trace (expected {st_want}, got {st_viol})")
        if stats["nviol"] > len(viol_all) or stats["ndrift"] > len(drift_all):
            vlib.log(f"[{pid}] body: the monitor kept {len(viol_all)} of {stats['nviol']} violations and {len(drift_all)} of {stats['ndrift']} drifts in full")
        # 1. model results
        models = {}
        tot_s = tot_t = 0
        cov, cov_d, cov_cfgs = collections.Counter(), collections.Counter(), []
        for (c, _, with_cov), (_, f) in zip(cfg["models"], f_models):
            r = f.result()
            models[c] = {"states": r.distinct, "transitions": r.generated, "depth": r.depth, "wall_s": round(r.wall, 1)}
            tot_s += r.distinct
            tot_t += r.generated
            if with_cov:
                cov_cfgs.append(c)
                for a, (dd, tt) in r.coverage().items():
                    cov[a] += tt
                    cov_d[a] += dd
        bugs = {b: {"defect": BUGS[b][0], "refuted_by": f.result().violated, "states": f.result().distinct} for b, f in f_bugs.items()}
    finally:
        ex.shutdown(wait=True, cancel_futures=True)
    actions = {a: {"distinct": cov_d[a], "taken": cov[a]} for a in ACTIONS if a in cov}
    never = [a for a in ACTIONS if actions.get(a, {}).get("taken", 0) == 0]
    if never and not nomodel:
        raise vlib.ToolError(f"model actions never taken in {cov_cfgs}: {never}")
    # model-vs-real differences (DRIFT): by stack and field
    real_drift = [x for x in drift_all if dict(_runs_of(all_recs)).get(x["base"], [{}])[0].get("src") != "self-test"]
    drift_by = collections.Counter(f"{x['stack']}:{x['op']}:{'+'.join(sorted(x['df']))}" for x in real_drift)
    if real_drift:
        vlib.log(f"DRIFT property={pid} (body model vs real): {len(real_drift)} run(s) differ from Body.tla, e.g. {dict(list(drift_by.items())[:4])}")
    if drift_keys:
        vlib.log(f"DRIFT property={pid} (body clauses outside this property's text): {drift_keys}")
    if other:
        vlib.log(f"[{pid}] body: clauses of the other property falsified (reported by its own check): {other}")
    panics = s_replay["panics"] + s_walk["panics"] + s_e2e["panics"]
    if panics:
        vlib.log(f"[{pid}] body: {panics} panic(s) of the code under test were recorded")
    all_runs = _runs_of(recs)
    stacks_seen = collections.Counter(r[0]["stack"]["name"] + "/" + r[0]["stack"]["ctor"] for _, r in all_runs if r[0]["e"] == "Reset")
    e2e_classes = collections.Counter(f"{r[0]['case']['proto']}/{r[0]['case']['dir']}/{r[0]['case']['variant']}" for _, r in all_runs if r[0]["e"] == "E2E")
    framing = collections.Counter()
    for _, r in all_runs:
        if r[0]["e"] == "E2E":
            c, f = r[0]["case"], r[0]["framing"]
            framing[f"{c['proto']}/{c['variant']}{'-known' if c['known'] else '-unknown'}:" + ("content-length" if f["cl"] >= 0 else ("chunked" if f["te"] else "none"))] += 1
    samples = []
    for want in ("model", "model-exhaustive", "walk"):
        for _, r in all_runs:
            if r[0]["e"] == "Reset" and r[0].get("src") == want and len(r) > 6:
                samples.append({"src": want, "stack": r[0]["stack"]["name"], "ctor": r[0]["stack"]["ctor"], "source": _src_text(r[0]["items"]), "history": _summ(r)[:600]})
                break
    for _, r in all_runs:
        if r[0]["e"] == "E2E" and r[0]["case"]["variant"].startswith("relay") and r[0]["read"]["ntr"]:
            samples.append({"src": "e2e", "history": _summ(r)[:600]})
            break
    res = {
        "spec": "spec/Body.tla", "properties_model_checked": MODEL_PROPS,
        "states": tot_s, "transitions": tot_t, "model_configs": models,
        "tlc_coverage": {"configs": cov_cfgs, "actions": actions, "actions_never_taken": never},
        "refuted_variants": bugs,
        "generation": {"simulated": len(sim), "simulation_states": int((__import__("re").findall(r"The number of states generated: (\d+)", r_sim.out) or [0])[-1]), "exhaustive_direct": len(direct), "distinct_vectors_replayed": len(vecs)},
        "replay": {"runs": s_replay["runs"], "records": s_replay["records"], "actions": s_replay["actions"]},
        "walk": {"runs": s_walk["runs"], "records": s_walk["records"], "actions": s_walk["actions"]},
        "e2e": {"cases": s_e2e["cases"], "classes": dict(e2e_classes), "framing_chosen": dict(framing)},
        "stacks_driven": len(stacks_seen), "runs_per_stack_min": min(stacks_seen.values()) if stacks_seen else 0,
        "monitor": {"spec": "spec/BodyObs.tla", "records_judged": len(recs), "op_records": stats["nops"], "runs": stats["nruns"], "e2e_cases": stats["ne2e"],
                    "falsified_clauses_of_this_property": counts, "falsified_clauses_of_the_other_property": other,
                    "wall_s": round(mon.wall, 1)},
        "drift": {"model_vs_real_runs": len(real_drift), "by_stack_op_field": dict(drift_by.most_common(12)),
                  "clauses_outside_the_property": drift_keys},
        "self_test": {"corruption": st_what, "expected_key": st_want, "monitor_flagged": st_viol},
        "samples": samples, "panics": panics, "assumptions": ASSUMPTIONS,
        "wall_s": round(time.time() - t0, 1), "harness_build_s": round(t_build, 1),
    }
    with open(os.path.join(d, "stage.json"), "w") as f:
        json.dump(res, f, indent=1)
    vlib.log(f"[{pid}] body stage: model {tot_s} states / {tot_t} transitions; {len(vecs)} vectors replayed ({s_replay['records']} records), "
             f"walk {s_walk['runs']} runs / {s_walk['records']} records, e2e {s_e2e['cases']} cases; monitor {len(recs)} records, falsified "
             f"{counts or 'nothing'}; drift model-vs-real {len(real_drift)}, other clauses {drift_keys or 'none'}; {len(bugs)} variants refuted; "
             f"{time.time() - t0:.0f}s")
    return res


def replay(pid, obj):
    """Re-executes a replay object of kind "body-ops" on the current tree; exit code as a check (0 / 1)."""
    rp = obj.get("replay", obj)
    if rp.get("kind") != "body-ops":
        raise vlib.ToolError("x_body.replay: not a body-ops replay object")
    d = _d(pid)
    tr = os.path.join(d, "replay_trace.ndjson")
    inp = os.path.join(d, "replay_in.ndjson")
    if rp.get("sub") == "e2e":
        vlib.write_ndjson(inp, [rp["case"]])
        _harness(pid, ["e2e", "--cases-from", inp, "--out", tr], timeout=600)
    else:
        vlib.write_ndjson(inp, [rp["vector"]])
        _harness(pid, ["replay", "--in", inp, "--out", tr], timeout=600)
    recs = vlib.read_ndjson(tr)
    viol, _, _, _ = _monitor(pid, tr, len(recs), "replay")
    verdict = vlib.Verdict(pid)
    counts, other, drift = _report(pid, viol, recs, verdict)
    code, _ = verdict.finish()
    if code == 0:
        print(f"replay: the body clauses of {pid} hold on this input on the current tree ({len(recs)} records; other keys: {dict(other, **drift)})", flush=True)
    return code


if __name__ == "__main__":
    # development entry point: python3 checks/x_body.py C01|C17 quick|thorough [seed]   |   ... replay C01 <file>
    import sys
    sys.path.insert(0, os.path.join(vlib.ROOT, "lib"))
    if sys.argv[1] == "replay":
        sys.exit(replay(sys.argv[2], json.load(open(sys.argv[3]))))
    pid, tier = sys.argv[1], sys.argv[2]
    seed = int(sys.argv[3]) if len(sys.argv) > 3 else vlib.seed_from_env()
    vd = vlib.Verdict(pid)
    out = stage(pid, tier, seed, vd)
    code, _ = vd.finish()
    print(json.dumps({k: out[k] for k in ("states", "transitions", "generation", "stacks_driven", "wall_s")}))
    print(json.dumps(out["monitor"]))
    print(json.dumps(out["drift"])[:1500])
    sys.exit(code)
