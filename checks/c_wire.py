"""C13 -- the request put on the wire matches the connection's protocol.

Pipeline (DESIGN.md 3.5 / 4 C13):
  1. TLC checks Wire.tla: the layer-by-layer transcription of the code yields, on every vector of the cross
     product, the outcome the property text prescribes (InvC13, InvExpected), with per-action coverage.
  2. TLC (Wire_gen_<tier>.cfg) writes every vector with its expected outcome: layer-level vectors, the
     protocol-selection vectors, and end-to-end runs (a request vector joined with an ALPN result).
  3. harness bin `wire` instantiates every vector with seeded concrete values and executes it on the REAL code:
     public layers in builder order around a stub connection; real ConnectionPoolService + HttpConnectionBuilder
     + layers + RequestExecutor over an in-memory IO reporting ALPN, raw peer reading the wire.
  3b. pooled history through the real builder: every "seq" vector (previous request version x ALPN result x request
     vector) is run as TWO requests on a client assembled by the REAL hyperdriver::Client::builder() (in-memory transport,
     HttpConnectionBuilder, default pool, with_tls + a real rustls peer handshake forcing the ALPN result): the second
     request is served by the pooled connection the first one opened, whose protocol need not be the one it asks for.
  4. TLC (WireObs.tla, -continue, several instances over chunks of the record file) evaluates the C13 clauses
     on every record. Only its rejection of a record produces a VIOLATION. Differences in components the text
     does not name are DRIFT (stderr + evidence), exit 0.
"""
import glob
import json
import os
import subprocess
import time
from concurrent.futures import ThreadPoolExecutor

import vlib

SPELLINGS = {"quick": 1, "thorough": 1}
CHUNK = 30000
PAR = 4


def make_cert(pid):
    """A throw-away self-signed certificate for the raw TLS peer (the client accepts any certificate)."""
    d = os.path.join(vlib.outdir(pid), "certs")
    os.makedirs(d, exist_ok=True)
    p = subprocess.run(["openssl", "req", "-x509", "-newkey", "ec", "-pkeyopt", "ec_paramgen_curve:P-256", "-nodes",
                        "-keyout", os.path.join(d, "key.pem"), "-out", os.path.join(d, "cert.pem"), "-days", "30",
                        "-subj", "/CN=verif C13", "-addext", "subjectAltName=DNS:example.com"],
                       stdout=subprocess.PIPE, stderr=subprocess.STDOUT, text=True, timeout=120)
    if p.returncode != 0 or not os.path.exists(os.path.join(d, "cert.pem")):
        vlib.log(p.stdout[-2000:])
        raise vlib.ToolError("openssl could not generate the test certificate")
    return d


def _obs_chunk(pid, path, tag):
    r = vlib.tlc("WireObs", "WireObs.cfg", pid + "/" + tag, workers=1, timeout=1700, xmx="5g",
                 env={"TRACE": os.path.abspath(path)}, extra=["-continue"])
    cons = [l for l in r.out.splitlines() if l.startswith('<<"CONSUMED"')]
    if not r.finished or not cons:
        vlib.log(r.out[-3000:])
        raise vlib.ToolError("WireObs did not complete on " + path)
    if "Invariant WellFormed is violated" in r.out:
        vlib.log(r.out[-3000:])
        raise vlib.ToolError("WireObs: a record is outside the domain of the spec (harness/spec mismatch)")
    return r


def _obs(pid, records_path, nrec):
    """Runs the monitor over the record file in chunks; returns (bad, diff, states) with global 1-based indices."""
    d = vlib.outdir(pid)
    chunks = []
    with open(records_path) as f:
        k, n, out = 0, 0, None
        for line in f:
            if n % CHUNK == 0:
                if out:
                    out.close()
                k += 1
                p = os.path.join(d, "chunk-%d.ndjson" % k)
                out = open(p, "w")
                chunks.append((p, n))
            out.write(line)
            n += 1
        if out:
            out.close()
    if n != nrec:
        raise vlib.ToolError("record file has %d lines, harness reported %d" % (n, nrec))
    os.makedirs(os.path.join(vlib.OUT, pid), exist_ok=True)
    with ThreadPoolExecutor(max_workers=PAR) as ex:
        res = list(ex.map(lambda c: _obs_chunk(pid, c[0], "obs%d" % (chunks.index(c) + 1)), chunks))
    bad, diff, states = [], [], 0
    for (p, off), r in zip(chunks, res):
        states += r.distinct
        for b in r.printed("BAD"):
            b["i"] += off
            bad.append(b)
        for x in r.printed("DIFF"):
            diff.append(x["i"] + off)
        os.remove(p)
    if states != nrec:
        raise vlib.ToolError("WireObs consumed %d of %d records" % (states, nrec))
    return bad, diff, states


def _key(b):
    return "%s:%s:%s" % (b["mode"], b["clause"], ",".join(b["class"]))


def _describe(rec, b):
    c, o = rec["c"], rec["o"]
    if c["mode"] in ("client1", "client2"):
        pre = ("request #%s of a real Client::builder() client%s: " % (
            c["mode"][-1], "" if c["mode"] == "client1" else
            " (served by the pooled connection opened by an HTTP/%s request, reused=%s, dials=%s)" % (
                rec["v"].get("prv"), o.get("reused"), o.get("dials"))))
    else:
        pre = ""
    return pre + ("clause %s fails (%s): %s %s HTTP/%s headers=%s on a %s connection%s -> %s target=%r Host=%r version=%s "
            "left=%s proto=%s %s" % (
                b["clause"], c["mode"], c["method"], c["uri"], c["ver"], json.dumps(c["headers"]),
                rec["v"].get("conn", o["proto"]), (" alpn=" + c["alpn"]) if c["alpn"] else "", o["kind"], o["target"],
                o["hosts"], o["ver"], o["hdrs"], o["proto"], o["err"]))


def _read_record(path, idxs):
    """Picks the records with the given 1-based indices out of a large ndjson file."""
    want = set(idxs)
    got = {}
    with open(path) as f:
        for n, line in enumerate(f, 1):
            if n in want:
                got[n] = json.loads(line)
                if len(got) == len(want):
                    break
    return got


def run(pid, tier, seed, t0):
    d = vlib.outdir(pid)
    for old in glob.glob(os.path.join(d, "violation-*.json")):
        os.remove(old)
    # 1. the model
    m = vlib.tlc("MC_Wire", "Wire_%s.cfg" % tier, pid, workers=8, timeout=1500, coverage=True)
    if not m.finished or m.violated:
        vlib.log(m.out[-3000:])
        raise vlib.ToolError("Wire.tla: the transcription of the code does not produce the expected outcome on the model "
                             "(spec error or a defect to be confirmed on the real code): " + str(m.violated))
    cov = m.coverage()
    never = sorted(a for a, (dist, taken) in cov.items() if taken == 0)
    # 2. vectors
    vpath = os.path.join(d, "vectors.ndjson")
    if os.path.exists(vpath):
        os.remove(vpath)
    g = vlib.tlc("MC_Wire", "Wire_gen_%s.cfg" % tier, pid, workers=1, timeout=900, env={"GEN_OUT": vpath},
                 extra=["-maxSetSize", "4000000"])
    gen = [l for l in g.out.splitlines() if l.startswith('<<"GENERATED"')]
    if not g.finished or not gen or not os.path.exists(vpath):
        vlib.log(g.out[-3000:])
        raise vlib.ToolError("Wire_gen produced no vectors")
    n_req, n_sel, n_e2e, n_seq = [int(x) for x in gen[0].strip("<>").split(",")[1:]]
    # 3. the real code
    rpath = os.path.join(d, "records.ndjson")
    k = SPELLINGS[tier]
    out = vlib.run_harness("wire", ["gen", vpath, rpath, seed, k], timeout=1500, env={"C13_CERTS": make_cert(pid)})
    nrec = json.loads(out.strip().splitlines()[-1])["records"]
    expect = (n_req + n_e2e + 2 * n_seq) * k + n_sel * max(k, 8)
    if nrec != expect:
        raise vlib.ToolError("harness executed %d of %d runs" % (nrec, expect))
    # 4. the monitor
    bad, diff, states = _obs(pid, rpath, nrec)

    verdict = vlib.Verdict(pid)
    by_key = {}
    for b in bad:
        by_key.setdefault(_key(b), []).append(b)
    first = _read_record(rpath, [bs[0]["i"] for bs in by_key.values()] + [1, nrec // 3, nrec // 2, nrec] + diff[:3])
    for key in sorted(by_key):
        bs = by_key[key]
        verdict.violation(key, _describe(first[bs[0]["i"]], bs[0]) + " [%d records of this class]" % len(bs),
                          {"records": [first[bs[0]["i"]]]})
    if diff:
        vlib.log("DRIFT property=%s: %d records differ from the modelled behaviour in components the property does not "
                 "name, e.g. %s" % (pid, len(diff), json.dumps(first[diff[0]])[:600]))
    connector = __import__("x_connector").stage(pid, tier, seed, verdict)   # Connector.tla: handshake asked for the request's protocol
    upgrade = __import__("x_upgrade").stage(pid, tier, seed, verdict)       # Upgrade.tla: U4, no upgrade machinery on HTTP/2
    code, unlisted = verdict.finish()

    samples = [first[1], first[nrec // 3], first[nrec // 2], first[nrec]]
    if bad:
        samples.append(first[bad[0]["i"]])
    vlib.write_evidence(
        pid, tier, seed, "model_checking",
        {
            "connector_model": connector, "upgrade_model": upgrade,
            "states": m.distinct, "transitions": m.generated - (n_req + n_sel + n_seq),
            "traces_validated_against_impl": nrec,
            "samples": samples,
            "evaluations": nrec,
            "distinct_nontrivial": n_req + n_sel + n_e2e + n_seq,
            "rule": "TLC enumerates the cross product connection version{h1,h2} x request version{1.0,1.1,2} x method{GET,POST,"
                    "CONNECT,extension} x scheme{http,https,ws,wss,other} x host{name,IPv4,[IPv6]} x port{absent,default,"
                    "other-family default,other} x path{empty,/,longer} x query{no,yes} x pre-set Host{none,same,other} x "
                    "connection-specific header subsets (%s) = %d layer-level vectors, request version x ALPN{no TLS,none,"
                    "http/1.1,h2} = %d selection vectors, and %d end-to-end runs (request vector x ALPN result selecting that "
                    "connection version%s), and %d pooled-history vectors (previous request version x ALPN x request vector: two "
                    "requests through the real Client::builder() client, the second served by the pooled connection of the "
                    "first); every vector is executed on the real code with %d seeded spelling(s) (selection "
                    "vectors %d); distinct_nontrivial counts the distinct abstract vectors executed, all of which exercise at "
                    "least one clause" % (
                        "4 subsets: none, all, two complementary halves" if tier == "quick" else "all 64 subsets",
                        n_req, n_sel, n_e2e,
                        "; quick: GET/CONNECT, http/https, no/all headers" if tier == "quick" else "; 4 header subsets",
                        n_seq, k, max(k, 8)),
            "exhaustive": True,
            "layer_vectors": n_req, "selection_vectors": n_sel, "end_to_end_runs": n_e2e,
            "pooled_history_vectors_through_real_builder": n_seq,
            "monitor_states": states,
            "tlc_coverage": {a: list(c) for a, c in cov.items()},
            "actions_never_taken": never,
            "violating_records": len(bad), "violation_classes": len(by_key),
            "drift": {"records_differing_in_unnamed_components": len(diff),
                      "examples": [first[i] for i in diff[:3]]},
            "repo_tree": vlib.repo_tree_id(),
        },
        ["the harness instantiates abstract classes with the concrete spellings they name and lower-cases host values for "
         "the case-insensitive comparison (checked by reading harness/src/bin/wire.rs)",
         "layer-level runs use a stub Connection that reports HTTP/1.1 or HTTP/2 through the public Connection trait; "
         "the request target is what hyper's HTTP/1 encoder writes (Display of the Uri), confirmed by the end-to-end runs "
         "that read the request line from the wire",
         "ALPN is reported through the public HasTlsConnectionInfo on an in-memory IO in the sel/e2e runs (hand-built stack in "
         "builder order); the client1/client2 runs use the stack client/builder.rs really assembles and a real rustls "
         "handshake with a peer offering exactly one ALPN protocol (client accepts any certificate)",
         "schemes are spelled in lower case; 'other' schemes have no default port class",
         "on HTTP/2 end-to-end runs hyper's own header stripping sits between the layers and the wire; the layer-level "
         "runs observe the layers' output directly",
         "TLC and the CommunityModules Json reader are trusted"],
        time.time() - t0, unlisted)
    if tier == "thorough":          # ~1.7 GB of records; violations carry their own records
        for big in (rpath, vpath):
            if os.path.exists(big):
                os.remove(big)
    vlib.log("[C13] %d layer vectors + %d selection vectors + %d end-to-end runs + %d pooled-history runs (2 requests each, "
             "real Client::builder()) -> %d executions on the real code; %d violating records in %d classes; %d drift; "
             "model %d states" % (n_req, n_sel, n_e2e, n_seq, nrec, len(bad), len(by_key), len(diff), m.distinct))
    return code


def replay(pid, path):
    d = vlib.outdir(pid)
    obj = json.load(open(path))
    _rk = obj.get("replay", {}).get("kind") if isinstance(obj.get("replay"), dict) else None
    if _rk == "connector-trace":
        return __import__("x_connector").replay(pid, obj)
    if _rk == "upgrade-scenario":
        return __import__("x_upgrade").replay(pid, obj)
    if _rk == "body-ops":
        return __import__("x_body").replay(pid, obj)
    if _rk == "tcpcall-row":
        _c = __import__("x_tcpcall").replay(pid, obj)
        if _c:
            print("VIOLATION property=%s replay=%s" % (pid, path), flush=True)
        return _c
    recs = obj["replay"]["records"] if "replay" in obj else obj["records"]
    inp = os.path.join(d, "replay-in.ndjson")
    outp = os.path.join(d, "replay-out.ndjson")
    vlib.write_ndjson(inp, recs)
    vlib.run_harness("wire", ["rerun", inp, outp], timeout=300, env={"C13_CERTS": make_cert(pid)})
    new = vlib.read_ndjson(outp)
    bad, _, _ = _obs(pid, outp, len(new))
    for r in new:
        vlib.log("  replayed: %s %s HTTP/%s %s -> %s" % (r["c"]["method"], r["c"]["uri"], r["c"]["ver"],
                                                         json.dumps(r["c"]["headers"]), json.dumps(r["o"], sort_keys=True)))
    if bad:
        rp = os.path.join(d, "replay-violation.json")
        json.dump({"property": pid, "key": _key(bad[0]), "replay": {"records": [new[b["i"] - 1] for b in bad]}},
                  open(rp, "w"), indent=1)
        print("VIOLATION property=%s replay=%s" % (pid, rp), flush=True)
        vlib.log("  " + _describe(new[bad[0]["i"] - 1], bad[0]))
        return 1
    print("replay: property %s holds on the replayed input(s)" % pid)
    return 0
