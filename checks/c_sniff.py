"""C08 — protocol detection on the auto-detecting server is independent of fragmentation and the protocol
handler sees exactly the client's bytes.

  1. TLC model-checks Sniff.tla (intended variant, coverage on): every m in 0..24, len <= 32, eof/continue, every
     chunking with <= 4 (quick) / <= 6 (thorough) cuts plus the one-byte-at-a-time chunking, Pending anywhere,
     handler buffer capacities {1,5,24,64}: C08Decision, C08Bytes, C08Answer (+ thorough: simulation, SniffFn link).
  2. TLC prints the replay domain (Sniff_gen_*.cfg: cut sets, stream-class x entry families, Rewind families) and,
     from the as-built variant (Sniff_asbuilt.cfg, defect D7), the failing chunking.
  3. harness bin `sniff` executes every vector on the REAL crate (auto::Builder, the Protocol impl with Connecting +
     TokioIo, the whole Server, and hyperdriver::verif::Rewind directly), differentially against plain hyper.
  4. SniffObs.tla (TLC) evaluates the C08 formulas of Sniff.tla on every recorded observation: only a false formula
     is a VIOLATION; a difference from the model that keeps them true is DRIFT.
"""
import json
import os
import re
import time

import vlib

BIN = "sniff"


def run_bin(args, stdin, timeout):
    """Runs the harness binary built from /repo's working tree. Development only: VERIF_SNIFF_BIN points at a
    binary prebuilt against a scratch worktree (validation of candidate patches / mutants, see notes/sniff.md)."""
    alt = os.environ.get("VERIF_SNIFF_BIN")
    if not alt:
        return vlib.run_harness(BIN, args, stdin=stdin, timeout=timeout)
    import subprocess
    vlib.log(f"[dev] using prebuilt harness {alt} (NOT /repo's working tree)")
    p = subprocess.run([alt] + [str(a) for a in args], input=stdin, text=True, stdout=subprocess.PIPE,
                       stderr=subprocess.PIPE, timeout=timeout)
    if p.returncode != 0:
        vlib.log(p.stderr[-3000:])
        raise vlib.ToolError(f"harness {alt} exited {p.returncode}")
    return p.stdout
PREFACE = b"PRI * HTTP/2.0\r\n\r\nSM\r\n\r\n"
TLC_FIELDS_CONN = ("k", "head", "len", "eof", "proto", "saw", "sent", "ans", "ref", "io", "caps")
TLC_FIELDS_REWIND = ("k", "len", "saw", "sent")


def lcp(head):
    n = 0
    for a, b in zip(head, PREFACE):
        if a != b:
            break
        n += 1
    return n


# ------------------------------------------------------------------------------------------------
# TLC: model
def model_check(pid, tier):
    cfg = "Sniff_quick.cfg" if tier == "quick" else "Sniff_thorough.cfg"
    r = vlib.tlc("MC_Sniff", cfg, pid, workers=8, coverage=True, timeout=1500)
    if r.violated or not r.finished:
        return r, None
    return r, r.coverage()


def parse_asbuilt_cex(out):
    """The last state of TLC's counterexample for the as-built variant: stream class and IO script."""
    i = out.rfind("State ")
    if i < 0:
        return None
    st = out[i:]
    def num(name):
        mm = re.search(r"/\\ %s = (\d+)" % name, st)
        return int(mm.group(1)) if mm else None
    mh = re.search(r"/\\ hist = <<([^>]*)>>", st)
    me = re.search(r"/\\ eof = (TRUE|FALSE)", st)
    if mh is None or me is None:
        return None
    hist = [int(x) for x in mh.group(1).replace(" ", "").split(",") if x]
    return {"m": num("m"), "len": num("len"), "eof": me.group(1) == "TRUE", "hist": hist,
            "version": re.search(r'/\\ version = "(\w+)"', st).group(1)}


def cex_to_vector(cex, sid):
    """Complete the counterexample's IO script to a chunking of the whole window."""
    chunks = [x for x in cex["hist"] if 0 < x < 1000]
    w = cex["len"] if cex["eof"] else 32
    rest = w - sum(chunks)
    if rest > 0:
        chunks.append(rest)
    kind = "h2post" if cex["m"] == 24 else "div"
    return {"t": "connx", "sid": sid, "m": cex["m"], "kind": kind, "len": cex["len"], "eof": cex["eof"],
            "entry": "builder", "chunks": chunks, "pendmask": 0, "expect": {"asbuilt_model_proto": cex["version"]}}


# ------------------------------------------------------------------------------------------------
def gen_domain(pid, tier):
    cfg = "Sniff_gen_quick.cfg" if tier == "quick" else "Sniff_gen_thorough.cfg"
    r = vlib.tlc("MC_Sniff", cfg, pid, workers=1, timeout=900)
    cuts, fams, rew = r.printed("CUTS"), r.printed("FAMILIES"), r.printed("REWIND")
    if not (cuts and fams and rew):
        vlib.log(r.out[-3000:])
        raise vlib.ToolError("TLC did not print the replay domain")
    return cuts[0], fams[0], rew[0]


def harness_lines(cuts, fams, rew, explicit):
    lines = [json.dumps({"t": "cuts", "L": cuts["L"], "masks": cuts["masks"]}, separators=(",", ":"))]
    classes = {}
    fl = []
    for f in fams:
        sc = f["sc"]
        key = (sc["m"], sc["kind"], sc["len"], sc["eof"])
        classes.setdefault(key, len(classes) + 1)
        fl.append((classes[key], f["entry"], f["K"], f))
    fl.sort(key=lambda x: (x[0], x[1], x[2], json.dumps(x[3]["pend"])))
    for sid, entry, K, f in fl:
        sc = f["sc"]
        lines.append(json.dumps({"t": "conn", "sid": sid, "m": sc["m"], "kind": sc["kind"], "len": sc["len"],
                                 "eof": sc["eof"], "entry": entry, "K": K, "pend": list(f["pend"]),
                                 "ones": bool(f["ones"])}, separators=(",", ":")))
    for f in sorted(rew, key=lambda x: (x["p"], x["len"])):
        lines.append(json.dumps({"t": "rewind", "p": f["p"], "len": f["len"], "K": f["K"],
                                 "caps": sorted(f["caps"])}, separators=(",", ":")))
    for v in explicit:
        lines.append(json.dumps(v, separators=(",", ":")))
    return lines, len(classes)


def explicit_vectors():
    """Hand-picked vectors that are always replayed: cancel / hold runs (conformance only)."""
    base = {"t": "connx", "sid": 9001, "m": 0, "kind": "get", "len": 32, "eof": False, "pendmask": 0}
    h2 = {"t": "connx", "sid": 9002, "m": 24, "kind": "h2post", "len": 32, "eof": False, "pendmask": 0}
    out = []
    for e in ("builder", "protocol"):
        out.append(dict(base, entry=e, chunks=[10, 22], cancel=0))   # graceful shutdown before any byte
        out.append(dict(base, entry=e, chunks=[10, 22], cancel=1))   # after the decision (hyper's own shutdown)
        out.append(dict(h2, entry=e, chunks=[10, 22], cancel=0))
        out.append(dict(h2, entry=e, chunks=[10, 22], hold=1))       # client pauses inside the preface
        out.append(dict(h2, entry=e, chunks=[10, 22], cancel=1))     # shutdown while the sniffer waits inside it
    return out


# ------------------------------------------------------------------------------------------------
def tlc_view(r):
    if r["k"] in ("conn",):
        return {k: r[k] for k in TLC_FIELDS_CONN if k in r}
    if r["k"] == "rewind":
        return {k: r[k] for k in TLC_FIELDS_REWIND}
    return {"k": r["k"]}


def monitor(pid, recs, cfg="SniffObs.cfg", tag="obs"):
    """Runs the TLC property monitor over the records; returns (fails {idx: set(clauses)}, drift idx list)."""
    path = os.path.join(vlib.outdir(pid), f"trace-{tag}.ndjson")
    vlib.write_ndjson(path, [tlc_view(r) for r in recs])
    t = time.time()
    res = vlib.tlc_trace("SniffObs", cfg, pid, path, timeout=1500, xmx="8g")
    consumed = res.printed("CONSUMED")
    if res.violated is not None and cfg != "SniffObs_strict.cfg":
        vlib.log(res.out[-3000:])
        raise vlib.ToolError("SniffObs: unexpected invariant violation")
    if cfg == "SniffObs_strict.cfg":
        return res, None, None, time.time() - t
    if not consumed or consumed[0]["n"] != len(recs):
        vlib.log(res.out[-3000:])
        raise vlib.ToolError(f"SniffObs did not consume the whole trace ({consumed} of {len(recs)})")
    fails = {}
    for f in res.printed("FAIL"):
        fails.setdefault(f["l"] - 1, set()).add(f["clause"])
    drift = sorted({d["l"] - 1 for d in res.printed("DRIFT")})
    return res, fails, drift, time.time() - t


def monitor_selftest(pid):
    """The monitor must report exactly the known-false formulas on a fixed set of synthetic records
    (guards against a vacuous or broken monitor; a mismatch is a tool error, never a verdict)."""
    pre = list(PREFACE)
    get = list(b"GET / HTTP/1.1\r\nhost: a\r\n\r\n")[:24]
    c = lambda head, proto, saw="q", sent="q", ans="a", ref=("a", "b"): {
        "k": "conn", "head": head, "len": 32, "eof": False, "proto": proto, "saw": saw, "sent": sent, "ans": ans, "ref": list(ref)}
    canaries = [
        (c(pre, "h2"), set()),
        (c(pre, "h1"), {"decision"}),
        (c(pre, "none"), {"decision"}),
        (c(get, "h2"), {"decision"}),
        (c(get, "h1"), set()),
        (c(pre[:23] + [88], "h1", saw="x"), {"bytes"}),
        (c(pre[:23] + [88], "h2"), {"decision"}),
        (c(get, "h1", ans="c"), {"answer"}),
        (c(pre[:5], "none", ans="b"), set()),
        ({"k": "rewind", "len": 3, "saw": [1, 3], "sent": [1, 2, 3]}, {"bytes", "answer"}),
        ({"k": "rewind", "len": 3, "saw": [1, 2, 3], "sent": [1, 2, 3]}, set()),
        ({"k": "cancel"}, set()),
    ]
    _, fails, _, _ = monitor(pid, [r for r, _ in canaries], tag="selftest")
    for i, (_, exp) in enumerate(canaries):
        if fails.get(i, set()) != exp:
            raise vlib.ToolError(f"SniffObs self-test: record {i} expected false clauses {sorted(exp)}, TLC reported {sorted(fails.get(i, set()))}")
    return len(canaries)


# ------------------------------------------------------------------------------------------------
# violation keys: the failing input class, summarised
def rng(vals):
    vals = sorted(set(vals))
    if not vals:
        return "-"
    return str(vals[0]) if len(vals) == 1 else f"{vals[0]}..{vals[-1]}"


def diff_kind(sent, saw):
    if len(saw) < len(sent):
        it = iter(sent)
        return "lost" if all(x in it for x in saw) else "lost+differ"
    if len(saw) > len(sent):
        it = iter(saw)
        return "dup" if all(x in it for x in sent) else "dup+differ"
    return "reordered" if sorted(saw) == sorted(sent) else "differ"


def vec_of(r, ex):
    return {"t": "connx", "sid": r["sid"], "m": lcp(r["head"]), "kind": r["kind"], "len": r["len"], "eof": r["eof"],
            "entry": r["entry"], "chunks": ex["chunks"], "pendmask": ex.get("pendmask", 0)}


def summarise(recs, fails):
    """-> list of (key, description, replay_obj)"""
    buckets = {}
    for i, cl in sorted(fails.items()):
        r = recs[i]
        if r["k"] == "rewind":
            ex = r["ex"][0]
            rel = "cap<p" if ex["caps"][0] < r["p"] else "cap>=p"
            b = ("rewind", diff_kind(r["sent"], r["saw"]), rel)
        else:
            m = lcp(r["head"])
            exp = "h2" if m >= 24 else "h1"
            obs = r["proto"] if r["proto"] in ("h2", "stalled", "other") else ("h1" if exp == "h1" or "decision" not in cl else "not-h2")
            if exp == "h2" and r["proto"] != "h2":
                obs = "not-h2" if r["proto"] in ("h1", "none") else r["proto"]
            if r["proto"] == "stalled-spinning":
                obs = "never-answered"
            b = ("conn", exp, obs, "+".join(sorted(cl)))
        buckets.setdefault(b, []).append(i)
    out = []
    for b, idxs in sorted(buckets.items()):
        rs = [recs[i] for i in idxs]
        if b[0] == "rewind":
            key = f"rewind-bytes-{b[1]}@{b[2]}"
            ps = rng(r["p"] for r in rs)
            desc = (f"Rewind does not replay the client's bytes ({b[1]}): prefix lengths p={ps}, "
                    f"{sum(r['n'] for r in rs)} vectors; e.g. p={rs[0]['p']} len={rs[0]['len']} {rs[0]['ex'][0]} "
                    f"saw={rs[0]['saw']}")
            vecs = [{"t": "rewindx", "p": r["p"], "len": r["len"], "chunks": r["ex"][0]["chunks"], "caps": r["ex"][0]["caps"]}
                    for r in rs[:20]]
        else:
            _, exp, obs, cl = b
            ms = rng(lcp(r["head"]) for r in rs)
            grp = [r for r in rs if r.get("g") == 1]
            # how the failing chunkings relate to the size of the first chunk
            if grp:
                fams = {}
                for r in grp:
                    f = fams.setdefault(r["fam"], [0, 0, r["famn"], r["famsplit"], 99, 0])
                    f[0] += r["n"]
                    f[1] += r["nsplit"]
                    f[4] = min(f[4], r["fmin"])
                    f[5] = max(f[5], r["fmax"])
                if all(f[0] == f[2] for f in fams.values()):
                    first = "any-chunking"
                elif all(f[0] == f[1] == f[3] for f in fams.values()):
                    first = "first<24=all"       # exactly the chunkings whose first chunk is shorter than the preface
                else:
                    first = "first=" + rng([f[4] for f in fams.values()] + [f[5] for f in fams.values()])
            else:
                first = "first=" + rng(r["chunks"][0] if r.get("chunks") else 0 for r in rs)
            name = {"h2": "h2-preface", "h1": "non-preface"}[exp]
            if exp == "h2" and obs != "h2" and first == "first<24=all":
                name = "h2-preface-split"
            key = f"{name}-served-{obs}[{cl}]@m={ms};{first}"
            if obs == "never-answered":
                # the connection neither answered nor closed (the code under test busy-loops): the chunkings are not part
                # of the key (after watchdog stalls the rest of a class is skipped, so their range is not stable)
                if all(r["eof"] and r["len"] == lcp(r["head"]) < 24 for r in rs):
                    name = "preface-prefix-eof"
                key = f"{name}-never-answered[{cl}]@m={ms}"
            kinds = sorted({(r["kind"], "eof%d" % r["len"] if r["eof"] else "cont") for r in rs})
            entries = sorted({r["entry"] for r in rs})
            e0 = rs[0]
            ex0 = e0["ex"][0] if e0.get("ex") else {"chunks": e0.get("chunks"), "pendmask": e0.get("pendmask", 0)}
            desc = (f"stream classes with m={ms} (expected {exp}) observed {obs}; false clauses: {cl}; "
                    f"{sum(r.get('n', 1) for r in rs)} vectors over {len(kinds)} stream classes via {entries}; chunkings: {first}; "
                    f"e.g. kind={e0['kind']} len={e0['len']} eof={e0['eof']} entry={e0['entry']} chunks={ex0['chunks']} "
                    f"pendmask={ex0.get('pendmask', 0)} -> proto={e0['proto']} answer={e0.get('human', e0['ans'])!r} "
                    f"handler saw {e0['saw']!r}; single-protocol server: handler saw {e0['sent']!r}")
            vecs = []
            seen = set()
            for r in rs:
                exs = r["ex"] if r.get("ex") else [{"chunks": r["chunks"], "pendmask": r.get("pendmask", 0)}]
                for ex in exs[:1]:
                    kk = (r["kind"], r["len"], r["eof"], r["entry"])
                    if kk in seen or len(vecs) >= 24:
                        continue
                    seen.add(kk)
                    vecs.append(vec_of(r, ex))
        out.append((key, desc, {"vectors": vecs, "clauses": b[-1] if b[0] == "conn" else "bytes"}))
    return out


# ------------------------------------------------------------------------------------------------
def run(pid, tier, seed, t0):
    V = vlib.Verdict(pid)
    threads = 8
    sample = 5000 if tier == "quick" else 20000

    # the replay domain is printed by TLC; in the thorough tier that takes minutes (942 649 cut sets), so it runs
    # beside the model checking
    import threading
    genres = {}

    def gen_thread():
        try:
            genres["v"] = gen_domain(pid, tier)
        except Exception as e:  # re-raised below
            genres["e"] = e
    gt = threading.Thread(target=gen_thread)
    gt.start()

    # 1. model
    mc, cov = model_check(pid, tier)
    if cov is None:
        vlib.log(mc.out[-4000:])
        raise vlib.ToolError(f"Sniff.tla (intended variant) does not satisfy C08 on the model: {mc.violated}; fix the model")
    never = sorted(a for a, (d, t) in cov.items() if t == 0)
    extra_model = {}
    if tier == "thorough":
        allc = vlib.tlc("MC_Sniff", "Sniff_all.cfg", pid, workers=8, timeout=1200)
        if allc.violated or not allc.finished:
            vlib.log(allc.out[-4000:])
            raise vlib.ToolError(f"Sniff_all.cfg: {allc.violated}; fix the model")
        sim = vlib.tlc("MC_Sniff", "Sniff_thorough.cfg", pid, workers=8, simulate=100000, depth=80, seed=seed, timeout=900)
        if sim.violated:
            vlib.log(sim.out[-4000:])
            raise vlib.ToolError(f"simulation of Sniff.tla violates {sim.violated}; fix the model")
        ms = re.search(r"(\d+) states checked, (\d+) traces generated", sim.out)
        fn = vlib.tlc("MC_Sniff", "Sniff_fn.cfg", pid, workers=8, timeout=900)
        if fn.violated or not fn.finished:
            raise vlib.ToolError("Sniff_fn.cfg: SniffFn disagrees with the automaton; fix the model")
        extra_model = {"all_chunkings_model": {"config": "Sniff_all.cfg (MaxCuts = 31: every cut set of the window)",
                                               "states": allc.distinct, "transitions": allc.generated},
                       "simulation": {"states_checked": int(ms.group(1)) if ms else 0, "traces": int(ms.group(2)) if ms else 0},
                       "fn_link": {"config": "Sniff_fn.cfg", "states": fn.distinct}}

    # as-built variant: TLC produces the failing chunking (standing demonstration, D7)
    ab = vlib.tlc("MC_Sniff", "Sniff_asbuilt.cfg", pid, workers=4, timeout=600)
    cex = parse_asbuilt_cex(ab.out) if ab.violated == "C08Decision" else None
    if cex is None:
        raise vlib.ToolError("as-built variant: TLC did not produce the expected counterexample to C08Decision")
    explicit = [cex_to_vector(cex, 9000)] + explicit_vectors()

    # 2. replay domain from TLC, 3. real crate
    gt.join()
    if "e" in genres:
        raise genres["e"]
    cuts, fams, rew = genres["v"]
    lines, nclasses = harness_lines(cuts, fams, rew, explicit)
    obs_path = os.path.join(vlib.outdir(pid), "obs.ndjson")
    th = time.time()
    run_bin(["--out", obs_path, "--threads", threads, "--sample", sample, "--seed", seed], "\n".join(lines) + "\n", 2400)
    harness_wall = time.time() - th
    recs = vlib.read_ndjson(obs_path)
    summary = [r for r in recs if r["k"] == "summary"][0]
    recs = [r for r in recs if r["k"] != "summary"]

    # 4. TLC decides
    ncanary = monitor_selftest(pid)
    res, fails, drift, mon_wall = monitor(pid, recs)
    viols = summarise(recs, fails)
    for key, desc, rep in viols:
        V.violation(key, desc, rep)

    # does the real crate behave like the as-built model on TLC's counterexample?
    cexrec = [r for r in recs if r.get("x") == 1 and r.get("expect")]
    asbuilt_reproduced = bool(cexrec) and cexrec[0]["proto"] != "h2" and lcp(cexrec[0]["head"]) == 24
    # conformance with the as-built model on the raw records (informational)
    drift_recs = [{"entry": recs[i].get("entry"), "kind": recs[i].get("kind"), "chunks": recs[i].get("chunks"),
                   "pendmask": recs[i].get("pendmask"), "caps": recs[i].get("caps"), "proto": recs[i].get("proto")}
                  for i in drift[:5]]
    nraw = sum(1 for r in recs if r["k"] == "conn" and r.get("g") == 0)
    drift_asbuilt = None
    if drift:
        # which model does the code conform to? the same records against the as-built variant of the model
        _, _, d2, _ = monitor(pid, recs, cfg="SniffObs_asbuilt.cfg", tag="obs-asbuilt")
        drift_asbuilt = len(d2)
        vlib.log(f"DRIFT property={pid}: against the AS-BUILT variant of the model (D7 comparison): {drift_asbuilt} records differ")
        vlib.log(f"DRIFT property={pid}: {len(drift)} of {nraw} single-vector records differ from the intended model "
                 f"without (necessarily) falsifying C08, e.g. {drift_recs[:2]}")

    code, unlisted = V.finish()
    groups = [r for r in recs if r.get("g") == 1]
    samples = []
    for r in (groups[:2] + [r for r in recs if r.get("g") == 0 and r["k"] == "conn"][:2] + [r for r in recs if r["k"] == "rewind"][:1]):
        s = {k: r[k] for k in ("k", "kind", "entry", "len", "eof", "proto", "saw", "sent", "ans", "ref", "n", "chunks", "pendmask", "io", "caps", "p", "ex") if k in r}
        if "head" in r:
            s["head"] = bytes(r["head"]).decode("latin1")
        samples.append(s)
    coverage = {
        "states": mc.distinct, "transitions": mc.generated, "model_depth": mc.depth,
        "model_config": "Sniff_quick.cfg" if tier == "quick" else "Sniff_thorough.cfg",
        "traces_validated_against_impl": len([r for r in recs if r["k"] in ("conn", "rewind")]),
        "samples": samples,
        "evaluations": int(summary["vectors"] + summary["rewind_vectors"] + summary["explicit"]),
        "distinct_nontrivial": int(summary["vectors"] + summary["rewind_vectors"]),
        "rule": ("every vector is a distinct (stream class, entry point, chunking of the first 32 bytes, Pending placement) "
                 "or (Rewind prefix length, stream length, inner chunking, caller buffer sizes); all are non-trivial: each is "
                 "executed on the real crate and the C08 formulas are evaluated by TLC on its observation. Vectors with "
                 "identical (class, entry, observation) are sent to TLC as one record with multiplicity n (the formulas do not "
                 "read the chunking), plus a seeded sample of single-vector records"),
        "exhaustive": True,
        "exhaustive_over": (f"{nclasses} stream classes (m 0..24, continuing + eof len m..32), every cut set with <= K cuts of the "
                            f"window (K per family: see spec/MC_Sniff.tla Families, tier {tier}) + the all-ones chunking; "
                            "Pending placements 0..6 on the low-K families"),
        "stalled_spinning_vectors": summary.get("stalled_spinning", 0), "skipped_after_stall": summary.get("skipped_after_stall", 0),
        "watchdog_abandoned_threads": summary.get("watchdog_abandoned_threads", 0),
        "conn_vectors": summary["vectors"], "rewind_vectors": summary["rewind_vectors"], "families": summary["families"],
        "tlc_records": len(recs), "monitor_selftest_records": ncanary, "group_records": len(groups), "single_vector_records": nraw,
        "tlc_coverage": {a: {"distinct": d, "taken": t} for a, (d, t) in sorted(cov.items())},
        "actions_never_taken": never,
        "asbuilt_counterexample": {"m": cex["m"], "len": cex["len"], "eof": cex["eof"], "io_script": cex["hist"],
                                   "model_decision": cex["version"], "real_crate_reproduces": asbuilt_reproduced},
        "drift": len(drift), "drift_samples": drift_recs, "drift_vs_asbuilt_model": drift_asbuilt,
        "false_formulas": {k: sum(1 for c in fails.values() if k in c) for k in ("decision", "bytes", "answer")},
        "violation_keys": [k for k, _, _ in viols],
        "harness_wall_s": round(harness_wall, 1), "monitor_wall_s": round(mon_wall, 1), "model_wall_s": round(mc.wall, 1),
        "repo_tree": vlib.repo_tree_id(),
    }
    coverage.update(extra_model)
    assumptions = [
        "hyper 1.6 / h2 0.4.7 are the single-protocol reference and the protocol handlers: what the handler saw is observed through the parsed request (method, uri, version, headers, body) and the response bytes, not through raw reads, except in the direct Rewind runs",
        "HTTP/2 answers are compared in canonical form (stream-0 frames as a multiset, per-stream frames in order)",
        "fragmentation beyond the first 32 bytes is not varied (the rest of a continuing stream arrives as one chunk)",
        "the scripted IO never returns an error (except to stop a detected busy loop) and never offers a zero-capacity read",
        "a run that busy-loops is recorded as stalled-spinning (in-band brake after 1000 reads past the end of the stream / 10^6 IO calls; real-time watchdog of 5 s per vector as backstop, after which the rest of that class may be skipped and is reported as skipped_after_stall)",
    ]
    vlib.write_evidence(pid, tier, seed, "model_checking", coverage, assumptions, time.time() - t0, len(viols))
    vlib.log(f"[C08] model {mc.distinct} states; {summary['vectors']} conn + {summary['rewind_vectors']} rewind vectors on the real crate "
             f"in {harness_wall:.1f}s; TLC monitored {len(recs)} records in {mon_wall:.1f}s; false formulas on {len(fails)} records; "
             f"drift {len(drift)}; keys {[k for k, _, _ in viols]}")
    return code


def bytes_stage(pid, tier, seed, verdict):
    """C18 names "the sniffing rewind buffer": what the protocol handler reads behind the sniffer (ReadVersion + Rewind)
    must be exactly the client's bytes for every fragmentation.  Runs the replay domain of Sniff.tla on the real
    auto-detecting connection and reports the falsified `bytes` clauses under the calling property (C18)."""
    cuts, fams, rew = gen_domain(pid, "quick")
    lines, nclasses = harness_lines(cuts, fams, rew, explicit_vectors())
    obs_path = os.path.join(vlib.outdir(pid), "sniff-obs.ndjson")
    run_bin(["--out", obs_path, "--threads", 6, "--sample", 2500 if tier == "quick" else 10000, "--seed", seed], "\n".join(lines) + "\n", 1200)
    recs = [r for r in vlib.read_ndjson(obs_path) if r["k"] != "summary"]
    res, fails, drift, mon_wall = monitor(pid, recs)
    fails = {i: cl for i, cl in fails.items() if "bytes" in cl}
    n = 0
    for key, desc, rep in summarise(recs, fails):
        rep = dict(rep, kind="sniff-vectors")
        verdict.violation("sniff:" + key, desc, rep)
        n += 1
    return {"vectors": sum(r.get("n", 1) for r in recs), "records": len(recs), "stream_classes": nclasses,
            "bytes_clause_false_on": len(fails), "violations": n}


def replay(pid, path):
    obj = json.load(open(path))
    vecs = obj["replay"]["vectors"]
    obs_path = os.path.join(vlib.outdir(pid), "replay-obs.ndjson")
    lines = []
    if any(v["t"] == "rewind" for v in vecs):
        raise vlib.ToolError("replay objects carry explicit vectors only")
    lines += [json.dumps(v) for v in vecs]
    run_bin(["--out", obs_path, "--threads", 1], "\n".join(lines) + "\n", 600)
    recs = [r for r in vlib.read_ndjson(obs_path) if r["k"] != "summary"]
    res, fails, drift, _ = monitor(pid, recs, tag="replay")
    for i, cl in sorted(fails.items()):
        r = recs[i]
        vlib.log(f"  record {i}: false {sorted(cl)}: " + json.dumps({k: r.get(k) for k in ("k", "kind", "entry", "chunks", "pendmask", "proto", "human", "saw", "sent", "p", "len", "ex")}))
    if fails:
        print(f"VIOLATION property={pid} replay={path}", flush=True)
        return 1
    print(f"replay of {path}: all C08 formulas hold on {len(recs)} records (not reproduced on this tree)")
    return 0
