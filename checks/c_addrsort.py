"""C16 - address preference sorting (SocketAddrs::sort_preferred / set_port, TcpTransport::connecting, start order).

Pipeline of one run:
  1. TLC checks the INTENDED model spec/AddrSort.tla (SortAlways = TRUE; invariants C16Inv, Tight; -coverage 1) on
     every (list, binding, happy-eyeballs on/off, port) of the tier and prints every (vector, plan) pair.
  2. harness bin `addrsort plan` pushes EVERY vector through the real TcpTransport (verif-hooks `verif_plan`, i.e. set_port
     -> connecting() -> pop order) built with the matching TcpTransportConfig; `addrsort order` observes the real start
     order on loopback (public connect_to_addrs and the whole public Service::call path with a resolver double), if
     IPv6 loopback is available.  Equality with the model's plan is DRIFT information only.
  3. TLC evaluates the C16 formulas of spec/AddrSortProps.tla over the REAL plans (spec/AddrSortObs.tla).
     Only a record falsified there is a VIOLATION.
"""
import json
import os
import re
import time

import vlib

KNOWN_CAP = 25
TIERS = {
    "quick": dict(cfg="AddrSort_gen_quick.cfg", tlc_timeout=900),
    "thorough": dict(cfg="AddrSort_gen_thorough.cfg", tlc_timeout=2400),
}
MODEL_INVS = ("C16Inv", "Tight")
ASSUMPTIONS = [
    "an address is abstracted to (family, identity tag); two tags per family give duplicates and distinct addresses",
    "the plan is observed through the verif-hooks function TcpTransport::verif_plan (set_port, connecting(), pop order - the "
    "statements of TcpTransport::connect / TcpConnecting::connect) and, on loopback, as the arrival order of the connections",
    "loopback start order: all candidates are started in one poll (concurrency None); the kernel delivers loopback "
    "connections to one listener in connect() order; an order is only used when three runs agree",
    "C16 is read unconditionally: the preference applies whatever happy_eyeballs_timeout is (see notes/eyeballs.md, D16)",
    "bounds: list length and port set of the tier; ports beyond {0, 80, 65535} and more than two tags per family are not enumerated",
]


def _viol_lines(out):
    seen = {}
    consumed = None
    for line in out.splitlines():
        if line.startswith('<<"VIOL", ') and line.endswith(">>"):
            try:
                d = json.loads(json.loads(line[len('<<"VIOL", '):-2]))
            except Exception:
                continue
            seen.setdefault(d["k"], d)
        m = re.match(r'<<"CONSUMED", (\d+)>>', line)
        if m:
            consumed = int(m.group(1))
    return [seen[k] for k in sorted(seen)], consumed


def vector_key(rec, clauses):
    """Stable identifier of the failing input class. The as-built behaviour 'no sorting at all when
    happy_eyeballs_timeout is None' is ONE class per layer; everything else is identified by the vector itself."""
    v, plan = rec["v"], rec["o"]["plan"]
    layer = rec.get("layer", "plan")
    untouched = ([(a["f"], a["t"]) for a in plan] == [(a["f"], a["t"]) for a in v["list"]]
                 and all(a["port"] == v["port"] for a in plan))
    if (not v["he"]) and untouched:
        return f"{layer}/he-none/resolver-order-kept"
    lst = ",".join(f"{a['f']}.{a['t']}" for a in v["list"])
    port = v["port"] if layer == "plan" else "listener"
    return f"{layer}/he={'some' if v['he'] else 'none'}/bind={v['bind']}/port={port}/list=[{lst}]/" + "+".join(clauses)


def monitor(pid, obs_path, nrecords):
    r = vlib.tlc_trace("AddrSortObs", "AddrSortObs.cfg", pid, obs_path, timeout=2400, xmx="12g")
    viols, consumed = _viol_lines(r.out)
    if consumed != nrecords:
        vlib.log(r.out[-3000:])
        raise vlib.ToolError(f"monitor consumed {consumed} of {nrecords} records")
    if (r.violated == "C16Holds") != bool(viols):
        vlib.log(r.out[-3000:])
        raise vlib.ToolError(f"monitor verdict inconsistent: violated={r.violated}, {len(viols)} falsified records")
    if r.violated is None and not r.finished:
        raise vlib.ToolError("monitor did not finish")
    out = []
    if viols:
        want = {d["k"]: d for d in viols}
        with open(obs_path) as f:
            for i, line in enumerate(f, 1):
                if i in want:
                    out.append((json.loads(line), sorted(want[i]["clauses"])))
    return out, r


def report(pid, falsified):
    verdict = vlib.Verdict(pid)
    known = [k for k in vlib.load_known().get("findings", []) if k.get("property") == pid]
    classes = {}
    for rec, clauses in falsified:
        classes.setdefault(vector_key(rec, clauses), []).append((rec, clauses))
    n_unknown = 0
    for key in sorted(classes, key=lambda k: (len(k), k)):
        members = classes[key]
        hit = next((k for k in known if re.fullmatch(k["match"], key)), None)
        if hit is None:
            n_unknown += 1
            if n_unknown > KNOWN_CAP:
                continue
        members.sort(key=lambda m: (len(m[0]["v"]["list"]), json.dumps(m[0]["v"], sort_keys=True)))
        rec, clauses = members[0]
        desc = (f"C16 falsified on the real TcpTransport ({len(members)} vectors of this class); clauses {clauses}; "
                f"vector {json.dumps(rec['v'])}; real plan {json.dumps(rec['o']['plan'])}")
        verdict.violation(key, desc, {"kind": "addrsort", "layer": rec.get("layer", "plan"), "class_size": len(members),
                                      "clauses": clauses,
                                      "records": [{"sid": r["sid"], "v": r["v"], "o_recorded": r["o"]} for r, _ in members[:5]]})
    code, _ = verdict.finish()
    if n_unknown > KNOWN_CAP:
        vlib.log(f"  ... {n_unknown} failing classes in total; the first {KNOWN_CAP} were written")
    return code, n_unknown, {k: len(v) for k, v in classes.items()}


def run(pid, tier, seed, t0):
    T = TIERS[tier]
    od = vlib.outdir(pid)
    vec = os.path.join(od, f"vec-{tier}.txt")
    if os.path.exists(vec):
        os.remove(vec)

    # 1. intended model + generation -------------------------------------------------------------------------------------
    m = vlib.tlc("MC_AddrSort", T["cfg"], pid, workers=8, timeout=T["tlc_timeout"], coverage=True, extra=["-userFile", vec])
    if m.violated in MODEL_INVS:
        vlib.log(m.out[-4000:])
        raise vlib.ToolError(f"model invariant {m.violated} fails on spec/AddrSort.tla (intended variant)")
    if not m.finished:
        vlib.log(m.out[-3000:])
        raise vlib.ToolError("TLC did not finish the model")
    cov = m.coverage()
    never = [a for a in ["Compute"] if cov.get(a, (0, 0))[1] == 0]
    n_init = cov.get("Init", (0, 0))[0]

    # 1b. standing demonstration that the model invariants can fail: the AS-BUILT variant (sorting only when
    #     happy_eyeballs_timeout is Some) is refuted by TLC. Informational, never a verdict.
    ab = vlib.tlc("MC_AddrSort", "AddrSort_asbuilt.cfg", pid, workers=4, timeout=600)
    asbuilt = {"cfg": "AddrSort_asbuilt.cfg", "tlc_refutes": ab.violated, "expected": "C16Inv"}

    # 2. every vector through the real transport ----------------------------------------------------------------------------
    summ = json.loads(vlib.run_harness("addrsort", ["plan", "--vec", vec, "--out", od, "--all"], timeout=1800))
    obs = os.path.join(od, "obs.ndjson")
    if tier == "thorough":
        os.remove(vec)
    nrec = summ["selected"]
    order_path = os.path.join(od, "order.ndjson")
    order = json.loads(vlib.run_harness("addrsort", ["order", "--out", order_path], timeout=900))
    with open(obs, "a") as f, open(order_path) as g:
        for line in g:
            f.write(line)
            nrec += 1
    if summ["drift"]:
        vlib.log(f"DRIFT property={pid}: {summ['drift']} of {summ['vectors']} real plans differ from the intended model's plan "
                 f"({summ['drift_he_none']} of them with happy_eyeballs_timeout = None); no verdict by itself")

    # 3. the C16 formulas over the real plans, by TLC ---------------------------------------------------------------------------
    falsified, mon = monitor(pid, obs, nrec)
    code, n_unknown, classes = report(pid, falsified)

    exhaustive = (summ["drift"] == 0 and n_init == summ["vectors"] and not falsified)
    coverage = {
        "states": m.distinct, "transitions": m.generated, "depth": m.depth,
        "traces_validated_against_impl": nrec,
        "evaluations": summ["vectors"] + order.get("order_runs", 0),
        "distinct_nontrivial": summ["nontrivial"],
        "rule": "every (resolver list up to the tier's length over {v4,v6} x 2 identity tags, duplicates allowed; binding none/v4/v6/both; "
                "happy_eyeballs_timeout Some/None; request port) TLC enumerates in Init of spec/AddrSort.tla is pushed once through the real "
                "TcpTransport; distinct by construction; non-trivial = both families occur in the list",
        "exhaustive": exhaustive,
        "samples": summ["samples"],
        "model": {"module": "MC_AddrSort", "cfg": T["cfg"], "variant": "intended (SortAlways = TRUE); AddrSort_asbuilt.cfg is the as-built regression variant",
                  "invariants": list(MODEL_INVS), "initial_states": n_init, "distinct_lists": summ["distinct_lists"], "tlc_wall_s": round(m.wall, 1)},
        "asbuilt_variant": asbuilt,
        "tlc_coverage": {a: list(cov.get(a, (0, 0))) for a in ["Init", "Compute"]},
        "actions_never_taken": never,
        "conformant": summ["conform"],
        "drift": {"count": summ["drift"], "with_happy_eyeballs_timeout_none": summ["drift_he_none"], "examples": summ["drift_examples"][:2],
                  "meaning": "real plan differs from the plan of the intended model"},
        "panics": summ["panics"],
        "loopback_start_order": order,
        "monitor": {"module": "AddrSortObs", "cfg": "AddrSortObs.cfg", "records": nrec, "selection": "all vectors + all loopback order runs",
                    "falsified": len(falsified), "falsified_classes": dict(sorted(classes.items(), key=lambda kv: -kv[1])[:10]),
                    "mirror_flagged": summ["mirror_flag"], "tlc_wall_s": round(mon.wall, 1)},
        "repo_tree": vlib.repo_tree_id(),
    }
    vlib.write_evidence(pid, tier, seed, "model_checking", coverage, ASSUMPTIONS, time.time() - t0, n_unknown if code else 0)
    vlib.log(f"[{pid}] {tier}: model {m.distinct} states; {summ['vectors']} vectors + {order.get('order_runs', 0)} loopback runs on the real "
             f"code, drift {summ['drift']}; TLC monitor {nrec} records, falsified {len(falsified)} in {len(classes)} classes; exit {code}; "
             f"{time.time()-t0:.0f}s")
    return code


def replay(pid, path):
    od = vlib.outdir(pid)
    doc = json.load(open(path))
    rp = doc.get("replay", doc)
    out = os.path.join(od, "replay.ndjson")
    if rp.get("layer", "plan") in ("order", "call", "first"):
        vlib.run_harness("addrsort", ["order", "--out", out], timeout=900)

        def vk(r):
            return (r.get("layer"), json.dumps(r["v"]["list"]), r["v"]["bind"], r["v"]["he"])
        want = {(rp["layer"], json.dumps(r["v"]["list"]), r["v"]["bind"], r["v"]["he"]) for r in rp["records"]}
        vlib.write_ndjson(out, [r for r in vlib.read_ndjson(out) if vk(r) in want])
    else:
        vlib.run_harness("addrsort", ["one", "--in", os.path.abspath(path), "--out", out], timeout=300)
    n = len(vlib.read_ndjson(out))
    falsified, _ = monitor(pid, out, n)
    for rec, clauses in falsified:
        vlib.log(f"  still falsified: {clauses} vector {json.dumps(rec['v'])} real plan {json.dumps(rec['o']['plan'])}")
    if falsified:
        print(f"VIOLATION property={pid} replay={path}", flush=True)
        return 1
    vlib.log(f"[{pid}] replay: C16 holds on the recorded vector(s) on the current tree")
    return 0
